#!/usr/bin/env python3
"""Coverage audit of the correspondence tie (developer tool; decides nothing).

  covaudit.py Cxx [--tier quick|thorough] [--all]

Runs the property's check with every gcc build instrumented for gcov (VERIF_COV=1, see tools/pv.py) and lists, for the
source files the property is anchored in, the lines and functions of /repo/src that the correspondence runs of that
check never executed.  A hand-written model is tied to the code only where the differential runs go: an unexecuted
line of an anchored function is a place where a change to the code cannot be seen by the correspondence (only by a
translator pin, if one covers it).  The result is written to evidence/coverage/Cxx.json and summarised on stdout; the
committed summary is coverage/SUMMARY.md (tools/covaudit.py --summary).

Processes that end by a signal (crash points, sanitizer aborts) do not flush their counters: their lines count only if
another run executed them too.  clang builds (TSan stress) are not instrumented."""
import glob
import json
import os
import re
import shutil
import subprocess
import sys
import tempfile
import time

HERE = os.path.dirname(os.path.abspath(__file__))
VERIF = os.path.dirname(HERE)
OUTDIR = os.path.join(VERIF, "coverage")


def anchors(prop):
    sys.path.insert(0, HERE)
    import fingerprint
    return [f for f in fingerprint.anchors(prop) if f.endswith(".c")]


def run_check(prop, tier):
    env = dict(os.environ, VERIF_COV="1", VERIF_NO_ESCALATION="1")
    t0 = time.time()
    p = subprocess.run([sys.executable, os.path.join(HERE, "check.py"), prop, "--tier", tier], env=env,
                       stdout=subprocess.PIPE, stderr=subprocess.STDOUT, text=True, errors="replace")
    return p.returncode, p.stdout, t0


def collect(t0, repo):
    """gcov every .gcda written since t0 under .cache; returns {src_basename: {line: count}}, {src: {func: (first_line, count)}}"""
    cache = os.path.join(VERIF, ".cache")
    lines, funcs = {}, {}
    gcdas = [p for p in glob.glob(os.path.join(cache, "*", "*.gcda")) if os.path.getmtime(p) >= t0 - 1]
    scratch = tempfile.mkdtemp(prefix="gcov-", dir=cache)
    try:
        for g in gcdas:
            d = os.path.dirname(g)
            sub = tempfile.mkdtemp(dir=scratch)
            subprocess.run(["gcov", "-p", "-f", "-o", d, g], cwd=sub, stdout=subprocess.PIPE, stderr=subprocess.STDOUT)
            for f in os.listdir(sub):
                if not f.endswith(".gcov"):
                    continue
                txt = open(os.path.join(sub, f), errors="replace").read()
                m = re.search(r"^\s*-:\s*0:Source:(.*)$", txt, re.M)
                if not m:
                    continue
                src = os.path.realpath(m.group(1).strip())
                if not src.startswith(os.path.realpath(os.path.join(repo, "src")) + os.sep):
                    continue
                b = os.path.basename(src)
                L = lines.setdefault(b, {})
                for ln in txt.splitlines():
                    mm = re.match(r"\s*([0-9#=\-\*]+)\*?:\s*(\d+):", ln)
                    if not mm:
                        continue
                    c, n = mm.group(1), int(mm.group(2))
                    if n == 0 or c == "-":
                        continue
                    cnt = 0 if c.strip("*") in ("#####", "=====") else int(c.strip("*"))
                    L[n] = L.get(n, 0) + cnt
    finally:
        shutil.rmtree(scratch, ignore_errors=True)
    for g in gcdas:
        try:
            os.unlink(g)
        except OSError:
            pass
    return lines


FUNC_RE = re.compile(r"^(?:static\s+)?(?:P_LIB_API\s+)?[A-Za-z_][\w \*]*?\n?([A-Za-z_]\w*)\s*\(", re.M)


def functions_of(path):
    """[(name, first_line, last_line)] of the C file by brace matching at column 0 (the repo's style)"""
    src = open(path, errors="replace").read().splitlines()
    out, i = [], 0
    while i < len(src):
        if src[i].startswith("{"):
            # name: the nearest earlier line of the form `name (args` at column 0
            j, name = i - 1, None
            while j >= 0 and i - j < 40:
                m = re.match(r"([A-Za-z_]\w*)\s*\(", src[j])
                if m:
                    name = m.group(1)
                    break
                j -= 1
            k = i
            while k < len(src) and not src[k].startswith("}"):
                k += 1
            if name:
                out.append((name, i + 1, k + 1))
            i = k
        i += 1
    return out


def audit(prop, tier):
    repo = os.environ.get("VERIF_REPO", "/repo")
    rc, out, t0 = run_check(prop, tier)
    lines = collect(t0, repo)
    rep = {"property": prop, "tier": tier, "check_rc": rc, "files": {}}
    for a in anchors(prop):
        b = os.path.basename(a)
        path = os.path.join(repo, a)
        if not os.path.exists(path):
            continue
        L = lines.get(b)
        if L is None:
            rep["files"][b] = {"compiled_into_a_gcc_harness": False}
            continue
        src = open(path, errors="replace").read().splitlines()
        fr = []
        for name, lo, hi in functions_of(path):
            inst = [n for n in L if lo <= n <= hi]
            if not inst:
                continue
            miss = sorted(n for n in inst if L[n] == 0)
            fr.append({"function": name, "lines": len(inst), "unexecuted": len(miss),
                       "unexecuted_lines": [[n, src[n - 1].strip()[:110]] for n in miss]})
        tot = sum(f["lines"] for f in fr)
        mis = sum(f["unexecuted"] for f in fr)
        rep["files"][b] = {"compiled_into_a_gcc_harness": True, "instrumented_lines": tot, "unexecuted": mis,
                           "never_called": [f["function"] for f in fr if f["unexecuted"] == f["lines"]],
                           "functions": [f for f in fr if f["unexecuted"]]}
    os.makedirs(OUTDIR, exist_ok=True)
    with open(os.path.join(OUTDIR, prop + ".json"), "w") as f:
        json.dump(rep, f, indent=1)
        f.write("\n")
    return rep, out


def show(rep):
    print("== %s (%s tier, check rc=%s)" % (rep["property"], rep["tier"], rep["check_rc"]))
    for b, r in rep["files"].items():
        if not r.get("compiled_into_a_gcc_harness"):
            print("  %-28s not compiled into any gcc harness of this check" % b)
            continue
        print("  %-28s %4d lines, %3d unexecuted; never called: %s" % (b, r["instrumented_lines"], r["unexecuted"], ", ".join(r["never_called"]) or "-"))
        for f in r["functions"]:
            if f["function"] in r["never_called"]:
                continue
            for n, t in f["unexecuted_lines"]:
                print("      %s:%d  %s" % (f["function"], n, t))


def summary():
    rows = []
    for p in sorted(glob.glob(os.path.join(OUTDIR, "C*.json"))):
        r = json.load(open(p))
        for b, x in r["files"].items():
            if x.get("compiled_into_a_gcc_harness"):
                rows.append("| %s | %s | %d | %d | %s |" % (r["property"], b, x["instrumented_lines"], x["unexecuted"], ", ".join(x["never_called"]) or "–"))
            else:
                rows.append("| %s | %s | – | – | (not in a gcc harness of this check) |" % (r["property"], b))
    txt = ("# Lines of the anchored sources that the correspondence runs execute\n\n"
           "Written by `tools/covaudit.py --summary` from coverage/Cxx.json (gcov over every gcc harness of the check, quick campaign).\n"
           "Unexecuted lines are listed per function in coverage/Cxx.json; DESIGN.md §0.6 says which of them are unreachable on this platform.\n\n"
           "| property | file | instrumented lines | unexecuted | functions never called |\n|---|---|---|---|---|\n" + "\n".join(rows) + "\n")
    open(os.path.join(OUTDIR, "SUMMARY.md"), "w").write(txt)
    print(txt)


if __name__ == "__main__":
    args = sys.argv[1:]
    if "--summary" in args:
        summary()
        sys.exit(0)
    tier = "quick"
    if "--tier" in args:
        tier = args[args.index("--tier") + 1]
    props = [a for a in args if re.fullmatch(r"C\d\d", a)]
    if "--all" in args:
        props = ["C%02d" % i for i in range(1, 21)]
    for p in props:
        rep, out = audit(p, tier)
        show(rep)

#!/usr/bin/env python3
"""keep a confirmed seeded change: keep_seed.py <seed-id> <property> <mut-dir> <confirm-log> "<needs>" """
import json, os, re, shutil, sys
sid, prop, md, log, needs = sys.argv[1:6]
dst = os.path.join("/verif/seeded", sid)
os.makedirs(dst, exist_ok=True)
for f in os.listdir(md):
    if f in ("patch.diff", "README.md") or f.startswith("demo."):
        shutil.copy(os.path.join(md, f), os.path.join(dst, f))
L = open(log).read()
suite = re.findall(r"(\d+% tests passed, \d+ tests failed out of \d+)", L)
checks = {m.group(1): int(m.group(2)) for m in re.finditer(r"CHECK-(C\d+) rc=(\d+)", L)}
viol = re.findall(r"(VIOLATION property=\S+ replay=\S+(?: no-failing-input-found)?)", L)
arrows = [l.strip()[3:].strip() for l in L.splitlines() if l.strip().startswith("->")]
meta = {"seed_id": sid, "breaks_property": prop, "needs_to_manifest": needs,
        "origin": "written by an independent sub-agent that saw only the property text and its own scratch worktree",
        "confirmed_by_main_session": {
            "applies_to": "the /repo HEAD at the time of confirmation (scratch worktree outside /repo and /verif)",
            "build": "cmake -G Ninja … && cmake --build (no errors)",
            "test_suite_with_change": suite[0] if suite else "see notes",
            "demo_with_change_rc": int(re.search(r"DEMO-WITH-CHANGE rc=(\d+)", L).group(1)),
            "demo_without_change_rc": int(re.search(r"DEMO-WITHOUT-CHANGE rc=(\d+)", L).group(1)),
            "command": "tools/confirm_seed.sh '%s' <dir>" % " ".join(sorted(checks))},
        "our_checks_against_it": {p: ("VIOLATION (exit %d)" % rc if rc else "quiet (exit 0)") for p, rc in checks.items()},
        "first_report": (viol[0] if viol else None), "first_detail": (arrows[0][:400] if arrows else None)}
json.dump(meta, open(os.path.join(dst, "meta.json"), "w"), indent=1)
print(sid, meta["our_checks_against_it"], meta["confirmed_by_main_session"]["test_suite_with_change"])

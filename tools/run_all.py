#!/usr/bin/env python3
"""run every registered check (quick by default) and print one line each"""
import json, os, subprocess, sys, time
V = os.path.dirname(os.path.dirname(os.path.abspath(__file__)))
tier = sys.argv[1] if len(sys.argv) > 1 else "quick"
m = json.load(open(os.path.join(V, "MANIFEST.json")))
bad = 0
for c in m["checks"]:
    cmd = c["quick_cmd"] if tier == "quick" else c.get("thorough_cmd", c["quick_cmd"])
    t0 = time.time()
    r = subprocess.run(cmd, shell=True, cwd=V, stdout=subprocess.PIPE, stderr=subprocess.PIPE, text=True)
    v = [l for l in r.stdout.splitlines() if l.startswith("VIOLATION")]
    k = [l for l in r.stdout.splitlines() if l.startswith("KNOWN-FINDING")]
    last = r.stderr.strip().splitlines()[-1] if r.stderr.strip() else ""
    print("%s rc=%d %.0fs violations=%d known=%d | %s" % (c["property_id"], r.returncode, time.time() - t0, len(v), len(k), last[:150]), flush=True)
    bad += r.returncode != 0
sys.exit(1 if bad else 0)

#!/usr/bin/env python3
"""Entry point:  check.py <Cxx> [--tier quick|thorough] [--replay file]"""
import argparse
import importlib
import os
import sys

sys.path.insert(0, os.path.dirname(os.path.abspath(__file__)))
import pv


def generic_replay(chk, mod, path):
    """judge one op file again: implementation vs model vs spec"""
    import diffrun
    fam = mod.replay_family(pv.repo_config())
    ops = [l.rstrip("\n") for l in open(path) if l.strip() and not l.startswith("#")]
    pv.lake_build(["pvdriver"])
    r = diffrun.judge(fam, ops)
    if r is None:
        print("replay: implementation, model and spec agree on %d ops" % len(ops))
        return 0
    print("replay: %s at op %d: %s" % (r["kind"], r["at"], r["detail"]))
    if r["kind"] in ("spec", "crash"):
        print("VIOLATION property=%s replay=%s" % (chk.prop, path))
    else:
        print("VIOLATION property=%s replay=%s no-failing-input-found" % (chk.prop, path))
    return 1


def main():
    ap = argparse.ArgumentParser()
    ap.add_argument("prop")
    ap.add_argument("--tier", default=os.environ.get("VERIF_TIER", "quick"), choices=["quick", "thorough"])
    ap.add_argument("--replay")
    a = ap.parse_args()
    seed = int(os.environ.get("VERIF_SEED", "1"))
    mod = importlib.import_module("props." + a.prop.lower())
    chk = pv.Check(a.prop.upper(), a.tier, seed)
    if a.replay:
        if hasattr(mod, "replay"):
            return mod.replay(chk, a.replay)
        if hasattr(mod, "replay_family"):
            return generic_replay(chk, mod, a.replay)
        print("no replay support for %s: re-run the check; replay files are plain op files / descriptions" % a.prop)
        return 2
    try:
        return mod.run(chk)
    except pv.BuildError as e:
        chk.violation(str(e), "the check's build against the current source failed", no_input=True, suffix="txt")
        return chk.finish()


if __name__ == "__main__":
    sys.exit(main())

#!/usr/bin/env python3
"""Entry point:  check.py <Cxx> [--tier quick|thorough] [--replay file]"""
import argparse
import importlib
import os
import sys

sys.path.insert(0, os.path.dirname(os.path.abspath(__file__)))
import pv


def main():
    ap = argparse.ArgumentParser()
    ap.add_argument("prop")
    ap.add_argument("--tier", default=os.environ.get("VERIF_TIER", "quick"), choices=["quick", "thorough"])
    ap.add_argument("--replay")
    a = ap.parse_args()
    seed = int(os.environ.get("VERIF_SEED", "1"))
    mod = importlib.import_module("props." + a.prop.lower())
    chk = pv.Check(a.prop.upper(), a.tier, seed)
    if a.replay:
        return mod.replay(chk, a.replay) if hasattr(mod, "replay") else 2
    try:
        return mod.run(chk)
    except pv.BuildError as e:
        chk.violation(str(e), "the check's build against the current source failed", no_input=True, suffix="txt")
        return chk.finish()


if __name__ == "__main__":
    sys.exit(main())

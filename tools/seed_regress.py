#!/usr/bin/env python3
"""Regression of the checks against the kept seeded changes (developer tool, not run by the registered checks).

For every /verif/seeded/<id>/ : apply patch.diff to a scratch worktree of /repo HEAD (outside /repo and /verif), run the
check of the property it breaks from a private CLONE of /verif (so that evidence/ and lean/PV/Generated of /verif are
never written for a mutated tree), undo the patch, and record exit status and first report in seeded/REGRESSION.md.
The quick campaign alone is measured (VERIF_NO_ESCALATION=1) unless --escalate is given.

usage: seed_regress.py [--escalate] [--only Cxx[,Cyy]] [--jobs N]"""
import concurrent.futures
import json
import os
import re
import subprocess
import sys
import time

VERIF = os.path.dirname(os.path.dirname(os.path.abspath(__file__)))
BASE = "/tmp/seedreg"


def sh(cmd, **kw):
    return subprocess.run(cmd, stdout=subprocess.PIPE, stderr=subprocess.STDOUT, text=True, **kw)


def worker_dirs(i):
    return os.path.join(BASE, "verif%d" % i), os.path.join(BASE, "repo%d" % i)


def setup(i):
    ver, wt = worker_dirs(i)
    if os.path.isdir(os.path.join(ver, ".git")):
        if sh(["git", "-C", ver, "pull", "-q", "--ff-only", VERIF, "main"]).returncode != 0:
            sh(["rm", "-rf", ver])
    if not os.path.isdir(os.path.join(ver, ".git")):
        sh(["git", "clone", "-q", VERIF, ver])
    sh(["git", "-C", "/repo", "worktree", "remove", "--force", wt])
    sh(["git", "-C", "/repo", "worktree", "add", "-q", "--detach", wt, "HEAD"])
    return ver, wt


def run_seed(i, sid, escalate):
    ver, wt = worker_dirs(i)
    d = os.path.join(VERIF, "seeded", sid)
    meta = json.load(open(os.path.join(d, "meta.json")))
    prop = meta["breaks_property"]
    sh(["git", "-C", wt, "checkout", "-q", "--", "."])
    r = sh(["git", "-C", wt, "apply", os.path.join(d, "patch.diff")])
    if r.returncode != 0:
        return sid, prop, "patch no longer applies to /repo HEAD (written against an earlier commit)", "", 0
    env = dict(os.environ, VERIF_REPO=wt)
    if not escalate:
        env["VERIF_NO_ESCALATION"] = "1"
    t0 = time.time()
    r = sh([sys.executable, os.path.join(ver, "tools", "check.py"), prop, "--tier", "quick"], env=env, timeout=3600)
    dt = time.time() - t0
    sh(["git", "-C", wt, "checkout", "-q", "--", "."])
    viol = re.findall(r"VIOLATION property=\S+ replay=\S+( no-failing-input-found)?", r.stdout)
    arrows = [l.strip()[3:].strip() for l in r.stdout.splitlines() if l.strip().startswith("->")]
    if r.returncode == 0:
        res = "quiet (exit 0)"
    elif not viol:
        res = "exit %d without a VIOLATION line" % r.returncode
    elif all(v for v in viol):
        res = "VIOLATION no-failing-input-found"
    else:
        res = "VIOLATION with a concrete replay"
    return sid, prop, res, (arrows[0] if arrows else "")[:220].replace("|", "/"), dt


def main():
    escalate = "--escalate" in sys.argv
    only = None
    jobs = 3
    for k, a in enumerate(sys.argv):
        if a == "--only":
            only = set(sys.argv[k + 1].split(","))
        if a == "--jobs":
            jobs = int(sys.argv[k + 1])
    os.makedirs(BASE, exist_ok=True)
    seeds = sorted(s for s in os.listdir(os.path.join(VERIF, "seeded")) if os.path.isfile(os.path.join(VERIF, "seeded", s, "meta.json")))
    if only:
        seeds = [s for s in seeds if s.split("-")[0] in only]
    for i in range(jobs):
        setup(i)
    # the first run in each clone builds Lean; IPC-heavy checks are kept off each other by giving each worker whole seeds
    results = []
    with concurrent.futures.ThreadPoolExecutor(jobs) as ex:
        futs = {}
        chunks = [seeds[i::jobs] for i in range(jobs)]

        def run_chunk(i):
            return [run_seed(i, s, escalate) for s in chunks[i]]
        for i in range(jobs):
            futs[ex.submit(run_chunk, i)] = i
        for f in concurrent.futures.as_completed(futs):
            results += f.result()
    results.sort()
    head = sh(["git", "-C", "/repo", "rev-parse", "--short", "HEAD"]).stdout.strip()
    vhead = sh(["git", "-C", VERIF, "rev-parse", "--short", "HEAD"]).stdout.strip()
    lines = ["# Kept seeded changes against the current checks", "",
             "Written by tools/seed_regress.py (/repo %s, /verif %s, %s campaign of the quick tier). Every row: the patch applied to a scratch"
             " worktree, the check of the broken property run from a clone of /verif." % (head, vhead, "escalated (thorough)" if escalate else "quick"), "",
             "| seed | property | result | first report | s |", "|---|---|---|---|---|"]
    for sid, prop, res, first, dt in results:
        lines.append("| %s | %s | %s | %s | %.0f |" % (sid, prop, res, first, dt))
    quiet = [r for r in results if r[2].startswith("quiet")]
    lines += ["", "%d seeds, %d reported with a concrete replay, %d as no-failing-input-found, %d quiet, %d not applicable." % (
        len(results), sum(1 for r in results if "concrete" in r[2]), sum(1 for r in results if "no-failing" in r[2]), len(quiet),
        sum(1 for r in results if "applies" in r[2]))]
    name = "REGRESSION-escalated.md" if escalate else "REGRESSION.md"
    if only:
        print("\n".join(lines))
    else:
        open(os.path.join(VERIF, "seeded", name), "w").write("\n".join(lines) + "\n")
    for i in range(jobs):
        sh(["git", "-C", "/repo", "worktree", "remove", "--force", worker_dirs(i)[1]])
    print("quiet:", [r[0] for r in quiet])


if __name__ == "__main__":
    main()

"""C18 — allocation failure at any point (model PV.Model.Res, theorems PV.Props.C18, harness res.c).

Proof stage, then the tie: an *exhaustive fault enumeration* on the real code.  For every scenario of the
harness (one C function each; the same call lines as PV.Model.Res.Scenarios), the number n of allocation
attempts is measured, and the scenario is run n times with allocation k failing once and n times with every
allocation from k on failing — each run in a forked child under ASan, with the tracking allocator installed
through the public p_mem_set_vtable.  The model is run with the same failure predicate; compared are the outcome
classes of all calls, the number and order of allocator calls (trace), and what is outstanding after the
scenario's own clean-up (blocks, descriptors, mappings, IPC names, TLS keys).

  crash / sanitizer report / blocks outstanding / double close   -> VIOLATION, replay `scen NAME MODE K`,
                                                                     signature <function>@alloc<k>
  an object that existed before a call reads back differently    -> VIOLATION (outcome class X): after every call line the harness
  after it, an IPC name of a live object has gone, a container      reads every slot object back through the public getters (lists, trees,
  contradicts itself                                                hash tables, INI files, errors, strings, socket addresses, sockets,
                                                                     shm contents, shm buffers, mappings, /dev/shm names) and compares
                                                                     with the state before the call; only the changes the call is allowed
                                                                     to make with the outcome it reported are accepted
Scenarios also script failures of system calls (socket, fcntl(F_SETFL), sem_open, shm_open, ftruncate, mmap, dlopen, pthread_*).
  trace or outcome differs from the model, C itself clean        -> correspondence break (a missing
                                                                     allocation site in the model shows here)
Thorough adds the long scenarios and random failure subsets (bit masks)."""
import os
import re
from concurrent.futures import ThreadPoolExecutor

import pv
from props import resfam

KEYS = ["out", "n", "calls", "closes", "live", "fds", "maps", "names", "keys"]
F5_SCENARIOS = ("shm_two_smaller", "shmbuf_two_diff")     # handles opened with a smaller size: finding F5 (C07/C20), not judged here


def chunks(ops, n):
    return [ops[i::n] for i in range(n)]


def run_all(exe, scratch, ops):
    """both sides over the op lines, in parallel slices; returns list of (op, c_line, m_line)"""
    parts = [p for p in chunks(ops, max(1, min(pv.NCPU, 16))) if p]
    with ThreadPoolExecutor(len(parts)) as ex:
        rc = list(ex.map(lambda p: resfam.run_c(exe, "".join(p), scratch), parts))
        rm = list(ex.map(lambda p: resfam.run_m("".join(p)), parts))
    out = []
    for p, (crc, cl, cerr), (mrc, ml, merr) in zip(parts, rc, rm):
        if len(cl) != len(p) or len(ml) != len(p):
            raise pv.BuildError("the two sides did not answer every op line (C %d, model %d of %d; C rc=%s %s; model rc=%s %s)" % (
                len(cl), len(ml), len(p), crc, cerr[-300:], mrc, merr[-300:]))
        out += list(zip(p, cl, ml))
    return out


def run(chk):
    cfg = pv.repo_config()
    proof_ok, driver_ok, detail = pv.proof_stage(chk, ["PV.Props.C18"])
    if not driver_ok:
        chk.violation("\n".join(detail), "the model driver does not build", no_input=True, suffix="txt")
        return chk.finish()
    exe = resfam.build(cfg)
    scratch = resfam.make_scratch()
    try:
        return body(chk, exe, scratch, proof_ok, detail)
    finally:
        resfam.drop_scratch(scratch)


def body(chk, exe, scratch, proof_ok, detail):
    thorough = chk.tier == "thorough"
    rng = chk.rng
    corr = []          # correspondence breaks (op, text)
    found = False

    # -- the two scenario tables are the same text
    _, cnames, _ = resfam.run_c(exe, "list\n", scratch)
    _, mnames, _ = resfam.run_m("list\nselfcheck\n")
    names = cnames[0].split() if cnames else []
    if not names or not mnames or mnames[0].split() != names or mnames[1:] != ["ok"]:
        corr.append(("list", "scenario tables differ: C %r model %r" % (cnames[:1], mnames[:2])))
    text = "".join("dump %s\n" % n for n in names)
    dc, dm = resfam.run_c(exe, text, scratch)[1], resfam.run_m(text)[1]
    for n, a, b in zip(names, dc, dm):
        if a != b:
            corr.append(("dump " + n, "scenario %s: C calls %r, model calls %r" % (n, a, b)))
    if not thorough:
        names = [n for n in names if not n.startswith("long_")]

    # -- n per scenario (no failure injected); this run is itself compared
    base = run_all(exe, scratch, ["scen %s none 0\n" % n for n in names])
    nallocs, base_trace = {}, {}
    for op, c, m in base:
        name = op.split()[1]
        mm = re.search(r" n=(\d+) ", c)
        nallocs[name] = int(mm.group(1)) if mm else 0
        base_trace[name] = c.split(" trace=", 1)[1] if " trace=" in c else ""
    ops = []
    for n in names:
        for k in range(1, nallocs[n] + 1):
            ops.append("scen %s once %d\n" % (n, k))
            ops.append("scen %s from %d\n" % (n, k))
    exhaustive_runs = len(ops) + len(base)
    nmask = 0
    if thorough:
        for n in names:
            for _ in range(12):
                dens = rng.choice([0.05, 0.15, 0.3, 0.6])
                mask = "".join("1" if rng.random() < dens else "0" for _ in range(nallocs[n] + 4))
                ops.append("scen %s mask 0 %s\n" % (n, mask))
                nmask += 1
    results = base + run_all(exe, scratch, ops)
    rank = {"none": 0, "once": 1, "from": 2, "mask": 3}
    results.sort(key=lambda r: rank.get(r[0].split()[2], 9))

    sites, calls_seen = set(), set()
    worst = {}
    groups = {}        # signature -> [what of the first, ops...]
    base_leak_owners, always_leaking = {}, set()
    symptom_sig = {}
    base_symptom = {}

    def report(sig, op, what):
        g = groups.setdefault(sig, [what, []])
        g[1].append(op)
    for op, c, m in results:
        _, name, mode, k = op.split()[:4]
        k = int(k)
        hit = "x" in re.sub(r"\[[^\]]*\]", "", c.split(" trace=", 1)[1]) if " trace=" in c else ("CRASH" in c)
        chk.count(op, nontrivial=bool(hit))
        if len(chk.cov["samples"]) < 4 and mode != "none":
            chk.sample({"op": op.strip(), "c": c[:240], "model": m[:160]})
        for t in re.findall(r"\[([a-z_0-9]+)", c):
            calls_seen.add(t)
        # the failing allocation and the call it belongs to (the allocations before it are those of the clean run)
        first_fail = k if mode in ("once", "from") else 0
        if mode == "mask":
            bits = op.split()[4]
            first_fail = bits.find("1") + 1
        marker, rel = resfam.call_of_alloc(base_trace.get(name, ""), first_fail) if first_fail else ("", 0)
        if marker:
            sites.add((resfam.func_of(marker), rel))
        # (function, index of the failing allocation inside the call); inside loops the index is capped
        sig = "%s@alloc%s" % (resfam.func_of(marker), rel if rel <= 8 else "9+") if marker else None
        if "CRASH" in c:
            at = re.search(r"at=\[([^\]]*)\] report=(\S+)", c)
            what = "C18 [signature %s]: scenario %s, allocation %d failing (%s): the process crashed in call [%s]: %s\nmodel: %s" % (
                sig, name, k, mode, at.group(1) if at else "?", at.group(2) if at else c, m[:200])
            if sig is None:
                armed = " trace=" not in c and re.search(r"sysfail", "".join(base_trace.get(name, "")))
                sig = "%s@%s" % (resfam.func_of(at.group(1) if at else "?"), "scripted-syscall-failure" if armed else "no-failure")
                what = what.replace("[signature None]", "[signature %s]" % sig)
            report(sig, op, what)
            chk.bump("crash")
            continue
        if "FAULT" in m:
            what = "C18 [signature %s]: the model predicts a fault for scenario %s %s %d (%s); the C code: %s" % (sig, name, mode, k, m, c[:200])
            report(sig, op, what)
            continue
        fc, fm = resfam.fields(c), resfam.fields(m)
        bad = []
        if fc.get("live") != "0":
            lost = [resfam.call_of_alloc(c.split(" trace=", 1)[1], int(x)) for x in fc.get("lost", "[]").strip("[]").split(",") if x]
            owners = sorted(set(resfam.func_of(mk) for mk, _ in lost))
            bad.append("%s block(s) allocated in %s are still allocated after the scenario freed everything" % (fc.get("live"), ", ".join(owners)))
            if mode == "none":
                base_leak_owners.setdefault(name, set()).update(owners)
            if lost and set(owners) <= base_leak_owners.get(name, set()) | always_leaking:
                # it leaks without any failure as well: the finding belongs to the function that allocated the block
                always_leaking.update(owners)
                sig = "%s@alloc%d" % (resfam.func_of(lost[0][0]), lost[0][1])
        if "X" in fc.get("out", ""):
            i = fc["out"].index("X")
            calls = [t.strip("[]").replace(",", " ") for t in c.split(" trace=", 1)[1].split() if t.startswith("[")] if " trace=" in c else []
            line = calls[i] if i < len(calls) else "?"
            changed = [x.split(":") for x in fc.get("chg", "").strip("[]").split(",") if x.count(":") == 2]
            if line.startswith("hash_check") and not any(int(x[0]) == i + 1 for x in changed):
                bad.append("call #%d of the scenario (hash_check): an object that existed before the failed call no longer yields the digest of the bytes it absorbed" % (i + 1))
            else:
                here = [x for x in changed if int(x[0]) == i + 1]
                objs = ", ".join("the %s object in slot %s" % (x[2].rstrip("!"), x[1]) for x in here if not x[2].endswith("!"))
                broken = ", ".join("the %s object in slot %s" % (x[2].rstrip("!"), x[1]) for x in here if x[2].endswith("!"))
                lostname = ", ".join("the %s object in slot %s" % (x[2][:-5], x[1]) for x in here if x[2].endswith("-name"))
                if lostname:
                    bad.append("call #%d of the scenario (`%s`): the IPC name of %s, which existed before the call, has been removed from the system although no handle of that name was freed" % (i + 1, line, lostname))
                    objs = ", ".join("the %s object in slot %s" % (x[2], x[1]) for x in here if not x[2].endswith("!") and not x[2].endswith("-name"))
                if objs:
                    bad.append("call #%d of the scenario (`%s`): %s, which existed before the call, does not read back as before it (contents compared through the public getters)" % (i + 1, line, objs))
                if broken or not (objs or lostname):
                    bad.append("call #%d of the scenario (`%s`): %s contradicts itself after the call (its count and its contents, or the result of the call and a look-up, disagree)" % (i + 1, line, broken or "the object the call works on"))
                if sig is None:
                    sig = "%s@object-changed" % resfam.func_of(line.replace(" ", ","))
        if fc.get("badfree", "0") != "0":
            bad.append("free of a pointer the allocator did not hand out (%s)" % fc.get("badfree"))
        if fc.get("badclose", "0") != "0":
            bad.append("close of a descriptor that was not open (%s)" % fc.get("badclose"))
        if fc.get("fds") != "0":
            def targets(tag):
                mt = re.search(tag + r"=\[([^\]]*)\]", c)
                return sorted(re.sub(r"pipe:\[\d+\]", "pipe", x.split("=", 1)[1]) for x in (mt.group(1) if mt else "").split(",") if "=" in x)
            now, before = targets(" fdt"), targets("base_fdt")
            for t in before:
                if t in now:
                    now.remove(t)
            bad.append("descriptor(s) still open after the scenario: %s" % ", ".join(os.path.basename(t) or t for t in now))
        for key in ("names", "keys"):
            if fc.get(key) != "0":
                bad.append("%s=%s after the scenario (%s)" % (key, fc.get(key), re.sub(r".*(mapt=.*)", r"\1", c.split(" trace=")[0])[:160]))
        if fc.get("maps") != "0" and name not in F5_SCENARIOS:
            bad.append("maps=%s after the scenario" % fc.get("maps"))
        if bad:
            # the same symptom seen earlier under a single failing allocation keeps that signature when it shows again
            # under "all allocations from k on fail" (where the first failing allocation says little)
            symptom = re.sub(r"\d+", "#", "; ".join(bad))
            if mode == "none":
                # nothing was refused: the symptom belongs to the scenario's scripted system-call failure (or to the plain call sequence)
                if sig is None:
                    calls = [t.strip("[]") for t in c.split(" trace=", 1)[1].split() if t.startswith("[")] if " trace=" in c else []
                    armed = [(j, t.split(",")[1]) for j, t in enumerate(calls) if t.startswith("sysfail,") and j + 1 < len(calls)]
                    sig = "%s@sysfail-%s" % (resfam.func_of(calls[armed[0][0] + 1]), armed[0][1]) if armed else "%s@no-failure" % name
                base_symptom[(name, symptom)] = sig
            elif (name, symptom) in base_symptom:
                sig = base_symptom[(name, symptom)]       # shows without any refused allocation as well
            elif mode in ("from", "mask") and symptom in symptom_sig:
                sig = symptom_sig[symptom]
            else:
                symptom_sig.setdefault(symptom, sig)
            what = "C18 [signature %s]: scenario %s, failure %s %d: %s" % (sig, name, mode, k, "; ".join(bad))
            report(sig, op, what)
            chk.bump("leak")
            continue
        diff = [key for key in KEYS + ["trace"] if fc.get(key) != fm.get(key) and not (key == "maps" and name in F5_SCENARIOS)]
        if diff:
            d0 = diff[0]
            if d0 == "trace":
                ta, tb = fc["trace"].split(), fm["trace"].split()
                i = next((i for i, (p, q) in enumerate(zip(ta, tb)) if p != q), min(len(ta), len(tb)))
                txt = "allocator calls differ at position %d: C `%s`, model `%s`" % (i, " ".join(ta[max(0, i - 3):i + 3]), " ".join(tb[max(0, i - 3):i + 3]))
            else:
                txt = "%s: C %s, model %s" % (d0, fc.get(d0), fm.get(d0))
            corr.append((op, "scenario %s %s %d: %s" % (name, mode, k, txt)))
            chk.bump("corr-break")
        else:
            chk.cov["traces_validated_against_impl"] += 1
            for ch in fc.get("out", ""):
                worst[ch] = worst.get(ch, 0) + 1

    # -- one violation per signature (function, allocation index), its replay lists the ops that show it
    for sig in sorted(groups, key=str):
        what, gops = groups[sig]
        found |= bool(chk.violation("".join(gops[:12]), what + ("\n(%d runs show this signature)" % len(gops)), signature=sig))
    chk.cov["finding_signatures"] = {str(k): len(v[1]) for k, v in groups.items()}
    # -- verdict on correspondence / proof
    if not found:
        if not proof_ok:
            chk.violation("theorems of C18 no longer check against the current source:\n" + "\n".join(detail),
                          "proof obligation broken (C18 allocation failure)", no_input=True, suffix="txt")
        elif corr:
            op, txt = corr[0]
            chk.violation(op, "correspondence C18 implementation-vs-model no longer checks (%d op(s)); first: %s" % (len(corr), txt), no_input=True)
    chk.cov["exhaustive"] = True
    chk.cov["exhaustive_scope"] = {"scenarios": len(names), "allocation_attempts_per_scenario": nallocs,
                                   "runs_once_and_from_k_on": exhaustive_runs, "random_masks": nmask}
    chk.cov["allocation_sites_failed"] = len(sites)
    chk.cov["calls_exercised"] = sorted(calls_seen)
    chk.cov["outcome_classes"] = worst
    chk.cov["rule"] = ("every scenario x every allocation index k x {k fails once, every allocation from k on fails} (complete), "
                       "plus the run without failure; thorough adds long scenarios and random failure masks. "
                       "After every call of every run the contents of all live objects are read back and compared with the state before the call. "
                       "A case is one (scenario, mode, k); it is non-trivial when an allocation was actually refused in it.")
    chk.assumptions += ["the tracking allocator is installed through p_mem_set_vtable: allocations that bypass the table (libc internals of fopen, opendir, dlopen, getaddrinfo, sem_open) are not failed",
                        "x86-64 Linux, POSIX back-ends as configured; prwlock-general.c is compiled next to the configured rwlock under renamed symbols",
                        "threads are held at their start until the creating call has returned (deterministic order of allocator calls)",
                        "value-level probes: objects without an allocation-free or transparent getter are opaque (locks, semaphores, threads, loaders, TLS keys; crypto hashes are probed by the explicit hash_check call)",
                        "the model has the repaired p_shm_free (finding F5 is judged by C07/C20): the leftover mapping of %s is not counted here" % "/".join(F5_SCENARIOS)]
    return resfam.finish(chk)


def replay(chk, path):
    cfg = pv.repo_config()
    exe = resfam.build(cfg)
    scratch = resfam.make_scratch()
    try:
        ops = "".join(l for l in open(path) if l.strip() and not l.startswith("#"))
        for l in resfam.run_c(exe, ops, scratch)[1]:
            print("C:    ", l)
        for l in resfam.run_m(ops)[1]:
            print("model:", l)
    finally:
        resfam.drop_scratch(scratch)
    return 0

import props.trees as T


def run(chk):
    return T.run(chk, "C12", T.view_c12, ["PV.Props.C12", "PV.Props.C12morris", "PV.Props.C12clear"], "C12 trees")

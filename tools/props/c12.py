import props.trees as T


def run(chk):
    return T.run(chk, "C12", T.view_c12, ["PV.Props.C12", "PV.Props.C12morris", "PV.Props.C12clear"], "C12 trees")


def replay_family(cfg):
    import pv, diffrun
    fam = diffrun.Family("tree", pv.build_harness("tree", cfg, ["tree.c"], san="asan"), spec_view=T.view_c12)
    fam.keep_prefix = 1
    return fam

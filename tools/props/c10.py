"""C10 — socket modes and lifecycle (model PV.Model.Socket, theorems PV.Props.C10)."""
import pv
import diffrun
from props import sockets as S
from props import sockets_real as R


def signature_of(ops, r):
    return None


def replay(chk, path):
    return S.replay(chk, path, S.view_c10)


def run(chk):
    cfg = pv.repo_config()
    proof_ok, driver_ok, detail = pv.proof_stage(chk, ["PV.Props.C10"])
    try:
        exe = S.build(cfg)
    except pv.BuildError as e:
        chk.violation(str(e), "harness for C10 does not build against the current source", no_input=True, suffix="txt")
        return S.finish(chk)
    fam = S.make_family(exe, S.view_c10)
    thorough = chk.tier == "thorough"
    cases = S.scripted_cases(chk, thorough, "C10")
    found, corr, thm = diffrun.campaign(chk, fam, cases, proof_ok, detail, signature_of, "C10", batch=150)
    # real-kernel runs: all of them in the thorough tier and whenever the scripted runs showed a broken correspondence without
    # a failing input (a source that issues other native calls cannot be followed by the scripts); the flags scenario always
    if not found:
        found = R.run_real(chk, cfg, "C10", thorough or corr is not None or not proof_ok) or found
    diffrun.conclude(chk, found, corr, thm, proof_ok and driver_ok, detail, "C10 sockets: modes and lifecycle")
    chk.cov["rule"] = ("scripted differential runs of the real psocket.c against the Lean model with ALL getters, the full log of native calls "
                       "(descriptor, poll timeout, flags, option names) and the close-on-exec state compared after every call: random call sequences "
                       "(new/new_from_fd/bind/listen/connect/accept/send*/receive*/shutdown/close/free/setters/queries) on stream and datagram sockets "
                       "of both families in 4 slots with random failure injection; exhaustive lifecycle sequences of length %d over 12 ops; the exhaustive "
                       "loop scripts of C09; a case is distinct by the hash of its op file and non-trivial when it has more than one op"
                       % (3 if thorough else 2))
    chk.cov["exhaustive"] = False
    chk.assumptions += S.ASSUMPTIONS
    return S.finish(chk)

"""C01 — mutex and spinlock: mutual exclusion, trylock, visibility.

input space exercised (audit): back-ends c11 / sync / sim / posix; 1..4 lock objects; main thread + 1 or 2 helper threads in
the line protocol, 3..16 threads in the real-thread programs; NULL arguments; every native return code of CODES in every
position (scripted); init attribute / foreign mutex address made visible by the scripted wrappers.

proof:  PV.Props.C01 over the records generated from pspinlock-{c11,sync,sim}.c and pmutex-posix.c
tie:    harness/locks.c: (i) single-thread lock / trylock / unlock sequences (+ a second thread that must block)
        on the real c11 / sync / sim spinlocks and the posix mutex vs. `pvdriver locks`;
        (ii) pmutex-posix.c with pthread_mutex_* scripted at link time: every return code in every position
search: N-thread stress with a plain shared counter inside the critical section under ThreadSanitizer
        (thorough tier, and in any tier once the proof or the correspondence is broken)."""
import itertools
import pv
import diffrun
from props import atomics_common as ac

REAL = ["c11", "sync", "sim", "posix"]
CODES = [0, 16, 22, 35, 1, 11, 110, -1, 2147483647]      # 0 EBUSY EINVAL EDEADLK EPERM EAGAIN ETIMEDOUT -1 INT_MAX


def exhaustive_sequences(variant, depth):
    """every legal single-thread sequence up to `depth` ops (lock only on a free lock, unlock only by the holder)"""
    def rec(prefix, held):
        if prefix:
            yield prefix + (["unlock"] if held else [])
        if len(prefix) == depth:
            return
        for op in (["try", "unlock"] if held else ["lock", "try"]):
            yield from rec(prefix + [op], op != "unlock")
    for seq in rec([], False):
        yield seq


def random_sequence(rng, chk, variant, n, contends):
    ops = []
    held = False
    for _ in range(n):
        if held:
            r = rng.random()
            if contends[0] > 0 and r < 0.08:
                contends[0] -= 1
                ops.append("contend")            # main unlocks inside the op: free afterwards
                held = False
                chk.bump("contend")
                continue
            op = "unlock" if r < 0.55 else "try"
        else:
            op = rng.choice(["lock", "try"])
        chk.bump(op + ("-held" if held else "-free"))
        ops.append(op)
        held = op != "unlock"
    if held:
        ops.append("unlock")
    return ops


def multi_exhaustive(depth, nobj=2):
    """every legal sequence of lock K / try K / unlock K / tother K over `nobj` objects up to `depth` ops
    (main thread: lock only on a free object, unlock only what it holds; `tother` = a second thread's trylock)"""
    def rec(prefix, held):
        if prefix and (held or not prefix[-1].startswith("unlock")):      # (a closed sequence is also the closure of its prefix)
            yield prefix + ["unlock %d" % k for k in sorted(held)]
        if len(prefix) == depth:
            return
        for k in range(nobj):
            for op in (["try", "unlock", "tother"] if k in held else ["lock", "try", "tother"]):
                h = set(held)
                if op == "unlock":
                    h.discard(k)
                elif op != "tother":
                    h.add(k)
                yield from rec(prefix + ["%s %d" % (op, k)], h)
    seen = set()
    for seq in rec([], set()):
        if tuple(seq) not in seen:
            seen.add(tuple(seq))
            yield seq


def multi_random(rng, chk, n, budget):
    """longer sequences over all four objects, with NULL arguments, second-thread trylocks and (budgeted)
    three-thread contention"""
    ops, held = [], set()
    for _ in range(n):
        r = rng.random()
        if r < 0.06:
            op = rng.choice(["lock", "try", "unlock"])
            ops.append(op + " -1")
            chk.bump("null-" + op)
            continue
        k = rng.randrange(4)
        if r < 0.25:
            ops.append("tother %d" % k)
            chk.bump("tother-" + ("held" if k in held else "free"))
            continue
        if k in held:
            if budget[0] > 0 and r < 0.32:
                budget[0] -= 1
                ops.append("contend2 %d" % k)      # main unlocks inside the op
                held.discard(k)
                chk.bump("contend2")
                continue
            op = "unlock" if rng.random() < 0.5 else "try"
        else:
            op = rng.choice(["lock", "try"])
        chk.bump("multi:%s-%s-others%d" % (op, "held" if k in held else "free", min(len(held - {k}), 2)))
        ops.append("%s %d" % (op, k))
        if op == "unlock":
            held.discard(k)
        else:
            held.add(k)
    ops += ["unlock %d" % k for k in sorted(held)]
    return ops


MULTI_PROBES = [
    # a held object must not make another object look held, to the same or to another thread
    ["lock 0", "try 1", "tother 2", "tother 0", "lock 3", "unlock 0", "tother 0", "try 0", "unlock 1", "unlock 3", "unlock 0"],
    ["try 2", "tother 2", "lock 1", "tother 1", "unlock 2", "tother 2", "unlock 1", "tother 1"],
    # three threads: two wait in lock while main holds, then take it in turn
    ["lock 1", "contend2 1", "try 1", "tother 1", "unlock 1", "tother 1"],
    ["try 0", "lock 2", "contend2 0", "tother 2", "contend2 2", "lock 0", "unlock 0"],
    # NULL is a legal argument of every function
    ["lock -1", "try -1", "unlock -1", "lock 0", "unlock -1", "try 0", "unlock 0"],
]


def script_exhaustive():
    for c0 in CODES:
        for (o1, c1), (o2, c2) in itertools.product(itertools.product(["lock", "try", "unlock"], CODES), repeat=2):
            yield ["new %d" % c0, "%s %d" % (o1, c1), "%s %d" % (o2, c2), "free %d" % c0]


def script_random(rng, chk, n):
    ops = []
    for _ in range(n):
        op = rng.choice(["new", "lock", "lock", "try", "try", "unlock", "unlock", "free"])
        c = rng.choice(CODES) if rng.random() < 0.8 else rng.randrange(-5, 140)
        chk.bump("script:" + op)
        ops.append("%s %d" % (op, c))
    ops.append("free 0")
    return ops


def observations(summary):
    obs = []
    u = (summary.get("spin.sync") or {}).get("unlock") or {}
    if u.get("builtin") == "plainStore" and u.get("fenceAfter") and not u.get("fenceBefore"):
        obs.append("pspinlock-sync.c p_spinlock_unlock is `spinlock->spin = 0; __sync_synchronize ()`: the barrier follows the store, so the store "
                   "is a release only on TSO hardware (x86-64, the trusted base); on weaker hardware writes of the critical section may become "
                   "visible after the lock is seen free (portable form: barrier before the store, or __sync_lock_release). "
                   "Theorem cs_ordered_sync_tso is stated under the TSO model for this reason")
        obs.append("the same plain volatile store races with the other threads' __sync_bool_compare_and_swap in ISO C11 terms "
                   "(ThreadSanitizer reports it on the unchanged tree); the sync stress run therefore uses value oracles only")
    return obs


def stress_plan(variants, thorough):
    n, it = (8, 100000) if thorough else (4, 20000)
    plan = []
    for v in variants:
        scale = 4 if v == "sim" else 1
        plan.append((v, "counter", [n, it // scale]))
        plan.append((v, "hcounter", [n, it // (2 * scale)]))        # shadow holder count: any overlap, not only a lost update
        plan.append((v, "twolocks", [3, it // (4 * scale)]))        # two objects, alone and nested
        plan.append((v, "trynb", [3, it // (8 * scale)]))           # trylock returns while another thread holds the lock
        if thorough and v != "sim":
            # three or more threads inside lock at once (two spinning while one holds): hand-off defects need it
            plan.append((v, "counter", [3, it // scale]))
            plan.append((v, "counter", [16, it // (4 * scale)]))
        if v == "c11":
            # the library is built by gcc: the same runs uninstrumented (value oracles only)
            plan.append((v, "counter", [n, it], "plain"))
            plan.append((v, "hcounter", [n, it], "plain"))
    plan.append(("c11", "mcounter", [n, it // 4]))          # the posix mutex itself
    plan.append(("c11", "mtwolocks", [3, it // 8]))
    plan.append(("c11", "mtrynb", [3, it // 8]))
    return plan


def quick_plan(variants):
    """real threads in every run (a few seconds): exclusion, two objects, the mutex"""
    plan = []
    for v in variants:
        scale = 2 if v == "sim" else 1
        plan += [(v, "hcounter", [4, 40000 // scale]), (v, "counter", [3, 30000 // scale]), (v, "twolocks", [3, 15000 // scale])]
    plan += [("c11", "hcounter", [4, 100000], "plain"), ("c11", "mcounter", [4, 20000]), ("c11", "mtwolocks", [3, 10000])]
    plan += [(v, "trynb", [3, 3000]) for v in variants] + [("c11", "trynb", [3, 20000], "plain"), ("c11", "mtrynb", [3, 3000])]
    return plan


def run(chk):
    cfg = pv.repo_config()
    proof_ok, driver_ok, detail = pv.proof_stage(chk, ["PV.Props.C01"])
    if ac.extractor_broken(detail) and proof_ok:
        proof_ok = False
        chk.cov["discharged"] = 0
    thorough = chk.tier == "thorough"
    rng = chk.rng
    found = False
    corr = thm = None
    fams = {}
    for v in REAL + ["posix-script"]:
        try:
            fams[v] = ac.VFamily("locks", ac.build_locks(cfg, v), v, timeout=60)
        except pv.BuildError as e:
            chk.violation(str(e), "C01 harness for %s does not build against the current source" % v, no_input=True, suffix="txt")
    depth = 9 if thorough else 7
    nseq = 0
    if driver_ok:
        for v in REAL:
            if v not in fams:
                continue
            ex = list(exhaustive_sequences(v, depth))
            nseq += len(ex)
            # the second thread must block while the lock is held, after lock and after trylock
            probes = [["lock", "contend", "try", "unlock"], ["try", "contend", "lock", "unlock"]]
            contends = [8 if thorough else 2]
            rnd = [random_sequence(rng, chk, v, rng.choice([5, 20, 60]), contends) for _ in range(1500 if thorough else 200)]
            mex = list(multi_exhaustive(4 if thorough else 3))
            nseq += len(mex)
            budget = [6 if thorough else 2]
            mrnd = [multi_random(rng, chk, rng.choice([8, 25, 60]), budget) for _ in range(600 if thorough else 150)]
            cases = ac.corpus_for("C01", v)
            f, c, t = diffrun.campaign(chk, fams[v], cases + probes + MULTI_PROBES + ex + mex + rnd + mrnd, proof_ok, detail, None, "C01 variant=" + v, batch=400)
            found, corr, thm = found or f, corr or c, thm or t
        if "posix-script" in fams:
            sx = list(script_exhaustive())
            srnd = [script_random(rng, chk, rng.choice([6, 30])) for _ in range(2000 if thorough else 300)]
            chk.cov["scripted_codes"] = {"codes": CODES, "exhaustive_cases": len(sx)}
            f, c, t = diffrun.campaign(chk, fams["posix-script"], sx + srnd, proof_ok, detail, None, "C01 variant=posix-script (pmutex-posix.c wrappers)", batch=1500)
            found, corr, thm = found or f, corr or c, thm or t
    else:
        detail.append("model driver does not build: no differential run")
    chk.cov["exhaustive_small_scope"] = {"single_thread_sequences_up_to": depth, "sequences": nseq,
                                         "scripted": "all (op, code)^2 after every init code"}
    need_search = (not (proof_ok and driver_ok)) or corr is not None or thm is not None
    if not (thorough or need_search):
        found = ac.stress_campaign(chk, cfg, "C01", quick_plan(["c11", "sync", "sim"]), 60, "real-thread run") or found
    if thorough or (need_search and not found):
        # a broken proof leaves the search as the only source of a concrete input: it gets the thorough plan
        found = ac.stress_campaign(chk, cfg, "C01", stress_plan(["c11", "sync", "sim"], thorough or need_search), 240 if thorough else 90,
                                   "supporting run" if not need_search else "failing-input search") or found
    if not proof_ok:
        chk.cov["broken_theorems"] = ac.name_broken_theorems(detail)
    diffrun.conclude(chk, found, corr, thm, proof_ok and driver_ok, detail, "C01 mutex / spinlock")
    try:
        import extract_atomics
        summ = getattr(extract_atomics.gen_atomics, "summary", {})
        chk.cov["translator"] = {k: v for k, v in summ.items() if k.startswith("spin.") or k.startswith("mutex.")}
        chk.cov["observations"] = observations(summ)
    except Exception:
        pass
    chk.cov["rule"] = ("(i) per implementation (c11, sync, sim spinlock; posix mutex) all legal single-thread sequences of lock / try / unlock up to %d ops "
                       "(lock only on a free lock, unlock only by the holder), random longer ones, and `contend` probes where a second real thread calls lock on the "
                       "held lock and must still be blocked after 150 ms; return values (and the lock word for c11 / sync) compared after every op; "
                       "the same ops on four objects (`lock K` …; all legal sequences over two objects up to %d ops, random ones over four), NULL arguments, "
                       "`tother K` (a second thread's single trylock on a held / free object) and `contend2 K` (two more threads waiting in lock: three threads, "
                       "shadow holder count). "
                       "(ii) pmutex-posix.c with pthread_mutex_{init,lock,trylock,unlock,destroy} wrapped at link time: every code of %s in every position of all "
                       "(op, code) pairs of length 2 after every init code, plus random scripts; wrapper result and the native function called are compared. "
                       "(iii) real threads in every run: counter / shadow-holder-count / two-lock programs on every back-end (ThreadSanitizer for c11 and sim, "
                       "gcc -O2 value oracles for sync and once more for c11), larger in the thorough tier. "
                       "distinct by op-file hash, non-trivial = more than one op") % (depth, 4 if thorough else 3, CODES)
    chk.cov["exhaustive"] = False
    chk.assumptions += [
        "hardware and compiler implement __atomic_compare_exchange_n / __atomic_store / __sync_bool_compare_and_swap as indivisible operations with the stated "
        "memory order (trusted, DESIGN §4): one builtin call is one step of the model",
        "pthread mutexes satisfy POSIX: lock blocks until free, trylock answers EBUSY exactly when held, a failing call leaves the mutex unchanged, "
        "unlock by the owner releases, lock / unlock synchronise memory (XBD 4.12)",
        "usage discipline: only a holder calls unlock, nobody relocks a lock it holds (rogue_unlock_breaks_exclusion shows the first is necessary)",
        "the happens-before model (program order + release/acquire synchronises-with on the one lock word) is a simplification of C11 adequate for one lock word",
        "sync model visibility is stated under x86-TSO (store→store and load→load order preserved by hardware, volatile accesses not reordered by the compiler)",
        "the lock word is allocated zeroed by p_malloc0 (checked by the translator)",
        "the `contend` probe is one-sided: `blocks` means still blocked after 150 ms",
    ]
    return chk.finish()


def replay(chk, path):
    variant, lines = ac.replay_file(path)
    if variant not in ac.LOCK_KINDS or not lines or lines[0].startswith("program:"):
        print("not an op file (real-thread programs are rerun with harness/stress.c as described in the file)")
        return 2
    cfg = pv.repo_config()
    import extract
    extract.run()
    pv.lake_build(["pvdriver"])
    r = diffrun.judge(ac.VFamily("locks", ac.build_locks(cfg, variant), variant), lines)
    print("agree" if r is None else "%s at op %d: %s" % (r["kind"], r["at"], r["detail"]))
    return 0 if r is None else 1

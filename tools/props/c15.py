"""C15 — hash table and list vs. reference map / sequence (model PV.Model.HashTable, theorems PV.Props.C15)."""
import itertools
import pv
import diffrun

INT_MAX = 2**31 - 1
U64 = 2**64


def key_classes(rng):
    base = rng.randrange(0, 101)
    fam = [base + 101 * i for i in range(6)]                      # one bucket, long chain
    neg = [U64 - 1 - rng.randrange(0, 200), 0xFFFFFFFF, 0x80000000, 0x80000000 + rng.randrange(1, 50),
           0xFFFFFFFF00000000 + rng.randrange(0, 2**32)]
    edge = [INT_MAX - k for k in (0, 1, 35, 36, 37, 38)] + [(rng.randrange(1, 2**31) << 32) | (INT_MAX - rng.randrange(0, 37))]
    rnd = [rng.randrange(0, U64) for _ in range(4)]
    lo = rng.randrange(0, 2**32)
    hiword = [lo, lo + 2**32, lo + 2**33, lo | 2**63, (lo + 101) | 2**32, U64 - 2**32 + lo]   # equal low 32 bits (= equal `int`, same bucket), different pointers
    return {"null": [0], "chain": fam, "neg": neg, "intmax": edge, "rnd": rnd, "small": list(range(1, 8)), "hiword": hiword}


def gen_case(rng, chk, n):
    cls = key_classes(rng)
    pool = []
    for name in rng.sample(sorted(cls), rng.randrange(2, len(cls) + 1)):
        pool += cls[name]
        chk.bump("keyclass:" + name)
    vals = [0, 1, 2, 3, rng.randrange(0, U64 - 1), rng.randrange(0, 2**32)]
    vals += [vals[5] + 2**32, 3 + 2**32, 2**32, (1 << 8) | 7, (1 << 8) | 200, (3 << 8), (2**32 + 3) << 8]    # equal low words; words whose bits above the low 8 are 1 / 3 / 2^32+3 (lbvf)
    oom = rng.choice([0, 0, 0.1, 0.4])                 # inserts / appends attempted while the allocator is out of memory
    chk.bump("oom:%s" % oom)
    two = rng.random() < 0.3                           # a second table is used alongside
    if two:
        chk.bump("tables:2")
    if rng.random() < 0.4:
        vals += [U64 - 1, U64 - 1]              # all-ones is a legal value although lookup uses it as the not-found marker
        chk.bump("value:all-ones")
    ops = []
    for _ in range(n):
        r = rng.random()
        k = rng.choice(pool)
        if two and rng.random() < 0.35:
            ops.append(rng.choice(["ins2 %d %d" % (k, rng.choice(vals)), "ins2 %d %d" % (k, rng.choice(vals)), "rem2 %d" % k, "get2 %d" % k, "get2 %d" % k, "keys2", "vals2"]))
        elif r < 0.35:
            ops.append(("insf %d %d" if oom and rng.random() < oom else "ins %d %d") % (k, rng.choice(vals)))
        elif r < 0.55:
            ops.append("rem %d" % k)
        elif r < 0.75:
            ops.append("get %d" % k)
        elif r < 0.80:
            ops.append("keys")
        elif r < 0.84:
            ops.append("vals")
        elif r < 0.865:
            ops.append("lbv %d" % rng.choice(vals))
        elif r < 0.88:
            ops.append("lbvf %d" % rng.choice([1, 3, 0, 2**32 + 3, rng.choice(vals) >> 8, rng.choice(vals)]))
        elif r < 0.92:
            ops.append(("lappf %d" if oom and rng.random() < oom else "lapp %d") % rng.choice(vals))
        elif r < 0.94:
            ops.append(("lpref %d" if oom and rng.random() < oom else "lpre %d") % rng.choice(vals))
        elif r < 0.96:
            ops.append("lrem %d" % rng.choice(vals))
        elif r < 0.97:
            ops.append("lrev")
        elif r < 0.98:
            ops.append("llast")
        elif r < 0.988:
            ops.append("leach")
        elif r < 0.992:
            ops.append(rng.choice(["api", "lfree", "newf 1", "newf 2", "newf 0"]))
        else:
            ops.append("llen")
    ops += ["keys", "vals", "llen", "llast", "leach"] + (["keys2", "vals2"] if two else [])
    return ops


def exhaustive_small(depth):
    """every op sequence of the given length over 3 colliding keys + 1 other, then a full dump"""
    keys = [5, 106, 207, 6]
    alphabet = ["ins %d %d" % (k, v) for k in keys[:3] for v in (1, 2)] + ["ins 6 1"] + ["rem %d" % k for k in keys] + ["get %d" % k for k in keys[:2]]
    for seq in itertools.product(alphabet, repeat=depth):
        yield list(seq) + ["get 5", "get 106", "get 207", "keys", "vals"]


def exhaustive_hiword(depth):
    """the same over keys and values that differ only above bit 31 (one `int`, one bucket, different pointers)"""
    H = 2**32
    keys = [5, 5 + H, 106]
    alphabet = ["ins %d %d" % (k, v) for k in keys for v in (1, 1 + H)] + ["rem %d" % k for k in keys] + ["get %d" % k for k in keys]
    for seq in itertools.product(alphabet, repeat=depth):
        yield list(seq) + ["get 5", "get %d" % (5 + H), "keys", "vals", "lbv 1", "lbv %d" % (1 + H)]


def list_exhaustive(depth):
    alphabet = ["lapp 1", "lapp 2", "lpre 3", "lrem 1", "lrem 2", "lrev", "llast", "llen", "lapp %d" % (1 + 2**32), "lappf 4"]
    for seq in itertools.product(alphabet, repeat=depth):
        yield list(seq) + ["llen", "llast", "leach"]


def extra_cases():
    """directed cases: lookup by value through a compare function; p_list_foreach; allocation failure inside insert /
    append / prepend (empty bucket, occupied bucket, key present); two tables side by side; NULL arguments; every bucket"""
    H = 2**32
    out = []
    # compare function: stored values 0x1xx / 0x3xx, asked 1 / 3 / the stored word itself (not a match: not symmetric)
    for pre in ([], ["ins 5 1", "ins 106 2"]):
        out.append(pre + ["ins 7 %d" % ((1 << 8) | 9), "ins 108 %d" % ((1 << 8) | 200), "ins 9 %d" % (3 << 8), "ins 0 1", "ins 1 0", "ins 2 256",
                          "lbvf 1", "lbvf 3", "lbvf 0", "lbvf %d" % ((1 << 8) | 9), "lbvf 256", "lbv 256", "lbv 1",
                          "rem 7", "lbvf 1", "ins 108 %d" % (3 << 8), "lbvf 1", "lbvf 3", "ins 11 %d" % ((H + 3) << 8), "lbvf %d" % (H + 3), "lbvf 3"])
    # list: foreach after every kind of change
    out.append(["leach", "lapp 1", "leach", "lapp 2", "lpre 3", "leach", "lrev", "leach", "lrem 1", "leach", "lapp 0", "lapp %d" % (U64 - 1), "leach", "lfree", "leach", "lapp 4", "leach", "llen"])
    out.append(["lapp %d" % x for x in (1, 1 + H, 1 + 2 * H, 1)] + ["lrem %d" % (1 + H), "leach", "lrem %d" % (1 + 2 * H), "leach", "lrem 1", "lrem 1", "leach", "llen", "llast"])
    # allocation failure: new key into an empty bucket, into a chain (head, after removal), existing key (overwrite), with NULL / all-ones
    for k in (5, 106, 0, U64 - 1):
        for pre in ([], ["ins 5 1"], ["ins 5 1", "ins 106 2", "ins 207 3"], ["ins 207 3", "ins 106 2", "ins 5 1", "rem 106"]):
            out.append(pre + ["insf %d 9" % k, "get %d" % k, "get 5", "get 106", "get 207", "keys", "vals", "ins %d 8" % k, "insf %d 7" % k, "get %d" % k, "keys", "vals",
                              "rem %d" % k, "insf %d 6" % k, "keys", "vals", "get 5"])
    for pre in ([], ["lapp 1"], ["lapp 1", "lapp 2", "lpre 3"]):
        out.append(pre + ["lappf 9", "llen", "llast", "leach", "lpref 8", "llen", "leach", "lapp 9", "lpre 8", "lappf 7", "lpref 6", "lrev", "leach", "llen"])
    # two tables: same keys, different content; removal / overwrite in one does not show in the other
    out.append(["ins 5 1", "ins2 5 2", "get 5", "get2 5", "ins2 106 3", "get 106", "keys", "keys2", "rem 5", "get2 5", "get 5", "rem2 5", "rem2 106", "keys2", "vals2", "ins 106 4",
                "get2 106", "vals", "ins2 0 0", "get 0", "get2 0", "rem2 0", "get2 0"])
    out.append(["ins %d 1" % k for k in (5, 106, 207, 308)] + ["get 5"] + ["ins2 %d 2" % k for k in (5, 106, 207, 308)] + ["get2 5", "get 5", "rem 5", "get 5", "get2 5", "ins 5 3", "get 5", "get2 5", "rem2 5", "get2 5", "get 5"])
    out.append(["api", "ins 1 1", "lapp 1", "api", "get 1", "keys", "llen", "leach", "lfree", "api", "llen"])
    # p_hash_table_new with its first / second allocation failing: NULL, the living tables are not touched
    out.append(["newf 1", "newf 2", "newf 0", "newf 3", "ins 5 1", "ins2 5 2", "newf 2", "get 5", "get2 5", "newf 1", "keys", "keys2", "insf 106 3", "newf 2", "ins 106 3", "keys"])
    # a list / a chain longer than anything the random op files build (counts, walks and reversal of 150 nodes; 60 keys in one bucket)
    out.append(["lapp %d" % (i % 7) for i in range(150)] + ["llen", "llast", "leach", "lrev", "llen", "leach", "lrem 3", "llen", "lpre 9", "llast", "llen", "lfree", "llen"])
    out.append(["ins %d %d" % (5 + 101 * i, i) for i in range(60)] + ["keys", "vals", "get %d" % (5 + 101 * 59), "get 5", "rem %d" % (5 + 101 * 30), "rem 5", "rem %d" % (5 + 101 * 59), "keys", "lbv 30", "lbv 31"])
    # every bucket once, then twice (keys 0..201), low word wrapping through the addend
    out.append(["ins %d %d" % (k, k) for k in range(0, 202)] + ["keys", "vals"] + ["rem %d" % k for k in range(0, 202, 2)] + ["keys", "get 63", "get 64", "get 164", "get 165"])
    out.append(["ins %d 1" % k for k in range(2**32 - 40, 2**32 + 1)] + ["keys"] + ["get %d" % k for k in range(2**32 - 40, 2**32 + 1)])
    return out


def marker_cases():
    """the all-ones value (lookup's not-found marker) stored, overwritten, looked up by value, removed; alone and in a chain"""
    A = U64 - 1
    out = []
    for k in (0, 5, 106):
        for pre in ([], ["ins 5 1", "ins 106 2", "ins 207 3"]):
            out.append(pre + ["ins %d %d" % (k, A), "get %d" % k, "keys", "vals", "lbv %d" % A, "ins %d 7" % k, "get %d" % k, "keys", "vals",
                              "lbv %d" % A, "lbv 7", "rem %d" % k, "get %d" % k, "keys", "vals"])
            out.append(pre + ["ins %d 7" % k, "ins %d %d" % (k, A), "ins %d %d" % (k, A), "keys", "vals", "lbv %d" % A, "rem %d" % k, "keys", "vals", "lbv %d" % A])
    return out


def spec_view(op, line):
    """the spec says *which* keys/values are listed, not in which order"""
    o = op.split()[0] if op else ""
    if o in ("keys", "vals", "lbv", "lbvf", "keys2", "vals2") and line.startswith("["):
        return "[" + " ".join(sorted(line.strip("[]").split(), key=int)) + "]"
    return line


def signature_of(ops, r):
    return None


def run(chk):
    cfg = pv.repo_config()
    proof_ok, driver_ok, detail = pv.proof_stage(chk, ["PV.Props.C15"])
    try:
        exe = pv.build_harness("ht", cfg, ["ht.c"], repo_files=None, san="asan")
    except pv.BuildError as e:
        chk.violation(str(e), "harness for C15 does not build against the current source", no_input=True, suffix="txt")
        return chk.finish()
    fam = diffrun.Family("ht", exe, spec_view=spec_view)
    thorough = chk.tier == "thorough"
    rng = chk.rng
    cases = marker_cases() + extra_cases()
    # corpus first
    cases += pv.load_corpus("C15")
    # direct probes of the hash arithmetic: every INT_MAX-adjacent low word, sign boundaries
    probes = []
    for low in list(range(INT_MAX - 40, INT_MAX + 1)) + [0x80000000, 0xFFFFFFFF, 0xFFFFFFDA, 0xFFFFFFDB, 0]:
        for hi in (0, rng.randrange(1, 2**32)):
            k = (hi << 32) | low
            probes.append(["ins %d 7" % k, "get %d" % k, "rem %d" % k, "get %d" % k])
    cases += probes
    ex_depth = 4 if thorough else 3
    ex = list(exhaustive_small(ex_depth)) + list(exhaustive_hiword(ex_depth)) + list(list_exhaustive(5 if thorough else 4))
    chk.cov["exhaustive_small_scope"] = {"ht_depth": ex_depth, "sequences": len(ex)}
    nrand = 3000 if thorough else 400
    rnd = [gen_case(rng, chk, rng.choice([5, 20, 60, 200])) for _ in range(nrand)]
    found, corr, thm = diffrun.campaign(chk, fam, cases + ex + rnd, proof_ok, detail, signature_of, "C15", batch=100)
    diffrun.conclude(chk, found, corr, thm, proof_ok and driver_ok, detail, "C15 hash table/list")
    chk.cov["rule"] = ("op files over key classes (NULL, one-bucket families, negative low words, INT_MAX-adjacent low words, keys / values / list data equal in the low 32 bits, random 64-bit); "
                       "lookup by value with and without a compare function, p_list_foreach, inserts / appends under allocation failure, two tables side by side, NULL-argument entry points; "
                       "exhaustive sequences of length %d over 4 keys (3 colliding) and list sequences; a case is distinct by the hash of its op file, "
                       "non-trivial when it has more than one op" % ex_depth)
    chk.cov["exhaustive"] = False
    chk.assumptions += ["x86-64: int 32 bit, pointers 64 bit", "a stored value equal to (ppointer)-1 reads as not-found through p_hash_table_lookup (documented marker); keys/values/lookup_by_value tell them apart and are compared",
                        "a failed node allocation is modelled for insert / append / prepend only (one-shot; C18 covers every other site)"]
    return chk.finish()


def replay_family(cfg):
    return diffrun.Family("ht", pv.build_harness("ht", cfg, ["ht.c"], san="asan"), spec_view=spec_view)

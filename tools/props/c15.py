"""C15 — hash table and list vs. reference map / sequence (model PV.Model.HashTable, theorems PV.Props.C15)."""
import itertools
import pv
import diffrun

INT_MAX = 2**31 - 1
U64 = 2**64


def key_classes(rng):
    base = rng.randrange(0, 101)
    fam = [base + 101 * i for i in range(6)]                      # one bucket, long chain
    neg = [U64 - 1 - rng.randrange(0, 200), 0xFFFFFFFF, 0x80000000, 0x80000000 + rng.randrange(1, 50),
           0xFFFFFFFF00000000 + rng.randrange(0, 2**32)]
    edge = [INT_MAX - k for k in (0, 1, 35, 36, 37, 38)] + [(rng.randrange(1, 2**31) << 32) | (INT_MAX - rng.randrange(0, 37))]
    rnd = [rng.randrange(0, U64) for _ in range(4)]
    return {"null": [0], "chain": fam, "neg": neg, "intmax": edge, "rnd": rnd, "small": list(range(1, 8))}


def gen_case(rng, chk, n):
    cls = key_classes(rng)
    pool = []
    for name in rng.sample(sorted(cls), rng.randrange(2, len(cls) + 1)):
        pool += cls[name]
        chk.bump("keyclass:" + name)
    vals = [0, 1, 2, 3, rng.randrange(0, U64 - 1), rng.randrange(0, 2**32)]
    if rng.random() < 0.4:
        vals += [U64 - 1, U64 - 1]              # all-ones is a legal value although lookup uses it as the not-found marker
        chk.bump("value:all-ones")
    ops = []
    for _ in range(n):
        r = rng.random()
        k = rng.choice(pool)
        if r < 0.35:
            ops.append("ins %d %d" % (k, rng.choice(vals)))
        elif r < 0.55:
            ops.append("rem %d" % k)
        elif r < 0.75:
            ops.append("get %d" % k)
        elif r < 0.80:
            ops.append("keys")
        elif r < 0.84:
            ops.append("vals")
        elif r < 0.88:
            ops.append("lbv %d" % rng.choice(vals))
        elif r < 0.92:
            ops.append("lapp %d" % rng.choice(vals))
        elif r < 0.94:
            ops.append("lpre %d" % rng.choice(vals))
        elif r < 0.96:
            ops.append("lrem %d" % rng.choice(vals))
        elif r < 0.97:
            ops.append("lrev")
        elif r < 0.985:
            ops.append("llast")
        else:
            ops.append("llen")
    ops += ["keys", "vals", "llen", "llast"]
    return ops


def exhaustive_small(depth):
    """every op sequence of the given length over 3 colliding keys + 1 other, then a full dump"""
    keys = [5, 106, 207, 6]
    alphabet = ["ins %d %d" % (k, v) for k in keys[:3] for v in (1, 2)] + ["ins 6 1"] + ["rem %d" % k for k in keys] + ["get %d" % k for k in keys[:2]]
    for seq in itertools.product(alphabet, repeat=depth):
        yield list(seq) + ["get 5", "get 106", "get 207", "keys", "vals"]


def list_exhaustive(depth):
    alphabet = ["lapp 1", "lapp 2", "lpre 3", "lrem 1", "lrem 2", "lrev", "llast", "llen"]
    for seq in itertools.product(alphabet, repeat=depth):
        yield list(seq) + ["llen", "llast"]


def marker_cases():
    """the all-ones value (lookup's not-found marker) stored, overwritten, looked up by value, removed; alone and in a chain"""
    A = U64 - 1
    out = []
    for k in (0, 5, 106):
        for pre in ([], ["ins 5 1", "ins 106 2", "ins 207 3"]):
            out.append(pre + ["ins %d %d" % (k, A), "get %d" % k, "keys", "vals", "lbv %d" % A, "ins %d 7" % k, "get %d" % k, "keys", "vals",
                              "lbv %d" % A, "lbv 7", "rem %d" % k, "get %d" % k, "keys", "vals"])
            out.append(pre + ["ins %d 7" % k, "ins %d %d" % (k, A), "ins %d %d" % (k, A), "keys", "vals", "lbv %d" % A, "rem %d" % k, "keys", "vals", "lbv %d" % A])
    return out


def spec_view(op, line):
    """the spec says *which* keys/values are listed, not in which order"""
    o = op.split()[0] if op else ""
    if o in ("keys", "vals", "lbv") and line.startswith("["):
        return "[" + " ".join(sorted(line.strip("[]").split(), key=int)) + "]"
    return line


def signature_of(ops, r):
    return None


def run(chk):
    cfg = pv.repo_config()
    proof_ok, driver_ok, detail = pv.proof_stage(chk, ["PV.Props.C15"])
    try:
        exe = pv.build_harness("ht", cfg, ["ht.c"], repo_files=None, san="asan")
    except pv.BuildError as e:
        chk.violation(str(e), "harness for C15 does not build against the current source", no_input=True, suffix="txt")
        return chk.finish()
    fam = diffrun.Family("ht", exe, spec_view=spec_view)
    thorough = chk.tier == "thorough"
    rng = chk.rng
    cases = marker_cases()
    # corpus first
    cases += pv.load_corpus("C15")
    # direct probes of the hash arithmetic: every INT_MAX-adjacent low word, sign boundaries
    probes = []
    for low in list(range(INT_MAX - 40, INT_MAX + 1)) + [0x80000000, 0xFFFFFFFF, 0xFFFFFFDA, 0xFFFFFFDB, 0]:
        for hi in (0, rng.randrange(1, 2**32)):
            k = (hi << 32) | low
            probes.append(["ins %d 7" % k, "get %d" % k, "rem %d" % k, "get %d" % k])
    cases += probes
    ex_depth = 4 if thorough else 3
    ex = list(exhaustive_small(ex_depth)) + list(list_exhaustive(5 if thorough else 4))
    chk.cov["exhaustive_small_scope"] = {"ht_depth": ex_depth, "sequences": len(ex)}
    nrand = 3000 if thorough else 400
    rnd = [gen_case(rng, chk, rng.choice([5, 20, 60, 200])) for _ in range(nrand)]
    found, corr, thm = diffrun.campaign(chk, fam, cases + ex + rnd, proof_ok, detail, signature_of, "C15", batch=100)
    diffrun.conclude(chk, found, corr, thm, proof_ok and driver_ok, detail, "C15 hash table/list")
    chk.cov["rule"] = ("op files over key classes (NULL, one-bucket families, negative low words, INT_MAX-adjacent low words, random 64-bit); "
                       "exhaustive sequences of length %d over 4 keys (3 colliding) and list sequences; a case is distinct by the hash of its op file, "
                       "non-trivial when it has more than one op" % ex_depth)
    chk.cov["exhaustive"] = False
    chk.assumptions += ["x86-64: int 32 bit, pointers 64 bit", "a stored value equal to (ppointer)-1 reads as not-found through p_hash_table_lookup (documented marker); keys/values/lookup_by_value tell them apart and are compared",
                        "allocation never fails in this check (C18 covers failure)"]
    return chk.finish()


def replay_family(cfg):
    return diffrun.Family("ht", pv.build_harness("ht", cfg, ["ht.c"], san="asan"), spec_view=spec_view)

"""Shared by C01 (locks) and C04 (atomics): harness builds of the three back-ends, real-thread supporting runs."""
import os
import re
import pv
import diffrun

BASE = ["pmem.c", "perror.c", "pstring.c"]
ATOMIC_SRC = {"c11": ["patomic-c11.c"], "sync": ["patomic-sync.c"], "sim": ["patomic-sim.c", "pmutex-posix.c"]}
SPIN_SRC = {"c11": ["pspinlock-c11.c"], "sync": ["pspinlock-sync.c"], "sim": ["pspinlock-sim.c", "pmutex-posix.c"]}
WRAP = ["-Wl,--wrap=pthread_mutex_%s" % x for x in ("init", "lock", "trylock", "unlock", "destroy")]
# clang (unlike gcc) does not treat the size-suffixed `__atomic_load_4` … as builtins but as libatomic calls,
# which ThreadSanitizer cannot see; for the TSan build only they are renamed to the generic builtins
CLANG_RENAMES = ["-D__atomic_load_4=__atomic_load_n", "-D__atomic_load_8=__atomic_load_n",
                 "-D__atomic_store_4=__atomic_store_n", "-D__atomic_store_8=__atomic_store_n"]

class VFamily(diffrun.Family):
    """a line-protocol family bound to one back-end: the `variant X` op is sent first on both sides (and its `ok`
    dropped), so that op files carry only real operations and shrinking cannot lose the variant"""

    def __init__(self, name, exe, variant, **kw):
        diffrun.Family.__init__(self, name, exe, **kw)
        self.variant = variant

    @staticmethod
    def _strip(out):
        head, sep, rest = out.partition("\n")
        return rest if head == "ok" else out

    def run_c(self, text):
        rc, out, err = pv.run_proc([self.exe], "variant %s\n%s" % (self.variant, text), self.timeout, self.env)
        return rc, self._strip(out), err

    def run_m(self, text):
        rc, out, err = pv.run_model(self.name, "variant %s\n%s" % (self.variant, text))
        return rc, self._strip(out), err


def corpus_for(prop, variant):
    """corpus files start with a `variant X` line"""
    return [c[1:] for c in pv.load_corpus(prop) if c and c[0] == "variant " + variant and len(c) > 1]


def replay_file(path):
    """-> (variant, op lines) of a replay written by a check of this family (header comment `… variant=X …`)"""
    txt = open(path).read()
    m = re.search(r"variant[= ](\S+)", txt)
    lines = [l.strip() for l in txt.splitlines() if l.strip() and not l.startswith("#") and not l.startswith("variant ")]
    return (m.group(1) if m else None), lines


EXT_KEYS = ("patomic", "pspinlock", "pmutex", "platform probe", "gen_atomics")


def extractor_broken(detail):
    """translator problems that concern this family (pv.proof_stage only lists them)"""
    return [d for d in detail if d.startswith("extractor: ") and any(k in d for k in EXT_KEYS)]


def build_atomics(cfg, variant):
    san = "asan-nosio" if variant == "sim" else "asan"      # DESIGN C04 "Not proved": signed wrap in (*atomic)++
    return pv.build_harness("atomics-" + variant, cfg, ["atomics.c"], repo_files=ATOMIC_SRC[variant] + BASE, san=san,
                            extra=['-DPV_VARIANT="%s"' % variant], tag="atomics-" + variant,
                            link=["-Wl,--wrap=pthread_mutex_lock", "-Wl,--wrap=pthread_mutex_unlock"])


LOCK_KINDS = {"c11": (1, 1), "sync": (1, 1), "sim": (1, 0), "posix": (2, 0), "posix-script": (3, 0)}


def build_locks(cfg, variant):
    kind, has_word = LOCK_KINDS[variant]
    files = SPIN_SRC[variant] if kind == 1 else ["pmutex-posix.c"]
    return pv.build_harness("locks-" + variant, cfg, ["locks.c"], repo_files=files + BASE, san="asan",
                            extra=['-DPV_VARIANT="%s"' % variant, "-DPV_KIND=%d" % kind, "-DPV_HAS_WORD=%d" % has_word],
                            link=WRAP if kind == 3 else [], tag="locks-" + variant)


def build_stress(cfg, variant, force_plain=False):
    """c11 / sim: clang-14 + ThreadSanitizer.  sync: plain gcc -O2 — its plain volatile accesses and
    `__sync_synchronize ()` are not synchronisation ThreadSanitizer understands (reports on the clean tree),
    so only the value oracles (lost update, duplicate ticket, stale message) are used there."""
    files = ATOMIC_SRC[variant] + [f for f in SPIN_SRC[variant] if f not in ATOMIC_SRC[variant]]
    if "pmutex-posix.c" not in files:
        files.append("pmutex-posix.c")
    if variant == "sync" or force_plain:
        return pv.build_harness("stress-" + variant, cfg, ["stress.c"], repo_files=files + BASE, san="plain", opt="-O2",
                                tag="stress-" + variant), False
    return pv.build_harness("stress-" + variant, cfg, ["stress.c"], repo_files=files + BASE, san="tsan", cc="clang-14",
                            extra=CLANG_RENAMES, tag="stress-" + variant), True


def run_stress(exe, mode, args, timeout):
    # the workers stop at a deadline well inside the watchdog (expected values follow the completed iterations):
    # a loaded machine shortens the run instead of tripping the watchdog
    rc, out, err = pv.run_proc([exe, mode] + [str(a) for a in args], "", timeout=timeout,
                               env={"TSAN_OPTIONS": "halt_on_error=0 report_signal_unsafe=0 exitcode=66",
                                    "STRESS_MAX_MS": str(int(min(20, max(2, timeout / 4.0)) * 1000))})
    races = []
    for m in re.finditer(r"WARNING: ThreadSanitizer: ([^\n]*)\n((?:.*\n){0,12})", err):
        frames = re.findall(r"#0 (\S+) (\S+?):(\d+)", m.group(2))
        races.append("%s: %s" % (m.group(1).split(" (pid")[0], " vs ".join("%s %s:%s" % (f, os.path.basename(p), l) for f, p, l in frames[:2])))
    return rc, out.strip(), err, races


def judge_stress(mode, out):
    """value oracle of one stress run -> None | description of the failure"""
    nums = [int(x) for x in re.findall(r"-?\d+", out)]
    if mode in ("counter", "mcounter"):
        if len(nums) != 2 or nums[0] != nums[1]:
            return "lost update inside the critical section: " + out
    elif mode == "hcounter":
        if len(nums) != 3 or nums[0] != nums[1]:
            return "lost update inside the critical section: " + out
        if nums[2] != 0:
            return "two threads inside the critical section at once (shadow holder count > 1): " + out
    elif mode in ("trynb", "mtrynb"):
        if len(nums) != 3 or nums[0] != 0:
            return "a trylock call did not return while another thread held the lock (no poller returned for 6 s, until the holder unlocked): " + out
        if nums[1] != 0:
            return "trylock returned TRUE while another thread held the lock: " + out
    elif mode in ("twolocks", "mtwolocks"):
        if len(nums) != 4 or nums[0] != nums[2] or nums[1] != nums[3]:
            return "lost update under one of two independent locks: " + out
    elif mode == "mix":
        if len(nums) != 4 or nums[0] != nums[1]:
            return "mixed read-modify-write operations on one int word lost an update: " + out
        if nums[2] != nums[3]:
            return "mixed read-modify-write operations on one pointer-sized word lost an update: " + out
    elif mode in ("ticket", "pticket"):
        if len(nums) != 3 or nums[0] != 0 or nums[1] != nums[2]:
            return "duplicate / lost tickets: " + out
    elif mode == "dectest":
        if len(nums) != 2 or nums[0] != 1 or nums[1] != 0:
            return "dec_and_test returned TRUE %s times: %s" % (nums[0] if nums else "?", out)
    elif mode == "incdec":
        if len(nums) != 4 or nums[0] != 0 or nums[1] != 0:
            return "inc / dec_and_test pairs around the values 0 and 1 lost an update (word negative or not back at 0): " + out
        if nums[3] > 0 and (nums[2] < 1 or nums[2] > nums[3]):
            return "dec_and_test returned TRUE %d times for %d inc/dec pairs that started and ended at 0: %s" % (nums[2], nums[3], out)
    elif mode == "casinc":
        if len(nums) != 2 or nums[0] != nums[1]:
            return "lost increment through compare-and-exchange: " + out
    elif mode == "sb":
        if len(nums) != 3 or nums[0] != 0 or nums[1] != 0:
            return "store-buffering outcome r1 = r2 = 0 observed although set/get must be full barriers: " + out
    elif mode == "mp":
        if len(nums) != 2 or nums[0] != 0:
            return "stale message read after the flag: " + out
    return None


def stress_campaign(chk, cfg, prop, plan, budget_s, label):
    """plan: list of (variant, mode, args).  Reports a VIOLATION (replay = the program to run) on a lost
    update / TSan report / hang.  Returns True when something concrete was found."""
    found = False
    runs = []
    hit = set()
    for entry in plan:
        variant, mode, args = entry[:3]
        plain = len(entry) > 3 and entry[3] == "plain"   # gcc -O2 as the library is built (clang may fold a defect away)
        if (variant, mode) in hit:
            continue                                     # one concrete failing run per back-end and mode is enough
        try:
            # the store-buffering litmus needs the real hardware reordering: uninstrumented -O2 build
            exe, tsan = build_stress(cfg, variant, force_plain=(mode == "sb" or plain))
        except pv.BuildError as e:
            runs.append({"variant": variant, "mode": mode, "result": "build failed"})
            chk.violation(str(e), "%s: stress build of the %s back-end failed" % (prop, variant), no_input=True, suffix="txt")
            continue
        rc, out, err, races = run_stress(exe, mode, args, timeout=budget_s)
        chk.cov["evaluations"] += 1
        chk.cov["traces_validated_against_impl"] += 0
        bad = None
        if rc == -999:
            # many spinning threads of an instrumented build on a machine whose cores are busy elsewhere can take arbitrarily long
            # (a preempted holder makes everybody spin through their time slices): before calling it a hang the same program is
            # run once more uninstrumented with at most four threads and a quarter of the work — a lock that is really never
            # released, or a call that really never returns, hangs there too
            hung = True
            try:
                exe2, _ = build_stress(cfg, variant, force_plain=True)
                a2 = list(args)
                if len(a2) >= 2 and isinstance(a2[0], int) and isinstance(a2[1], int):
                    a2 = [min(a2[0], 4), max(1, a2[1] // 4)] + a2[2:]
                rc2, out2, err2, _r2 = run_stress(exe2, mode, a2, timeout=budget_s)
                chk.cov["evaluations"] += 1
                if rc2 != -999:
                    hung = False
                    chk.bump("watchdog of a loaded machine, confirmed slow only")
                    rc, out, err, races, args = rc2, out2, err2, [], a2
                    tsan = False
            except pv.BuildError:
                pass
            if hung:
                bad = "watchdog: no result within %d s, twice (instrumented, then uninstrumented with at most 4 threads): deadlock / livelock" % budget_s
        if bad is None and rc == -999:
            pass
        elif bad is not None:
            pass
        elif rc not in (0, 66, 98):
            bad = "exit status %s: %s" % (rc, err[-400:])
        else:
            bad = judge_stress(mode, out)
            if bad is None and tsan and races:
                bad = "ThreadSanitizer: " + "; ".join(races[:3])
        runs.append({"variant": variant, "mode": mode, "args": list(args), "tsan": tsan, "out": out, "tsan_reports": len(races),
                     "result": bad or "ok"})
        if bad:
            found = True
            hit.add((variant, mode))
            replay = ("# real-thread run (one concrete failing schedule was observed; rerun to reproduce, schedules vary)\n"
                      "# build: harness/stress.c + %s back-end of the working tree, %s\n"
                      "program: stress %s %s\nobserved: %s\n%s\n") % (
                variant, "clang-14 -fsanitize=thread" if tsan else "gcc -O2", mode, " ".join(str(a) for a in args), out,
                "\n".join(races[:5]))
            chk.violation(replay, "%s %s %s/%s: %s" % (prop, label, variant, mode, bad), suffix="txt")
    chk.cov.setdefault("supporting_real_thread_runs", []).extend(runs)
    return found


def name_broken_theorems(detail):
    """turn `File.lean:LINE:COL` positions of build errors into the names of the enclosing theorems"""
    names = []
    for d in list(detail):
        for f, ln in re.findall(r"(PV/[\w/]+\.lean):(\d+):\d+", d):
            try:
                src = open(os.path.join(pv.LEAN, f)).read().splitlines()
            except OSError:
                continue
            for i in range(min(int(ln), len(src)) - 1, -1, -1):
                m = re.match(r"\s*(?:theorem|example|def|instance)\s+(\S+)?", src[i])
                if m:
                    nm = "%s: %s (line %s)" % (f, m.group(1) or "example", ln)
                    if nm not in names:
                        names.append(nm)
                    break
    if names:
        detail.append("broken: " + "; ".join(names))
    return names

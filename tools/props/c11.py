"""C11 — crypto hashes: digest = standard digest of the concatenation of all updates, for every chunking.

Family `hashmd` (MD5, SHA-1, SHA-2): models PV.Model.Hash.*, one-shot spec PV.Spec.Hash, theorems
PV.Props.C11md.  A second family (`hashx`: SHA-3, GOST) plugs in through FAMILIES.

Three comparisons per op file:
  implementation (harness/hash.c, ASan+UBSan)  vs  model column      (correspondence)
  implementation                               vs  spec column  H    (property, Lean side)
  implementation                               vs  Python hashlib    (property, independent oracle)
"""
import hashlib
import os
import random
from concurrent.futures import ThreadPoolExecutor

import pv
import diffrun
import props.c11api as A

# (driver family, Props modules, [(protocol name, hashlib name or None, block size)])
FAMILIES = [
    ("hashmd", ["PV.Props.C11md", "PV.Props.C11std"],
     [("md5", "md5", 64), ("sha1", "sha1", 64), ("sha224", "sha224", 64), ("sha256", "sha256", 64),
      ("sha384", "sha384", 128), ("sha512", "sha512", 128)]),
    # ("hashx", ["PV.Props.C11x"], [("sha3-224", "sha3_224", 144), ("sha3-256", "sha3_256", 136),
    #                               ("sha3-384", "sha3_384", 104), ("sha3-512", "sha3_512", 72), ("gost", None, 32)]),
]
BIG_ALGS = {"hashmd": ["md5", "sha1", "sha256"]}       # >= 2^32 single update, thorough tier
BIG_N = 4294967301                                       # 2^32 + 5
COUNTER_ALGS = {"hashmd": ["md5", "sha1", "sha256"]}   # 32-bit byte counters: `len_low >> 29` matters from 2^29 bytes on

HASHLIB = {p: h for _, _, algs in FAMILIES for p, h, _ in algs}


# ---------------------------------------------------------------------------------------------
# independent oracle: the protocol interpreted over hashlib

class _HL:
    """hashlib object behind the oracle interface of props/c11api.py"""
    def __init__(self, alg):
        self.h = hashlib.new(HASHLIB[alg])
        self.digest_size = self.h.digest_size

    def absorb(self, b):
        self.h.update(b)

    def absorbz(self, n):
        z = bytes(min(n, 1 << 26))
        while n > 0:
            k = min(n, len(z))
            self.h.update(z if k == len(z) else z[:k])
            n -= k

    def hexdigest(self):
        return self.h.hexdigest()


def oracle_lines(ops):
    """expected answer line for every op, per the property (None where hashlib has no such algorithm)"""
    return A.expected(ops, lambda alg: _HL(alg) if HASHLIB.get(alg) else None)


def oracle_judge(fam, ops):
    """None, or dict(at=..., detail=...) when the implementation's answer differs from hashlib's"""
    text = "".join(o + "\n" for o in ops)
    rc, out, err = fam.run_c(text)
    got = out.splitlines()
    want = oracle_lines(ops)
    for i, w in enumerate(want):
        if w is None:
            continue
        if i >= len(got):
            return {"at": i, "detail": "implementation stopped after %d answers (rc=%s): %s" % (len(got), rc, err[-800:])}
        if got[i] != w:
            return {"at": i, "detail": "op %r: implementation %r, standard digest (hashlib) %r" % (ops[i][:60], got[i], w)}
    if diffrun.is_crash(rc) or rc != 0:
        return {"at": len(got), "detail": "implementation exit status %s: %s" % (rc, err[-1500:])}
    return None


def oracle_shrink(fam, ops, budget=80):
    cur, tries = list(ops), 0
    i = 1                                       # keep `new ALG`
    while i < len(cur) and tries < budget:
        cand = cur[:i] + cur[i + 1:]
        tries += 1
        if oracle_judge(fam, cand) is not None:
            cur = cand
        else:
            i += 1
    return cur


def oracle_campaign(chk, fam, cases, label, batch=60):
    found = False
    for b in diffrun.batches(cases, batch):
        joined = []
        for c in b:
            joined += list(c) + ["reset"]
        if oracle_judge(fam, joined) is None:
            chk.cov["oracle_hashlib_cases"] = chk.cov.get("oracle_hashlib_cases", 0) + len(b)
            continue
        hit = False
        for c in b:
            r = oracle_judge(fam, list(c))
            for _ in range(6 if any(o.startswith("par ") for o in c) else 0):      # threads: a race may need several runs
                r = r or oracle_judge(fam, list(c))
            if r is None:
                chk.cov["oracle_hashlib_cases"] = chk.cov.get("oracle_hashlib_cases", 0) + 1
                continue
            hit = True
            small = oracle_shrink(fam, list(c)[: r["at"] + 1])
            r2 = oracle_judge(fam, small) or r
            if chk.violation("\n".join(small) + "\n", "%s hashlib oracle: %s" % (label, r2["detail"])):
                found = True
            if len(chk.violations) >= 3:
                return found
        if not hit:
            # wrong only when the cases follow each other in one process (state surviving free / new / reset):
            # drop whole cases from the front while the run stays wrong, report what is left
            cs = [list(c) for c in b]
            while len(cs) > 1 and oracle_judge(fam, [o for c in cs[1:] for o in c + ["reset"]]) is not None:
                cs = cs[1:]
            while len(cs) > 1 and oracle_judge(fam, [o for c in cs[:-1] for o in c + ["reset"]]) is not None:
                cs = cs[:-1]
            joined = [o for c in cs for o in c + ["reset"]]
            r = oracle_judge(fam, joined) or {"detail": "differs only in sequence"}
            if chk.violation("\n".join(joined) + "\n", "%s hashlib oracle (only when the cases run one after the other in one process): %s" % (label, r["detail"])):
                found = True
    return found


# ---------------------------------------------------------------------------------------------
# generator

def boundaries(B):
    L = B // 8
    pts = set()
    for k in range(0, 4):
        for d in (-1, 0, 1):
            pts.add(k * B + d)
            pts.add(k * B + B - L + d)          # 56 / 112: where the padding spills into a second block
            pts.add(k * B + B - L - 1 + d)      # 55 / 111
    return sorted(p for p in pts if p >= 0)


def rand_bytes(rng, n):
    if n == 0:
        return b""
    r = rng.random()
    if r < 0.1:
        return bytes(n)
    if r < 0.2:
        return b"\xff" * n
    if r < 0.3:
        return bytes([0x80] + [0] * (n - 1))
    return rng.getrandbits(8 * n).to_bytes(n, "little")


def split_points(rng, n, B):
    """sorted cut positions in [0, n], biased to block and padding boundaries, duplicates = empty updates"""
    k = rng.choice([0, 1, 1, 2, 3, 5, 9])
    cand = [p for p in boundaries(B) if p <= n]
    cuts = []
    for _ in range(k):
        if cand and rng.random() < 0.6:
            cuts.append(rng.choice(cand))
        else:
            cuts.append(rng.randrange(0, n + 1))
    if rng.random() < 0.15:
        cuts.append(rng.choice(cuts) if cuts else 0)           # an empty update in the middle
    return sorted(cuts)


def upd_ops(rng, msg, B, chk=None):
    cuts = [0] + split_points(rng, len(msg), B) + [len(msg)]
    ops = []
    for a, b in zip(cuts, cuts[1:]):
        piece = msg[a:b]
        if piece and piece == bytes(len(piece)) and rng.random() < 0.5:
            ops.append("updz %d" % len(piece))
        else:
            ops.append("upd " + (piece.hex() or "-"))
        if chk is not None and not piece:
            chk.bump("empty-update")
    return ops


def gen_case(rng, chk, alg, B, hl, n):
    """one op file hashing a message of n bytes, with the history features mixed in"""
    msg = rand_bytes(rng, n)
    ops = ["new " + alg]
    r = rng.random()
    if r < 0.12:                                   # something before a reset must not count
        ops += upd_ops(rng, rand_bytes(rng, rng.randrange(0, 2 * B)), B)
        if rng.random() < 0.5:
            ops.append(rng.choice(["str", "dig"]))
        ops.append("reset")
        chk.bump("reset-discards")
    ops += upd_ops(rng, msg, B, chk)
    if rng.random() < 0.15:
        ops.append("dig %d" % rng.choice([0, 1, hl - 1]))       # too small: len 0, hash stays open
        if rng.random() < 0.5:
            ops += upd_ops(rng, rand_bytes(rng, rng.randrange(1, B)), B)
        chk.bump("dig-too-small")
    ops.append(rng.choice(["str", "dig", "dig %d" % hl, "dig %d" % (hl + rng.randrange(0, 40))]))
    t = rng.random()
    if t < 0.3:                                    # repeated reads, both getters
        ops += [rng.choice(["str", "dig"]) for _ in range(rng.randrange(1, 4))]
        chk.bump("repeated-read")
    if t < 0.2 or t > 0.85:                        # updates after the read are ignored
        ops += upd_ops(rng, rand_bytes(rng, rng.randrange(1, 2 * B + 2)), B) + [rng.choice(["str", "dig"])]
        chk.bump("update-after-read")
    if t > 0.9:                                    # reset reopens
        m2 = rand_bytes(rng, rng.choice([0, 1, B - 1, B, rng.randrange(0, 3 * B)]))
        ops += ["reset"] + upd_ops(rng, m2, B) + ["str"]
        chk.bump("reset-reopens")
    if rng.random() < 0.05:
        ops.append("len")
    return ops


def corpus_cases(algs):
    """published vectors (RFC 1321 A.5, FIPS 180 examples) through the same three comparisons"""
    msgs = [b"", b"a", b"abc", b"message digest", b"abcdefghijklmnopqrstuvwxyz",
            b"abcdbcdecdefdefgefghfghighijhijkijkljklmklmnlmnomnopnopq",
            b"abcdefghbcdefghicdefghijdefghijkefghijklfghijklmghijklmnhijklmnoijklmnopjklmnopqklmnopqrlmnopqrsmnopqrstnopqrstu",
            b"1234567890" * 8, b"a" * 1000]
    out = []
    for alg, _, _ in algs:
        for m in msgs:
            out.append(["new " + alg, "upd " + (m.hex() or "-"), "str", "dig", "len"])
        # a read whose result string cannot be allocated returns NULL; the reads after it still give the digest (repeatable)
        out.append(["new " + alg, "upd 616263", "strf", "str", "dig", "strf", "str", "upd 64", "str", "reset", "upd 6162", "strf", "dig", "str"])
    return out


def big_cases(alg):
    """one update of 2^32+5 zero bytes after a 1-byte update, and the same bytes in smaller updates; after the long message
    a reset must forget all of it (both length words): a short message hashed next has its standard digest"""
    return [["new " + alg, "upd 61", "updz %d" % BIG_N, "str"],
            ["new " + alg, "upd 61", "updz 2147483648", "updz 2147483648", "updz 5", "str", "reset", "upd 616263", "str", "reset", "str"]]


class HashFamily(diffrun.Family):
    def __init__(self, name, exe, timeout=120, model_timeout=300):
        super().__init__(name, exe, timeout=timeout)
        self.model_timeout = model_timeout

    def run_m(self, text):
        return pv.run_model(self.name, text, self.model_timeout)


def signature_of(ops, r):
    return None


def finish(chk, level="proof"):
    try:
        return chk.finish(level)
    except KeyError:
        # pv.Check.finish moves obligations/discharged aside when the proof did not check and then
        # formats its log line from them; the evidence file is already written at that point
        return 1 if chk.violations else 0


# ---------------------------------------------------------------------------------------------

def replay(chk, path):
    """check.py C11 --replay file: one op file through the three comparisons"""
    ops = [l.rstrip("\n") for l in open(path) if l.strip() and not l.startswith("#")]
    alg = next((o.split()[1] for o in ops if o.startswith("new ") and len(o.split()) == 2), None)
    fam = next((f for f in FAMILIES if any(a[0] == alg for a in f[2])), None)
    if fam is None:
        pv.log("replay: no family knows algorithm %r" % alg)
        return 2
    exe = pv.build_harness("hash", pv.repo_config(), ["hash.c"], san="asan")
    hf = HashFamily(fam[0], exe, timeout=900, model_timeout=1800)
    chk.count("\n".join(ops))
    r = oracle_judge(hf, ops)
    if r is not None:
        chk.violation("\n".join(ops) + "\n", "C11 %s hashlib oracle: %s" % (fam[0], r["detail"]))
    ok, _ = pv.lake_build(["pvdriver"])
    if ok:
        r = diffrun.judge(hf, ops)
        if r is not None and r["kind"] in ("spec", "crash"):
            chk.violation("\n".join(ops) + "\n", "C11 %s %s: %s" % (fam[0], r["kind"], r["detail"]))
        elif r is not None:
            chk.violation("\n".join(ops) + "\n", "C11 %s %s: %s" % (fam[0], r["kind"], r["detail"]), no_input=True)
    chk.cov["rule"] = "replay of one op file"
    return finish(chk, level="test")


def run(chk):
    cfg = pv.repo_config()
    thorough = chk.tier == "thorough"
    rng = chk.rng
    fams = [f for f in FAMILIES if os.path.exists(os.path.join(pv.LEAN, "PV", "Driver", {"hashmd": "HashMD", "hashx": "HashX"}.get(f[0], f[0]) + ".lean"))]
    skipped = [f[0] for f in FAMILIES if f not in fams]
    if skipped:
        chk.assumptions.append("families without a driver were skipped: " + ", ".join(skipped))
    modules = [m for f in fams for m in f[1]]
    have_x = os.path.exists(os.path.join(pv.LEAN, "PV", "Driver", "HashX.lean"))
    if have_x:
        modules.append("PV.Props.C11x")
    proof_ok, driver_ok, detail = pv.proof_stage(chk, modules)
    ext = [d for d in detail if d.startswith("extractor: ")]
    if ext:
        proof_ok = False           # the theorems speak about the shapes the translator recognises
        chk.cov["discharged"] = 0
    try:
        exe = pv.build_harness("hash", cfg, ["hash.c"], san="asan")
    except pv.BuildError as e:
        chk.violation(str(e), "harness for C11 does not build against the current source", no_input=True, suffix="txt")
        return finish(chk)
    found = False
    corr = thm = None
    for fname, _, algs in fams:
        fam = HashFamily(fname, exe)
        names = {a[0] for a in algs}
        cases = [c for c in pv.load_corpus("C11") if all(o.split()[1] in names for o in c if o.startswith("new "))] + corpus_cases(algs)
        reps = 3 if thorough else 1
        for alg, hname, B in algs:
            hl = hashlib.new(hname).digest_size if hname else 32
            for n in range(0, 3 * B + 2):            # every length 0 .. 3B+1
                for _ in range(reps):
                    cases.append(gen_case(rng, chk, alg, B, hl, n))
            for n in boundaries(B):                  # the boundary lengths again, different chunkings
                for _ in range(4 * reps):
                    cases.append(gen_case(rng, chk, alg, B, hl, n))
        # the carry of the 32-bit byte counter (`if (ctx->len_low < (puint32) len) ++ctx->len_high;`) is only executed by a message
        # of 2^32 bytes or more in at least two updates: started here, on the uninstrumented -O2 build, so that it runs beside the
        # campaigns below; implementation vs hashlib only (the model side of that path is the thorough tier's and the theorems')
        carry_ex = carry_futs = None
        if fname in COUNTER_ALGS:
            try:
                fast = pv.build_harness("hash", cfg, ["hash.c"], san="plain", opt="-O2")
            except pv.BuildError:
                fast = exe
            ffam = HashFamily(fname, fast, timeout=1800)
            crng = random.Random("C11-carry-%d" % chk.seed)
            carry = []
            for a in COUNTER_ALGS[fname]:
                k, j = crng.randrange(1, 200), crng.randrange(0, 200)
                # len_low: 1 -> 2^31+1+k -> wraps to 1+k+j with len_high = 1; reset must forget both words
                carry.append(["new " + a, "upd 61", "updz %d" % ((1 << 31) + k), "updz %d" % ((1 << 31) + j), "str", "reset", "upd 616263", "str"])
                if thorough:
                    # carry and a non-zero high half of the length in the same update: len_high = 2
                    carry.append(["new " + a, "updz %d" % ((1 << 31) + k), "updz %d" % ((1 << 32) + (1 << 31) + j), "str"])
            carry_ex = ThreadPoolExecutor(max(1, min(len(carry), pv.NCPU // 2)))
            carry_futs = [carry_ex.submit(oracle_judge, ffam, c) for c in carry]
        api_algs = [(a, B, hashlib.new(hn).digest_size) for a, hn, B in algs]
        cases += A.cases(rng, chk, api_algs, thorough, exh_algs=[x for x in api_algs if x[0] in ("md5", "sha1", "sha256", "sha512")])
        longs = []
        for alg, hname, B in algs:
            hl = hashlib.new(hname).digest_size if hname else 32
            for _ in range(6 if thorough else 2):
                n = rng.choice([rng.randrange(4 * B, 5000), rng.randrange(5000, 100000), rng.randrange(100000, 1 << 20)])
                longs.append(gen_case(rng, chk, alg, B, hl, n))
                chk.bump("long-message")
        chk.cov.setdefault("exhaustive_small_scope", {})[fname] = "every message length 0..3B+1 for every algorithm (content and chunking random)"
        # independent oracle first: a mismatch with the standard digest is the property failing
        found |= oracle_campaign(chk, fam, cases, "C11 " + fname, batch=80)
        found |= oracle_campaign(chk, fam, longs, "C11 " + fname, batch=1)
        f1, c1, t1 = diffrun.campaign(chk, fam, cases, proof_ok, detail, signature_of, "C11 " + fname, batch=80)
        f2, c2, t2 = diffrun.campaign(chk, fam, longs, proof_ok, detail, signature_of, "C11 " + fname, batch=4)
        found |= f1 or f2
        corr, thm = corr or c1 or c2, thm or t1 or t2
        # the bit-length words: from 2^29 bytes on `len_low >> 29` is non-zero in finish(); from 2^32 - 2^29 on its three
        # bits are all set.  Implementation (uninstrumented -O2 build) vs hashlib only; reset afterwards must forget it.
        if fname in COUNTER_ALGS and not found:
            probes = []
            for a in COUNTER_ALGS[fname]:
                k = rng.randrange(1, 200)
                probes.append(["new " + a, "upd 61", "updz %d" % ((1 << 29) + k), "str", "reset", "upd 616263", "str"])
                if thorough:
                    probes.append(["new " + a, "upd 61", "updz %d" % ((1 << 32) - (1 << 29) + k), "str"])
            if thorough:
                probes.append(["new sha512", "upd 61", "updz %d" % BIG_N, "str"])
                probes.append(["new sha384", "updz %d" % (1 << 32), "upd 61", "str"])
            with ThreadPoolExecutor(max(1, min(len(probes), pv.NCPU // 2))) as ex:
                pres = list(ex.map(lambda c: oracle_judge(ffam, c), probes))
            for c, r in zip(probes, pres):
                chk.count("\n".join(c))
                chk.bump("message>=2^29-bytes")
                if r is not None:
                    if chk.violation("\n".join(c) + "\n", "C11 %s hashlib oracle: %s" % (fname, r["detail"])):
                        found = True
                else:
                    chk.cov["oracle_hashlib_cases"] = chk.cov.get("oracle_hashlib_cases", 0) + 1
        if carry_futs is not None:
            for c, fut in zip(carry, carry_futs):
                r = fut.result()
                chk.count("\n".join(c))
                chk.bump("message>=2^32-bytes-counter-carry")
                if r is not None:
                    if not found and chk.violation("\n".join(c) + "\n", "C11 %s hashlib oracle: %s" % (fname, r["detail"])):
                        found = True
                else:
                    chk.cov["oracle_hashlib_cases"] = chk.cov.get("oracle_hashlib_cases", 0) + 1
            carry_ex.shutdown()
        # >= 2^32 bytes in one update.  Thorough tier; also whenever the proof stage is broken
        # (the search of DESIGN §2.4: the translator rejecting the update shape points here).
        bigs = BIG_ALGS.get(fname, [])
        if bigs and (thorough or not proof_ok) and not found:
            big = [c for a in bigs for c in big_cases(a)]
            bfam = HashFamily(fname, exe, timeout=900, model_timeout=1800)
            with ThreadPoolExecutor(max(1, min(len(big), pv.NCPU // 2))) as ex:
                ores = list(ex.map(lambda c: oracle_judge(bfam, c), big))
            for c, r in zip(big, ores):
                chk.count("\n".join(c))
                chk.bump("single-update>=2^32" if len(c) == 4 else "same-bytes-smaller-updates")
                if r is not None:
                    if chk.violation("\n".join(c) + "\n", "C11 %s hashlib oracle: %s" % (fname, r["detail"])):
                        found = True
                else:
                    chk.cov["oracle_hashlib_cases"] = chk.cov.get("oracle_hashlib_cases", 0) + 1
            if thorough and not found:
                with ThreadPoolExecutor(max(1, min(len(big), pv.NCPU // 2))) as ex:
                    jres = list(ex.map(lambda c: diffrun.judge(bfam, c), big))
                for c, r in zip(big, jres):
                    if r is None:
                        chk.cov["traces_validated_against_impl"] += 1
                    elif r["kind"] in ("spec", "crash"):
                        if chk.violation("\n".join(c) + "\n", "C11 %s %s: %s" % (fname, r["kind"], r["detail"])):
                            found = True
                    elif r["kind"] == "thm":
                        thm = thm or (c, r)
                    else:
                        corr = corr or (c, r)
    if have_x:
        import props.c11x as X
        fx, cx, tx = X.run_part(chk, cfg, exe, proof_ok, detail)
        found |= fx
        corr, thm = corr or cx, thm or tx
        chk.assumptions += X.ASSUME_X
    diffrun.conclude(chk, found, corr, thm, proof_ok and driver_ok, detail, "C11 crypto hashes")
    chk.cov["rule_hashx"] = X.RULE_X if have_x else "not built"
    chk.cov["rule"] = ("op files new/upd/updz/str/dig/len/reset per algorithm: every message length 0..3B+1 (B = block size) with random content "
                       "(random, all-zero, all-ones, 0x80-led) and random chunkings biased to block and padding boundaries, empty updates, "
                       "too-small digest buffers, repeated reads, updates after a read, reset; published vectors; random long messages up to 1 MiB; "
                       "entry points and arguments (props/c11api.py): four handle slots with several live objects interleaved, every integer type code "
                       "(newt: valid, invalid), get_type, free / re-create, NULL data / NULL buffer / NULL length / NULL hash, unaligned input (updo1..7), "
                       "too-small buffers after the read, output-buffer canary, random histories over all ops, every history of at most 3 (thorough 4) ops over "
                       "{1, B-1, B bytes, reset, str, dig, too-small dig} for md5/sha1/sha256/sha512/sha3-256/gost, objects used by 2..8 threads at once (par); "
                       "messages of 2^29+k bytes (len_low >> 29 non-zero; then reset) and of 2^32+k bytes in two updates (carry of the 32-bit byte counter into len_high; then reset) "
                       "for md5/sha1/sha256 against hashlib on an -O2 build; "
                       "thorough: one update of 2^32+5 bytes vs the same bytes in smaller updates, 2^32-2^29+k bytes, sha512/sha384 single updates >= 2^32. Every op file is judged three ways: "
                       "implementation vs model, vs the Lean one-shot spec, vs Python hashlib. Distinct by op-file hash; non-trivial = more than one op")
    chk.cov["exhaustive"] = False
    chk.assumptions += ["little-endian platform (PLIBSYS_IS_BIGENDIAN undefined; re-extracted on every run)",
                        "psize is 64 bits; total message length < 2^61 bytes (< 2^125 for SHA-384/512)",
                        "the compression functions' conformance to RFC 1321 / FIPS 180-4 is tested (published vectors, hashlib), not proved",
                        "allocation never fails in this check (C18 covers failure)"]
    return finish(chk)

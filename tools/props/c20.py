"""C20 — resource neutrality (model PV.Model.Res, theorems PV.Props.C20, harness res.c).

Proof stage, then the tie: random cross-module call sequences, run in-process by the harness with the resource
counts printed after *every* call and at the end — live library blocks (tracking allocator installed through
p_mem_set_vtable), /proc/self/fd, mappings (the /proc/self/maps lines of the sequence's own shm keys and of the
scratch library, sem_open handles, anonymous mappings), /dev/shm names of the sequence, native TLS keys — and
diffed with the model.  Sequences mix containers, INI, hashes, errors, directories, sockets (refused connect to
a closed loopback port, timed-out connect and accept), semaphores, shm and shm buffers opened with equal /
different sizes, semaphores opened and re-created (access mode CREATE on an existing name), threads (joined and detached,
with an extra reference), TLS, locks, the library loader on a tiny .so, I/O on closed sockets, init/shutdown pairs, injected
allocator failures (once / from k on / bit masks) and scripted system-call failures (socket, fcntl(F_SETFL), sem_open, shm_open,
ftruncate, mmap, dlopen, pthread_*; close interrupted by a signal in directed cases).  After every call the harness also reads
every live object back through the public getters: a call that changes an object it is not allowed to change answers X.
Every sequence ends by freeing whatever is left and shutting the library down: the last line must be all zeros.
A `close` interposer counts closes of descriptors that are not open (fd_closed_once)."""
import re

import pv
import diffrun
from props import resfam

NS = 12           # slots used for objects; NS, NS+1 are error slots
DESTRUCTORS = ["cond_free", "dir_free", "dirent_free", "err_free", "hash_free", "ht_free", "ini_free", "list_free", "loader_free",
               "mmap_free", "mutex_free", "prof_free", "rwlock_free", "rwlockg_free", "sa_free", "sem_free", "shm_free",
               "shmbuf_free", "sock_free", "spin_free", "str_free", "strlist_free", "thread_unref", "tls_free", "tree_free"]
SYSCALLS = ["mmap", "ftruncate", "shm_open", "socket", "pthread_create", "pthread_key_create", "pthread_mutex_init",
            "pthread_cond_init", "dlopen", "fcntl", "sem_open", "fcntl", "sem_open", "fstat", "fstat", "getsockopt", "getsockopt",
            "pthread_attr_init", "pthread_attr_setdetachstate", "munmap"]


def call_pool(rng):
    sl = lambda: rng.randrange(NS)
    e = lambda: rng.choice(["x", str(NS), str(NS + 1)])
    return [
        "strdup %d" % sl(), "strchomp %d %d" % (sl(), rng.randrange(3)), "strtok %d" % sl(), "strtod", "str_free %d" % sl(), "str_realloc %d" % sl(),
        "inval %d %s" % (rng.randrange(37), e()), "inval %d %s" % (rng.randrange(37), e()),
        "list_new %d" % sl(), "list_append %d %d" % (sl(), rng.randrange(4)), "list_prepend %d %d" % (sl(), rng.randrange(4)),
        "list_remove %d %d" % (sl(), rng.randrange(4)), "list_free %d" % sl(), "strlist_free %d" % sl(),
        "tree_new %d %d" % (sl(), rng.randrange(3)), "tree_insert %d %d" % (sl(), rng.randrange(6)), "tree_remove %d %d" % (sl(), rng.randrange(6)),
        "tree_clear %d" % sl(), "tree_free %d" % sl(),
        "ht_new %d" % sl(), "ht_insert %d %d %d" % (sl(), rng.choice([1, 2, 102, 203, 5, 64, 165]), rng.randrange(3)),
        "ht_remove %d %d" % (sl(), rng.choice([1, 2, 102, 203, 5, 64, 165])), "ht_keys %d %d" % (sl(), sl()), "ht_values %d %d" % (sl(), sl()),
        "ht_lbv %d %d %d" % (sl(), sl(), rng.randrange(3)), "ht_free %d" % sl(),
        "err_new %d" % sl(), "err_new_literal %d" % sl(), "err_copy %d %d" % (sl(), sl()), "err_set_error %d" % sl(), "err_set_message %d" % sl(),
        "err_clear %d" % sl(), "err_free %d" % rng.choice([sl(), NS, NS + 1]), "err_set_p %s" % e(),
        "ini_new %d %d" % (sl(), rng.randrange(4)), "ini_parse %d %s" % (sl(), e()), "ini_sections %d %d" % (sl(), sl()),
        "ini_keys %d %d %d" % (sl(), rng.randrange(4), sl()), "ini_string %d %d %d %d" % (sl(), rng.randrange(3), rng.randrange(7), sl()),
        "ini_int %d %d %d" % (sl(), rng.randrange(3), rng.randrange(7)), "ini_double %d %d %d" % (sl(), rng.randrange(3), rng.randrange(7)),
        "ini_bool %d %d %d" % (sl(), rng.randrange(3), rng.randrange(7)), "ini_list %d %d %d %d" % (sl(), rng.randrange(3), rng.randrange(7), sl()),
        "ini_free %d" % sl(),
        "hash_new %d %d" % (sl(), rng.randrange(11)), "hash_update %d" % sl(), "hash_string %d %d" % (sl(), sl()), "hash_reset %d" % sl(), "hash_check %d" % sl(), "hash_free %d" % sl(),
        "ipc_key %d %d" % (sl(), rng.randrange(2)), "ipc_tmpdir %d" % sl(),
        "dir_new %d %d %s" % (sl(), rng.randrange(2), e()), "dir_next %d %d %s" % (sl(), sl(), e()), "dir_path %d %d" % (sl(), sl()),
        "dir_rewind %d" % sl(), "dirent_free %d" % sl(), "dir_free %d" % sl(), "file_remove_missing %s" % e(),
        "sa_new %d %d" % (sl(), rng.randrange(3)), "sa_any %d %d" % (sl(), rng.randrange(3)), "sa_loop %d %d" % (sl(), rng.randrange(3)),
        "sa_native %d" % sl(), "sa_native %d %d" % (sl(), rng.randrange(5)), "sa_addr %d %d" % (sl(), sl()), "sa_free %d" % sl(),
        "sock_new %d %d %s" % (sl(), rng.randrange(2), e()), "sock_bad %s" % e(), "sock_listen %d %s" % (sl(), e()),
        "sock_connect %d %d %s" % (sl(), sl(), e()), "sock_connect_refused %d %s" % (sl(), e()), "sock_connect_timeout %d %s" % (sl(), e()),
        "sock_accept %d %d %s" % (sl(), sl(), e()), "sock_local %d %d %s" % (sl(), sl(), e()), "sock_remote %d %d %s" % (sl(), sl(), e()),
        "sock_udp_echo %d %d %s" % (sl(), sl(), e()), "sock_close %d %s" % (sl(), e()), "sock_io_closed %d %d %s" % (sl(), rng.randrange(7), e()), "dir_create_missing %s" % e(), "dir_remove_missing %s" % e(), "sock_free %d" % sl(), "sock_from_fd %d %s" % (sl(), e()),
        "sem_new %d %d %d %s" % (sl(), rng.randrange(3), rng.choice([0, 0, 1]), e()), "sem_cycle %d %s" % (sl(), e()), "sem_own %d" % sl(), "sem_free %d" % sl(),
        "shm_new %d %d %d %s" % (sl(), rng.randrange(3), rng.choice(SHM_SIZES), e()), "shm_own %d" % sl(), "shm_cycle %d %s" % (sl(), e()), "shm_free %d" % sl(),
        "shmbuf_new %d %d %d %s" % (sl(), 3 + rng.randrange(3), rng.choice(SHM_SIZES), e()), "shmbuf_rw %d %s" % (sl(), e()), "shmbuf_fill %d %s" % (sl(), e()), "shmbuf_own %d" % sl(),
        "shmbuf_free %d" % sl(),
        "mutex_new %d" % sl(), "mutex_free %d" % sl(), "cond_new %d" % sl(), "cond_free %d" % sl(), "rwlock_new %d" % sl(), "rwlock_free %d" % sl(),
        "spin_new %d" % sl(), "spin_free %d" % sl(), "prof_new %d" % sl(), "prof_free %d" % sl(), "rwlockg_new %d" % sl(), "rwlockg_free %d" % sl(),
        "lock_cycle %d" % sl(),
        "thread_run %d %d %d %s" % (sl(), rng.randrange(2), rng.randrange(2), rng.choice(["x", str(sl())])), "thread_unref %d" % sl(),
        "thread_run_long %d %d %d %s" % (sl(), rng.randrange(2), rng.randrange(2), rng.choice(["x", str(sl())])),
        "tls_new %d" % sl(), "tls_set %d" % sl(), "tls_replace %d" % sl(), "tls_get %d" % sl(), "tls_free %d" % sl(), "cur_thread",
        "loader_new %d %d" % (sl(), rng.randrange(3)), "loader_sym %d" % sl(), "loader_err %d" % sl(), "loader_free %d" % sl(),
        "mmap_new %d %d %s" % (sl(), rng.randrange(3), e()), "mmap_free %d" % sl(), "mmap_unmap %d %s" % (sl(), e()),
    ]


# size arguments of shm / shm buffer handles in the random sequences: 0 = 1024 bytes, 2 = 512 bytes (different, same page).
# Size 1 (12288 bytes, three pages) against a smaller one is finding F5; it is exercised once, by a directed sequence,
# so that it does not use up the violation budget of the random part.
SHM_SIZES = [0, 0, 2, 2, 0, 3]     # index 3 = 8 bytes: too small for a buffer (p_shm_buffer_new must fail cleanly on it)


def gen_case(rng, n, chk):
    ops = ["begin", "call lib_init"]
    for _ in range(n):
        r = rng.random()
        if r < 0.06:
            ops.append("fail %s %d" % (rng.choice(["once", "from", "once", "none"]), rng.randrange(1, 6)))
            chk.bump("inject:alloc")
        elif r < 0.08:
            ops.append("fail mask " + "".join(rng.choice("0001") for _ in range(12)))
            chk.bump("inject:mask")
        elif r < 0.10:
            ops.append("call sysfail " + rng.choice(SYSCALLS))
            chk.bump("inject:syscall")
        elif r < 0.115:
            ops += ["call lib_shutdown", rng.choice(["call lib_init", "call lib_init_full"])]
            chk.bump("init-shutdown")
        else:
            c = rng.choice(call_pool(rng))
            ops.append("call " + c)
            chk.bump("mod:" + c.split("_")[0].split()[0])
    ops.append("fail none 0")
    for i in range(NS + 2):
        for f in DESTRUCTORS:
            ops.append("call %s %d" % (f, i))
    ops += ["call lib_shutdown", "end"]
    return ops


def directed_cases():
    """the sequences the design names explicitly"""
    out = []
    out.append(["begin", "call lib_init", "call sock_new 0 0 12", "call sock_connect_refused 0 12", "call sock_new 1 0 12", "call sock_connect_timeout 1 12",
                "call sock_new 2 0 12", "call sock_listen 2 12", "call sock_accept 2 3 12", "call sock_new 4 0 12", "call sock_connect 4 2 12",
                "call sock_accept 2 3 12", "call sock_remote 3 5 12", "call sa_free 5", "call sock_free 3", "call sock_free 4", "call sock_free 2",
                "call sock_free 1", "call sock_free 0", "call err_free 12", "call lib_shutdown", "end"])
    for sizes in ((0, 0), (0, 2), (2, 0)):
        out.append(["begin", "call lib_init", "call shm_new 0 1 %d x" % sizes[0], "call shm_new 1 1 %d x" % sizes[1], "call shmbuf_new 2 2 %d x" % sizes[0],
                    "call shmbuf_new 3 2 %d x" % sizes[1], "call shmbuf_rw 3 x", "call shm_free 1", "call shmbuf_free 3", "call shmbuf_free 2",
                    "call shm_free 0", "call lib_shutdown", "end"])
    # a whole directory walk (the fixture holds a dangling symbolic link: the stat-failed path of p_dir_get_next_entry)
    out.append(["begin", "call lib_init", "call dir_new 0 0 x"] + [c for _ in range(6) for c in ("call dir_next 0 1 x", "call dirent_free 1")]
               + ["call dir_rewind 0", "call dir_next 0 1 x", "call dirent_free 1", "call dir_free 0", "call lib_shutdown", "end"])
    # a raw segment too small to hold a buffer: p_shm_buffer_new on the same name fails and must release its attachment
    out.append(["begin", "call lib_init", "call shm_new 0 1 3 x", "call shmbuf_new 1 1 0 x", "call shmbuf_new 2 1 2 x", "call shm_own 0", "call shm_free 0",
                "call lib_shutdown", "end"])
    # a handle opened with a smaller size than the segment (more than a page smaller): finding F5
    out.append(["begin", "call lib_init", "call shm_new 0 1 1 x", "call shm_new 1 1 0 x", "call shm_free 1", "call shm_free 0", "call lib_shutdown", "end"])
    # a close interrupted by a handled signal (scripted -1/EINTR; the kernel has released the descriptor): closed exactly once.
    # Only closes after which the library does not use the descriptor again by its own logic (free of an open socket, the
    # shm_open descriptor inside p_shm_new, a refused connect's socket) — an explicit p_socket_close that reports the failure
    # leaves the decision to the caller and is not judged here.
    out.append(["begin", "call lib_init", "call sock_new 0 0 12", "call sysfail close", "call sock_free 0", "call sock_new 1 1 12", "call sysfail close",
                "call sock_free 1", "call sock_new 2 0 12", "call sock_connect_refused 2 12", "call sysfail close", "call sock_free 2", "call err_free 12",
                "call lib_shutdown", "end"])
    out.append(["begin", "call lib_init", "call sysfail close", "call shm_new 0 1 0 x", "call shm_free 0", "call sysfail close", "call shmbuf_new 1 2 0 x",
                "call shmbuf_free 1", "call sock_new 2 0 12", "call sock_listen 2 12", "call sock_new 3 0 12", "call sock_connect 3 2 12",
                "call sock_accept 2 4 12", "call sysfail close", "call sock_free 4", "call sysfail close", "call sock_free 3", "call sysfail close",
                "call sock_free 2", "call err_free 12", "call lib_shutdown", "end"])
    # access mode CREATE on a name that exists: the object is re-created and the new handle owns it (its free removes the name);
    # scripted failures of sem_open / fcntl(F_SETFL) on the error exits that already hold a descriptor, a mapping or a name
    out.append(["begin", "call lib_init", "call sem_new 0 0 0 x", "call sem_new 1 0 1 x", "call sem_cycle 1 x", "call sem_free 1", "call sem_new 2 0 0 x",
                "call sem_new 3 0 1 12", "call sem_free 0", "call sem_free 3", "call sem_free 2", "call err_free 12", "call lib_shutdown", "end"])
    out.append(["begin", "call lib_init", "call sysfail fcntl", "call sock_new 0 0 12", "call sock_new 1 0 12", "call sock_listen 1 12", "call sock_new 2 0 12",
                "call sock_connect 2 1 12", "call sysfail fcntl", "call sock_accept 1 3 12", "call sysfail fcntl", "call sock_from_fd 4 12", "call sysfail sem_open",
                "call shm_new 5 2 0 12", "call shm_new 5 2 0 12", "call sysfail sem_open", "call shm_new 6 2 2 12", "call sysfail sem_open", "call shmbuf_new 7 3 0 12",
                "call sysfail sem_open", "call sem_new 8 4 1 12", "call shm_free 5", "call sock_free 2", "call sock_free 1", "call err_free 12", "call lib_shutdown", "end"])
    # keys in bucket 0 of the hash table ((key + 37) % 101 == 0) still present at free time; an INI file whose first lines are keys
    # outside any section (read, then ignored)
    out.append(["begin", "call lib_init", "call ht_new 0", "call ht_insert 0 64 1", "call ht_insert 0 165 2", "call ht_insert 0 1 3", "call ht_remove 0 1",
                "call ht_keys 0 1", "call list_free 1", "call ht_free 0", "call ini_new 2 3", "call ini_parse 2 x", "call ini_parse 2 x", "call ini_sections 2 3",
                "call strlist_free 3", "call ini_string 2 0 0 4", "call str_free 4", "call ini_free 2", "call lib_shutdown", "end"])
    # shutdown of both directions on connected sockets (client, accepted), then close and/or free.  Only in directed
    # sequences: on a socket that was never connected the kernel keeps the shutdown flags, a later connect() then polls
    # as writable at once and SO_ERROR is 0 — a kernel quirk the resource model does not describe (a random sequence
    # `sock_from_fd; sock_shutdown; sock_connect_timeout` showed it in the thorough tier)
    out.append(["begin", "call lib_init", "call sock_new 0 0 12", "call sock_listen 0 12", "call sock_new 1 0 12", "call sock_connect 1 0 12", "call sock_accept 0 2 12",
                "call sock_shutdown 1", "call sock_shutdown 2", "call sock_shutdown 0", "call sock_close 1 12", "call sock_free 1", "call sock_free 2", "call sock_free 0",
                "call err_free 12", "call lib_shutdown", "end"])
    out.append(["begin", "call lib_init", "call lib_shutdown", "call lib_init", "call cur_thread", "call lib_shutdown", "call lib_init",
                "call tls_new 0", "call tls_set 0", "call thread_run 1 1 1 0", "call thread_run 2 0 1 0", "call thread_unref 2", "call thread_unref 1",
                "call tls_free 0", "call lib_shutdown", "end"])
    # threads that leave through p_uthread_exit (joinable: the join sees the code; detached), with and without a value in
    # thread-local storage, with a name longer than the system allows (a truncated copy is made and released).  No allocation
    # failures here: a thread whose structure could not be stored makes p_uthread_exit allocate a stand-in, which the
    # model's thread body does not describe
    out.append(["begin", "call lib_init_full", "call tls_new 1", "call thread_run 0 1 2 x", "call thread_unref 0", "call thread_run 0 1 2 1", "call thread_unref 0",
                "call thread_run 2 0 2 x", "call thread_unref 2", "call thread_run_long 3 1 2 1", "call thread_unref 3", "call thread_run_long 3 0 0 x",
                "call thread_unref 3", "call tls_free 1", "call lib_shutdown", "end"])
    # the size of an existing segment cannot be read (fstat fails), the type of a descriptor cannot be read (getsockopt fails),
    # munmap fails: the descriptor / structure is released, the mapping stays the caller's
    out.append(["begin", "call lib_init", "call shm_new 0 1 0 12", "call sysfail fstat", "call shm_new 1 1 0 12", "call shm_new 1 1 2 12", "call sysfail mmap",
                "call shm_new 2 1 0 12", "call shm_free 1", "call shm_cycle 0 12", "call shm_free 0", "call sysfail getsockopt", "call sock_from_fd 3 12",
                "call sock_new 4 0 12", "call sock_listen 4 12", "call sock_new 5 0 12", "call sock_connect 5 4 12", "call sysfail getsockopt",
                "call sock_accept 4 6 12", "call sock_free 5", "call sock_free 4", "call mmap_new 7 1 12", "call sysfail munmap", "call mmap_unmap 7 12",
                "call mmap_unmap 7 12", "call err_free 12", "call lib_shutdown", "end"])
    out.append(["begin", "call lib_init", "call loader_new 0 0", "call loader_sym 0", "call loader_new 1 2", "call loader_err 2", "call str_free 2",
                "call loader_free 0", "call loader_new 0 1", "call lib_shutdown", "end"])
    return out


def scenario_cases(rng, chk, thorough):
    """every scenario of the C18 table (the model's `list` / `dump NAME`) as a C20 sequence: the resource counts after
    every call of the sequences that reach the rarely taken paths (I/O on closed sockets, the datagram echo, INI getters on
    parsed files, scripted system-call failures).  Each is run clean and with an allocation failure (once / from k on)
    injected right after the library start; the scenario's own clean-up has to end at all zeros, whatever failed."""
    rc, names, err = resfam.run_m("list\n")
    if rc != 0 or not names:
        raise pv.BuildError("the model driver does not answer `list`: " + err[-300:])
    names = [n for n in names[0].split() if thorough or not n.startswith("long_")]
    rc, dumps, err = resfam.run_m("".join("dump %s\n" % n for n in names))
    out = []
    for n, d in zip(names, dumps):
        lines = d.split(";")
        if n in F5_SCENARIOS:
            continue            # finding F5: exercised once, by the directed sequence above
        sweep = ["call %s %d" % (f, i) for i in range(24) for f in DESTRUCTORS] if thorough else []
        out.append(["begin"] + ["call " + l for l in lines] + ["end"])
        chk.bump("scenario-sequence")
        for mode in (("once", "from") if not thorough else ("once", "from", "once", "from", "once")):
            k = rng.randrange(1, 14 if n.startswith(("ini", "cross", "long")) else 8)
            at = 1 + rng.randrange(max(1, min(3, len(lines) - 1)))
            seq = ["call " + l for l in lines]
            seq.insert(at, "fail %s %d" % (mode, k))
            out.append(["begin"] + seq + ["fail none 0"] + sweep + ["end"])
            chk.bump("scenario-sequence:inject")
    return out


F5_SCENARIOS = ("shm_two_smaller", "shmbuf_two_diff")


def spec_view(op, line):
    return line


SIGNATURES = []


def signature_of(ops, r):
    sig = signature_of0(ops, r)
    if sig is not None:
        if sig not in SIGNATURES:
            SIGNATURES.append(sig)
        pv.log("  finding signature: " + sig)
    return sig


def signature_of0(ops, r):
    text = " ".join(ops)
    detail = r.get("detail", "")
    sizes = set(re.findall(r"call shm(?:buf)?_new \d+ (\d+) (\d+)", text))
    by_name = {}
    for name, size in sizes:
        by_name.setdefault(name, set()).add(size)
    if "maps=" in detail and any("1" in v and len(v) > 1 for v in by_name.values()):
        return "shm-smaller-size-tail-mapping"
    if r.get("kind") == "crash" and r.get("at", 0) < len(ops):
        return resfam.func_of(ops[r["at"]].replace("call ", "").replace(" ", ",")) + "@sequence"
    return None


def thread_key_histories(chk, cfg):
    """real threads racing the first use of fresh thread-local keys (1600 keys, 4 threads each), and threads started while
    every native key is taken: the tracked allocator must be back at its base line after every key / round (the sequences of
    the resource harness are sequential: a block lost only when a publication race is lost cannot show there).
    Harness of C05 (harness/uthread_stress.c, modes `keys` and `nokeys`); a failing run is the replay."""
    import os
    try:
        exe = pv.build_harness("uthread_stress", cfg, ["uthread_stress.c"], repo_files=None, san="tsan", cc="clang-14",
                               extra=["-include", os.path.join(pv.HARNESS, "uthread_clang_atomics.h")])
    except pv.BuildError as e:
        chk.violation(str(e), "thread-key stress harness does not build against the current source", no_input=True, suffix="txt")
        return False
    found = False
    for mode in ("keys", "nokeys"):
        rc, so, se = pv.run_proc([exe, str(chk.seed), mode], "", timeout=180,
                                 env={"TSAN_OPTIONS": "halt_on_error=1:exitcode=66:report_signal_unsafe=0:suppressions=" + os.path.join(pv.HARNESS, "uthread_tsan.supp")})
        chk.count("uthread_stress " + mode)
        chk.bump("thread-key history:" + mode)
        if rc != 0:
            last = (se.strip().splitlines() or ["?"])[-1][:300]
            chk.violation("uthread_stress %d %s   (harness/uthread_stress.c, clang-14 -fsanitize=thread)\n%s" % (chk.seed, mode, se[-2000:]),
                          "C20 thread-local keys under real threads (%s): %s" % (mode, "ThreadSanitizer report" if rc == 66 else last), suffix="txt")
            found = True
    return found


def run(chk):
    cfg = pv.repo_config()
    proof_ok, driver_ok, detail = pv.proof_stage(chk, ["PV.Props.C20"])
    if not driver_ok:
        chk.violation("\n".join(detail), "the model driver does not build", no_input=True, suffix="txt")
        return chk.finish()
    exe = resfam.build(cfg)
    scratch = resfam.make_scratch()
    try:
        fam = diffrun.Family("res", exe, spec_view=spec_view, env={"PVRES_DIR": scratch}, timeout=600)
        thorough = chk.tier == "thorough"
        rng = chk.rng
        cases = pv.load_corpus("C20") + directed_cases() + scenario_cases(rng, chk, thorough)
        nrand = 1200 if thorough else 220
        lengths = [30, 80, 200, 400] if thorough else [20, 60, 120]
        cases += [gen_case(rng, rng.choice(lengths), chk) for _ in range(nrand)]
        found, corr, thm = diffrun.campaign(chk, fam, cases, proof_ok, detail, signature_of, "C20", batch=12, reset="begin")
        if not found:
            found = thread_key_histories(chk, cfg) or found
        diffrun.conclude(chk, found, corr, thm, proof_ok and driver_ok, detail, "C20 resource neutrality")
    finally:
        resfam.drop_scratch(scratch)
    chk.cov["rule"] = ("directed sequences (refused / timed-out connect, accept time-out, shm and shm buffers with equal and different sizes, "
                       "threads joined and detached with TLS, loader, init/shutdown pairs) plus seeded random call sequences over every module "
                       "with allocator failures (once / from k on / masks) and scripted syscall failures; resource counts are compared after "
                       "every call; every sequence frees everything at its end. A case is distinct by the hash of its op file.")
    chk.cov["exhaustive"] = False
    chk.cov["finding_signatures"] = list(SIGNATURES)
    chk.assumptions += ["resource counts of the C side: tracked allocator blocks, /proc/self/fd, /proc/self/maps lines of the sequence's own names and of the scratch .so, sem_open/sem_close balance, anonymous mmap bookkeeping, /dev/shm names derived from the sequence's names, pthread_key_create/delete balance",
                        "IPC names carry pid and a counter; loopback only; a detached thread is waited for until it has left /proc/self/task",
                        "the model has the repaired p_shm_free: a handle opened with a size more than a page smaller than the segment shows as finding shm-smaller-size-tail-mapping (F5)"]
    return resfam.finish(chk)


def replay(chk, path):
    cfg = pv.repo_config()
    exe = resfam.build(cfg)
    scratch = resfam.make_scratch()
    try:
        ops = "".join(l for l in open(path) if l.strip() and not l.startswith("#"))
        c = resfam.run_c(exe, ops, scratch)[1]
        m = resfam.run_m(ops)[1]
        for i, l in enumerate(ops.splitlines()):
            print("%-40s C: %-60s model: %s" % (l, c[i] if i < len(c) else "<none>", m[i] if i < len(m) else "<none>"))
    finally:
        resfam.drop_scratch(scratch)
    return 0

"""C19 — blocking calls transparent to signal interruptions.
Sleep part here (model PV.Model.Sleep, theorems PV.Props.C19); the semaphore / shm / socket parts
are the *_eintr_transparent theorems and EINTR-injection campaigns of C06 / C07 / C09."""
import itertools
import pv
import diffrun

EINTR = 4


def gen_script(rng, msec, k):
    req = msec * 1000000
    out = []
    for _ in range(k):
        c = rng.random()
        rem = req if c < 0.1 else 0 if c < 0.2 else rng.randrange(0, req + 1)
        out.append("EINTR:%d" % rem)
        req = rem
    return out


def cases(rng, chk, thorough):
    out = []
    # exhaustive small scope: every k <= 6 interruptions x ambient errno values x final result
    for k in range(0, 7):
        for amb in (0, EINTR, 11, 22):
            for last in ("OK", "ERR:22", "ERR:14"):
                for ms in (0, 1, 300, 999, 1000, 1001, 4294967295):
                    out.append(["sleep %d %d %s" % (ms, amb, " ".join(gen_script(rng, ms, k) + [last]))])
                    chk.bump("k=%d" % k)
    n = 3000 if thorough else 600
    for _ in range(n):
        ms = rng.choice([0, 1, 2, 10, 300, 999, 1000, 1001, 60000, rng.randrange(0, 2**32)])
        k = rng.choice([0, 1, 1, 2, 3, 5, 8, 20])
        last = rng.choice(["OK", "OK", "OK", "ERR:22"])
        out.append(["sleep %d %d %s" % (ms, rng.choice([0, 0, EINTR, rng.randrange(0, 130)]), " ".join(gen_script(rng, ms, k) + [last]))])
    return out


def spec_view(op, line):
    if op.startswith("real"):
        # the property for the real-signal run: returned 0 only after the full time, and it did return 0
        return " ".join(t for t in line.split() if not t.startswith("signals"))
    return line


def socket_part(chk, cfg, proof_ok, detail):
    """EINTR injected at every k-th invocation (k <= 6) of each blocking native call of the socket layer"""
    import os
    if not os.path.exists(os.path.join(pv.LEAN, "PV", "Driver", "Socket.lean")):
        return False, None, None
    from props import sockets as S
    exe = S.build(cfg)
    fam = S.make_family(exe, S.view_c09)
    cases = [ops for _, ops in S.eintr_kth_cases(6)]
    chk.cov["socket_eintr_cases"] = len(cases)
    return diffrun.campaign(chk, fam, cases, proof_ok, detail, None, "C19 sockets: EINTR at every k-th native call", batch=100)


def ipc_part(chk, cfg, proof_ok, driver_ok, detail, thorough):
    """EINTR injected n times before every k-th IPC system call of semaphore acquire / creation and of
    shared-memory creation / lock (the campaigns of C06 and C07, EINTR scenarios only)"""
    import os
    if not os.path.exists(os.path.join(pv.LEAN, "PV", "Driver", "IPC.lean")):
        return False
    from props import ipc, c06, c07
    exe = ipc.build(cfg)
    R = ipc.Runner(chk, ipc.Fam(exe), proof_ok and driver_ok, detail, "C19 IPC: EINTR")
    cases = []
    for mod in (c06, c07):
        for setup, op, tail in mod.eintr_scenarios():
            cases += ipc.eintr_cases(setup, op, tail, counts=(1, 2, 3, 4, 5, 6, 150, 1000) if thorough else (1, 2, 6, 150))
    chk.cov["ipc_eintr_cases"] = len(cases)
    R.run([ipc.prefilter(c) for c in cases], batch=20)
    return R.found


def prop_modules():
    import os
    mods = ["PV.Props.C19"]
    for m in ("C09", "C06", "C07"):        # the *_eintr_transparent theorems live with their families
        if os.path.exists(os.path.join(pv.LEAN, "PV", "Props", m + ".lean")):
            mods.append("PV.Props." + m)
    return mods


def run(chk):
    cfg = pv.repo_config()
    proof_ok, driver_ok, detail = pv.proof_stage(chk, prop_modules())
    exe = pv.build_harness("sleep", cfg, ["sleep.c"], san="asan", link=["-Wl,--wrap=clock_nanosleep", "-Wl,--wrap=nanosleep"])
    fam = diffrun.Family("sleep", exe, spec_view=spec_view, timeout=300)
    thorough = chk.tier == "thorough"
    cs = pv.load_corpus("C19") + cases(chk.rng, chk, thorough)
    found, corr, thm = diffrun.campaign(chk, fam, cs, proof_ok, detail, None, "C19 sleep", batch=200, reset="sleep 0 0 OK", min_ops=1)
    # supporting: real signals (lower bound on elapsed time only)
    real = [["real %d %d" % (ms, per)] for ms, per in ([(120, 7000), (300, 20000)] + ([(1000, 3000), (50, 1000)] if thorough else []))]
    f2, c2, t2 = diffrun.campaign(chk, fam, real, proof_ok, detail, None, "C19 sleep under a SIGALRM storm", batch=1, min_ops=1)
    f3, c3, t3 = socket_part(chk, cfg, proof_ok, detail)
    f3 = ipc_part(chk, cfg, proof_ok, driver_ok, detail, thorough) or f3
    from props import sockets_real
    f3 = sockets_real.run_real(chk, cfg, "C19", thorough) or f3
    diffrun.conclude(chk, found or f2 or f3, corr or c2 or c3, thm or t2 or t3, proof_ok and driver_ok, detail, "C19 sleep + sockets")
    chk.cov["rule"] = ("scripted native sleep results: every number k<=6 of EINTR results x ambient errno values x final result x boundary msec values (exhaustive), "
                       "random longer scripts; real SIGALRM storms with a handler installed without SA_RESTART (lower bound on elapsed time only); distinct by op line")
    chk.assumptions += ["clock_nanosleep reports its error as return value and leaves errno alone; writes the remaining time on EINTR (POSIX)",
                        "the kernel's remaining time never exceeds the requested time",
                        "semaphore, shared-memory and socket parts of C19: theorems acquire/sem_open/shm_open/shm_lock/socket *_eintr_transparent in PV.Props.C06/C07/C09 and the EINTR campaigns of those checks"]
    return chk.finish()


def replay_family(cfg):
    exe = pv.build_harness("sleep", cfg, ["sleep.c"], san="asan", link=["-Wl,--wrap=clock_nanosleep", "-Wl,--wrap=nanosleep"])
    return diffrun.Family("sleep", exe, spec_view=spec_view, timeout=300)

"""C03 — condition variable (model PV.Model.CondVar, theorems PV.Props.C03).

1. proof stage: translator (layouts of PMutex / PCondVariable, native call sites) -> lake build -> audit;
2. wrapper-mapping campaign: pcondvariable-posix.c / pmutex-posix.c with every pthread_cond_* /
   pthread_mutex_* entry point wrapped at link time; call log (function, pointer arguments relative
   to the objects) and results diffed against the wrapper model and the spec; exhaustive over
   calls x NULL arguments x return codes, plus random op sequences;
3. the client model's scheduler-driven executable semantics on random schedules (invariants only);
4. supporting REAL-thread runs (one-sided oracles, watchdog): bounded-buffer exchanges, event
   counter, one-broadcast gate, trylock-after-wake; ASan build and clang-14 ThreadSanitizer build.
"""
import os
import time
from concurrent.futures import ThreadPoolExecutor

import pv
import diffrun

WRAPPED = ["pthread_cond_init", "pthread_cond_destroy", "pthread_cond_wait", "pthread_cond_signal", "pthread_cond_broadcast",
           "pthread_mutex_init", "pthread_mutex_destroy", "pthread_mutex_lock", "pthread_mutex_trylock", "pthread_mutex_unlock"]
FILES = ["pcondvariable-posix.c", "pmutex-posix.c", "pmem.c", "perror.c", "pstring.c"]
# 0, EPERM, EINTR, EAGAIN, ENOMEM, EBUSY, EINVAL, ETIMEDOUT, ENOTRECOVERABLE, EOWNERDEAD, -1, INT_MAX
RCS = [0, 1, 4, 11, 12, 16, 22, 110, 131, 130, -1, 2147483647]
SEL = ["obj", "null", "obj2"]       # two live objects of each kind (harness/condvar.c)
SEL1 = ["obj", "null"]              # freec / freem work on a fresh object


def exhaustive():
    """every call x every choice of first object / second object / NULL for each argument x every return code"""
    for rc in RCS:
        yield ["wait %s %s %d" % (c, m, rc) for c in SEL for m in SEL] + ["ident", "ident2"]
        for op in ("signal", "bcast", "lock", "trylock", "unlock"):
            yield ["%s %s %d" % (op, s, rc) for s in SEL] + ["ident", "ident2"]
        for op in ("freec", "freem"):
            yield ["%s %s %d" % (op, s, rc) for s in SEL1] + ["ident"]
        for op in ("newc", "newm"):
            yield ["%s %d %d" % (op, af, rc) for af in (0, 1)] + ["ident", "ident2"]


def cross_object():
    """directed: one condition variable used with one mutex and then with the other one (legal once the first waits have
    returned), and two condition variables on one mutex, in every order; a wrapper that binds an object on first use, or
    keeps the last one, hands the native call a pointer into the wrong object"""
    out = []
    for c1, m1, c2, m2 in [("obj", "obj", "obj", "obj2"), ("obj", "obj2", "obj", "obj"), ("obj", "obj", "obj2", "obj"),
                           ("obj2", "obj2", "obj", "obj2"), ("obj2", "obj", "obj2", "obj2"), ("obj2", "obj2", "obj", "obj")]:
        out.append(["lock %s 0" % m1, "wait %s %s 0" % (c1, m1), "unlock %s 0" % m1, "signal %s 0" % c1,
                    "lock %s 0" % m2, "wait %s %s 0" % (c2, m2), "bcast %s 0" % c2, "unlock %s 0" % m2, "signal %s 0" % c1, "ident2", "ident"])
    out.append(["ident2", "ident", "ident2"])
    out.append(["ident", "ident2", "ident"])
    return out


def gen_case(rng, chk, n):
    ops = []
    for _ in range(n):
        k = rng.choice(["wait", "wait", "signal", "bcast", "lock", "trylock", "unlock", "newc", "newm", "freec", "freem", "ident"])
        r = rng.random()
        rc = 0 if r < 0.35 else rng.choice(RCS) if r < 0.8 else rng.randrange(-5, 200)
        chk.bump("op:" + k)
        chk.bump("rc:zero" if rc == 0 else "rc:nonzero")
        if k == "wait":
            ops.append("wait %s %s %d" % (rng.choice(SEL), rng.choice(SEL), rc))
        elif k in ("newc", "newm"):
            ops.append("%s %d %d" % (k, rng.randrange(2), rc))
        elif k == "ident":
            ops.append(rng.choice(["ident", "ident2"]))
        elif k in ("freec", "freem"):
            ops.append("%s %s %d" % (k, rng.choice(SEL1), rc))
        else:
            ops.append("%s %s %d" % (k, rng.choice(SEL), rc))
    return ops


def signature_of(ops, r):
    return None


def spec_scan(chk, fam, cases, label):
    """implementation against the SPEC column alone, every line of every case.  diffrun.judge stops at the first line
    where the model (not the implementation) leaves the spec — with a wrapper the translator does not recognise that is
    the first call of it, and a later line where the implementation itself leaves the spec (a pointer into the object
    that was not passed) would go unreported.  Returns True when a concrete failing input was reported."""
    found = False
    for ops in cases:
        text = "".join(o + "\n" for o in ops)
        crc, cout, cerr = fam.run_c(text)
        mrc, mout, merr = fam.run_m(text)
        if mrc != 0:
            continue
        for i, (c, m) in enumerate(zip(cout.splitlines(), mout.splitlines())):
            mm, sp = diffrun.split_model_line(m)
            spec_line = sp if sp is not None else mm
            if not spec_match(ops[i], c, spec_line):
                small = diffrun.shrink(fam_spec_only(fam), ops[:i + 1], "spec", budget=40, wall_s=20.0)
                if chk.violation("\n".join(small) + "\n", "%s spec: op %r: implementation %r, spec %r (model %r)" % (label, ops[i], c, spec_line, mm)):
                    found = True
                break
        if len(chk.violations) >= 3:
            break
    return found


class fam_spec_only:
    """a view of a Family whose judge-relevant model answer IS the spec answer (for shrinking a spec-only failure)"""

    def __init__(self, fam):
        self.name, self.exe, self.env, self.timeout = fam.name, fam.exe, fam.env, fam.timeout
        self.spec_view, self.spec_match, self.crash_is_violation = fam.spec_view, fam.spec_match, fam.crash_is_violation
        self.run_c = fam.run_c

    def run_m(self, text):
        rc, out, err = pv.run_model(self.name, text)
        lines = []
        for l in out.splitlines():
            mm, sp = diffrun.split_model_line(l)
            lines.append(sp if sp is not None else mm)
        return rc, "".join(l + "\n" for l in lines), err


# ---------------------------------------------------------------------------------------------
# real-thread runs

def spec_match(op, c, sp):
    """the spec names the pointer a native call must get as object+offset; the offset is a layout fact the translator reads
    from the struct.  When the translator does not know the layout the spec prints `?`: any pointer into an object is then
    accepted at that place (the `ident` line still demands the SAME pointer in wait, signal and broadcast)"""
    if "?" not in sp:
        return c == sp
    import re
    return re.fullmatch(re.escape(sp).replace(r"\?", r"[CM]2?\+\d+"), c) is not None


def rt_configs(rng, thorough):
    cfgs = []
    items = 6000 if thorough else 1200
    nm = [(1, 1), (2, 3), (8, 8), (1, 8), (8, 1), (5, 7), (3, 2)] if thorough else [(1, 1), (8, 8), (1, 8), (8, 1), (2, 3)]
    for (n, m) in nm:
        for c in (1, 2, 7):
            for bc in (0, 1):
                cfgs.append(["pc", n, m, c, items, bc])
    for _ in range(16 if thorough else 4):
        cfgs.append(["pc", rng.randrange(1, 9), rng.randrange(1, 9), rng.choice([1, 2, 7]), rng.randrange(1, 2 * items), rng.randrange(2)])
    cfgs += [["ec", 8, 8, items], ["ec", 1, 8, items], ["ec", 8, 1, items], ["ec", rng.randrange(1, 9), rng.randrange(1, 9), rng.randrange(1, 2 * items)]]
    cfgs += [["gate", 8, 1000 if thorough else 100], ["gate", rng.randrange(2, 9), 50], ["gate", 1, 50]]
    cfgs += [["gate", 32, 60 if thorough else 12, "u"], ["gate", 64, 30 if thorough else 6, "u"], ["gate", rng.randrange(2, 17), 40, "u"]]
    cfgs += [["trylock", 3000 if thorough else 300]]
    # wake-up issued after unlocking (signal as well as broadcast), one condition variable with two mutexes in turn,
    # several independent monitors at the same time, more than 256 simultaneous waiters
    cfgs += [["pc", 8, 8, 2, items, 0, "u"], ["pc", 2, 3, 1, items, 1, "u"], ["pc", rng.randrange(1, 9), rng.randrange(1, 9), rng.choice([1, 2, 7]), items, rng.randrange(2), "u"],
             ["ec", 8, 8, items, "u"], ["ec", 1, 8, items, "u"], ["ec", 8, 1, items, "u"]]
    cfgs += [["rebind", 3000 if thorough else 400], ["pairs", 8, 2000 if thorough else 300], ["pairs", rng.randrange(2, 33), 200], ["pairs", 1, 300]]
    cfgs += [["gate", 300, 4 if thorough else 2, "u"], ["gate", 257, 4 if thorough else 2]]
    return [[str(x) for x in c] for c in cfgs]


def rt_run(exe, args, watchdog):
    env = {"PV_WATCHDOG": str(watchdog), "TSAN_OPTIONS": "exitcode=66:halt_on_error=0"}
    rc, out, err = pv.run_proc([exe] + args, "", timeout=watchdog + 15, env=env)
    line = out.strip().splitlines()[-1] if out.strip() else ""
    bad = None
    if rc == -999:
        bad = "HANG: the run did not finish within %d s (no answer from the watchdog either)" % (watchdog + 15)
    elif "ThreadSanitizer" in err:
        bad = "ThreadSanitizer report:\n" + err[-2500:]
    elif rc != 0 or not line.startswith("ok "):
        bad = "real-thread run failed (rc=%s): %s\n%s" % (rc, line or "<no output>", err[-2000:])
    return bad, line


def real_threads(chk, cfg, thorough):
    """returns True when a concrete failing run was reported"""
    builds = [("asan", "gcc")]
    builds.append(("tsan", "clang-14"))
    found = False
    stats = {}
    watchdog = 60 if thorough else 20
    cfgs = rt_configs(chk.rng, thorough)
    for san, cc in builds:
        try:
            exe = pv.build_harness("condvar_rt", cfg, ["condvar_rt.c"], repo_files=FILES, san=san, cc=cc)
        except pv.BuildError as e:
            chk.violation(str(e), "real-thread harness (%s) does not build against the current source" % san, no_input=True, suffix="txt")
            continue
        mine = cfgs if (thorough or san == "asan") else [c for i, c in enumerate(cfgs) if i % 2 == 0 or c[0] in ("gate", "trylock", "rebind", "pairs")]
        reps = 6 if thorough else 1
        jobs = [c for c in mine for _ in range(reps)]
        # short programs first; stop a build at the first chunk that shows a failure (a broken
        # library makes most runs hang for the whole watchdog time)
        jobs.sort(key=lambda a: (a[0] == "pc", int(a[4]) if a[0] == "pc" else 0))
        stop = False
        for k in range(0, len(jobs), 8):
            chunk = jobs[k:k + 8]
            with ThreadPoolExecutor(max(2, min(8, pv.NCPU // 2))) as ex:
                res = list(ex.map(lambda a: rt_run(exe, a, watchdog), chunk))
            for args, (bad, line) in zip(chunk, res):
                text = " ".join(args)
                chk.count("rt %s %s" % (san, text))
                chk.bump("rt:%s:%s" % (san, args[0]))
                stats[san] = stats.get(san, 0) + 1
                if bad is None:
                    chk.cov["traces_validated_against_impl"] += 1
                    if args[0] == "pc":
                        chk.sample("rt[%s] %s -> %s" % (san, text, line), cap=8)
                    continue
                stop = True
                if len([v for v in chk.violations]) < 6 and chk.violation(text + "\n", "real threads (%s build), program `condvar_rt %s`: %s" % (san, text, bad)):
                    found = True
            if stop:
                break
    chk.cov["real_thread_runs"] = stats
    return found


def model_schedules(chk, thorough):
    """the client model under random schedules: must always end in the final state, in order"""
    rng = chk.rng
    n = 600 if thorough else 200
    ops, exp = [], []
    for _ in range(n):
        N, M, C = rng.randrange(1, 6), rng.randrange(1, 6), rng.choice([1, 2, 7])
        items, bc, seed, spur = rng.randrange(1, 7), rng.randrange(2), rng.randrange(1, 10**9), rng.choice([0, 0, 3, 25])
        ops.append("pcrun %d %d %d %d %d %d %d" % (N, M, C, items, bc, seed, spur))
        exp.append(N * items)
    rc, out, err = pv.run_model("condvar", "".join(o + "\n" for o in ops))
    lines = out.splitlines()
    bad = None
    if rc != 0 or len(lines) != len(ops):
        bad = (ops[:1], "driver failed on the scheduler-driven runs rc=%s %s" % (rc, err[-300:]))
    else:
        for o, l, k in zip(ops, lines, exp):
            chk.count(o)
            chk.bump("model-schedule")
            if not (l.startswith("pcrun final ") and " consumed=%d produced=%d inorder=1 " % (k, k) in l):
                bad = ([o], "client model under a random schedule did not reach the final state with everything exchanged: %s" % l)
                break
    chk.cov["model_schedules"] = len(ops)
    return bad


def run(chk):
    cfg = pv.repo_config()
    proof_ok, driver_ok, detail = pv.proof_stage(chk, ["PV.Props.C03"])
    thorough = chk.tier == "thorough"
    found, corr, thm = False, None, None
    try:
        exe = pv.build_harness("condvar", cfg, ["condvar.c"], repo_files=FILES, san="asan", link=["-Wl,--wrap=" + w for w in WRAPPED])
    except pv.BuildError as e:
        chk.violation(str(e), "harness for C03 does not build against the current source", no_input=True, suffix="txt")
        exe = None
    if exe is not None and driver_ok:
        fam = diffrun.Family("condvar", exe, timeout=10, spec_match=spec_match)   # a scripted call never blocks: 10 s means a hang
        cases = pv.load_corpus("C03")
        ex = list(exhaustive()) + cross_object()
        chk.cov["exhaustive_small_scope"] = {"return_codes": RCS, "cases": len(ex),
                                             "what": "every wrapper x every choice of first object / second object / NULL per argument x every listed native return code, "
                                                     "each followed by the pointer-identity probes (within one object pair and across the two pairs); "
                                                     "directed sequences that use one condition variable with both mutexes and both condition variables with one mutex"}
        nr = 1500 if thorough else 400
        rnd = [gen_case(chk.rng, chk, chk.rng.choice([3, 8, 25])) for _ in range(nr)]
        found, corr, thm = diffrun.campaign(chk, fam, cases + ex + rnd, proof_ok, detail, signature_of, "C03 wrapper mapping", batch=40)
        if not found and spec_scan(chk, fam, cross_object() + ex[:40], "C03 wrapper mapping (spec column)"):
            found = True
        if driver_ok:
            bad = model_schedules(chk, thorough)
            if bad is not None and thm is None:
                thm = (bad[0], {"detail": bad[1], "at": 0})
    t0 = time.time()
    if real_threads(chk, cfg, thorough):
        found = True
    chk.cov["real_thread_wall_s"] = round(time.time() - t0, 1)
    diffrun.conclude(chk, found, corr, thm, proof_ok and driver_ok, detail, "C03 condition variable")
    chk.cov["rule"] = ("(a) wrapper mapping: op files of wrapper calls with scripted native return codes and NULL / object arguments; exhaustive over "
                       "calls x NULL combinations x %d return codes, plus random sequences; distinct by op-file hash, non-trivial = more than one op; "
                       "(b) client model: random schedules (LCG seeds) of the executable transition system, N, M <= 5, C in {1,2,7}, <= 25 spurious wake-ups, "
                       "must end final with everything exchanged in order; (c) real threads: bounded buffer N, M <= 8, C in {1,2,7}, signal and broadcast, "
                       "sequence-numbered items, event counter, one-broadcast gate (up to 300 waiters), trylock-after-wake, wake-ups issued inside and after the critical section, "
                       "one condition variable with two mutexes in turn, up to 32 independent monitors at once, threads-inside-the-section counter, under ASan and ThreadSanitizer; "
                       "each parameter tuple x build is one case" % len(RCS))
    chk.cov["exhaustive"] = False
    chk.assumptions += [
        "pthread condition variables implement the Mesa contract: pthread_cond_wait releases the mutex and joins the wait-set atomically, "
        "returns only after re-acquiring it; pthread_cond_signal wakes at least one waiter if any; pthread_cond_broadcast wakes all; spurious wake-ups allowed",
        "pthread mutexes per POSIX (default type): lock blocks until free, unlock by the owner frees",
        "x86-64 Linux / glibc layouts: sizeof and offsets are taken from the compilers used for the harness (gcc) and the record-layout dump (clang-14)",
        "allocation failure is scripted only for the two constructors (C18 covers the rest); threads are created with pthread_create directly (C05 covers PUThread)",
        "real-thread runs are one-sided: passing them proves nothing, a hang / lost item / TSan report is a concrete failing run"]
    return finish(chk)


def finish(chk):
    try:
        return chk.finish()
    except KeyError:
        # pv.Check.finish logs cov["discharged"] after moving it to "proof_broken" when the proof
        # did not check; the evidence file is already written at that point
        return 1 if chk.violations else 0


def replay(chk, path):
    cfg = pv.repo_config()
    lines = [l.strip() for l in open(path) if l.strip() and not l.startswith("#")]
    rt = [l for l in lines if l.split()[0] in ("pc", "ec", "gate", "trylock", "rebind", "pairs")]
    rc = 0
    if rt:
        for san, cc in (("asan", "gcc"), ("tsan", "clang-14")):
            exe = pv.build_harness("condvar_rt", cfg, ["condvar_rt.c"], repo_files=FILES, san=san, cc=cc)
            for l in rt:
                bad, line = rt_run(exe, l.split(), 30)
                print("[%s] %s -> %s" % (san, l, bad or line))
                rc |= 1 if bad else 0
    ops = [l for l in lines if l not in rt]
    if ops:
        pv.lake_build(["pvdriver"])
        exe = pv.build_harness("condvar", cfg, ["condvar.c"], repo_files=FILES, san="asan", link=["-Wl,--wrap=" + w for w in WRAPPED])
        r = diffrun.judge(diffrun.Family("condvar", exe, timeout=10, spec_match=spec_match), ops)
        print(r or "all answers agree")
        rc |= 1 if r else 0
    return rc

"""System V variants of PSemaphore / PShm (psemaphore-sysv.c, pshm-sysv.c): differential against the SPEC column of
the IPC driver (PV.Spec.IPC) and against the MODEL column of `pvdriver ipcsysv` (PV.Model.IPCSysV).  Implementation vs
spec view -> concrete replay (violation, or KNOWN-FINDING by signature); implementation vs model only -> correspondence
break -> `no-failing-input-found` (conclude_tie) unless a concrete replay was reported as well.

harness/ipc_sysv.c is the server / worker layout of harness/ipc.c linked with the sysv files instead of the posix ones;
every system call of an op is logged through link-time wrappers.  The spec view of a history is what the driver's spec says, minus what the property
statements do not determine for a System V implementation (class `Region`, every rule names its reason):

  T1  acquire/release through a semaphore handle opened before a later CREATE-mode open or owner free of its name
      (C06 speaks about handles opened since the name was last created): sysv keeps such handles on the one set / lets
      them re-create the set, posix leaves them on the unlinked object
  T2  plain free of a handle that opened an EXISTING name in CREATE mode (the statement makes take_ownership the owner
      rule): sysv does not remove the set, posix unlinks
  T3  free of an owner handle of an earlier incarnation after the name was bound again: IPC_RMID of a dead id
  U1  free of the last attached non-owner PShm handle: System V removes the segment at the last detach
  U2  plain free of the creating PShm handle while others are attached: the creator owns the key file only when it
      found one (pshm-sysv.c `file_created = (built == 1)`), the segment lives until the last detach
  U3  lock/unlock through a PShm handle of an earlier incarnation (old and new incarnation share the lock key file)
  U4  free of an owner handle of an earlier PShm incarnation after the name was bound again
  K1  SIGKILL of a process whose acquires and releases on a semaphore (or segment lock) do not cancel: SEM_UNDO takes
      them back, the spec keeps them; the VALUE is not judged until the counter is created again
  U6  (candidate finding, not masked) owner free of a segment while others are attached, then p_shm_new: on a file
      system that reuses inode numbers the new key file yields the old ftok key and the old segment is joined
"""
import copy
import os
import re
import shutil
import tempfile
import itertools
from concurrent.futures import ThreadPoolExecutor

import pv
import diffrun
from props import ipc

NW, NN, NH, PAGE = ipc.NW, ipc.NN, ipc.NH, ipc.PAGE
SEMVMX = 32767

ASSUMPTIONS = [
    "System V variants (psemaphore-sysv.c, pshm-sysv.c, key files of pipc.c): model PV.Model.IPCSysV over an abstract System V machine, theorems PV.Props.C06sysv / C07sysv; every function body is pinned by the translator (Generated/IPCSysV: flags, commands, errno tests, sembuf objects, call-site order); harness/ipc_sysv.c links them instead of the posix files and logs every system call (-Wl,--wrap): each answer line is compared with the model column (correspondence) and, API view, with the spec column",
    "System V contract (trusted): semget/shmget with IPC_CREAT|IPC_EXCL is an atomic test-and-create on the key, semop is atomic, IPC_RMID removes a set at once and a segment at its last detach, ftok keys of the key files in use do not collide (16 inode bits + 8 device bits; the model takes ftok = inode number), SETVAL clears the SEM_UNDO adjustments, a dead id answers EINVAL (EIDRM only for a sleeper), permission checks never fail (the check runs as root)",
    "System V model: whether a new key file gets the inode number of an unlinked one is an oracle of the model (OS.reuse); histories on the inode-reusing file system are tied to the model only for the recorded finding F15, the others run on tmpfs (no reuse)",
    "System V build: key files in $TMPDIR (the harness builds the library with glibc's P_tmpdir undefined so that p_ipc_unix_get_temp_dir honours $TMPDIR; campaigns run in a private tmpfs directory, the inode-reuse probe in a private directory of the check's cache)",
    "System V: counter values are limited to SEMVMX = 32767 (semctl SETVAL fails with ERANGE above): histories use initial values <= 300",
    "System V: not judged because the statements do not determine it (rules T1-T3, U1-U4 of tools/props/ipc_sysv.py): handles opened before a CREATE-mode open / owner free of their name; plain free of a CREATE-on-existing handle; removal of a segment at its last detach; plain free of the creating PShm handle while others are attached; owner handles of an earlier incarnation",
    "System V: SEM_UNDO gives back the units of a killed process; after a SIGKILL of a process with a non-zero balance on a counter its value is not judged until the counter is created again (K1); binding, sizes, bytes and the recovery sequence are judged",
    "System V: a READWRITE open of a segment created READONLY (mode 0444) needs CAP_IPC_OWNER: READONLY creators are exercised only when the check runs as root",
]

HDR = os.path.join(pv.HARNESS, "sysv_tmpdir.h")
ROOT = os.geteuid() == 0      # a segment created READONLY has mode 0444: only CAP_IPC_OWNER can then attach it READWRITE


WRAP = ["open", "close", "stat", "ftok", "unlink", "semget", "semctl", "semop", "shmget", "shmctl", "shmat", "shmdt"]


def build(cfg):
    files = [f for f in cfg["sources"] if f not in ("psemaphore-posix.c", "pshm-posix.c")] + ["psemaphore-sysv.c", "pshm-sysv.c"]
    return pv.build_harness("ipc_sysv", cfg, ["ipc_sysv.c"], repo_files=files, san="asan", extra=["-include", HDR],
                            link=["-Wl," + ",".join("--wrap=" + w for w in WRAP)])


# ---------------------------------------------------------------------------------------------
# what the statements determine: a simulation of the spec's name/handle bookkeeping with the System V rules on top

class Region:
    def __init__(self, inode_reuse=False):
        self.hs = {}             # handle -> dict(k, w, n, inc, own, explicit, ce, stale)
        self.sem, self.shm = {}, {}      # name -> incarnation
        self.ctr, self.lock, self.segsize = {}, {}, {}
        self.nxt = 0
        self.bt = {}             # ('s'|'m', name) -> rule: binding no longer determined (for the rest of the history)
        self.vt = {}             # ('s'|'m', name) -> rule: value not determined until the counter is created again
        self.adj = {}            # (worker, kind, name) -> acquires - releases on the current counter
        self.hname = {}          # shm handle id -> name (kept after free for masking old obs lines: rebuilt per snapshot)
        self.inode_reuse = inode_reuse
        self.hazard = set()      # shm names whose key file was unlinked while a handle stayed attached

    # -- helpers
    def live(self, inc, kind, but=None):
        return [h for h, x in self.hs.items() if x["inc"] == inc and x["k"] == kind and h != but]

    def _reset_adj(self, kind, n):
        for key in [k for k in self.adj if k[1] == kind and k[2] == n]:
            del self.adj[key]

    def taint(self, kind, n, rule):
        self.bt.setdefault((kind, n), rule)

    # -- one op; returns False when the ANSWER of this op is not determined either
    def apply(self, op):
        t = op.split()
        if not t or t[0] in ("obs", "reset") or len(t) < 2:
            return True
        w = int(t[0])
        if t[1] == "kill":
            for (ww, kind, n), v in list(self.adj.items()):
                if ww == w:
                    if v != 0 and n in (self.sem if kind == "s" else self.shm):
                        self.vt.setdefault((kind, n), "K1")
                    del self.adj[(ww, kind, n)]
            for h in [h for h, x in self.hs.items() if x["w"] == w]:
                del self.hs[h]
            return True
        a, h = t[1], int(t[2])
        if a == "new-sem":
            n, init, create = int(t[3][1:]), int(t[4]), t[5] == "CREATE"
            if h in self.hs:
                return True
            existing = n in self.sem
            if existing and not create:
                self.hs[h] = dict(k="s", w=w, n=n, inc=self.sem[n], own=False, explicit=False, ce=False, stale=False)
            else:
                if existing:
                    for o in self.live(self.sem[n], "s"):
                        self.hs[o]["stale"] = "create"
                self.nxt += 1
                self.sem[n] = self.nxt
                self.ctr[self.nxt] = init
                self.hs[h] = dict(k="s", w=w, n=n, inc=self.nxt, own=True, explicit=False, ce=existing, stale=False)
                self.vt.pop(("s", n), None)
                self._reset_adj("s", n)
            return ("s", n) not in self.bt
        if a == "new-shm":
            n, size = int(t[3][1:]), int(t[4])
            if h in self.hs:
                return True
            if n in self.shm:
                i = self.shm[n]
                real = self.segsize[i]
                self.hs[h] = dict(k="m", w=w, n=n, inc=i, own=False, explicit=False, ce=False, stale=False,
                                  size=real if size == 0 or real < size else size)
            elif size != 0:
                if self.hazard and self.inode_reuse:
                    # ANY new key file can get the inode (hence the ftok key) of the unlinked one: this name too
                    self.taint("m", n, "U6")
                self.nxt += 1
                self.shm[n] = self.nxt
                self.segsize[self.nxt] = size
                self.lock[self.nxt] = 1
                self.hs[h] = dict(k="m", w=w, n=n, inc=self.nxt, own=True, explicit=False, ce=False, stale=False, size=size)
                self.vt.pop(("m", n), None)
                self._reset_adj("m", n)
            return ("m", n) not in self.bt
        x = self.hs.get(h)
        if x is None or x["w"] != w:
            return True
        kind, n = x["k"], x["n"]
        names = self.sem if kind == "s" else self.shm
        cur = names.get(n) == x["inc"]
        if a in ("acq", "rel") and kind == "s":
            if not cur or x["stale"]:
                self.taint("s", n, "T1")
            else:
                self.adj[(w, "s", n)] = self.adj.get((w, "s", n), 0) + (1 if a == "acq" else -1)
                self.ctr[x["inc"]] += -1 if a == "acq" else 1
            return ("s", n) not in self.bt and not (a == "acq" and ("s", n) in self.vt)
        if a in ("lock", "unlock") and kind == "m":
            if not cur:
                self.taint("m", n, "U3")
            else:
                self.adj[(w, "m", n)] = self.adj.get((w, "m", n), 0) + (1 if a == "lock" else -1)
                self.lock[x["inc"]] += -1 if a == "lock" else 1
            return ("m", n) not in self.bt and not (a == "lock" and ("m", n) in self.vt)
        if a == "own":
            x["own"], x["explicit"], x["ce"] = True, True, False
            return (kind, n) not in self.bt
        if a == "free":
            del self.hs[h]
            others = self.live(x["inc"], kind)
            if kind == "s":
                if x["own"]:
                    if x["ce"]:
                        self.taint("s", n, "T2")
                    elif not cur and x["stale"] == "free" and n in self.sem:
                        self.taint("s", n, "T3")
                    if n in self.sem:
                        # System V: every handle of the name, whatever its spec incarnation, sits on the set that goes now
                        for o, y in self.hs.items():
                            if y["k"] == "s" and y["n"] == n:
                                y["stale"] = "free"
                        del self.sem[n]
                    self._reset_adj("s", n)
            else:
                if x["own"]:
                    if not x["explicit"] and others:
                        self.taint("m", n, "U2")
                    if not cur and n in self.shm:
                        self.taint("m", n, "U4")
                    if n in self.shm:
                        if self.live(self.shm[n], "m"):
                            self.hazard.add(n)
                            if self.inode_reuse:
                                self.taint("m", n, "U6")
                        for o in self.live(self.shm[n], "m"):
                            self.hs[o]["stale"] = "free"
                        del self.shm[n]
                    self._reset_adj("m", n)
                elif not others and cur:
                    self.taint("m", n, "U1")
            return (kind, n) not in self.bt
        return (kind, n) not in self.bt      # wr / rd / size

    def snapshot(self):
        return dict(bt=set(self.bt), vt=set(self.vt), hn={h: x["n"] for h, x in self.hs.items() if x["k"] == "m"})


def regions(ops, inode_reuse=False):
    """per op: (answer judged?, snapshot after the op); `reset` starts a new history"""
    out, r = [], Region(inode_reuse)
    for o in ops:
        if o.strip() == "reset":
            r = Region(inode_reuse)
            out.append((True, r.snapshot()))
            continue
        ok = r.apply(o)
        out.append((ok, r.snapshot()))
    return out


def mask_obs(line, snap):
    """the api part of an obs line with every field the statements do not determine replaced / removed"""
    toks = []
    for tk in line.split():
        m = re.match(r"s(\d+)=(.*)$", tk)
        if m:
            n = int(m.group(1))
            if ("s", n) in snap["bt"]:
                tk = "s%d=?" % n
            elif ("s", n) in snap["vt"] and m.group(2) != "-":
                tk = "s%d=?v" % n
            toks.append(tk)
            continue
        m = re.match(r"m(\d+)=(.*)$", tk)
        if m:
            n = int(m.group(1))
            if ("m", n) in snap["bt"]:
                tk = "m%d=?" % n
            elif ("m", n) in snap["vt"] and "/" in m.group(2):
                tk = "m%d=%s/?v" % (n, m.group(2).split("/")[0])
            toks.append(tk)
            continue
        m = re.match(r"H(\d+)@", tk)
        if m:
            n = snap["hn"].get(int(m.group(1)))
            if n is not None and ("m", n) in snap["bt"]:
                continue
            toks.append(tk)
            continue
        m = re.match(r"w\d+:m(\d+)#", tk)
        if m and ("m", int(m.group(1))) in snap["bt"]:
            continue
        toks.append(tk)
    return " ".join(toks)


# ---------------------------------------------------------------------------------------------
# running both sides

_counter = itertools.count()


class Fam:
    """harness runs in a private key-file directory; whatever a run leaves behind is removed and counted"""

    def __init__(self, exe, ext4=False, timeout=120):
        self.exe, self.ext4, self.timeout = exe, ext4, timeout
        self.leftovers = 0
        self.runs = 0
        self.corr = []           # implementation / System V model differences: (ops up to the difference, dict(kind='model', …))
        self.model_checked = 0   # answer lines compared with the model column

    def model_lines(self, ops):
        """model column of `pvdriver ipcsysv` (PV.Model.IPCSysV; inode numbers reused when the key files live on such a file system)"""
        rc, out, err = pv.run_model("ipcsysv-reuse" if self.ext4 else "ipcsysv", "".join(o + "\n" for o in ops))
        return rc, [diffrun.split_model_line(l)[0] for l in out.splitlines()], err

    def run_c(self, text):
        base = pv.CACHE if self.ext4 or not os.path.isdir("/dev/shm") else "/dev/shm"
        d = tempfile.mkdtemp(prefix="pvsysv-%d-%d-" % (os.getpid(), next(_counter)), dir=base)
        idlog = d + ".ids"
        env = {"TMPDIR": d, "PVIPC_IDLOG": idlog}
        try:
            rc, out, err = pv.run_proc([self.exe], text, self.timeout, env)
        finally:
            try:
                open(idlog, "a").close()
                r2, o2, e2 = pv.run_proc([self.exe, "cleanup", d, idlog], "", 30, None)
                if r2 == 0 and o2.strip().isdigit():
                    self.leftovers += int(o2.strip())
            except Exception:
                pass
            shutil.rmtree(d, ignore_errors=True)
            try:
                os.unlink(idlog)
            except OSError:
                pass
        self.runs += 1
        return rc, out, err

    def spec_lines(self, ops):
        rc, out, err = pv.run_model("ipc", "".join(o + "\n" for o in ops))
        res = []
        for l in out.splitlines():
            m, sp = diffrun.split_model_line(l)
            res.append(sp if sp is not None else ipc.spec_view("", m))
        return rc, res, err


def judge(fam, ops, masked=True, tie=True):
    """implementation(sysv) against the spec view.  None, or dict(kind='spec'|'crash'|'driver', at, detail, impl, spec)"""
    ops = list(ops)
    text = "".join(o + "\n" for o in ops)
    crc, cout, cerr = fam.run_c(text)
    mrc, sl, merr = fam.spec_lines(ops)
    if mrc != 0:
        return {"kind": "driver", "at": len(sl), "detail": "model driver failed rc=%s %s" % (mrc, merr[-300:])}
    cl = [ipc.spec_view("", l) for l in cout.splitlines()]
    if tie and getattr(fam, "tie", True):
        model_tie(fam, ops, cout.splitlines())
    reg = regions(ops, fam.ext4) if masked else [(True, dict(bt=set(), vt=set(), hn={}))] * len(ops)
    for i in range(min(len(cl), len(sl), len(ops))):
        ok, snap = reg[i]
        c, s = cl[i], sl[i]
        waits = s in ("would-block", "out-of-fuel") or s.endswith("would-block")
        if ops[i].strip() == "obs":
            c, s = mask_obs(c, snap), mask_obs(s, snap)
        elif not ok:
            if waits or c in ("TIMEOUT", "died"):
                # the driver stops here / the worker was lost in a wait the statements do not determine (its other
                # handles went with it): nothing after this op can be judged
                return None
            continue
        if waits:
            return None if c in ("TIMEOUT",) else {"kind": "spec", "at": i, "impl": c, "spec": s,
                                                    "detail": "op %r: implementation(sysv) %r where the spec has the call wait" % (ops[i], c)}
        if c != s:
            return {"kind": "spec", "at": i, "impl": c, "spec": s,
                    "detail": "op %r: implementation(sysv) %r, spec %r" % (ops[i], c, s)}
    if diffrun.is_crash(crc) or crc != 0:
        return {"kind": "crash", "at": len(cl), "impl": "rc=%s" % crc, "spec": "",
                "detail": "implementation(sysv) exit status %s after %d answers (op %r):\n%s" % (crc, len(cl), ops[len(cl)] if len(cl) < len(ops) else "<exit>", cerr[-2000:])}
    if len(cl) < min(len(sl), len(ops)):
        return {"kind": "crash", "at": len(cl), "impl": "<end>", "spec": sl[len(cl)], "detail": "implementation(sysv) stopped answering after %d lines" % len(cl)}
    return None


_FAILCODE = re.compile(r"fail \d+/")


def model_tie(fam, ops, clines):
    """implementation against the MODEL column (system calls, results, observer views), line by line and unmasked: the
    model speaks about every history, also where the statements determine nothing.  A difference is a correspondence
    break (recorded, never a violation by itself).  Comparison stops where the model has the call wait."""
    mrc, ml, merr = fam.model_lines(ops)
    if mrc != 0:
        fam.corr.append((list(ops), {"kind": "model", "at": len(ml), "detail": "pvdriver ipcsysv failed rc=%s %s" % (mrc, merr[-300:])}))
        return
    for i in range(min(len(clines), len(ml), len(ops))):
        m = ml[i]
        if m.endswith("would-block") or m.endswith("out-of-fuel"):
            return
        c = _FAILCODE.sub("fail /", clines[i])
        if c.endswith("=> TIMEOUT") or c.endswith("=> died"):
            fam.corr.append((list(ops[: i + 1]), {"kind": "model", "at": i, "detail": "op %r: implementation(sysv) %r, System V model %r" % (ops[i], c, m)}))
            return
        fam.model_checked += 1
        if c != m:
            fam.corr.append((list(ops[: i + 1]), {"kind": "model", "at": i, "detail": "op %r: implementation(sysv) %r, System V model %r" % (ops[i], c, m)}))
            return


def shrink(fam, ops, r, budget=50, wall_s=40.0):
    """delta debugging keeping the kind of failure; never accepts a candidate the spec would make wait;
    bounded in tries and wall-clock time (an edit that makes every run crawl must not turn the check into hours)"""
    import time
    t_end = time.time() + wall_s
    def ok(c):
        r2 = judge(fam, c, tie=False)
        return r2 is not None and r2["kind"] == r["kind"] and "TIMEOUT" not in r2.get("impl", "") and "wait" not in r2["detail"]
    hung = "TIMEOUT" in r.get("impl", "")
    cur = list(ops[: r["at"] + 1])
    if hung:
        return cur
    tries, chunk = 0, max(1, len(cur) // 2)
    while chunk >= 1 and tries < budget and time.time() < t_end:
        i, progressed = 0, False
        while i < len(cur) and tries < budget and time.time() < t_end:
            cand = cur[:i] + cur[i + chunk:]
            if not cand:
                i += chunk
                continue
            tries += 1
            if ok(cand):
                cur, progressed = cand, True
            else:
                i += chunk
        if chunk == 1 and not progressed:
            break
        chunk = max(1, chunk // 2) if chunk > 1 else (1 if progressed else 0)
    return cur


def drop_waits(ops, inode_reuse=False):
    """without the acquires / locks whose outcome the statements do not determine (they may wait for ever under
    System V: T1, U3, K1); by the Region rules alone, no model run"""
    ops = list(ops)
    for _ in range(6):
        reg = regions(ops, inode_reuse)
        bad = set(i for i, o in enumerate(ops) if len(o.split()) == 3 and o.split()[1] in ("acq", "lock") and not reg[i][0])
        if not bad:
            break
        ops = [o for i, o in enumerate(ops) if i not in bad]
    return ops


def prefilter(ops, rounds=8):
    """drop what the driver rejects or would make wait, and waits on counters whose value is not determined (K1)"""
    ops = list(ops)
    for _ in range(rounds):
        ml = ipc.model_lines(ops)
        reg = regions(ops)
        bad = set(i for i, l in enumerate(ml) if l == "bad-op" or "would-block" in l or "out-of-fuel" in l or l.split(" SPECDIFF")[0].endswith("=> fault"))
        for i, o in enumerate(ops):
            t = o.split()
            if len(t) == 3 and t[1] in ("acq", "lock") and i < len(reg) and not reg[i][0]:
                bad.add(i)
        if not bad:
            return ops
        ops = [o for i, o in enumerate(ops) if i not in bad]
    return ops


class Runner:
    def __init__(self, chk, fam, label):
        self.chk, self.fam, self.label = chk, fam, label
        self.reported = 0
        self.validated = 0
        self.cases = 0
        import time
        self.t0 = time.time()

    def enough(self):
        import time
        return self.reported >= 3 or (self.reported >= 1 and time.time() - self.t0 > 120)

    def one(self, ops):
        r = judge(self.fam, ops)
        if r is None:
            self.validated += 1
            return None
        if r["kind"] == "driver":
            pv.log("[%s] %s" % (self.label, r["detail"]))
            return r
        small = shrink(self.fam, ops, r)
        r2 = judge(self.fam, small) or r
        self.reported += 1
        self.new_violations = getattr(self, "new_violations", 0) + 1
        self.chk.violation("\n".join(small) + "\n# replay: TMPDIR=<empty dir> %s < this file   (harness/ipc_sysv.c, System V variant)\n" % os.path.basename(self.fam.exe),
                           "%s System V variant, %s: %s" % (self.label, r2["kind"], r2["detail"]))
        return r2

    def run(self, cases, batch=10, parallel=4):
        cases = [list(c) for c in cases]
        groups = list(diffrun.batches(cases, batch)) if batch > 1 else [[c] for c in cases]

        def jg(g):
            joined = []
            for c in g:
                joined += c + ["reset"]
            return judge(self.fam, joined if len(g) > 1 else g[0])

        for i in range(0, len(groups), parallel * 2):
            if self.enough():
                break
            chunk = groups[i:i + parallel * 2]
            with ThreadPoolExecutor(parallel) as ex:
                verdicts = list(ex.map(jg, chunk))
            for g, v in zip(chunk, verdicts):
                for c in g:
                    self.chk.count("sysv\n" + "\n".join(c), nontrivial=len(c) > 1)
                    self.cases += 1
                if v is None:
                    self.validated += len(g)
                else:
                    alone = 0
                    for c in g:
                        if self.enough():
                            break
                        if self.one(c) is not None:
                            alone += 1
                    if not alone and not self.enough():
                        joined = []
                        for c in g:
                            joined += c + ["reset"]
                        self.one(joined)


# ---------------------------------------------------------------------------------------------
# API-level differences of the unchanged System V code: probes (unmasked comparison at one op)

def probe(chk, fam, sig, klass, ops, at, what):
    """run `ops` unmasked; the difference (if any) at op index `at` is recorded under `sig`.
    klass 'outside': the statements do not determine the answer (documentation of the difference only).
    klass 'candidate': the statement text seems to demand the spec's answer: reported as a violation with this
    signature when known_findings.json lists it (KNOWN-FINDING) or VERIF_SYSV_STRICT=1, else recorded as pending."""
    text = "".join(o + "\n" for o in ops)
    crc, cout, cerr = fam.run_c(text)
    mrc, sl, merr = fam.spec_lines(ops)
    cl = [ipc.spec_view("", l) for l in cout.splitlines()]
    model_tie(fam, ops, cout.splitlines())      # the recorded histories are the witnesses of the `…_false` theorems: the model must reproduce them
    c = cl[at] if at < len(cl) else "<none>"
    s = sl[at] if at < len(sl) else "<none>"
    seen = c != s
    chk.count("sysv-probe\n" + text, nontrivial=True)
    rec = chk.cov.setdefault("sysv_api_differences", {})
    rec[sig] = {"class": klass, "seen": seen, "what": what, "op": ops[at], "implementation": c[:200], "spec": s[:200], "replay": ops}
    if seen and klass == "candidate":
        listed = any(f.get("signature") == sig for f in chk.kf)
        if listed or os.environ.get("VERIF_SYSV_STRICT"):
            chk.violation(text, "%s (System V variant): op %r answered %r, the statement read literally demands %r" % (what, ops[at], c, s), signature=sig)
        else:
            pv.log("[%s] SYSV-DIFFERENCE pending decision, signature=%s: %s" % (chk.prop, sig, what))
    return seen


# ---------------------------------------------------------------------------------------------
# generator: random histories inside what the statements determine (plus kills: K1)

SIZES = ipc.SIZES


def gen_history(rng, chk, n, sem_w=1.0, shm_w=1.0, kills=True, inode_reuse=False):
    reg = Region(inode_reuse)
    ops = []

    def emit(op):
        """append unless the op leaves the determined region; returns True when appended"""
        trial = copy.deepcopy(reg)
        ok = trial.apply(op)
        if len(trial.bt) > len(reg.bt) or not ok:
            return False
        reg.__dict__.update(trial.__dict__)
        ops.append(op)
        return True

    def free_h():
        free = [h for h in range(NH) if h not in reg.hs]
        return rng.choice(free) if free else None

    for _ in range(n):
        r = rng.random() * (sem_w + shm_w)
        w = rng.randrange(NW)
        mine = [h for h, x in reg.hs.items() if x["w"] == w]
        sems = [h for h in mine if reg.hs[h]["k"] == "s"]
        shms = [h for h in mine if reg.hs[h]["k"] == "m"]
        done = False
        if kills and rng.random() < 0.03:
            bal = any(v != 0 for (ww, _, _), v in reg.adj.items() if ww == w)
            if emit("%d kill" % w):
                chk.bump("sysv kill " + ("with a non-zero balance (SEM_UNDO)" if bal else "idle, balanced"))
            continue
        if r < sem_w:
            c = rng.random()
            if c < 0.28 or not sems:
                h = free_h()
                if h is None:
                    continue
                nme, init, create = rng.randrange(NN), rng.choice([0, 1, 1, 2, 3, 3, 300 if rng.random() < 0.3 else 2]), rng.random() < 0.3
                done = emit("%d new-sem %d s%d %d %s" % (w, h, nme, init, "CREATE" if create else "OPEN"))
                if done:
                    chk.bump("sysv new-sem " + ("CREATE" if create else "OPEN") + (" existing" if not reg.hs[h]["own"] or reg.hs[h]["ce"] else " fresh"))
            elif c < 0.52:
                h = rng.choice(sems)
                x = reg.hs[h]
                if reg.sem.get(x["n"]) == x["inc"] and reg.ctr[x["inc"]] > 0 and ("s", x["n"]) not in reg.vt:
                    done = emit("%d acq %d" % (w, h))
            elif c < 0.74:
                h = rng.choice(sems)
                x = reg.hs[h]
                if reg.ctr[x["inc"]] < 6 or reg.ctr[x["inc"]] >= 300:
                    done = emit("%d rel %d" % (w, h))
            elif c < 0.82:
                done = emit("%d own %d" % (w, rng.choice(sems)))
            else:
                h = rng.choice(sems)
                if not emit("%d free %d" % (w, h)):
                    # outside the determined region as a plain free: the documented way is take_ownership first
                    if emit("%d own %d" % (w, h)):
                        done = emit("%d free %d" % (w, h))
                        chk.bump("sysv free sem after take_ownership (plain free not determined)")
                else:
                    done = True
        else:
            c = rng.random()
            if c < 0.22 or not shms:
                h = free_h()
                if h is None:
                    continue
                nme = rng.randrange(NN)
                ro = rng.random() < 0.2 and (ROOT or nme in reg.shm)
                if nme in reg.shm:
                    real = reg.segsize[reg.shm[nme]]
                    size = rng.choice([0, real, max(1, real // 2), real + 1, 1, rng.choice(SIZES), real - 1 if real > 1 else 1, real + PAGE])
                else:
                    size = rng.choice(SIZES + [0] if rng.random() < 0.1 else SIZES)
                done = emit("%d new-shm %d m%d %d%s" % (w, h, nme, size, " ro" if ro else ""))
                if done and h in reg.hs:
                    reg.hs[h]["ro"] = ro
                    chk.bump("sysv new-shm " + ("fresh" if reg.hs[h]["own"] else "existing") + (" READONLY" if ro else ""))
            elif c < 0.45:
                rw = [x for x in shms if not reg.hs[x].get("ro")]
                if rw:
                    h = rng.choice(rw)
                    done = emit("%d wr %d %d %d" % (w, h, ipc.offsets(rng, reg.hs[h]["size"]), rng.choice([0, 255, rng.randrange(256), rng.randrange(1, 256)])))
            elif c < 0.60:
                h = rng.choice(shms)
                done = emit("%d rd %d %d" % (w, h, ipc.offsets(rng, reg.hs[h]["size"])))
            elif c < 0.68:
                h = rng.choice(shms)
                x = reg.hs[h]
                if reg.shm.get(x["n"]) == x["inc"] and reg.lock[x["inc"]] > 0 and ("m", x["n"]) not in reg.vt:
                    done = emit("%d lock %d" % (w, h))
            elif c < 0.78:
                h = rng.choice(shms)
                x = reg.hs[h]
                if reg.shm.get(x["n"]) == x["inc"] and reg.lock[x["inc"]] == 0:
                    done = emit("%d unlock %d" % (w, h))
            elif c < 0.82:
                done = emit("%d size %d" % (w, rng.choice(shms)))
            elif c < 0.88:
                done = emit("%d own %d" % (w, rng.choice(shms)))
            else:
                h = rng.choice(shms)
                if not emit("%d free %d" % (w, h)):
                    if emit("%d own %d" % (w, h)):
                        done = emit("%d free %d" % (w, h))
                        chk.bump("sysv free shm after take_ownership (plain free not determined)")
                else:
                    done = True
        if done:
            ops.append("obs")
    ops.append("obs")
    return ops


def run_stress(chk, exe, args, label):
    d = tempfile.mkdtemp(prefix="pvsysv-%d-%d-" % (os.getpid(), next(_counter)), dir="/dev/shm" if os.path.isdir("/dev/shm") else pv.CACHE)
    try:
        rc, out, err = pv.run_proc([exe] + [str(a) for a in args], "", timeout=240, env={"TMPDIR": d, "PVIPC_IDLOG": d + ".ids"})
        open(d + ".ids", "a").close()
        pv.run_proc([exe, "cleanup", d, d + ".ids"], "", 30, None)
    finally:
        shutil.rmtree(d, ignore_errors=True)
        try:
            os.unlink(d + ".ids")
        except OSError:
            pass
    chk.cov.setdefault("supporting_runs", []).append(out.strip() or ("rc=%s %s" % (rc, err[-200:])))
    if rc != 0:
        chk.violation("%s %s\n%s\n%s" % (exe, " ".join(str(a) for a in args), out, err[-1500:]), "%s (supporting run on real processes, System V variant): %s" % (label, out.strip()), suffix="txt")
    return rc == 0


def ipcs_count():
    """(semaphore sets, segments) whose key was made by ftok (…, 'P') — ours or another plibsys user's"""
    def cnt(path):
        n = 0
        try:
            for l in open(path).read().splitlines()[1:]:
                f = l.split()
                if f and (int(f[0]) >> 24) & 0xff == ord("P"):
                    n += 1
        except (OSError, ValueError):
            pass
        return n
    return cnt("/proc/sysvipc/sem"), cnt("/proc/sysvipc/shm")


def tie_cases(fam, chk, cases, label):
    """correspondence only (crash points, EINTR scripts: the spec column of the posix driver does not speak about them)"""
    def one(c):
        text = "".join(o + "\n" for o in c)
        crc, cout, cerr = fam.run_c(text)
        n0 = len(fam.corr)
        model_tie(fam, c, cout.splitlines())
        if len(fam.corr) == n0 and (crc != 0):
            fam.corr.append((list(c), {"kind": "model", "at": len(cout.splitlines()), "detail": "implementation(sysv) exit status %s: %s" % (crc, cerr[-500:])}))
        return len(fam.corr) == n0
    with ThreadPoolExecutor(4) as ex:
        oks = list(ex.map(one, cases))
    for c, ok in zip(cases, oks):
        chk.count("sysv-tie\n" + "\n".join(c), nontrivial=True)
        if ok:
            chk.cov["traces_validated_against_impl"] += 1
    chk.bump("sysv %s (model tie)" % label, len(cases))


def conclude_tie(chk, fams, R, label):
    """implementation/model differences: a correspondence break -> `no-failing-input-found` unless the campaign already
    produced a concrete replay (DESIGN §2.4)"""
    corr = [c for f in fams for c in f.corr]
    chk.cov["sysv_model_lines_compared"] = sum(f.model_checked for f in fams)
    chk.cov["sysv_model_differences"] = len(corr)
    if corr and not getattr(R, "new_violations", 0):
        diffrun.conclude(chk, False, corr[0], None, True, [], label + " (System V model PV.Model.IPCSysV)")
    return bool(corr)


SEM_CRASH = [
    ("new OPEN, fresh name", [], "0 new-sem 0 s0 3 OPEN"),
    ("new OPEN, existing name", ["1 new-sem 1 s0 2 OPEN", "1 acq 1"], "0 new-sem 0 s0 3 OPEN"),
    ("new CREATE, fresh name", [], "0 new-sem 0 s0 3 CREATE"),
    ("new CREATE, existing name", ["1 new-sem 1 s0 2 OPEN", "1 acq 1"], "0 new-sem 0 s0 3 CREATE"),
    ("free by the creator", ["0 new-sem 0 s0 1 OPEN", "1 new-sem 1 s0 1 OPEN", "1 acq 1"], "0 free 0"),
    ("free after take_ownership", ["1 new-sem 1 s0 2 OPEN", "2 new-sem 2 s0 0 OPEN", "2 own 2"], "2 free 2"),
    ("release re-creating the set", ["0 new-sem 0 s0 2 OPEN", "1 new-sem 1 s0 5 OPEN", "0 free 0"], "1 rel 1"),
    ("acquire re-creating the set", ["0 new-sem 0 s0 2 OPEN", "1 new-sem 1 s0 5 OPEN", "0 free 0"], "1 acq 1"),
]
SEM_RECOVERY = ["1 new-sem 8 s0 0 OPEN", "1 own 8", "1 free 8", "obs", "1 new-sem 9 s0 2 CREATE", "obs", "2 new-sem 10 s0 7 OPEN", "2 acq 10", "obs"]

SHM_CRASH = [
    ("new, fresh name", [], "0 new-shm 0 m0 %d" % PAGE),
    ("new, existing name", ["1 new-shm 1 m0 %d" % (2 * PAGE), "1 wr 1 0 5"], "0 new-shm 0 m0 100"),
    ("free by the creator, others attached", ["0 new-shm 0 m0 %d" % PAGE, "1 new-shm 1 m0 0"], "0 free 0"),
    ("free by the last handle", ["0 new-shm 0 m0 100"], "0 free 0"),
    ("free after take_ownership", ["1 new-shm 1 m0 100", "0 new-shm 0 m0 0", "0 own 0"], "0 free 0"),
]
SHM_RECOVERY = ["1 new-shm 8 m0 0", "obs", "1 own 8", "1 free 8", "obs", "1 new-shm 9 m0 100", "1 rd 9 0", "obs", "2 new-shm 10 m0 0", "2 wr 10 99 77", "1 rd 9 99", "2 lock 10", "obs", "2 unlock 10", "1 lock 9", "obs"]


def crash_eintr_cases(fam, table, recovery, eintr_ops):
    """every crash point the MODEL says the call has (both kill placements), then the documented recovery; EINTR scripts"""
    out, npoints = [], {}
    for name, setup, op in table:
        w, rest = op.split(" ", 1)
        rc, ml, _ = fam.model_lines(setup + [op])
        n = ipc.ntrace(ml[len(setup)]) if len(ml) > len(setup) else 0
        npoints[name] = n
        for k in range(0, n + 1):
            for v in ("crash", "crashA"):
                if v == "crashA" and k == 0:
                    continue
                out.append(setup + ["%s %s %d %s" % (w, v, k, rest), "obs"] + recovery)
    for setup, op, tail in eintr_ops:
        w, rest = op.split(" ", 1)
        for script in ("1", "3", "0,0,0,0,2", "150", "2,0,0,0,0,0,0,0,0,0,0,0,0,3"):
            out.append(setup + ["%s eintr %s %s" % (w, script, rest), "obs"] + tail)
    return npoints, out


# ---------------------------------------------------------------------------------------------
# C06

P = PAGE

C06_DIRECTED = [
    # a holder killed with two units taken (SEM_UNDO gives them back: value not judged), then the documented recovery
    ["0 new-sem 0 s0 2 OPEN", "1 new-sem 1 s0 9 OPEN", "1 acq 1", "1 acq 1", "obs", "1 kill", "obs", "2 new-sem 2 s0 0 OPEN", "2 own 2", "2 free 2", "obs",
     "2 new-sem 3 s0 3 CREATE", "obs", "1 new-sem 4 s0 7 OPEN", "1 acq 4", "obs", "2 rel 3", "2 rel 3", "obs", "1 acq 4", "1 acq 4", "obs"],
    # killed creator (owner): the name stays, recovery removes it, the next open starts a fresh counter with ITS value
    ["0 new-sem 0 s1 1 CREATE", "0 acq 0", "0 kill", "obs", "1 new-sem 1 s1 5 OPEN", "1 own 1", "1 free 1", "obs", "2 new-sem 2 s1 4 OPEN", "obs", "2 acq 2", "obs",
     "1 new-sem 3 s1 9 OPEN", "1 acq 3", "obs"],
    # a releaser killed: its units are taken back by SEM_UNDO (not judged), CREATE sets the value for everybody
    ["0 new-sem 0 s2 0 OPEN", "1 new-sem 1 s2 0 OPEN", "1 rel 1", "1 rel 1", "obs", "1 kill", "obs", "2 new-sem 2 s2 2 CREATE", "obs", "2 acq 2", "obs", "1 new-sem 3 s2 8 OPEN", "1 acq 3", "obs"],
    # balanced process killed: nothing changes
    ["0 new-sem 0 s3 1 OPEN", "1 new-sem 1 s3 1 OPEN", "1 acq 1", "1 rel 1", "1 kill", "obs", "0 acq 0", "obs", "2 new-sem 2 s3 5 OPEN", "2 rel 2", "obs"],
    # four names at once; owner free of one leaves the others alone
    ["0 new-sem 0 s0 1 OPEN", "1 new-sem 1 s1 2 OPEN", "2 new-sem 2 s2 3 OPEN", "0 new-sem 3 s3 4 OPEN", "obs", "0 acq 0", "1 rel 1", "2 acq 2", "0 rel 3", "obs",
     "2 own 2", "2 free 2", "obs", "1 free 1", "obs", "0 free 3", "obs", "2 new-sem 4 s2 300 OPEN", "obs"],
]

C06_PROBES = [
    ("sysv-handle-opened-before-create-shares-the-reset-counter", "outside", 3,
     ["0 new-sem 0 s0 1 OPEN", "1 new-sem 1 s0 5 CREATE", "0 rel 0", "obs"],
     "T1: a handle opened before a CREATE-mode open keeps working on the name's (one) System V set; posix leaves it on the unlinked object"),
    ("sysv-create-on-existing-name-is-not-an-owner", "outside", 3,
     ["0 new-sem 0 s0 1 OPEN", "1 new-sem 1 s0 5 CREATE", "1 free 1", "obs"],
     "T2: plain free of a handle that opened an existing name in CREATE mode leaves the set (posix unlinks)"),
    ("sysv-sem-undo-returns-units-of-a-killed-process", "outside", 4,
     ["0 new-sem 0 s0 2 OPEN", "1 new-sem 1 s0 9 OPEN", "1 acq 1", "1 kill", "obs"],
     "K1: SEM_UNDO takes back the acquires/releases of a killed process"),
    ("sysv-initial-value-above-semvmx", "outside", 0,
     ["0 new-sem 0 s1 70000 OPEN"],
     "initial values above SEMVMX (32767) are refused (ERANGE); the posix limit is INT_MAX"),
    ("sysv-handle-outliving-owner-free-recreates-the-set", "candidate", 4,
     ["0 new-sem 0 s0 2 OPEN", "1 new-sem 1 s0 5 OPEN", "0 free 0", "1 rel 1", "obs"],
     "T1: after the owner's free (IPC_RMID) a release through a remaining handle re-creates the set with THAT handle's initial value, returns TRUE and adds nothing; the name is bound again although no open happened (posix: the handle stays on the unlinked object)"),
    ("sysv-owner-handle-of-an-earlier-incarnation-does-not-remove-the-name", "outside", 6,
     ["0 new-sem 0 s0 1 OPEN", "1 new-sem 1 s0 1 OPEN", "1 own 1", "0 free 0", "2 new-sem 2 s0 3 OPEN", "1 free 1", "obs"],
     "T3 (judged outside the statement: the handle owns an EARLIER incarnation of the name, the statement speaks of the handles of the current one): an owner (take_ownership) whose set was already removed frees its handle after the name was created again: IPC_RMID hits the dead id, the name stays and the next open joins it (posix unlinks by name and so removes the new incarnation)"),
]


def run_c06(chk, cfg, exhaustive_cases):
    thorough = chk.tier == "thorough"
    before = ipcs_count()
    exe = build(cfg)
    fam = Fam(exe)
    R = Runner(chk, fam, "C06")
    rng = chk.rng
    from props import c06 as c06mod
    def above_semvmx(d):      # initial values the System V counter cannot hold (difference `sysv-initial-value-above-semvmx`, outside the statement)
        import re
        return any(int(m.group(1)) > SEMVMX for o in d for m in [re.search(r"new-sem \d+ \S+ (\d+) ", o)] if m)
    directed = [d for d in c06mod.DIRECTED if not above_semvmx(d)] + C06_DIRECTED
    R.run([prefilter(d) for d in directed], batch=1)
    ex = list(exhaustive_cases)
    ex = [drop_waits(c) for c in rng.sample(ex, min(len(ex), 1200 if thorough else 240))]
    R.run(ex, batch=40)
    nr = 500 if thorough else 160
    rnd = [gen_history(rng, chk, rng.choice([8, 25, 60]), sem_w=1.0, shm_w=0.0) for _ in range(nr)]      # legal by construction (Region)
    R.run(rnd, batch=10)
    for sig, klass, at, ops, what in C06_PROBES:
        probe(chk, fam, sig, klass, ops, at, what)
    for (n, v, it) in (((6, 1, 2000), (8, 3, 2000)) if thorough else ((4, 2, 300),)):
        run_stress(chk, exe, ["stress-sem", n, v, it], "C06 v-exclusion stress")
    run_stress(chk, exe, ["eintr-wait"], "C06 acquire sleeping in semop under handled signals")
    holder = ["1 new-sem 1 s0 2 OPEN"]
    npoints, tie = crash_eintr_cases(fam, SEM_CRASH, SEM_RECOVERY, [
        (holder, "1 acq 1", ["obs"]), (holder, "1 rel 1", ["obs"]),
        (["0 new-sem 0 s0 2 OPEN", "1 new-sem 1 s0 5 OPEN", "0 free 0"], "1 acq 1", ["obs", "1 acq 1", "obs"]),
        (["0 new-sem 0 s0 2 OPEN", "1 new-sem 1 s0 5 OPEN", "0 free 0"], "1 rel 1", ["obs"])])
    chk.cov["sysv_crash_points"] = npoints
    tie_cases(fam, chk, tie, "crash points and EINTR scripts")
    conclude_tie(chk, [fam], R, "C06")
    after = ipcs_count()
    chk.cov["sysv_histories"] = R.cases
    chk.cov["sysv_histories_validated_against_spec"] = R.validated
    chk.cov["sysv_exhaustive_sampled"] = len(ex)
    chk.cov["sysv_objects_left_by_killed_runs"] = fam.leftovers
    chk.cov["sysv_ipcs_before_after"] = [list(before), list(after)]
    chk.cov["traces_validated_against_impl"] += R.validated
    chk.assumptions += ASSUMPTIONS
    return R


# ---------------------------------------------------------------------------------------------
# C07

C07_DIRECTED = [
    # holder of the lock killed (SEM_UNDO releases it: lock value not judged), documented recovery, fresh segment of the new size
    ["0 new-shm 0 m0 %d" % P, "0 wr 0 0 5", "0 lock 0", "obs", "0 kill", "obs", "1 new-shm 8 m0 0", "1 rd 8 0", "obs", "1 own 8", "1 free 8", "obs",
     "1 new-shm 9 m0 100", "1 rd 9 0", "obs", "2 new-shm 10 m0 0", "2 wr 10 99 77", "1 rd 9 99", "2 lock 10", "obs", "2 unlock 10", "1 lock 9", "1 unlock 9", "obs"],
    # killed creator, two followers keep working on the same bytes and the same lock
    ["0 new-shm 0 m1 %d" % (2 * P), "1 new-shm 1 m1 100", "2 new-shm 2 m1 0", "0 kill", "obs", "1 wr 1 99 9", "2 rd 2 99", "1 lock 1", "obs", "1 unlock 1", "2 lock 2", "obs", "2 unlock 2",
     "2 own 2", "1 free 1", "obs", "2 free 2", "obs", "0 new-shm 3 m1 %d" % (P + 1), "0 rd 3 99", "obs"],
    # sizes: creator exact (not rounded to pages), follower smaller / larger / zero / equal
    ["0 new-shm 0 m2 1", "obs", "1 new-shm 1 m2 %d" % P, "1 size 1", "2 new-shm 2 m2 0", "2 size 2", "obs", "0 own 0", "1 free 1", "2 free 2", "0 free 0", "obs"],
    ["0 new-shm 0 m3 %d" % (P + 1), "1 new-shm 1 m3 %d" % P, "1 new-shm 2 m3 %d" % (P + 2), "1 new-shm 3 m3 %d" % (P + 1), "obs", "0 wr 0 %d 200" % P, "1 rd 2 %d" % P, "1 rd 3 %d" % P, "obs",
     "1 free 1", "1 free 2", "obs", "1 own 3", "1 free 3", "obs"],
    # owner free by the last handle, then a fresh, zeroed segment of another size under the same name; twice (key file kept / taken)
    ["0 new-shm 0 m0 100", "0 wr 0 0 7", "0 free 0", "obs", "1 new-shm 1 m0 %d" % (P + 1), "1 rd 1 0", "1 wr 1 %d 9" % P, "obs", "1 free 1", "obs", "2 new-shm 2 m0 50", "2 rd 2 0", "obs", "2 own 2", "2 free 2", "obs",
     "0 new-shm 3 m0 60", "0 rd 3 0", "obs"],
    # a fresh name with size 0 cannot be created
    ["0 new-shm 0 m2 0", "obs", "0 new-shm 0 m2 1", "obs"],
]

C07_PROBES = [
    ("sysv-last-detach-removes-the-segment", "outside", 5,
     ["0 new-shm 0 m0 100", "0 wr 0 0 7", "1 new-shm 1 m0 0", "0 kill", "1 free 1", "obs"],
     "U1: the free of the last attached handle removes the segment although it is not an owner (posix keeps the name)"),
    ("sysv-creator-plain-free-keeps-the-name-while-others-are-attached", "outside", 3,
     ["0 new-shm 0 m0 100", "1 new-shm 1 m0 0", "0 free 0", "obs"],
     "U2: the creating handle owns the key file only when it found one; its plain free leaves name and segment while others are attached (posix: the creator unlinks)"),
    ("sysv-sem-undo-releases-the-lock-of-a-killed-holder", "outside", 3,
     ["0 new-shm 0 m0 100", "0 lock 0", "0 kill", "obs"],
     "K1: SEM_UNDO releases the segment lock held by a killed process (posix: stays locked until recovery)"),
    ("sysv-owner-free-breaks-the-lock-of-attached-handles", "candidate", 6,
     ["0 new-shm 0 m0 100", "1 new-shm 1 m0 0", "2 new-shm 2 m0 0", "0 own 0", "1 lock 1", "0 free 0", "2 lock 2"],
     "U3: an owner's free removes the lock set (IPC_RMID) under the handles still attached; the next p_shm_lock of another handle re-creates it with value 1 and succeeds while the first handle still holds the lock (posix: the unlinked semaphore lives on)"),
]

C07_PROBES_EXT4 = [
    ("sysv-owner-free-while-attached-then-new-joins-the-old-segment", "candidate", 6,
     ["0 new-shm 0 m0 100", "0 wr 0 0 7", "1 new-shm 1 m0 0", "1 own 1", "1 free 1", "obs", "2 new-shm 2 m0 200", "2 rd 2 0", "obs"],
     "U6: owner free while another handle is attached unlinks the key file but the segment lives on; on a file system that reuses inode numbers (ext4, xfs, ufs) the next p_shm_new makes a key file with the same inode, ftok yields the old key and the OLD segment (old size, old bytes) is joined instead of a fresh one"),
]


def run_c07(chk, cfg, basic):
    thorough = chk.tier == "thorough"
    before = ipcs_count()
    exe = build(cfg)
    fam = Fam(exe)
    R = Runner(chk, fam, "C07")
    rng = chk.rng
    directed = [d for d in list(basic) + C07_DIRECTED if ROOT or not any(o.endswith(" ro") for o in d)]
    R.run([prefilter(d) for d in directed], batch=1)
    nr = 500 if thorough else 150
    rnd = [gen_history(rng, chk, rng.choice([8, 25, 60]), sem_w=0.2, shm_w=1.0) for _ in range(nr)]
    R.run(rnd, batch=10)
    # the same kind of histories with the key files on a file system that reuses inode numbers
    fam4 = Fam(exe, ext4=True)
    fam4.tie = False      # whether an inode number is reused is the file system's choice: only the recorded history (probe) is tied
    R4 = Runner(chk, fam4, "C07")
    rnd4 = [gen_history(rng, chk, rng.choice([8, 25, 60]), sem_w=0.2, shm_w=1.0, inode_reuse=True) for _ in range(120 if thorough else 40)]
    R4.run(rnd4, batch=10)
    for sig, klass, at, ops, what in C07_PROBES:
        probe(chk, fam, sig, klass, ops, at, what)
    for sig, klass, at, ops, what in C07_PROBES_EXT4:
        probe(chk, fam4, sig, klass, ops, at, what)
    for (n, it) in (((4, 10000), (8, 4000)) if thorough else ((4, 1000),)):
        run_stress(chk, exe, ["stress-shm", n, it], "C07 lock stress")
    run_stress(chk, exe, ["eintr-wait"], "C07 p_shm_lock sleeping in semop under handled signals")
    seg = ["1 new-shm 1 m0 100"]
    npoints, tie = crash_eintr_cases(fam, SHM_CRASH, SHM_RECOVERY, [
        (seg, "1 lock 1", ["obs", "1 unlock 1", "obs"]), (seg + ["1 lock 1"], "1 unlock 1", ["obs"]),
        (["0 new-shm 0 m0 100", "1 new-shm 1 m0 0", "2 new-shm 2 m0 0", "0 own 0", "1 lock 1", "0 free 0"], "2 lock 2", ["obs"])])
    chk.cov["sysv_crash_points"] = npoints
    tie_cases(fam, chk, tie, "crash points and EINTR scripts")
    conclude_tie(chk, [fam, fam4], R, "C07")
    after = ipcs_count()
    chk.cov["sysv_histories"] = R.cases + R4.cases
    chk.cov["sysv_histories_validated_against_spec"] = R.validated + R4.validated
    chk.cov["sysv_histories_with_inode_reuse"] = R4.cases
    chk.cov["sysv_objects_left_by_killed_runs"] = fam.leftovers + fam4.leftovers
    chk.cov["sysv_ipcs_before_after"] = [list(before), list(after)]
    chk.cov["traces_validated_against_impl"] += R.validated + R4.validated
    chk.assumptions += ASSUMPTIONS
    return R

"""Shared pieces of the resource family (C18 allocation failure, C20 resource neutrality):
harness build, scratch fixtures, running both sides, canonical form of allocator traces."""
import os
import re
import shutil
import subprocess
import tempfile

import pv

WRAPS = ("close closedir fclose mmap munmap ftruncate shm_open socket pthread_create pthread_key_create "
         "pthread_key_delete pthread_mutex_init pthread_cond_init dlopen sem_open sem_close fcntl fstat getsockopt pthread_attr_init "
         "pthread_attr_setdetachstate").split()

# call name of the call language -> the library function it exercises (for finding signatures)
FUNC = {
    "lib_init": "p_libsys_init", "lib_init_full": "p_libsys_init_full", "str_realloc": "p_realloc", "thread_run_long": "p_uthread_create",
    "mmap_unmap": "p_mem_munmap", "inval": "invalid-argument call", "lib_shutdown": "p_libsys_shutdown", "cur_thread": "p_uthread_current",
    "strdup": "p_strdup", "strchomp": "p_strchomp", "strtok": "p_strtok", "strtod": "p_strtod",
    "list_append": "p_list_append", "list_prepend": "p_list_prepend", "list_remove": "p_list_remove", "list_free": "p_list_free",
    "tree_new": "p_tree_new", "tree_insert": "p_tree_insert", "tree_remove": "p_tree_remove", "tree_clear": "p_tree_clear", "tree_free": "p_tree_free",
    "ht_new": "p_hash_table_new", "ht_insert": "p_hash_table_insert", "ht_remove": "p_hash_table_remove", "ht_keys": "p_hash_table_keys",
    "ht_values": "p_hash_table_values", "ht_lbv": "p_hash_table_lookup_by_value", "ht_free": "p_hash_table_free",
    "err_new": "p_error_new", "err_new_literal": "p_error_new_literal", "err_copy": "p_error_copy", "err_set_error": "p_error_set_error",
    "err_set_message": "p_error_set_message", "err_clear": "p_error_clear", "err_free": "p_error_free", "err_set_p": "p_error_set_error_p",
    "ini_new": "p_ini_file_new", "ini_parse": "p_ini_file_parse", "ini_sections": "p_ini_file_sections", "ini_keys": "p_ini_file_keys",
    "ini_string": "p_ini_file_parameter_string", "ini_int": "p_ini_file_parameter_int", "ini_double": "p_ini_file_parameter_double",
    "ini_bool": "p_ini_file_parameter_boolean", "ini_list": "p_ini_file_parameter_list", "ini_free": "p_ini_file_free",
    "hash_new": "p_crypto_hash_new", "hash_string": "p_crypto_hash_get_string", "hash_check": "p_crypto_hash_get_digest", "hash_free": "p_crypto_hash_free",
    "ipc_key": "p_ipc_get_platform_key", "ipc_tmpdir": "p_ipc_unix_get_temp_dir",
    "dir_new": "p_dir_new", "dir_next": "p_dir_get_next_entry", "dir_path": "p_dir_get_path", "dir_free": "p_dir_free",
    "dirent_free": "p_dir_entry_free", "file_remove_missing": "p_file_remove",
    "sa_new": "p_socket_address_new", "sa_any": "p_socket_address_new_any", "sa_loop": "p_socket_address_new_loopback",
    "sa_native": "p_socket_address_new_from_native", "sa_addr": "p_socket_address_get_address", "sa_free": "p_socket_address_free",
    "sock_new": "p_socket_new", "sock_bad": "p_socket_new", "sock_listen": "p_socket_bind", "sock_connect": "p_socket_connect",
    "sock_connect_refused": "p_socket_connect", "sock_connect_timeout": "p_socket_connect", "sock_accept": "p_socket_accept",
    "sock_local": "p_socket_get_local_address", "sock_remote": "p_socket_get_remote_address", "sock_udp_echo": "p_socket_receive_from",
    "sock_close": "p_socket_close", "sock_shutdown": "p_socket_shutdown", "sock_io_closed": "p_socket_send", "dir_create_missing": "p_dir_create", "dir_remove_missing": "p_dir_remove", "sock_free": "p_socket_free", "sock_from_fd": "p_socket_new_from_fd",
    "sem_new": "p_semaphore_new", "sem_free": "p_semaphore_free", "shm_new": "p_shm_new", "shm_free": "p_shm_free",
    "shmbuf_new": "p_shm_buffer_new", "shmbuf_free": "p_shm_buffer_free",
    "mutex_new": "p_mutex_new", "cond_new": "p_cond_variable_new", "rwlock_new": "p_rwlock_new", "rwlockg_new": "p_rwlock_new(general)",
    "rwlockg_free": "p_rwlock_free(general)", "spin_new": "p_spinlock_new", "prof_new": "p_time_profiler_new",
    "thread_run": "p_uthread_create", "thread_unref": "p_uthread_unref", "tls_new": "p_uthread_local_new", "tls_set": "p_uthread_set_local",
    "tls_replace": "p_uthread_replace_local", "tls_get": "p_uthread_get_local", "tls_free": "p_uthread_local_free",
    "loader_new": "p_library_loader_new", "loader_err": "p_library_loader_get_last_error", "loader_free": "p_library_loader_free",
    "mmap_new": "p_mem_mmap", "mmap_free": "p_mem_munmap",
}


def build(cfg):
    return pv.build_harness("res", cfg, ["res.c", "res_rwg.c"], san="asan",
                            link=["-Wl," + ",".join("--wrap=" + w for w in WRAPS)])


def run_c(exe, text, scratch, timeout=600):
    rc, out, err = pv.run_proc([exe], text, timeout, env={"PVRES_DIR": scratch})
    return rc, out.splitlines(), err


def run_m(text, timeout=600):
    rc, out, err = pv.run_model("res", text, timeout)
    return rc, out.splitlines(), err


def make_scratch():
    """ini files (their text comes from the model), a directory with three entries (a sub-directory, a file, a dangling symbolic link), a tiny shared library"""
    d = tempfile.mkdtemp(prefix="pvres-%d-" % os.getpid(), dir=pv.CACHE)
    rc, lines, err = run_m("inifile 1\ninifile 2\ninifile 3\n")
    if rc != 0 or len(lines) != 3:
        raise pv.BuildError("the model driver does not answer `inifile`: " + err[-400:])
    for i, t in zip((1, 2, 3), lines):
        with open(os.path.join(d, "ini%d.ini" % i), "w") as f:
            f.write(t.replace("|", "\n") + "\n")
    os.makedirs(os.path.join(d, "d", "sub"))
    open(os.path.join(d, "d", "a.txt"), "w").write("a.txt")
    # a dangling symbolic link: readdir returns it but stat fails (the "cannot examine the entry" path)
    os.symlink("no-such-target", os.path.join(d, "d", "b.lnk"))
    src = os.path.join(d, "tiny.c")
    open(src, "w").write("int tiny_answer (void) { return 42; }\n")
    rc, out = pv.sh(["gcc", "-shared", "-fPIC", "-o", os.path.join(d, "libtiny.so"), src])
    if rc != 0:
        raise pv.BuildError("cannot build the tiny shared library: " + out[-400:])
    os.unlink(src)
    open(os.path.join(d, "notlib.so"), "w").write("this is not a shared library\n")
    return d


def drop_scratch(d):
    shutil.rmtree(d, ignore_errors=True)


def canon_trace(tr):
    """runs of consecutive frees are sorted (the order inside a destructor is not modelled); a freed tree node is named
    by its tree, not by its block (removing a node with two children frees the predecessor's node)"""
    out, run, owner, cur = [], [], {}, ""

    def flush():
        out.extend(sorted(run, key=lambda x: (len(x), x)))
        del run[:]
    for t in tr.split():
        if t[0] == "[":
            cur = t
        if t[0] == "m" and not t.endswith("x"):
            owner[t[1:]] = cur
        if t[0] == "f":
            o = owner.get(t[1:], "")
            if o.startswith("[tree_insert,"):
                t = "f:tree_insert," + o.split(",")[1]
            run.append(t)
        else:
            flush()
            out.append(t)
    flush()
    return " ".join(out)


def fields(line):
    head = line.split(" trace=")[0]
    d = dict(re.findall(r"(\w+)=(\S*)", head))
    d["trace"] = canon_trace(line.split(" trace=", 1)[1]) if " trace=" in line else ""
    return d


def call_of_alloc(trace, idx):
    """(call line marker, index of allocation `idx` inside that call) from a raw trace"""
    cur, rel = "", 0
    for t in trace.split():
        if t[0] == "[":
            cur, rel = t.strip("[]"), 0
        elif t[0] in "mr":
            rel += 1
            if t[1:].rstrip("x") == str(idx):
                return cur, rel
    return "", 0


def func_of(marker):
    name = marker.split(",")[0]
    return FUNC.get(name, name)


def finish(chk):
    """Check.finish(); its closing log line trips over the keys it has just moved away when the proof is broken —
    the evidence file is written before that, so only the log line is lost"""
    try:
        return chk.finish()
    except KeyError:
        pv.log("[%s] %s tier=%s seed=%d: %d evaluations, proof obligations not discharged on this run, %d violation(s)" % (
            chk.prop, "FAIL" if chk.violations else "ok", chk.tier, chk.seed, chk.cov.get("evaluations", 0), len(chk.violations)))
        return 1 if chk.violations else 0

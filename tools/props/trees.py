"""shared campaign for the tree family C12 / C13 / C14 (models PV.Model.Tree.*, harness tree.c)"""
import itertools
import re
import pv
import diffrun

TYPES = ("bst", "rb", "avl")


def view_c12(op, line):
    o = op.split()[0] if op else ""
    if o == "shape":
        return ""
    return re.sub(r" d=\[[^\]]*\]", "", line)


def view_c14(op, line):
    m = re.search(r"d=\[([^\]]*)\]", line)
    return m.group(1) if m else ""


def view_c13(op, line):
    o = op.split()[0] if op else ""
    if o == "shape":
        return line[line.rfind(")") + 1:] if ")" in line else line.replace(".", "")
    return ""


NOTIF = ("", " plain", " konly", " vonly", " wide", " plain wide", " konly wide", " vonly wide")


def exhaustive_orders(nkeys):
    """every insertion order of nkeys keys, then every removal order (prefix-shared to keep it cheap:
    after the inserts, one removal order per case)"""
    keys = list(range(1, nkeys + 1))
    for ty in ("rb", "avl", "bst"):
        for ci, (io, ro) in enumerate(itertools.product(itertools.permutations(keys), itertools.permutations(keys))):
            if True:
                ops = ["new %s%s" % (ty, NOTIF[ci % 8])]
                for k in io:
                    ops += ["ins %d" % k]
                ops += ["shape"]
                for k in ro:
                    ops += ["rem %d" % k, "shape"]
                yield ops


def exhaustive_seqs(depth, nkeys=4):
    keys = list(range(1, nkeys + 1))
    alphabet = ["ins %d" % k for k in keys] + ["rem %d" % k for k in keys]
    for ty in TYPES:
        for ci, seq in enumerate(itertools.product(alphabet, repeat=depth)):
            ops = ["new %s%s" % (ty, NOTIF[ci % 8])]
            for o in seq:
                ops += [o, "shape"]
            ops += ["getk 1", "getk 2", "each 0", "each 2", "shape"] + (["clear", "count"] if (ci // 8) % 2 == 0 else ["free"])
            yield ops


def gen_random(rng, chk, nops):
    ty = rng.choice(TYPES)
    flags = rng.choice(["", "", " plain", " data", " plain data", " konly", " vonly", " konly data", " vonly data"])
    style = rng.choice(["uniform", "dups", "ascending", "descending", "zigzag", "delete-heavy"])
    chk.bump("type:" + ty)
    chk.bump("style:" + style)
    chk.bump("flags:" + (flags.strip() or "notifiers"))
    universe = rng.choice([8, 30, 200, 2000])
    nulls = rng.choice([0, 0, 0, 0.1, 0.3])          # NULL (integer 0 / no payload) as key and as value
    nk = 0
    if rng.random() < 0.5:
        flags += " wide"                             # comparator answers INT_MIN / INT_MAX / differences, not only -1 / 1
        chk.bump("comparator:wide")
    if nulls and rng.random() < 0.5:
        nk = rng.randrange(1, universe + 1)          # the NULL key orders somewhere inside the key range, not below it
        flags += " nk=%d" % nk
        chk.bump("nullkey:inside-range")
    oom = rng.choice([0, 0, 0.05, 0.25])             # inserts attempted while the allocator is out of memory
    chk.bump("oom:%s" % oom)
    chk.bump("nulls:%s" % nulls)
    ops = ["new %s%s" % (ty, flags)]
    present = set()
    ctr = 0
    for i in range(nops):
        r = rng.random()
        if style == "ascending":
            k = (ctr % universe) + 1
        elif style == "descending":
            k = universe - (ctr % universe)
        elif style == "zigzag":
            k = (ctr // 2 + 1) if ctr % 2 == 0 else universe - ctr // 2
            k = max(1, min(universe, k))
        elif style == "dups":
            k = rng.randrange(1, min(universe, 6) + 1)
        else:
            k = rng.randrange(1, universe + 1)
        pins = 0.25 if style == "delete-heavy" and len(present) > universe // 3 else 0.55
        if r < pins:
            if oom and rng.random() < oom:
                ops.append("insf %d" % k)
                if k not in present:
                    if nops <= 80 or rng.random() < 0.3:
                        ops.append("shape")
                    continue
            elif nulls and rng.random() < nulls:
                w = rng.choice(["insv", "insv", "insk", "inskv"])
                if w == "insv":
                    ops.append("insv %d" % k)
                else:
                    ops.append(w)
                    k = nk
            else:
                ops.append("ins %d" % k)
            present.add(k)
            ctr += 1
        elif r < 0.85:
            if present and rng.random() < 0.8:
                k = rng.choice(sorted(present))
            ops.append("rem %d" % k)
            present.discard(k)
        elif r < 0.92:
            if nulls and rng.random() < 0.3:
                ops.append(rng.choice(["getn", "getn", "remn"]))      # the NULL pointer itself as the probe key
                if ops[-1] == "remn":
                    present.discard(nk)
            else:
                ops.append(rng.choice(["get %d", "getk %d"]) % k)
        elif r < 0.97:
            j = rng.choice([0, 1, 2, max(1, len(present) // 2), len(present), len(present) + 1])
            ops += ["shape", "each %d" % j, "shape"]
            if rng.random() < 0.2:
                ops.append("api")
        elif r < 0.98:
            ops.append("clear")
            present.clear()
        else:
            ops.append("count")
        if nops <= 80 or rng.random() < 0.15:
            ops.append("shape")
    ops += ["shape", "each 0", "count"] + rng.choice([["clear", "shape"], ["free"], ["api", "free"], ["clear", "ins 1", "free"]])
    return ops


def perfect(n):
    """insertion order that builds the perfectly balanced tree of 2^n - 1 keys in every variant (level order)"""
    out, step = [], 2 ** n
    while step > 1:
        out += list(range(step // 2, 2 ** n, step))
        step //= 2
    return out


def extra_cases():
    """directed cases for the inputs the property quantifies over and that random op files reach only by luck:
    comparator results of any magnitude, the NULL pointer as probe key, NULL keys ordered inside the key range,
    p_tree_free with content (what it hands to the notifiers), every stop point of a traversal of a deep tree,
    an allocation failure on the empty tree, the remaining entry points (get_type, NULL arguments)"""
    cases = []
    for ty in TYPES:
        for flags in ("", " plain", " konly", " vonly data", " plain data"):
            # comparator magnitudes: build 15, look everything up, remove in two orders
            for order in (perfect(4), list(range(1, 16)), list(range(15, 0, -1))):
                ops = ["new %s%s wide" % (ty, flags)] + ["ins %d" % k for k in order] + ["shape"] + ["get %d" % k for k in (1, 8, 15, 16)]
                cases.append(ops + [x for k in order for x in ("rem %d" % k, "shape")] + ["each 0", "free"])
                cases.append(ops + [x for k in reversed(order) for x in ("ins %d" % k, "rem %d" % k)] + ["shape", "each 0", "free"])
            # free with content: 0, 1, 2, 3, 7 pairs, NULL key / NULL value among them; nothing may be destroyed twice or kept
            for build in ([], [1], [2, 1], [1, 2], [2, 1, 3], perfect(3)):
                base = ["new %s%s" % (ty, flags)] + ["ins %d" % k for k in build]
                cases.append(base + ["free"])
                cases.append(base + ["insk", "insv 2", "free"])
                cases.append(base + ["api", "each 1", "free", "count"])
                cases.append(base + ["clear", "free"])
                cases.append(base + ["rem 2", "getk 2", "ins 2", "getk 2", "ins 2", "getk 2", "insf 2", "getk 2", "getk 1", "free"])
            # the NULL pointer as probe: no NULL key stored / stored as smallest / stored inside the range (root, inner, leaf)
            cases.append(["new %s%s" % (ty, flags), "getn", "remn", "ins 1", "getn", "remn", "ins 0", "getn", "remn", "count", "free"])
            for nk in (0, 4, 2, 1, 7):
                for first in (True, False):
                    b = perfect(3)
                    b.remove(nk) if nk in b else None
                    ops = ["new %s%s nk=%d" % (ty, flags, nk)] + (["insk"] if first else []) + ["ins %d" % k for k in b] + ([] if first else ["insk"])
                    cases.append(ops + ["shape", "getn", "get %d" % nk, "each 0", "remn", "shape", "getn", "remn", "each 0", "inskv", "getn", "each 3", "free"])
                    cases.append(ops + ["rem %d" % nk, "shape", "getn", "insk", "ins %d" % nk, "each 0", "shape", "remn", "clear", "getn", "free"])
            # creation while the allocator is out of memory: NULL; the old tree is gone, the next creation works
            cases.append(["new %s%s" % (ty, flags), "ins 1", "ins 2", "newf %s%s" % (ty, flags), "count", "ins 3", "new %s%s" % (ty, flags), "ins 3", "shape", "count", "each 0", "free"])
            cases.append(["newf %s%s" % (ty, flags), "ins 1", "free", "new %s%s" % (ty, flags), "ins 1", "count", "newf %s%s wide" % (ty, flags), "new %s%s" % (ty, flags), "count", "ins 2", "shape", "clear"])
            # allocation failure on the empty tree and right after clear
            cases.append(["new %s%s" % (ty, flags), "insf 1", "shape", "count", "each 0", "ins 1", "insf 1", "insf 2", "shape", "clear", "insf 3", "shape", "ins 3", "free"])
        # every stop point of a traversal of a 15- and a 31-node tree (threads at several depths are live when it stops)
        for n in (4, 5):
            b = ["new %s" % ty] + ["ins %d" % k for k in perfect(n)]
            cases.append(b + [x for j in range(0, 2 ** n + 1) for x in ("each %d" % j, "shape")] + ["each 0", "api", "free"])
        cases.append(["new %s" % ty] + ["ins %d" % k for k in range(1, 20)] + [x for j in range(0, 21) for x in ("each %d" % j, "shape")] + ["free"])
        cases.append(["new %s" % ty] + ["ins %d" % k for k in range(20, 0, -1)] + [x for j in range(0, 21) for x in ("each %d" % j, "shape")] + ["free"])
    return cases


def oom_cases():
    """an insert that fails for lack of memory between every pair of steps of small build-ups, then growth on either side"""
    cases = []
    for ty in TYPES:
        for base in ([2, 1], [1, 2], [2, 1, 3], [4, 2, 6, 1], [4, 2, 6, 7], [4, 2, 6, 1, 3, 5, 7]):
            for newk in (0.5, 1.5, 2.5, 3.5, 5.5, 7.5):
                scale = lambda x: int(x * 2)
                ops = ["new %s" % ty] + ["ins %d" % scale(k) for k in base] + ["insf %d" % scale(newk), "shape"]
                for grow in ([scale(min(base)) - 1 if scale(min(base)) > 1 else 30, 31, 32], [40, 39, 38], [scale(newk)]):
                    cases.append(ops + [x for g in grow for x in ("ins %d" % g, "shape")] + ["each 0", "clear"])
            cases.append(["new %s" % ty] + ["ins %d" % scale(k) for k in base] + ["insf %d" % scale(base[0]), "shape", "each 0", "clear"])
    return cases


def null_cases():
    """NULL is a legal key and a legal value: every position of a 7-node tree (leaf, one child after a removal, two
    children incl. the root) holds the NULL value / the NULL key once, then is replaced, removed, cleared"""
    cases = []
    for ty in TYPES:
        for flags in ("", " konly", " vonly", " plain"):
            for target in (1, 2, 3, 4, 5, 6, 7):
                base = [4, 2, 6, 1, 3, 5, 7]
                ops = ["new %s%s" % (ty, flags)] + [("insv %d" % k) if k == target else ("ins %d" % k) for k in base]
                cases.append(ops + ["shape", "get %d" % target, "rem %d" % target, "shape", "each 0", "clear"])
                cases.append(ops + ["getk %d" % target, "ins %d" % target, "getk %d" % target, "insv %d" % target, "insv %d" % target, "getk %d" % target, "rem %d" % target, "getk %d" % target, "each 0", "clear"])
            for order in ([3, 1, 5, 2, 4], [1, 3, 5], [5, 3, 1], [2, 1, 3]):
                # the NULL key orders as 0: smallest key; as root (inserted first), as leaf, replaced, removed with two children below
                for w in ("insk", "inskv"):
                    cases.append(["new %s%s" % (ty, flags), w] + ["ins %d" % k for k in order] + ["shape", "get 0", w, "each 0", "rem 0", "shape", "each 0", "clear"])
                    cases.append(["new %s%s" % (ty, flags)] + ["ins %d" % k for k in order] + [w, "shape", "rem %d" % order[0], w, "rem 0", "rem 0", "each 0", w, "clear"])
    return cases


def witness_cases():
    """rebalancing cases in their contexts (tools/props/tree_witnesses.ops, chosen by tools/treecases.py): every rotation call
    site of the red-black / AVL fix-up loops with the rotated node at the root, as a left and as a right child, with and
    without an inner subtree, for every balance factor of the nodes involved; every pair of consecutive loop iterations that
    the audit saw; every kind of unlinked node followed by every first fix-up step.  The seeded random sequences reach
    these too, but which of them a given seed reaches is luck; these cases run in every quick run."""
    import os
    path = os.path.join(os.path.dirname(os.path.abspath(__file__)), "tree_witnesses.ops")
    cases, cur = [], []
    shift = 100          # room below the smallest key for the tail
    def sh(o):
        w = o.split()
        return "%s %d" % (w[0], int(w[1]) + shift) if len(w) == 2 and w[0] in ("ins", "rem") else o
    for ln in open(path).read().split("\n") + [""]:
        ln = ln.strip()
        if ln.startswith("#"):
            continue
        if not ln:
            if cur:
                i = len(cases)
                keys = [int(o.split()[1]) + shift for o in cur[1:] if o.startswith("ins ")]
                # tail: growth below, above and inside the key range and a few removals, so that a balance factor / colour left
                # wrong by the case under test has consequences the independent oracles of `shape` can see
                mid = sorted(set(keys))[len(set(keys)) // 2]
                hi = max(400, max(keys) + 1)
                tail = ["ins %d" % k for k in (99, 98, 97, hi, hi + 1, hi + 2)] + ["rem %d" % k for k in keys[:3]] + ["ins %d" % mid, "ins 96", "ins %d" % (hi + 3), "rem 98", "rem %d" % (hi + 1)]
                ops = [cur[0]] + [x for o in [sh(o) for o in cur[1:]] + tail for x in (o, "shape")]
                cases.append(ops + ["each 0", "each %d" % (1 + i % 5), "shape", "count"] + (["clear", "shape"] if i % 2 == 0 else ["free"]))
            cur = []
            continue
        cur.append(ln)
    return cases


def run(chk, prop, view, modules, label):
    cfg = pv.repo_config()
    proof_ok, driver_ok, detail = pv.proof_stage(chk, modules)
    exe = pv.build_harness("tree", cfg, ["tree.c"], san="asan")
    fam = diffrun.Family("tree", exe, spec_view=view)
    fam.keep_prefix = 1      # the `new …` line is the case's configuration, never shrunk away
    thorough = chk.tier == "thorough"
    rng = chk.rng
    cases = pv.load_corpus("trees") + pv.load_corpus(prop) + null_cases() + oom_cases() + extra_cases() + witness_cases()
    ex = list(exhaustive_seqs(4 if thorough else 3))
    nk = 5 if thorough else 4
    exo = list(exhaustive_orders(nk))
    chk.cov["directed_rebalancing_witnesses"] = len(witness_cases())
    chk.cov["exhaustive_small_scope"] = {"op_sequences_depth": 4 if thorough else 3, "keys": 4, "sequences": len(ex),
                                         "insertion_x_removal_orders_keys": nk, "orders": len(exo)}
    nr = 1500 if thorough else 200
    rnd = [gen_random(rng, chk, rng.choice([20, 80, 400, 2000 if thorough else 600])) for _ in range(nr)]
    found, corr, thm = diffrun.campaign(chk, fam, cases + ex + exo + rnd, proof_ok, detail, None, label, batch=80, reset="new bst")
    diffrun.conclude(chk, found, corr, thm, proof_ok and driver_ok, detail, label)
    chk.cov["rule"] = ("op files on bst/rb/avl trees with and without notifiers and comparator data: all op sequences of small depth over 4 keys, all insertion x removal orders of %d keys, "
                       "random sequences (uniform, duplicate-heavy, ascending, descending, zig-zag, delete-heavy) over universes 8..2000; tree shape (from comparator probes) compared with the model after the ops; "
                       "comparator results of any magnitude (wide), NULL pointer as key / value / probe with the NULL key ordered below or inside the key range, inserts under allocation failure, "
                       "p_tree_free with content, every stop point of deep traversals, get_type and NULL-argument entry points; distinct by op-file hash" % nk)
    chk.assumptions += ["comparator is a total order on key ordinals", "allocation never fails here (C18)"]
    return chk.finish()

"""C11 — the part of the check shared by the two hash families (tools/props/c11.py, c11x.py):

* `expected(ops, factory)`: the answer line every op of harness/hash.c must give according to the property and the
  documented behaviour of the entry points, over the FOUR handle slots of the harness, with the digests coming from an
  independent oracle object supplied by the family (`factory (alg)` -> object with absorb / absorbz / hexdigest /
  digest_size, or None when the family has no oracle for `alg`);
* generators for the inputs the per-algorithm message generators do not produce: several live objects interleaved,
  every integer type code (valid and invalid), get_type, free / re-create, NULL data / NULL buffer / NULL length /
  NULL hash, unaligned input, too-small buffers after the read, arbitrary op histories (random and exhaustive over a
  small alphabet), objects used from several threads at once.
"""
import itertools

TYPE_CODE = {"md5": 0, "sha1": 1, "sha224": 2, "sha256": 3, "sha384": 4, "sha512": 5,
             "sha3-224": 6, "sha3-256": 7, "sha3-384": 8, "sha3-512": 9, "gost": 10}
NAME_OF_CODE = {v: k for k, v in TYPE_CODE.items()}
NSLOT = 4
UPDO = ["updo%d" % k for k in range(1, 8)]
INVALID_CODES = [-1, 11, 12, 16, 255, 1000000, 2147483647, -2147483648]


class _Other:
    """an object of an algorithm this family has no oracle for: no expectation until the slot is re-created"""


class _Slot:
    def __init__(self, alg, obj):
        self.alg, self.obj, self.closed, self.dig = alg, obj, False, None


def expected(ops, factory):
    """None = no expectation for that line"""
    slots = [None] * NSLOT
    cur = 0
    out = []
    for line in ops:
        t = line.split()[:2]
        if not t:
            continue
        s = slots[cur]
        op = "upd" if t[0] in UPDO and len(t) == 2 else t[0]
        if op == "use" and len(t) == 2 and t[1] in "0123" and len(t[1]) == 1:
            cur = int(t[1])
            out.append("ok")
        elif op == "nullh" and len(t) == 1:
            out.append("null 0 0 -1")
        elif op in ("new", "newt") and len(t) == 2:
            if op == "newt":
                code = int(t[1])
                alg = NAME_OF_CODE.get(code)
                if alg is None:
                    slots[cur] = None
                    out.append("fail")
                    continue
            else:
                alg = t[1]
            if alg not in TYPE_CODE:
                slots[cur] = _Other()
                out.append(None)
                continue
            o = factory(alg)
            slots[cur] = _Other() if o is None else _Slot(alg, o)
            out.append("ok")
        elif s is None:
            out.append("bad-op")
        elif isinstance(s, _Other):
            if op == "free" and len(t) == 1:
                slots[cur] = None
            out.append(None)
        elif op == "free" and len(t) == 1:
            slots[cur] = None
            out.append("ok")
        elif op == "upd" and len(t) == 2:
            if not s.closed and t[1] != "-":
                s.obj.absorb(bytes.fromhex(t[1]))
            out.append("ok")
        elif op == "updz" and len(t) == 2:
            if not s.closed:
                s.obj.absorbz(int(t[1]))
            out.append("ok")
        elif op == "updn" and len(t) == 2:
            out.append("ok")
        elif op == "strf" and len(t) == 1:
            # the read whose result string cannot be allocated: NULL, the digest is final from here on
            if not s.closed:
                s.closed, s.dig = True, s.obj.hexdigest()
            out.append("null")
        elif op == "str" and len(t) == 1:
            if not s.closed:
                s.closed, s.dig = True, s.obj.hexdigest()
            out.append(s.dig)
        elif op == "dig":
            cap = int(t[1]) if len(t) == 2 else 64
            if s.obj.digest_size > cap:
                out.append("0 ")
            else:
                if not s.closed:
                    s.closed, s.dig = True, s.obj.hexdigest()
                out.append(None if s.dig is None else "%d %s" % (s.obj.digest_size, s.dig))
        elif op == "dign" and len(t) == 2:
            out.append("0 ")
        elif op == "dignl" and len(t) == 1:
            out.append("ok")
        elif op == "len" and len(t) == 1:
            out.append(str(s.obj.digest_size))
        elif op == "type" and len(t) == 1:
            out.append(str(TYPE_CODE[s.alg]))
        elif op == "reset" and len(t) == 1:
            slots[cur] = _Slot(s.alg, factory(s.alg))
            out.append("ok")
        elif op == "par" and len(t) == 2:
            try:
                T, R, hx = t[1].split(":")
                T, R = int(T), int(R)
                data = b"" if hx == "-" else bytes.fromhex(hx)
            except ValueError:
                out.append("bad-op")
                continue
            o = factory(s.alg)
            for _ in range(R):
                o.absorb(data)
            out.append(o.hexdigest())
        else:
            out.append("bad-op")
    return out


# ---------------------------------------------------------------------------------------------
# generators.  `algs`: list of (protocol name, block size, digest length) of ONE family

def _hx(b):
    return b.hex() or "-"


def _rb(rng, n):
    r = rng.random()
    if r < 0.1:
        return bytes(n)
    if r < 0.2:
        return b"\xff" * n
    return bytes(rng.getrandbits(8) for _ in range(n))


def _size(rng, B):
    return rng.choice([0, 1, 1, 2, B - 1, B, B + 1, 2 * B - 1, 2 * B, 2 * B + 1, rng.randrange(0, 3 * B + 2), rng.randrange(0, 3 * B + 2)])


def directed(algs):
    """entry points and argument values the message generators never produce"""
    out = [["nullh"], ["str"], ["use 3", "str", "type", "free"], ["use 4"], ["use 1", "nullh", "use 0", "nullh"]]
    for c in INVALID_CODES:
        out.append(["newt %d" % c, "str", "len", "type", "upd 00", "free", "nullh"])
        out.append(["new " + algs[0][0], "upd 61", "newt %d" % c, "str", "new " + algs[0][0], "upd 61", "str"])
    for alg, B, hl in algs:
        code = TYPE_CODE[alg]
        out.append(["newt %d" % code, "type", "len", "upd 616263", "str", "type", "reset", "type", "str"])
        out.append(["new " + alg, "type", "free", "type", "str", "new " + alg, "upd 616263", "str", "free", "free", "nullh"])
        # create / free / create: nothing of the first object may survive
        out.append(["new " + alg, "upd " + "ab" * (B + 3), "free", "new " + alg, "str"])
        out.append(["new " + alg, "upd " + "ab" * (B + 3), "str", "new " + alg, "upd 61", "dig"])
        out.append(["new " + alg, "upd " + "ab" * (B - 1), "newt %d" % code, "upd 61", "str"])
        # NULL data / buffer / length: ignored, and never a read
        for n in (0, 1, B, 1 << 40):
            out.append(["new " + alg, "upd 6162", "updn %d" % n, "upd 63", "str"])
        for cap in (0, 1, hl - 1, hl, hl + 1, 64, 1000, 1 << 40):
            out.append(["new " + alg, "upd 6162", "dign %d" % cap, "upd 63", "str", "dign %d" % cap, "dig"])
        out.append(["new " + alg, "upd 6162", "dignl", "upd 63", "dig", "dignl", "str"])
        out.append(["new " + alg, "nullh", "upd 616263", "nullh", "str", "nullh", "str"])
        # too small a buffer after the read; exact and larger buffers (bytes beyond the digest stay untouched)
        out.append(["new " + alg, "upd 616263", "str", "dig %d" % (hl - 1), "dig 0", "dig %d" % hl, "upd 64", "dig %d" % (hl - 1), "str"])
        out.append(["new " + alg, "upd 616263", "dig %d" % (hl + 1), "dig 64", "dig 65", "dig 200", "dig 4096"])
        # reset variants: at once, twice, between reads
        out.append(["new " + alg, "reset", "reset", "str", "reset", "str", "reset", "upd 61", "reset", "upd 62", "dig", "reset", "reset", "upd 62", "str"])
        # unaligned input: every offset, across a block boundary
        m = bytes(range(256)) * 2
        for k in range(1, 8):
            out.append(["new " + alg, "updo%d %s" % (k, _hx(m[:B + k])), "updo%d %s" % (8 - k, _hx(m[B + k:2 * B + 9])), "updo%d -" % k, "str"])
    # several live objects: same type twice, and every pair of types of the family
    for (a, Ba, _), (b, Bb, _) in itertools.product(algs, algs):
        out.append(["use 0", "new " + a, "use 1", "new " + b, "use 0", "upd " + "11" * (Ba - 1), "use 1", "upd " + "22" * (Bb + 1),
                    "use 0", "upd 33", "use 1", "str", "use 0", "upd 44", "str", "use 1", "upd 55", "str", "type", "use 0", "type"])
    a = algs[0][0]
    out.append(["use 0", "new " + a, "use 1", "new " + a, "use 2", "new " + a, "use 3", "new " + a,
                "use 0", "upd 00", "use 1", "upd 01", "use 2", "upd 02", "use 3", "upd 03",
                "use 2", "free", "use 1", "reset", "use 0", "str", "use 1", "str", "use 2", "str", "use 3", "str",
                "use 2", "new " + a, "str", "use 3", "str"])
    return out


def multi_case(rng, algs):
    """2..4 objects alive at once, one message each, updates interleaved at random, reads at different times"""
    k = rng.randrange(2, NSLOT + 1)
    objs = []
    ops = []
    for i in range(k):
        alg, B, hl = rng.choice(algs) if rng.random() < 0.6 else algs[0]
        msg = _rb(rng, _size(rng, B) + (B if rng.random() < 0.3 else 0))
        cuts = sorted(rng.randrange(0, len(msg) + 1) for _ in range(rng.randrange(0, 5)))
        pieces = [msg[a:b] for a, b in zip([0] + cuts, cuts + [len(msg)])]
        objs.append([i, pieces, hl])
        ops += ["use %d" % i, "new " + alg if rng.random() < 0.7 else "newt %d" % TYPE_CODE[alg]]
    live = list(objs)
    while live:
        o = rng.choice(live)
        ops.append("use %d" % o[0])
        if o[1]:
            p = o[1].pop(0)
            ops.append((rng.choice(UPDO) if rng.random() < 0.2 else "upd") + " " + _hx(p))
        else:
            ops.append(rng.choice(["str", "dig", "dig %d" % o[2]]))
            r = rng.random()
            if r < 0.2:
                ops += ["upd 99", "str"]
            elif r < 0.3:
                ops += ["free", "str"]
            elif r < 0.4:
                ops += ["reset", "upd 98", "str"]
            live.remove(o)
    return ops


def history_case(rng, algs):
    """an arbitrary history: every op of the protocol may follow every other"""
    alg, B, hl = rng.choice(algs)
    ops = ["new " + alg]
    for _ in range(rng.randrange(3, 26)):
        r = rng.random()
        if r < 0.40:
            ops.append((rng.choice(UPDO) if rng.random() < 0.15 else "upd") + " " + _hx(_rb(rng, _size(rng, B))))
        elif r < 0.45:
            ops.append("updz %d" % _size(rng, B))
        elif r < 0.55:
            ops.append("str")
        elif r < 0.63:
            ops.append(rng.choice(["dig", "dig %d" % hl, "dig %d" % (hl + rng.randrange(1, 70))]))
        elif r < 0.70:
            ops.append("dig %d" % rng.choice([0, 1, hl - 1, hl // 2]))
        elif r < 0.80:
            ops.append("reset")
        elif r < 0.84:
            ops.append(rng.choice(["len", "type", "nullh", "dignl"]))
        elif r < 0.88:
            ops.append("updn %d" % rng.choice([0, 1, B, 1 << 33]))
        elif r < 0.92:
            ops.append("dign %d" % rng.choice([0, hl - 1, hl, 64]))
        elif r < 0.95:
            ops.append(rng.choice(["new " + alg, "newt %d" % TYPE_CODE[alg]]))
        elif r < 0.97:
            ops += ["free", "new " + alg]
        else:
            ops.append("use %d" % rng.randrange(0, NSLOT))
            if rng.random() < 0.7:
                ops.append("new " + rng.choice(algs)[0])
    ops.append(rng.choice(["str", "dig"]))
    return ops


def exhaustive_histories(alg, B, hl, depth):
    """every sequence of at most `depth` ops over {1 byte, B-1 bytes, B bytes, reset, str, dig, too-small dig}, then a read"""
    alpha = ["upd 61", "upd " + "62" * (B - 1), "upd " + "63" * B, "reset", "str", "dig", "dig %d" % (hl - 1)]
    for d in range(1, depth + 1):
        for seq in itertools.product(alpha, repeat=d):
            if seq[-1] in ("reset",):
                yield ["new " + alg] + list(seq) + ["str"]
            else:
                yield ["new " + alg] + list(seq) + ["dig %d" % hl]


def par_cases(rng, algs, per_alg):
    out = []
    for alg, B, hl in algs:
        for _ in range(per_alg):
            T = rng.choice([2, 3, 4, 8])
            n = rng.choice([1, B - 1, B, B + 1, 3 * B + 1, rng.randrange(1, 4 * B)])
            R = rng.choice([1, 2, 50, 200, 600])
            if alg == "gost":                       # the Python reference does ~7 kB/s
                R, n = rng.choice([1, 2, 30]), min(n, 2 * B + 1)
            out.append(["new " + alg, "upd 7a", "par %d:%d:%s" % (T, R, _rb(rng, n).hex()), "str"])
    return out


def cases(rng, chk, algs, thorough, exh_algs=None, exh_depth=3):
    """all of the above for one family; `exh_algs`: the algorithms (one per source file) for the exhaustive histories"""
    out = list(directed(algs))
    chk.bump("api-directed", len(out))
    for _ in range(240 if thorough else 80):
        out.append(multi_case(rng, algs))
        chk.bump("multi-object")
    for _ in range(900 if thorough else 300):
        out.append(history_case(rng, algs))
        chk.bump("random-history")
    for alg, B, hl in (exh_algs or []):
        n0 = len(out)
        # one more level in the thorough tier for one algorithm per family (the dispatcher is shared)
        out += list(exhaustive_histories(alg, B, hl, exh_depth + (1 if thorough and alg in ("md5", "sha3-256") else 0)))
        chk.bump("exhaustive-history", len(out) - n0)
    p = par_cases(rng, algs, 3 if thorough else 1)
    chk.bump("threads-own-objects", len(p))
    return out + p

"""C11 (SHA-3 and GOST R 34.11-94 part) — digest = standard digest of the concatenation of all updates.

Model PV.Model.HashX.*, spec PV.Spec.HashX, theorems PV.Props.C11x, harness harness/hash.c, driver family `hashx`.

API used by tools/props/c11.py:
    ALGS                       name -> block size
    cases(rng, chk, thorough)  generator of op-line lists (only the algorithms of ALGS)
    oracle(alg, data)          independent digest (hex) or None
    expected(ops)              the answer lines an op file must produce according to the oracle (None = no expectation)
"""
import hashlib
import itertools
import os
import threading
import time

import pv
import diffrun
import props.c11api as A

ALGS = {"sha3-224": 144, "sha3-256": 136, "sha3-384": 104, "sha3-512": 72, "gost": 32}
HASHLEN = {"sha3-224": 28, "sha3-256": 32, "sha3-384": 48, "sha3-512": 64, "gost": 32}
GOST_ORACLE_LIMIT = 1 << 16          # bytes; the Python reference does ~7 kB/s
EXPECT_LIMIT = 1 << 26

# ---------------------------------------------------------------------------------------------
# GOST R 34.11-94, parameter set id-GostR3411-94-CryptoProParamSet (RFC 4357), written from the
# standard's structure on Python integers (little-endian 256-bit numbers): A, P, psi, E, the step
# function chi and the iteration with L and Sigma.  Validated on the published CryptoPro vectors
# (GOST_VECTORS below, checked on every run).  Independent of the C code and of the Lean model.

_SBOX = [
    [0xA, 0x4, 0x5, 0x6, 0x8, 0x1, 0x3, 0x7, 0xD, 0xC, 0xE, 0x0, 0x9, 0x2, 0xB, 0xF],
    [0x5, 0xF, 0x4, 0x0, 0x2, 0xD, 0xB, 0x9, 0x1, 0x7, 0x6, 0x3, 0xC, 0xE, 0xA, 0x8],
    [0x7, 0xF, 0xC, 0xE, 0x9, 0x4, 0x1, 0x0, 0x3, 0xB, 0x5, 0x2, 0x6, 0xA, 0x8, 0xD],
    [0x4, 0xA, 0x7, 0xC, 0x0, 0xF, 0x2, 0x8, 0xE, 0x1, 0x6, 0x5, 0xD, 0xB, 0x9, 0x3],
    [0x7, 0x6, 0x4, 0xB, 0x9, 0xC, 0x2, 0xA, 0x1, 0x8, 0x0, 0xE, 0xF, 0xD, 0x3, 0x5],
    [0x7, 0x6, 0x2, 0x4, 0xD, 0x9, 0xF, 0x0, 0xA, 0x1, 0x5, 0xB, 0x8, 0xE, 0xC, 0x3],
    [0xD, 0xE, 0x4, 0x1, 0x7, 0x0, 0x5, 0xA, 0x3, 0xC, 0x8, 0xF, 0x6, 0x2, 0x9, 0xB],
    [0x1, 0x3, 0xA, 0x9, 0x5, 0xB, 0x4, 0xF, 0x8, 0x6, 0x7, 0xE, 0xD, 0x0, 0x2, 0xC]]
_M32 = 0xFFFFFFFF
_M64 = (1 << 64) - 1
_M256 = (1 << 256) - 1
_C3 = 0xff00ffff000000ffff0000ff00ffff0000ff00ff00ff00ffff00ff00ff00ff00
# byte-wide substitution tables (two nibble S-boxes each) — only a speed-up of the lookup
_SB8 = [[(_SBOX[2 * i][b & 15] | (_SBOX[2 * i + 1][b >> 4] << 4)) << (8 * i) for b in range(256)] for i in range(4)]


def _E(key, blk):
    ks = [(key >> (32 * i)) & _M32 for i in range(8)]
    n1, n2 = blk & _M32, blk >> 32
    for k in ks * 3 + ks[::-1]:
        t = (n1 + k) & _M32
        s = _SB8[0][t & 255] | _SB8[1][(t >> 8) & 255] | _SB8[2][(t >> 16) & 255] | _SB8[3][t >> 24]
        s = ((s << 11) | (s >> 21)) & _M32
        n1, n2 = s ^ n2, n1
    return (n1 << 32) | n2                      # the last round does not swap


def _A(y):
    y1, y2, y3, y4 = [(y >> (64 * i)) & _M64 for i in range(4)]
    return ((y1 ^ y2) << 192) | (y4 << 128) | (y3 << 64) | y2


def _P(y):
    b = y.to_bytes(32, "little")                # b[j] = y_{j+1}
    out = bytearray(32)
    for i in range(4):
        for k in range(1, 9):
            out[i + 4 * (k - 1)] = b[8 * i + k - 1]     # phi (i + 1 + 4 (k - 1)) = 8 i + k
    return int.from_bytes(out, "little")


def _psi(y):
    top = (y ^ (y >> 16) ^ (y >> 32) ^ (y >> 48) ^ (y >> 192) ^ (y >> 240)) & 0xFFFF
    return (y >> 16) | (top << 240)


def _chi(h, m):
    u, v = h, m
    keys = [_P(u ^ v)]
    for c in (0, _C3, 0):
        u = _A(u) ^ c
        v = _A(_A(v))
        keys.append(_P(u ^ v))
    s = 0
    for i in range(4):
        s |= _E(keys[i], (h >> (64 * i)) & _M64) << (64 * i)
    for _ in range(12):
        s = _psi(s)
    s = _psi(s ^ m) ^ h
    for _ in range(61):
        s = _psi(s)
    return s


def gost_ref(msg):
    """GOST R 34.11-94 / CryptoPro of a bytes object, hex"""
    h, sigma, ln = 0, 0, 0
    n = len(msg)
    for off in range(0, n - n % 32, 32):
        m = int.from_bytes(msg[off:off + 32], "little")
        h = _chi(h, m)
        sigma = (sigma + m) & _M256
        ln = (ln + 256) & _M256
    if n % 32:
        m = int.from_bytes(msg[n - n % 32:], "little")          # zero-extended
        h = _chi(h, m)
        sigma = (sigma + m) & _M256
        ln = (ln + 8 * (n % 32)) & _M256
    h = _chi(h, ln)
    h = _chi(h, sigma)
    return h.to_bytes(32, "little").hex()


# published test vectors of GOST R 34.11-94 with the CryptoPro parameter set (tests, not proofs).
# The 32-byte and 50-byte examples and 1 000 000 x 'a' are also in /repo/tests/pcryptohash_test.cpp.
GOST_VECTORS = [
    (b"", "981e5f3ca30c841487830f84fb433e13ac1101569b9c13584ac483234cd656c0"),
    (b"a", "e74c52dd282183bf37af0079c9f78055715a103f17e3133ceff1aacf2f403011"),
    (b"abc", "b285056dbf18d7392d7677369524dd14747459ed8143997e163b2986f92fd42c"),
    (b"message digest", "bc6041dd2aa401ebfa6e9886734174febdb4729aa972d60f549ac39b29721ba0"),
    (b"The quick brown fox jumps over the lazy dog", "9004294a361a508c586fe53d1f1b02746765e71b765472786e4770d565830a76"),
    (b"This is message, length=32 bytes", "2cefc2f7b7bdc514e18ea57fa74ff357e7fa17d652c75f69cb1be7893ede48eb"),
    (b"Suppose the original message has length = 50 bytes", "c3730c5cbccacf915ac292676f21e8bd4ef75331d9405e5f1a61dc3130a65011"),
    (b"U" * 128, "1c4ac7614691bbf427fa2316216be8f10d92edfd37cd1027514c1008f649c4e8"),
    (b"message digest" * 4, "9c7b5288c8b3343b29e8ee4a5579593bd90131db7f6fed9b13af4399698b5d29"),   # repo test
]
GOST_MILLION_A = "8693287aa62f9478f7cb312ec0866b6c4e4a0f11160441e8f4ffcd2715dd554f"
# the 64-byte message on which the historical checksum loop lost a carry, and its digest by gost_ref
GOST_CARRY_MSG = bytes.fromhex("ffffffffffffffff" + "00" * 24 + "01000000ffffffff" + "00" * 24)
GOST_CARRY_DIGEST = "46ab568361ba4a3a29ce5259cf40db985011cb3ae6ba8be30ab92ce80adb763b"
GOST_CARRY_WRONG = "ac5f7b2c8cc05198d125be088f59987e7a15b92e615041ede36aa920948e81fe"   # what the unrepaired code printed


def oracle(alg, data):
    """independent digest (lower-case hex) of `data`, or None when there is no oracle for it"""
    if alg.startswith("sha3-"):
        return getattr(hashlib, alg.replace("-", "_"))(bytes(data)).hexdigest()
    if alg == "gost":                                   # hashlib/OpenSSL has no GOST R 34.11-94 here: own reference
        return gost_ref(bytes(data)) if len(data) <= GOST_ORACLE_LIMIT else None
    return None


class _Acc:
    """accumulating oracle object behind the interface of props/c11api.py (hashlib has no GOST; the reference needs the
    whole message); beyond EXPECT_LIMIT bytes there is no expectation"""
    def __init__(self, alg):
        self.alg, self.msg, self.digest_size = alg, bytearray(), HASHLEN[alg]

    def absorb(self, b):
        if self.msg is not None:
            self.msg += b

    def absorbz(self, n):
        if self.msg is not None:
            if len(self.msg) + n > EXPECT_LIMIT:
                self.msg = None
            else:
                self.msg += bytes(n)

    def hexdigest(self):
        return oracle(self.alg, self.msg) if self.msg is not None else None


def expected(ops):
    """what the op file must answer, line by line, according to the documented dispatcher behaviour and
    the oracle: digest of the bytes updated since `new`/`reset` before the first read; reads repeatable;
    updates after a read ignored; a too small `dig` buffer answers `0 ` and is not a read; the other entry
    points as in props/c11api.py.  None where this module has no expectation (other algorithms, messages
    beyond the oracle's reach)."""
    return A.expected(ops, lambda alg: _Acc(alg) if alg in ALGS else None)


# ---------------------------------------------------------------------------------------------
# generator

def _chunking(rng, n, B):
    """split points of a message of n bytes, biased to block boundaries"""
    cuts = []
    i = 0
    while i < n:
        r = rng.random()
        if r < 0.25:
            k = B - (i % B)                                       # exactly to the next boundary
        elif r < 0.40:
            k = B - (i % B) + rng.choice([-1, 1])                 # one short / one over
        elif r < 0.50:
            k = B * rng.randrange(1, 4) + rng.choice([-1, 0, 0, 1])
        elif r < 0.60:
            k = 1
        elif r < 0.70:
            k = 0                                                  # empty update
        else:
            k = rng.randrange(1, 3 * B + 2)
        k = max(0, min(k, n - i))
        cuts.append(k)
        i += k
    return cuts


def _upd(data):
    return "upd " + (data.hex() if data else "-")


def _msg_case(rng, chk, alg, n, tail=True):
    B = ALGS[alg]
    data = rng.randbytes(n)
    if rng.random() < 0.15:
        data = bytes([rng.choice([0, 0xFF])]) * n                 # extreme content (carries in the GOST checksum)
    ops = ["new " + alg]
    i = 0
    for k in _chunking(rng, n, B):
        ops.append(_upd(data[i:i + k]))
        i += k
    if n == 0 and rng.random() < 0.5:
        ops.append("upd -")
    r = rng.random()
    if r < 0.5:
        ops.append("str")
    elif r < 0.8:
        ops.append("dig")
    else:
        ops += ["dig %d" % rng.randrange(0, HASHLEN[alg]), "dig %d" % HASHLEN[alg]]   # too small first: must not close
        chk.bump("dig-too-small")
    if tail:
        t = rng.random()
        if t < 0.3:
            ops += [_upd(rng.randbytes(rng.randrange(1, 2 * B))), "str", "dig"]     # update after read is ignored
            chk.bump("update-after-read")
        elif t < 0.5:
            ops += ["str", "dig", "str"]                                           # repeatable
            chk.bump("repeated-read")
        elif t < 0.7:
            d2 = rng.randbytes(rng.randrange(0, 2 * B))
            ops += ["reset", _upd(d2), "str"]                                      # reset reopens
            chk.bump("reset-reuse")
        elif t < 0.75:
            ops += ["len"]
    chk.bump("len%%B=%s" % ("0" if n % B == 0 else "B-1" if n % B == B - 1 else "1" if n % B == 1 else "mid"))
    return ops


def _updz_case(rng, chk, alg):
    B = ALGS[alg]
    ops = ["new " + alg]
    for _ in range(rng.randrange(1, 5)):
        if rng.random() < 0.6:
            ops.append("updz %d" % rng.choice([0, 1, B - 1, B, B + 1, 2 * B, 3 * B - 1, rng.randrange(0, 20000)]))
        else:
            ops.append(_upd(rng.randbytes(rng.randrange(0, 2 * B))))
    ops.append("str")
    chk.bump("updz")
    return ops


def fixed_cases():
    """published vectors and dispatcher edge cases"""
    out = []
    for msg, _ in GOST_VECTORS:
        out.append(["new gost", _upd(msg), "str"])
    out.append(["new gost"] + ["upd 61"] * 100 + ["str"])
    out.append(["new gost", _upd(GOST_CARRY_MSG), "str"])
    out.append(["new gost", _upd(GOST_CARRY_MSG[:32]), _upd(GOST_CARRY_MSG[32:]), "dig"])
    for alg in ALGS:
        out.append(["str"])                                        # before `new`
        out.append(["new " + alg, "len", "str", "str", "dig", "dig 0", "upd 00", "str", "reset", "str", "upd 00", "dig 1000"])
        out.append(["new " + alg, "dig 3", "upd 616263", "dig 3", "str"])
        out.append(["new " + alg, "upd 616263", "str", "new " + alg, "str"])
    return out


class _NoChk:
    def bump(self, *a, **k):
        pass


def cases(rng, chk, thorough):
    """op-line lists for SHA-3 and GOST: every message length 0 .. 3B+1 per algorithm (random content, random
    chunking biased to block boundaries), dispatcher histories, zero updates, random long messages"""
    chk = chk or _NoChk()
    for c in fixed_cases():
        yield c
    reps = 4 if thorough else 2
    for alg, B in ALGS.items():
        for n in range(0, 3 * B + 2):
            for _ in range(reps):
                yield _msg_case(rng, chk, alg, n, tail=rng.random() < 0.4)
    for alg in ALGS:
        for _ in range(40 if thorough else 16):
            yield _updz_case(rng, chk, alg)
    for alg, B in ALGS.items():
        for _ in range(12 if thorough else 4):
            n = rng.randrange(3 * B + 2, 200_000)
            chk.bump("long")
            yield _msg_case(rng, chk, alg, n, tail=False)
    api_algs = [(a, B, HASHLEN[a]) for a, B in ALGS.items()]
    for c in A.cases(rng, chk, api_algs, thorough, exh_algs=[x for x in api_algs if x[0] in ("sha3-256", "gost")]):
        yield c
    # 1 000 000 x 'a' (published GOST vector), in one update and in 1000 updates
    yield ["new gost", "upd " + "61" * 1_000_000, "str"]
    if thorough:
        yield ["new gost"] + ["upd " + "61" * 1000] * 1000 + ["str"]


def signature_of(ops, r):
    return None


# ---------------------------------------------------------------------------------------------
# the check

def _self_test(chk):
    """the oracle itself against the published vectors (a wrong oracle must not accuse the code)"""
    bad = [m for m, d in GOST_VECTORS if gost_ref(m) != d]
    if gost_ref(GOST_CARRY_MSG) != GOST_CARRY_DIGEST:
        bad.append(GOST_CARRY_MSG)
    if bad:
        raise RuntimeError("tools/props/c11x.py: the GOST reference disagrees with published vectors: %r" % bad[:2])
    chk.cov["oracle_vectors_checked"] = len(GOST_VECTORS) + 1


def _first_oracle_diff(exe, ops):
    e = expected(ops)
    rc, out, err = pv.run_proc([exe], "".join(o + "\n" for o in ops), 300)
    for i, (ei, li) in enumerate(itertools.zip_longest(e, out.splitlines())):
        if ei is not None and ei != li:
            return i, ei, li
    return None


def _shrink_oracle(exe, ops, budget=60):
    """drop ops between `new` (first) and the failing read (last) while the read stays wrong"""
    cur = list(ops)
    i, tries = 1, 0
    while i < len(cur) - 1 and tries < budget:
        cand = cur[:i] + cur[i + 1:]
        tries += 1
        r = _first_oracle_diff(exe, cand)
        if r is not None and r[0] == len(cand) - 1:
            cur = cand
        else:
            i += 1
    return cur


def oracle_pass(chk, exe, case_list, label="C11x"):
    """implementation answers vs `expected` (hashlib / GOST reference): a difference is the property failing
    on a concrete input, whatever model and spec say"""
    n_checked = 0
    for batch in diffrun.batches(case_list, 60):
        joined = []
        for c in batch:
            joined += list(c) + ["reset"]
        exp = expected(joined)          # over the joined run: handle slots and the selected slot carry over between cases
        rc, out, err = pv.run_proc([exe], "".join(o + "\n" for o in joined), 300)
        lines = out.splitlines()
        if rc == 0 and len(lines) == len(joined) and all(e is None or e == l for e, l in zip(exp, lines)):
            n_checked += sum(1 for e in exp if e is not None)
            continue
        hit = False
        for c in batch:                                            # find the case
            c = list(c)
            d = _first_oracle_diff(exe, c)
            for _ in range(6 if any(o.startswith("par ") for o in c) else 0):      # threads: a race may need several runs
                d = d or _first_oracle_diff(exe, c)
            if d is None:
                continue
            hit = True
            i, ei, li = d
            # several handle slots in play: the objects created earlier matter, keep the whole prefix
            start = 0 if any(o.startswith("use ") for o in c[: i + 1]) else max([j for j in range(i + 1) if c[j].startswith("new")] or [0])
            small = _shrink_oracle(exe, c[start: i + 1])
            d2 = _first_oracle_diff(exe, small)
            if d2 is None:                                          # never report a replay that does not fail by itself
                small, d2 = c[: i + 1], (i, ei, li)
            note = ""
            if d2[2] == GOST_CARRY_WRONG:
                note = " (the 256-bit checksum lost a carry: historical `a[i] < old || a[i] < b[i]` in sum_256; reference digest " + GOST_CARRY_DIGEST + ")"
            chk.violation("\n".join(small) + "\n", "%s oracle: op %r answered %r, the independent reference says %r%s" % (
                label, small[d2[0]] if d2[0] < len(small) else "?", d2[2], d2[1], note), signature=signature_of(small, None))
            if len(chk.violations) >= 3:
                return n_checked
        if not hit:
            # wrong only when the cases follow each other in one process (state surviving free / new / reset)
            cs = [list(c) for c in batch]
            flat = lambda cc: [o for c in cc for o in c + ["reset"]]
            while len(cs) > 1 and _first_oracle_diff(exe, flat(cs[1:])) is not None:
                cs = cs[1:]
            while len(cs) > 1 and _first_oracle_diff(exe, flat(cs[:-1])) is not None:
                cs = cs[:-1]
            d = _first_oracle_diff(exe, flat(cs))
            chk.violation("\n".join(flat(cs)) + "\n", "%s oracle (only when the cases run one after the other in one process): %s" % (
                label, "line %d answered %r, the independent reference says %r" % (d[0], d[2], d[1]) if d else "rc=%s %s" % (rc, err[-300:])))
    return n_checked


def big_update_probe(chk, exe, fam):
    """thorough tier: ONE update of 2^32 + 5 bytes after a 1-byte update (finding F9).
    GOST: implementation vs model (the model's `updz` is proved equal to `update` on that chunk, and
    `chunking_gost` makes the model's answer the standard's digest), plus implementation-vs-implementation
    with the same bytes in two updates below 2^32.  SHA-3: implementation-vs-implementation only (the
    boxed-word Lean Keccak would need ~20 min for 4 GiB; `chunking_sha3_*` has no 2^32 case distinction)."""
    N = (1 << 32) + 5
    half = 1 << 31
    jobs = {
        "gost-c-single": ([exe], ["new gost", "upd 01", "updz %d" % N, "str"]),
        "gost-c-split": ([exe], ["new gost", "upd 01", "updz %d" % half, "updz %d" % (N - half), "str"]),
        "gost-model-single": ([pv.driver_path(), "hashx"], ["new gost", "upd 01", "updz %d" % N, "str"]),
    }
    for a in ("sha3-224", "sha3-256", "sha3-384", "sha3-512"):
        jobs[a + "-c-single"] = ([exe], ["new " + a, "upd 01", "updz %d" % N, "str"])
        jobs[a + "-c-split"] = ([exe], ["new " + a, "upd 01", "updz %d" % half, "updz %d" % (N - half), "str"])
    res = {}

    def work(name, cmd, ops):
        t0 = time.time()
        rc, out, err = pv.run_proc(cmd, "".join(o + "\n" for o in ops), 3600)
        res[name] = (rc, out.splitlines(), err[-500:], round(time.time() - t0, 1))

    ths = [threading.Thread(target=work, args=(n, c, o)) for n, (c, o) in jobs.items()]
    for t in ths:
        t.start()
    for t in ths:
        t.join()
    chk.cov["big_update_probe_s"] = {n: r[3] for n, r in res.items()}
    for n, r in res.items():
        if r[0] != 0 or len(r[1]) != len(jobs[n][1]):
            if "nomem" in r[1]:
                chk.assumptions.append("big-update probe %s skipped: the sparse zero mapping could not be created" % n)
                continue
            chk.violation("\n".join(jobs[n][1]) + "\n", "C11x big update: %s ended rc=%s after %d answers: %s" % (n, r[0], len(r[1]), r[2]),
                          no_input=not n.endswith("c-single"))
            return
    digest = lambda n: res[n][1][-1] if n in res and res[n][1] else None
    chk.cov["big_update_digests"] = {n: digest(n) for n in sorted(res)}
    for a in ("gost", "sha3-224", "sha3-256", "sha3-384", "sha3-512"):
        s, p = digest(a + "-c-single"), digest(a + "-c-split")
        if s is None or p is None:
            continue
        chk.count("big-update " + a)
        if s != p:
            chk.violation("\n".join(jobs[a + "-c-single"][1]) + "\n",
                          "C11x %s: one update of 2^32+5 bytes gives %s, the same bytes in two updates give %s" % (a, s, p),
                          signature="single update of 2^32 bytes or more (%s)" % a)
        else:
            chk.cov["traces_validated_against_impl"] += 1
    m, s = digest("gost-model-single"), digest("gost-c-single")
    if m is not None and s is not None and m.split(" SPECDIFF")[0] != s:
        chk.violation("\n".join(jobs["gost-c-single"][1]) + "\n", "C11x gost: one update of 2^32+5 bytes: implementation %s, model (= standard digest by chunking_gost) %s" % (s, m),
                      signature="single update of 2^32 bytes or more (gost)")


def load_corpus():
    """corpus/C11/*.ops that use only this module's algorithms"""
    out = []
    for c in pv.load_corpus("C11"):
        algs = [l.split()[1] for l in c if l.startswith("new ") and len(l.split()) > 1]
        if algs and all(a in ALGS for a in algs):
            out.append(c)
    return out


def _finish(chk):
    """pv.Check.finish writes the evidence and then logs `discharged/obligations`, which it has just moved
    under `proof_broken` when the proof stage failed (KeyError); the verdict must survive that"""
    try:
        return chk.finish()
    except KeyError:
        pv.log("[%s] FAIL (proof stage broken): %d violation(s)" % (chk.prop, len(chk.violations)))
        return 1 if chk.violations else 0


def run_part(chk, cfg, exe, proof_ok, detail):
    """the SHA-3 / GOST campaigns on an existing Check (called by props/c11.py); returns (found, corr, thm)"""
    _self_test(chk)
    fam = diffrun.Family("hashx", exe, timeout=600)
    thorough = chk.tier == "thorough"
    all_cases = load_corpus() + list(cases(chk.rng, chk, thorough))
    before = len(chk.violations)
    n_or = oracle_pass(chk, exe, all_cases)
    chk.cov["oracle_checked_answers_hashx"] = n_or
    found, corr, thm = (False, None, None)
    if len(chk.violations) == before:
        found, corr, thm = diffrun.campaign(chk, fam, all_cases, proof_ok, detail, signature_of, "C11 hashx", batch=40)
    if thorough and len(chk.violations) == before:
        try:
            fast = pv.build_harness("hash", cfg, ["hash.c"], repo_files=None, san="plain", opt="-O2")
        except pv.BuildError:
            fast = exe
        big_update_probe(chk, fast, fam)
    return (found or len(chk.violations) > before), corr, thm


RULE_X = ("sha3-224/256/384/512 and gost: every message length 0..3B+1 (B = rate 144/136/104/72, 32) with random content and chunkings biased to "
          "block boundaries, dispatcher histories, zero-filled single updates, random messages up to 200 kB, published GOST/CryptoPro vectors; judged "
          "implementation = model = one-shot spec and implementation = hashlib / independent GOST reference (thorough: one update of 2^32+5 bytes)")
ASSUME_X = ["conformance of keccakF / the GOST step function to the standards is tested (hashlib, independent GOST reference written from the "
            "standard and validated on the published CryptoPro vectors), not proved",
            "one update is shorter than 2^63 bytes (SHA-3) / 2^61 bytes (GOST)",
            "messages above 2^24 bytes: the hashx driver does not evaluate the one-shot spec (covered by the chunking theorems)"]


def run(chk):
    cfg = pv.repo_config()
    _self_test(chk)
    proof_ok, driver_ok, detail = pv.proof_stage(chk, ["PV.Props.C11x"])
    # a translator refusal about the hash sources means Generated/HashX.lean is stale: the theorems were
    # not re-checked against the current code
    mine = ("pcryptohash-sha3.c", "pcryptohash-gost3411.c", "pcryptohash.c", "gen_hashx", "plibsysconfig", "big-endian")
    if proof_ok and any(d.startswith("extractor: ") and any(m in d for m in mine) for d in detail):
        proof_ok = False
        chk.cov["discharged"] = 0
    try:
        exe = pv.build_harness("hash", cfg, ["hash.c"], repo_files=None, san="asan")
    except pv.BuildError as e:
        chk.violation(str(e), "harness for C11x does not build against the current source", no_input=True, suffix="txt")
        return _finish(chk)
    fam = diffrun.Family("hashx", exe, timeout=600)
    thorough = chk.tier == "thorough"
    corpus = load_corpus()
    gen = list(cases(chk.rng, chk, thorough))
    all_cases = corpus + gen
    # 1. the independent oracle (hashlib / GOST reference) judges the implementation directly
    n_or = oracle_pass(chk, exe, all_cases)
    chk.cov["oracle_checked_answers"] = n_or
    # 2. implementation vs model vs spec
    found, corr, thm = (False, None, None)
    if len(chk.violations) == 0:
        found, corr, thm = diffrun.campaign(chk, fam, all_cases, proof_ok, detail, signature_of, "C11x", batch=40)
    # 3. thorough: a single update of more than 2^32 bytes
    if thorough and len(chk.violations) == 0:
        # 4 GiB through the sanitizer build takes ~10 min for GOST; memory safety is covered by everything above,
        # this probe is about the arithmetic on `len`, so it uses an uninstrumented -O2 build of the same sources
        try:
            fast = pv.build_harness("hash", cfg, ["hash.c"], repo_files=None, san="plain", opt="-O2")
        except pv.BuildError:
            fast = exe
        big_update_probe(chk, fast, fam)
    diffrun.conclude(chk, found or len(chk.violations) > 0, corr, thm, proof_ok and driver_ok, detail, "C11x SHA-3/GOST")
    chk.cov["rule"] = ("op files for sha3-224/256/384/512 and gost: every message length 0..3B+1 (B = rate 144/136/104/72, 32) with random "
                       "content (15% all-0x00/0xFF) and random chunking biased to block boundaries incl. empty updates; dispatcher histories "
                       "(update after read, repeated reads, reset, too small get_digest buffer); zero-filled single updates; random messages up "
                       "to 200 kB; published GOST/CryptoPro vectors; each op file is judged implementation = model = one-shot spec and "
                       "implementation = hashlib / independent GOST reference; distinct by hash of the op file, non-trivial when more than one op"
                       + ("; one update of 2^32+5 bytes (gost: implementation = model; all: = same bytes in two updates)" if thorough else ""))
    chk.cov["exhaustive"] = False
    chk.cov["exhaustive_small_scope"] = {"message_lengths": "0..3B+1 for every algorithm (content and chunking sampled)"}
    chk.assumptions += ["little-endian platform (PLIBSYS_IS_BIGENDIAN undefined; checked by the translator)",
                        "allocation never fails in this check (C18 covers failure)",
                        "conformance of keccakF / the GOST step function to the standards is tested (hashlib, independent GOST reference "
                        "written from the standard and validated on the published CryptoPro vectors), not proved",
                        "one update is shorter than 2^63 bytes (SHA-3) / 2^61 bytes (GOST)",
                        "messages above 2^24 bytes: the driver does not evaluate the one-shot spec (covered by the chunking theorems)"]
    return _finish(chk)

"""C04 — atomic operations: indivisible, and equal to C word arithmetic for every operand.

proof:  PV.Props.C04 over the records generated from patomic-{c11,sync,sim}.c (tools/extract_atomics.py)
tie:    harness/atomics.c built three times (c11, sync, sim+pmutex-posix) vs. `pvdriver atomics`
search: real-thread ticket / exactly-one-TRUE / CAS-increment / message-passing runs (thorough tier, and in
        any tier as the failing-input search once the proof or the correspondence is broken)."""
import pv
import diffrun
from props import atomics_common as ac

M32, M64 = 2**32, 2**64
BOUNDARY = [0, 1, 2, 0x7fffffff, 0x80000000, 0x80000001, 0xfffffffe, 0xffffffff,      # 0 1 INT_MAX INT_MIN 2^31+1 -2 -1
            2**32, 2**32 + 1, 2**63 - 1, 2**63, 2**63 + 1, 2**64 - 1]                 # 2^32 2^32+1 2^63±1 all-ones
ONE_ARG = ["add", "and", "or", "xor"]
VARIANTS = ["c11", "sync", "sim"]


def boundary_cases(variant):
    """every op on every (initial word, operand[, operand]) combination of the boundary classes"""
    for wd in ("32", "64"):
        for w in BOUNDARY:
            head = ["set%s %d" % (wd, w)]
            zero = ["get"] + (["inc", "dec"] if wd == "32" else [])
            for op in zero:
                yield head + [op + wd, "get" + wd]
            for op in ONE_ARG + ["set"]:
                for v in BOUNDARY:
                    yield head + ["%s%s %d" % (op, wd, v), "get" + wd]
            for o in BOUNDARY:
                for nw in BOUNDARY:
                    yield head + ["cas%s %d %d" % (wd, o, nw), "get" + wd]


def lifecycle_probes():
    """the global mutex of the simulated back-end: every operation, from the main thread and from a second thread,
    must take it exactly once (`natives`), a second init must keep it, shutdown + init must bring it back;
    p_atomic_is_lock_free"""
    yield ["lockfree", "T lockfree"]
    allops = ["get32", "set32 7", "inc32", "dec32", "cas32 0 1", "add32 5", "and32 12", "or32 3", "xor32 9",
              "get64", "set64 4294967301", "cas64 4294967301 1", "add64 5", "and64 12", "or64 3", "xor64 9"]
    for o in allops:
        yield ["natives", o, "natives", "T " + o, "natives"]
    yield ["natives"] + ["T " + o for o in allops] + ["natives"] + allops + ["natives"]
    yield ["natives", "init", "add32 1", "T add32 1", "natives", "init", "init", "T cas32 2 9", "get32", "natives"]
    yield ["add32 1", "natives", "shutdown", "natives", "add32 1", "natives", "init", "T add32 1", "inc32", "natives",
           "shutdown", "natives", "init", "init", "T get32", "natives"]


def rand_operand(rng, mask):
    r = rng.random()
    if r < 0.35:
        return rng.getrandbits(64)
    if r < 0.6:
        return rng.getrandbits(32)
    if r < 0.75:
        return rng.choice(BOUNDARY)
    if r < 0.9:
        return (rng.choice(BOUNDARY) + rng.randrange(-3, 4)) % M64
    return rng.randrange(0, 16)


def random_case(rng, chk, variant, n):
    """a stateful op sequence; the generator follows the word only to aim compare-and-exchange at it"""
    ops = []
    w = {"32": 0, "64": 0}
    mask = {"32": M32, "64": M64}
    for _ in range(n):
        wd = "32" if rng.random() < 0.55 else "64"
        m = mask[wd]
        k = rng.choice(["get", "set", "inc", "dec", "cas", "cas", "add", "add", "and", "or", "xor"])
        if wd == "64" and k in ("inc", "dec"):
            k = "add"
        chk.bump("op:" + k + wd)
        if k == "get":
            ops.append("get" + wd)
        elif k == "inc":
            ops.append("inc32")
            w[wd] = (w[wd] + 1) % m
        elif k == "dec":
            # aim at the zero crossing now and then
            if rng.random() < 0.3:
                ops.append("set32 %d" % rng.choice([1, 2, 0]))
                w[wd] = int(ops[-1].split()[1])
            ops.append("dec32")
            w[wd] = (w[wd] - 1) % m
        elif k == "cas":
            old = w[wd] if rng.random() < 0.5 else rand_operand(rng, m)
            if rng.random() < 0.15:
                old = (w[wd] + rng.choice([m, 1, -1])) % M64           # equal only after truncation / off by one
            new = rand_operand(rng, m)
            ops.append("cas%s %d %d" % (wd, old, new))
            if old % m == w[wd]:
                w[wd] = new % m
                chk.bump("cas-hit")
            else:
                chk.bump("cas-miss")
        else:
            v = rand_operand(rng, m)
            ops.append("%s%s %d" % (k, wd, v))
            if k == "set":
                w[wd] = v % m
            elif k == "add":
                if w[wd] + (v % m) >= m:
                    chk.bump("add-wraps")
                w[wd] = (w[wd] + v) % m
            elif k == "and":
                w[wd] &= v % m
            elif k == "or":
                w[wd] |= v % m
            elif k == "xor":
                w[wd] ^= v % m
    ops += ["get32", "get64"]
    if rng.random() < (0.06 if chk.tier != "thorough" else 0.02):
        # some of the ops on a second thread, native-call counts, life cycle of the global mutex
        out = ["natives"]
        for o in ops:
            r = rng.random()
            if r < 0.05:
                out += ["natives", "init"]
                chk.bump("life:init-again")
            elif r < 0.08:
                out += ["natives", "shutdown", "natives"] + (["init"] if rng.random() < 0.8 else [])
                chk.bump("life:shutdown")
            elif r < 0.1:
                out.append("init")
            if rng.random() < 0.3:
                out.append("T " + o)
                chk.bump("second-thread-op")
            else:
                out.append(o)
        ops = out + ["natives", "init"]
    return ops


def observations(summary):
    obs = []
    for k in ("sync.p_atomic_int_set", "sync.p_atomic_pointer_set"):
        d = summary.get(k)
        if d and d["builtin"] == "plainStore" and d["fenceAfter"] and not d["fenceBefore"]:
            obs.append("%s is `*atomic = val; __sync_synchronize ()`: no barrier before the store, so on hardware weaker than TSO "
                       "earlier writes may become visible after the flag (not a release); harmless on x86-64 (trusted base)" % k)
    for k in ("sync.p_atomic_int_get", "sync.p_atomic_pointer_get"):
        d = summary.get(k)
        if d and d["builtin"] == "plainLoad" and d["fenceBefore"] and not d["fenceAfter"]:
            obs.append("%s is `__sync_synchronize (); return *atomic`: no barrier after the load, so on hardware weaker than TSO "
                       "later reads may be satisfied before the flag is read (not an acquire); harmless on x86-64" % k)
    obs.append("patomic-sync.c get/set are plain volatile accesses racing with `__sync_*` RMWs on the same word: a data race in "
               "ISO C11 terms (ThreadSanitizer reports it); the file predates C11 atomics and relies on volatile + barriers")
    obs.append("patomic-sim.c ignores the result of p_mutex_lock (pp_atomic_mutex): before p_atomic_thread_init () (mutex NULL) or if "
               "the native lock fails the body runs unprotected; outside the property's assumptions (p_libsys_init () done)")
    return obs


def signature_of(ops, r):
    return None


def stress_plan(variants, thorough):
    n, it = (8, 150000) if thorough else (4, 30000)
    plan = []
    for v in variants:
        scale = 1 if v != "sim" else 4          # the mutex-simulated model is slower under contention
        plan += [(v, "ticket", [n, it // scale]), (v, "dectest", [n, it // scale]), (v, "incdec", [n, 4 * it // scale]), (v, "incdec", [2, 4 * it // scale], "plain"), (v, "casinc", [n, it // (4 * scale)]),
                 (v, "pticket", [n, it // scale]),                      # pointer-sized word, crossing 2^32
                 (v, "mix", [n, it // (2 * scale)]), (v, "mix", [3, it // (2 * scale)]),     # every operation mixed on one word
                 (v, "mp", [it // scale]), (v, "sb", [(1000000 if thorough else 600000) // scale])]
        if v == "c11":
            plan += [(v, "mix", [n, it], "plain"), (v, "ticket", [n, it], "plain")]       # gcc -O2, as the library is built
    return plan


def quick_plan(variants):
    """real threads in every run (a few seconds per back-end)"""
    plan = []
    for v in variants:
        scale = 1 if v != "sim" else 2
        plan += [(v, "mix", [4, 60000 // scale]), (v, "ticket", [4, 40000 // scale]), (v, "pticket", [3, 40000 // scale]),
                 (v, "dectest", [4, 40000 // scale]), (v, "incdec", [4, 200000 // scale], "plain"), (v, "mp", [20000 // scale])]
    return plan


def run(chk):
    cfg = pv.repo_config()
    proof_ok, driver_ok, detail = pv.proof_stage(chk, ["PV.Props.C04"])
    if ac.extractor_broken(detail) and proof_ok:
        proof_ok = False
        chk.cov["discharged"] = 0
    thorough = chk.tier == "thorough"
    rng = chk.rng
    found = False
    corr = thm = None
    op_evals = 0
    nrand = 100000 if thorough else 12000
    fams = {}
    for v in VARIANTS:
        try:
            fams[v] = ac.VFamily("atomics", ac.build_atomics(cfg, v), v)
        except pv.BuildError as e:
            chk.violation(str(e), "C04 harness for the %s back-end does not build against the current source" % v, no_input=True, suffix="txt")
    if driver_ok:
        for v, fam in fams.items():
            cases = ac.corpus_for("C04", v)
            bnd = list(boundary_cases(v)) + list(lifecycle_probes())
            rnd = [random_case(rng, chk, v, 10) for _ in range(nrand)]
            allc = cases + bnd + rnd
            op_evals += sum(len(c) for c in allc)
            chk.bump("boundary-cases:" + v, len(bnd))
            f, c, t = diffrun.campaign(chk, fam, allc, proof_ok, detail, signature_of, "C04 variant=" + v, batch=3000)
            found = found or f
            corr = corr or c
            thm = thm or t
    else:
        detail.append("model driver does not build: no differential run")
    chk.cov["op_evaluations"] = op_evals
    need_search = (not (proof_ok and driver_ok)) or corr is not None or thm is not None
    if not (thorough or need_search):
        found = ac.stress_campaign(chk, cfg, "C04", quick_plan([v for v in VARIANTS if v in fams]), 60, "real-thread run") or found
    if thorough or (need_search and not found):
        found = ac.stress_campaign(chk, cfg, "C04", stress_plan([v for v in VARIANTS if v in fams], thorough), 180 if thorough else 60,
                                   "supporting run" if not need_search else "failing-input search") or found
    if not proof_ok:
        chk.cov["broken_theorems"] = ac.name_broken_theorems(detail)
    diffrun.conclude(chk, found, corr, thm, proof_ok and driver_ok, detail, "C04 atomic operations")
    try:
        import extract_atomics
        summ = getattr(extract_atomics.gen_atomics, "summary", {})
        chk.cov["translator"] = {k: v for k, v in summ.items() if not k.startswith("spin.") and not k.startswith("mutex.")}
        chk.cov["observations"] = observations(summ)
    except Exception:
        pass
    chk.cov["rule"] = ("per back-end (c11, sync, sim) op files `set W; op V…; get`: every op on all combinations of 14 boundary words/operands "
                       "(0, 1, 2, INT_MAX, INT_MIN, 2^31+1, -2, -1, 2^32, 2^32+1, 2^63-1, 2^63, 2^63+1, all-ones; values >= 2^32 reach the "
                       "32-bit ops truncated) plus random stateful sequences of 10 ops (operands uniform 64/32-bit, boundary±3, small; half of the "
                       "compare-and-exchange aimed at the current word); returned value and the word read back from memory compared after every op; "
                       "directed life-cycle cases and a share of the random ones run ops on a second thread (`T op`), count the native mutex calls of the "
                       "simulated back-end (`natives`: one lock and one unlock of one and the same mutex per operation, from whichever thread), call "
                       "p_atomic_thread_init again / shutdown + init, and ask p_atomic_is_lock_free; real threads in every run (all operations mixed on one "
                       "int and one pointer-sized word crossing 2^32, tickets of both widths, exactly-one-TRUE, message passing); "
                       "a case is distinct by the hash of its op file and non-trivial when it has more than one op; op_evaluations counts single ops")
    chk.cov["exhaustive"] = False
    chk.assumptions += [
        "hardware and compiler implement the __atomic_* / __sync_* builtins as indivisible operations with the stated memory order (trusted, DESIGN §4); "
        "for the lock-free back-ends indivisibility is this contract (one builtin call = one step of the model), not a proved fact",
        "pthread mutexes satisfy POSIX (lock blocks until free, unlock by the owner releases): basis of the bracketed model of patomic-sim.c; "
        "p_libsys_init () has called p_atomic_thread_init () (then the mutex exists and stays the same: sim_init_creates, sim_init_idempotent, from the "
        "translated declaration and life-cycle functions) and native lock / unlock do not fail",
        "`(*atomic)++`, `--(*atomic)`, `oldval + val` on pint / pssize: signed wrap-around is undefined in ISO C but wraps in this build (no -ftrapv); "
        "the sim harness is built without -fsanitize=signed-integer-overflow",
        "sync model: `__sync_synchronize ()` after a plain store / before a plain load gives sequential consistency on x86-TSO only (all_seq_cst_sync "
        "checks exactly that placement); x86-64, int 32 bit, pointers / psize 64 bit (checked by the translator with _Static_assert)",
        "the happens-before / full-barrier reading of set and get is the memory-order table (all_seq_cst_*), plus the message-passing litmus in the thorough tier; "
        "ThreadSanitizer runs use clang-14 with __atomic_{load,store}_{4,8} renamed to the generic builtins (clang has no size-suffixed builtins)",
    ]
    return chk.finish()


def replay(chk, path):
    variant, lines = ac.replay_file(path)
    if variant not in VARIANTS or not lines or lines[0].startswith("program:"):
        print("not an op file (real-thread programs are rerun with harness/stress.c as described in the file)")
        return 2
    cfg = pv.repo_config()
    import extract
    extract.run()
    pv.lake_build(["pvdriver"])
    r = diffrun.judge(ac.VFamily("atomics", ac.build_atomics(cfg, variant), variant), lines)
    print("agree" if r is None else "%s at op %d: %s" % (r["kind"], r["at"], r["detail"]))
    return 0 if r is None else 1

"""C09 — sockets deliver data intact despite retries (model PV.Model.Socket, theorems PV.Props.C09)."""
import pv
import diffrun
from props import sockets as S
from props import sockets_real as R


def signature_of(ops, r):
    return None


def replay(chk, path):
    return S.replay(chk, path, S.view_c09)


def run(chk):
    cfg = pv.repo_config()
    proof_ok, driver_ok, detail = pv.proof_stage(chk, ["PV.Props.C09"])
    try:
        exe = S.build(cfg)
    except pv.BuildError as e:
        chk.violation(str(e), "harness for C09 does not build against the current source", no_input=True, suffix="txt")
        return S.finish(chk)
    fam = S.make_family(exe, S.view_c09)
    thorough = chk.tier == "thorough"
    cases = S.scripted_cases(chk, thorough, "C09")
    found, corr, thm = diffrun.campaign(chk, fam, cases, proof_ok, detail, signature_of, "C09", batch=150)
    if not found:
        found = R.run_real(chk, cfg, "C09", thorough) or found
    diffrun.conclude(chk, found, corr, thm, proof_ok and driver_ok, detail, "C09 sockets: data path")
    chk.cov["rule"] = ("scripted differential runs of the real psocket.c (every native call wrapped, results from the script) against the Lean model: "
                       "EXHAUSTIVE enumeration of all result scripts of length <= %d along the retry-loop structure (6-symbol alphabet per data call, 4 for poll) for "
                       "receive/receive_from/send/send_to/accept/connect/io_condition_wait x blocking/non-blocking x with/without timeout; structured long scripts "
                       "(k EINTRs, EAGAIN bursts, short transfers, poll timeouts, hard errors in all positions, sizes >= 4 GiB); random call sequences; "
                       "a case is distinct by the hash of its op file and non-trivial when it has more than one op"
                       % chk.cov["exhaustive_small_scope"]["loop_script_depth"])
    chk.cov["exhaustive"] = False
    chk.assumptions += S.ASSUMPTIONS
    return S.finish(chk)

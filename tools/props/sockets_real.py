"""Real-kernel supporting runs for C09 / C10 / C19 (thorough tier).  Not proofs: failing-input search with one-sided
oracles (byte-exact stream with running checksum, datagram truncation and sender address, lower bounds on elapsed
monotonic time, FD_CLOEXEC, no SIGPIPE); loopback only; IPv6 parts are skipped (and said so) when ::1 is unavailable."""
import pv


def plan(which, rng, thorough=True):
    runs = []
    if which == "C19":
        # real handled signals (no SA_RESTART) during timed blocking calls: lower bound on the time-out, data in time is delivered
        for fam in ((4, 6) if thorough else (4,)):
            runs.append(["sigdata", str(fam), "500"])
            runs.append(["timed", str(fam), "60", "1"])
            if thorough:
                runs += [["sigdata", str(fam), "1500"], ["timed", str(fam), "150", "1"]]
            # a storm of handled signals (every 0.7 ms) during connect / accept / blocking send and receive through 4 KiB socket
            # buffers, and during datagram send_to / receive_from: right data, never an interrupted-call error
            runs.append(["tcp", str(rng.randrange(1, 10**6)), str(fam), "400000" if thorough else "150000", "1", "0"])
            runs.append(["udp", str(rng.randrange(1, 10**6)), str(fam), "1"])
    elif which == "C09" and not thorough:
        # quick tier: one short pass over the real kernel (about 3 s): stream under a signal storm, datagrams one at a time
        # and queued (two senders, empty datagrams, NULL address result, pending socket error = POLLERR alone), vanished peer
        runs += [["tcp", str(rng.randrange(1, 10**6)), "4", "150000", "1", "0"], ["tcp", str(rng.randrange(1, 10**6)), "4", "150000", "0", "3"],
                 ["udp", str(rng.randrange(1, 10**6)), "4", "1"], ["udpq", str(rng.randrange(1, 10**6)), "4"], ["gone", "4"],
                 # a datagram that arrives at 0.8 T of a timed blocking receive under a stream of handled signals must be delivered
                 ["sigdata", "4", "500"],
                 # a blocking connect interrupted once while the handshake is pending (the retry is answered EALREADY)
                 ["eintrconn", "4"],
                 # a sender with a short timeout against a receiver that starts late: received bytes = bytes reported as sent, also
                 # across timed-out calls and the close right after the last reported bytes
                 ["stall", str(rng.randrange(1, 10**6)), "4", "300"]]
    elif which == "C09":
        for fam in (4, 6):
            runs.append(["udpq", str(rng.randrange(1, 10**6)), str(fam)])
            for mode in range(4):
                for storm in (1, 0):
                    size = rng.choice([150000, 400000, 1200000 if (mode == 3 and fam == 4) else 600000])
                    runs.append(["tcp", str(rng.randrange(1, 10**6)), str(fam), str(size), str(storm), str(mode)])
            runs.append(["tcp", str(rng.randrange(1, 10**6)), str(fam), "2500000", "0", "0"])     # a few MB through 4 KiB socket buffers
            runs.append(["tcp", str(rng.randrange(1, 10**6)), str(fam), "1200000", "1", "3"])
            for storm in (1, 0):
                runs.append(["udp", str(rng.randrange(1, 10**6)), str(fam), str(storm)])
            runs.append(["gone", str(fam)])
            runs.append(["eintrconn", str(fam)])
            runs += [["stall", str(rng.randrange(1, 10**6)), str(fam), "300"], ["stall", str(rng.randrange(1, 10**6)), str(fam), "700"]]
    elif which == "C10" and not thorough:
        # quick tier: descriptor flags and the closed state on the real kernel, after accepts that failed for a real reason (< 1 s)
        runs += [["flags", "4"], ["flags", "6"]]
    else:
        for fam in (4, 6):
            runs.append(["flags", str(fam)])
            for T in (60, 150):
                for storm in (0, 1):
                    runs.append(["timed", str(fam), str(T), str(storm)])
            runs.append(["sigdata", str(fam), "800"])
            # the data path under the modes of this property: a blocking sender through 4 KiB buffers (waits for writability)
            runs.append(["tcp", str(rng.randrange(1, 10**6)), str(fam), "150000", "0", "0"])
            runs.append(["stall", str(rng.randrange(1, 10**6)), str(fam), "300"])
    return runs


def run_real(chk, cfg, which, thorough=True):
    """returns True when a concrete failure was reported"""
    try:
        exe = pv.build_harness("socket_real", cfg, ["socket_real.c"], repo_files=None, san="asan", link=["-Wl,--wrap=connect"])
    except pv.BuildError as e:
        chk.violation(str(e), "real-kernel harness does not build against the current source", no_input=True, suffix="txt")
        return False
    found = False
    res = []
    for args in plan(which, chk.rng, thorough):
        rc, out, err = pv.run_proc([exe] + args, "", timeout=180)
        line = (out.strip().splitlines() or [""])[-1]
        chk.count("real " + " ".join(args))
        chk.bump("real:" + args[0] + ("/skip" if line.startswith("skip") else ""))
        res.append(" ".join(args) + " -> " + line[:200])
        if rc != 0 or not (line.startswith("ok") or line.startswith("skip")):
            what = "real-kernel run `socket_real %s`: %s" % (" ".join(args), line or ("rc=%s %s" % (rc, err[-600:])))
            chk.violation("socket_real " + " ".join(args) + "\n", what)
            found = True
    chk.cov["real_kernel_runs"] = res
    if any("skip" in r for r in res):
        chk.assumptions.append("IPv6 real-socket parts skipped where the sandbox has no ::1 (see real_kernel_runs)")
    return found

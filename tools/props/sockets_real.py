"""Real-kernel supporting runs for C09 / C10 (thorough tier).  Not proofs: failing-input search with one-sided oracles."""
import pv


def run_real(chk, cfg, which):
    return False

"""C16 — INI parser: robustness on all byte strings, documented grammar round trip
(model PV.Model.Ini, spec PV.Spec.Ini, theorems PV.Props.C16)."""
import itertools
import re
import struct
import pv
import diffrun

MAXLINE = 1024
BLANKS = b" \t\r\x0b\x0c"
BOMS = {"utf8": b"\xef\xbb\xbf", "utf16be": b"\xfe\xff", "utf16le": b"\xff\xfe", "utf32be": b"\x00\x00\xfe\xff"}
ALL_BOMS = list(BOMS.values()) + [b"\xff\xfe\x00\x00"]
EOLS = {"lf": b"\n", "crlf": b"\r\n", "eof": b""}
QUOTES = {"n": b"", "s": b"'", "d": b'"'}
PIECE_OPS = ("raw", "bom", "blk", "cmt", "hdr", "ent")


def hx(b):
    return b.hex() if b else "-"


def is_space(c):
    return c == 32 or 9 <= c <= 13


# ---------------------------------------------------------------------------------------------
# documents of the documented grammar (mirrors PV.IniSpec; the driver re-renders every line and
# re-checks WF, so a slip here shows up as `bad-op` / `notwf`, never as a silent pass)

def blanks(rng, p=0.5, maxn=3):
    if rng.random() > p:
        return b""
    n = rng.randrange(1, maxn + 1)
    if rng.random() < 0.85:
        return bytes(rng.choice(b" \t") for _ in range(n))
    return bytes(rng.choice(BLANKS) for _ in range(n))


WORDS = [b"a", b"b", b"key", b"name", b"int_parameter_1", b"x y", b"size", b"path", b"k1", b"k2", b"k3", b"\xc3\xa9t\xc3\xa9", b"value",
         b"list", b"flag", b"A.B", b"a-b", b"a_b", b"Key With Blanks", b"\xef\xbc\xa1", b"0", b"{", b"}", b"'q'", b'"q"', b"a]b", b"a[b"]


def rand_bytes(rng, n, forbid):
    out = bytearray()
    while len(out) < n:
        c = rng.randrange(1, 256)
        if c not in forbid:
            out.append(c)
    return bytes(out)


def fix_ends(rng, s, bad_first, forbid):
    """make s non-empty with a non-blank first/last byte, first byte not in bad_first"""
    s = bytearray(s)
    ok = [c for c in b"abcxyzKQ019_.-" if c not in forbid and c not in bad_first]
    if not s:
        s.append(rng.choice(ok))
    if is_space(s[0]) or s[0] in bad_first:
        s[0] = rng.choice(ok)
    if is_space(s[-1]):
        s[-1] = rng.choice(ok)
    return bytes(s)


def variant(rng, k):
    """a name that is easily confused with k: other case, a prefix, an extension"""
    r = rng.randrange(5)
    if r == 0:
        return k.swapcase()
    if r == 1:
        return k.upper() if k != k.upper() else k.lower()
    if r == 2 and len(k) > 1:
        return k[:rng.randrange(1, len(k))]
    if r == 3:
        return k + rng.choice([b"1", b"x", b"_", b".", b"k"])
    return rng.choice([b"x", b"_"]) + k


def gen_key(rng, chk, pool=()):
    forbid = {0, 10, 61, 35, 59}
    r = rng.random()
    if pool and r < 0.15:
        k = variant(rng, rng.choice(pool))
        chk.bump("key:variant-of-another")
    elif r < 0.75:
        k = rng.choice(WORDS)
        if rng.random() < 0.3:
            k = k + str(rng.randrange(100)).encode()
    elif r < 0.9:
        k = rand_bytes(rng, rng.randrange(1, 12), forbid)
        chk.bump("key:random-bytes")
    else:
        k = rand_bytes(rng, rng.randrange(1, 6), forbid | set(range(128, 256))) + rng.choice([b" ", b"\t", b"  "]) + rng.choice(WORDS)
        chk.bump("key:inner-blanks")
    k = bytes(c for c in k if c not in forbid)
    return fix_ends(rng, k, {91}, forbid)


INTS = [b"0", b"1", b"-1", b"+5", b"007", b"42", b"-0", b"2147483647", b"-2147483648", b"2147483648", b"-2147483649", b"4294967297",
        b"99999999999999999999", b"-99999999999999999999", b"12abc", b"- 5", b"+-3", b"1 2", b"0x10", b"1e3", b"9223372036854775807",
        b"9223372036854775808", b"18446744073709551617", b"010", b"000100", b"0644", b"08", b"00", b"-007", b"+0", b"2147483647x", b"0b1", b"1_000",
        b"1,5", b"1.9", b"-1.9", b"\xb2", b"1\xb2"]
DOUBLES = [b"3.24", b"0.15", b"123.3e10", b"123.19", b"-1.5", b"+2.", b".5", b"-.5e-3", b"1e308", b"1e309", b"1e-308", b"1e-400", b"2E5",
           b"1e+2", b"0.1", b"0.30000000000000004", b"123456789012345678901234567890", b"1e4294967297", b"1e99999", b"1.7976931348623157e308",
           b"4.9e-324", b"1e50", b"1e58", b"1e8", b"5e-1x", b"e5", b".", b"-", b"1.2.3", b"1e", b"1e-", b"0.000000000000000000000000000001",
           b"3.141592653589793238462643383279", b"007.50", b"00", b"-0.0", b"+.5", b"1.e5", b".e5", b"1E+05", b"1e+", b"1e007", b"1e0", b"1e49", b"1e57",
           b"1e100", b"1e150", b"1e307", b"1e-307", b"9.999e-5", b"1,5", b"inf", b"nan", b"-inf", b"Infinity", b"0x1p3", b"1d5", b"1e5e5", b"12e-1.5", b"5.", b"5.e", b"--5", b"+-5",
           b"4503599627370497", b"9007199254740993", b"0.1e1", b"100e-2", b"1e-0", b"299792458", b"6.02214076e23", b"1.602176634E-19"]
BOOLS = [b"true", b"TRUE", b"false", b"FALSE", b"True", b"0", b"1", b"2", b"-1", b"yes", b"tRUE", b"true1", b"False", b"fALSE", b"false0", b"1true", b"truefalse", b"on", b"off",
         b"no", b"01", b"+1", b"1.5", b"0.9", b"t", b"T"]


def gen_list_value(rng, chk=None):
    r = rng.random()
    if r < 0.04:
        # one long item / many items (the item buffer of the getter has the size of the line buffer)
        if chk:
            chk.bump("list:long-item")
        return b"{" + rng.choice([b"", b"a "]) + b"x" * rng.choice([254, 255, 256, 257, 511, 512, 513, 900]) + rng.choice([b"", b" b"]) + b"}"
    if r < 0.08:
        if chk:
            chk.bump("list:many-items")
        k = rng.choice([63, 64, 65, 66, 128, 200, 300])
        return b"{" + b" ".join(b"%d" % i for i in range(k)) + b"}"
    if r < 0.12:
        if chk:
            chk.bump("list:other-white-space")
        return b"{" + rng.choice([b"a\x0bb", b"a\x0cb", b"a\rb", b"a \x0b b", b"\x0ca\x0c", b"a\x0b"]) + b"}"
    n = rng.randrange(0, 5)
    items = [rng.choice([b"1", b"2", b"5", b"10", b"val", b"2.0", b"true", b"FALSE", b"7654", b"a=b", b"x'y", b"{"]) for _ in range(n)]
    seps = [rng.choice([b" ", b"\t", b"  ", b" \t "]) for _ in range(n)]
    body = b"".join(i + s for i, s in zip(items, seps))
    return b"{" + blanks(rng, 0.3) + (body.rstrip(b" \t") if rng.random() < 0.6 else body) + b"}"


def gen_value(rng, chk, q):
    """value text for quoting style q ('n','s','d'); well-formed for that style"""
    r = rng.random()
    if r < 0.2:
        v, t = rng.choice(INTS), "int"
    elif r < 0.4:
        v, t = rng.choice(DOUBLES), "double"
        if rng.random() < 0.3:
            v = (b"-" if rng.random() < 0.3 else b"") + str(rng.randrange(0, 10**rng.randrange(1, 25))).encode() + b"." + \
                str(rng.randrange(0, 10**rng.randrange(1, 25))).encode() + (b"e" + str(rng.randrange(-330, 330)).encode() if rng.random() < 0.5 else b"")
    elif r < 0.5:
        v, t = rng.choice(BOOLS), "bool"
    elif r < 0.65:
        v, t = gen_list_value(rng, chk), "list"
    elif r < 0.9:
        v, t = rng.choice([b"Test string", b"a=b", b"x = y = z", b"it's", b'say "hi"', b"[not a section]", b"a;b", b"a#b", b"Test string with #'",
                           b"c:\\dir\\file", b"\xc3\xbcber", b"==", b"{1 2", b"1 2}", b"tab\there", b"v"]), "string"
    else:
        v, t = rand_bytes(rng, rng.randrange(1, 20), {0, 10}), "random-bytes"
    forbid = {0, 10}
    if q == "n":
        forbid |= {35, 59}
    elif q == "s":
        forbid |= {39}
    else:
        forbid |= {34}
    v = bytes(c for c in v if c not in forbid)
    if q != "n" and (not v or rng.random() < 0.08):
        chk.bump("value:empty-quoted")
        return b""
    if q == "n" and rng.random() < 0.07:
        # `key =`, `key = ; note`: no value text at all, the line assigns nothing (IniSpec.Entry.binding)
        chk.bump("value:none-unquoted")
        return b""
    if q != "n" and rng.random() < 0.04:
        chk.bump("value:quoted-blanks-only")
        return bytes(rng.choice(BLANKS) for _ in range(rng.randrange(1, 4)))
    v = fix_ends(rng, v, {34, 39} if q == "n" else set(), forbid)
    if (q == "d" and v == b"''") or (q == "s" and v == b'""'):
        v = b"q" + v          # WF excludes a quoted value that is, blanks aside, the other kind of empty quotes
    if q != "n" and rng.random() < 0.15:
        # blanks directly inside the quotes: dropped by the parser, and by the documented meaning
        v = blanks(rng, 0.7, 2) + v + blanks(rng, 0.7, 2)
        chk.bump("value:blanks-inside-quotes")
    chk.bump("value:" + t)
    return v


def gen_comment_text(rng, chk):
    r = rng.random()
    if r < 0.35:
        chk.bump("comment:with-equals")
        return rng.choice([b" a = b", b"c=d", b" key = \"v\"", b"= x", b" x = 'y' ; z", b" a = b = c"])
    if r < 0.7:
        return rng.choice([b" Whole line is a comment", b"", b" ", b"[section]", b" ;;##", b" 'quoted\"", b"\t trailing \t"])
    return rand_bytes(rng, rng.randrange(0, 30), {0, 10})


def starts_with_bom(b):
    return any(b.startswith(x) for x in ALL_BOMS)


class Line:
    """one physical line: op token list (without the final hex) + its bytes without the line end"""

    def __init__(self, kind, fields, body):
        self.kind, self.fields, self.body, self.eol, self.mark = kind, fields, body, "lf", None

    def op(self):
        return " ".join([self.kind] + self.fields + [self.eol, hx(self.body + EOLS[self.eol])])

    def ops(self):
        """the line as pieces: its byte-order mark (IniSpec.Line.mark / Header.mark), if any, then the line"""
        return (["bom %s %s" % (self.mark, BOMS[self.mark].hex())] if self.mark else []) + [self.op()]


def gen_entry(rng, chk, keys_pool, pad_to=None):
    lead, pre, post, trail = blanks(rng, 0.25), blanks(rng, 0.7, 2), blanks(rng, 0.7, 2), blanks(rng, 0.3)
    if keys_pool and rng.random() < 0.25:
        key = rng.choice(keys_pool)
        chk.bump("entry:repeated-key")
    else:
        key = gen_key(rng, chk, keys_pool)
        keys_pool.append(key)
    q = rng.choice("nnnsd" if rng.random() < 0.7 else "nsd")
    value = gen_value(rng, chk, q)
    cm, ct = 0, b""
    if rng.random() < 0.3:
        cm, ct = rng.choice([35, 59]), gen_comment_text(rng, chk)
        chk.bump("entry:trailing-comment")
    if pad_to is not None:
        # grow the value (or the comment) so that the physical line has exactly pad_to bytes before the line end
        fixed = len(lead + key + pre + b"=" + post + QUOTES[q] * 2 + value + trail) + (1 + len(ct) if cm else 0)
        extra = pad_to - fixed
        if extra > 0:
            if cm and rng.random() < 0.5:
                ct = ct + b"c" * extra
            else:
                value = value + b"v" * extra
            chk.bump("entry:padded-to-%d" % pad_to)
    chk.bump("entry:quote-" + {"n": "none", "s": "single", "d": "double"}[q])
    body = lead + key + pre + b"=" + post + QUOTES[q] + value + QUOTES[q] + trail + (bytes([cm]) + ct if cm else b"")
    if not lead and starts_with_bom(body):
        return gen_entry(rng, chk, keys_pool, pad_to)
    return Line("ent", [hx(lead), hx(key), hx(pre), hx(post), q, hx(value), hx(trail), str(cm), hx(ct)], body)


def gen_body_line(rng, chk, keys_pool, in_section):
    r = rng.random()
    if r < 0.12:
        ws = blanks(rng, 0.5, 4)
        chk.bump("line:blank")
        return Line("blk", [hx(ws)], ws)
    if r < 0.3:
        lead, m, t = blanks(rng, 0.2), rng.choice([35, 59]), gen_comment_text(rng, chk)
        chk.bump("line:comment" + ("-in-section" if in_section else "-in-preamble"))
        return Line("cmt", [hx(lead), str(m), hx(t)], lead + bytes([m]) + t)
    pad = None
    if rng.random() < 0.04:
        pad = rng.choice([1020, 1021, 1022, 1023])
    chk.bump("line:entry" + ("" if in_section else "-in-preamble"))
    return gen_entry(rng, chk, keys_pool, pad)


def gen_header(rng, chk, names):
    while True:
        n = rng.choice([b"numeric_section", b"s", b"sec", b"string section", b"a=b", b"#hash", b"[nested", b"\xc3\xa9", b"list_section", b"S"])
        if rng.random() < 0.5:
            n = n + str(rng.randrange(1000)).encode()
        if rng.random() < 0.1:
            n = fix_ends(rng, rand_bytes(rng, rng.randrange(1, 10), {0, 10, 93}), set(), {0, 10, 93})
        if names and rng.random() < 0.1:
            n = rng.choice(sorted(names))
        elif names and rng.random() < 0.15:
            n = fix_ends(rng, bytes(c for c in variant(rng, rng.choice(sorted(names))) if c not in (0, 10, 93)), set(), {0, 10, 93})
            chk.bump("header:variant-of-another")
        if n not in names:
            break
        if rng.random() < 0.5:
            # a repeated header starts a section of its own; look-ups by name see one of them (IniSpec.seenSec)
            chk.bump("header:repeated-name")
            break
    names.add(n)
    lead, pre, post, trail = blanks(rng, 0.15), blanks(rng, 0.2, 2), blanks(rng, 0.2, 2), blanks(rng, 0.2)
    chk.bump("line:header")
    return Line("hdr", [hx(lead), hx(pre), hx(n), hx(post), hx(trail)], lead + b"[" + pre + n + post + b"]" + trail)


def gen_doc(rng, chk, size, lookups=0):
    """returns the op list of one well-formed document (pieces, wfcheck, gparse, then `lookups` gget ops and sometimes life)"""
    lines = []
    keys_pool = []
    for _ in range(rng.choice([0, 0, 1, 2]) if size > 1 else 0):
        lines.append(gen_body_line(rng, chk, keys_pool, False))
    names = set()
    nsec = rng.randrange(0, size + 1) if size > 1 else 1
    for _ in range(nsec):
        lines.append(gen_header(rng, chk, names))
        keys_pool = []
        nl = rng.choice([0, 1, 2, 3, 5, 8]) if size > 1 else rng.randrange(1, 4)
        if nl == 0:
            chk.bump("section:empty")
        for _ in range(nl):
            lines.append(gen_body_line(rng, chk, keys_pool, True))
    bom = None
    r = rng.random()
    if r < 0.25:
        bom = rng.choice(sorted(BOMS))
        chk.bump("bom:" + bom)
    else:
        chk.bump("bom:none")
        if lines and starts_with_bom(lines[0].body):
            bom = "utf8"
    if len(lines) > 1 and rng.random() < 0.25:
        # files pasted together: a byte-order mark at the start of lines in the middle of the file (the parser skips one
        # on every line it reads); the first line carries the file's mark or its own, never both
        chk.bump("doc:marks-inside")
        for i, l in enumerate(lines):
            if rng.random() < 0.3 and not (i == 0 and bom):
                l.mark = rng.choice(sorted(BOMS))
                chk.bump("mark:%s-before-%s" % (l.mark, l.kind) + ("-first-line" if i == 0 else ""))
    mode = rng.choice(["lf", "lf", "lf", "crlf", "mixed"])
    chk.bump("eol:" + mode)
    for l in lines:
        l.eol = mode if mode != "mixed" else rng.choice(["lf", "crlf"])
    if lines and rng.random() < 0.2:
        lines[-1].eol = "eof"
        chk.bump("eol:no-final-newline")
    # physical line limit (BOM counts on the first line)
    out = []
    for i, l in enumerate(lines):
        # the BOM counts on the first line that is actually written (an earlier one may have been dropped)
        if bom and not out:
            l.mark = None
        total = len(l.body) + len(EOLS[l.eol]) + (len(BOMS[bom]) if bom and not out else 0) + (len(BOMS[l.mark]) if l.mark else 0)
        if total > MAXLINE:
            if l.eol == "crlf" and total - 1 <= MAXLINE:
                l.eol = "lf"
            else:
                chk.bump("line:dropped-too-long")
                continue
        if total == MAXLINE:
            chk.bump("line:exactly-1024")
        out.append(l)
    if out and out[-1].eol != "eof":
        pass
    for l in out[:-1]:
        if l.eol == "eof":
            l.eol = "lf"
    ops = []
    if bom:
        ops.append("bom %s %s" % (bom, BOMS[bom].hex()))
    ops += [o for l in out for o in l.ops()]
    chk.bump("doc:sections=%d" % min(nsec, 6))
    tail = ["wfcheck", "gparse"]
    if lookups:
        secs = []
        for l in out:
            if l.kind == "hdr":
                secs.append((unhx(l.fields[2]), []))
            elif l.kind == "ent" and secs:
                secs[-1][1].append(unhx(l.fields[1]))
        tail += gen_lookups(rng, chk, secs, "gget", lookups)
        if rng.random() < 0.15:
            sec, key = pick_names(rng, chk, secs)
            tail.append("life %s %s" % (arg(sec), arg(key)))
            chk.bump("op:life")
        if rng.random() < 0.1:
            sec, key = pick_names(rng, chk, secs)
            tail.append("lifec %s %s" % (arg(sec), arg(key)))
            chk.bump("op:lifec")
    return ops + tail


def unhx(h):
    return b"" if h == "-" else bytes.fromhex(h)


def arg(b):
    """NULL / empty / hex argument token"""
    return "NULL" if b is None else hx(b)


SDEFS = [None, b"", b"dflt", b"d" * 300, b"\xff\xfe", b"0", b"a=b ; c"]
IDEFS = [0, 0, -1, 1, -7, 42, 2147483647, -2147483648, 65536]
DDEFS = [0x0000000000000000, 0x8000000000000000, 0x7ff8000000000000, 0x7ff0000000000000, 0xfff0000000000000, 0x3ff0000000000000, 0x4004000000000000,
         0x0000000000000001, 0x7fefffffffffffff, 0xbff8000000000000, 0x3fd5555555555555, 0xfff8000000000001]


def pick_names(rng, chk, secs):
    """a (section, key) pair to look up: present, or easily confused with something present, or NULL / empty"""
    r = rng.random()
    full = [(n, ks) for n, ks in secs if ks]
    if not full or r < 0.08:
        chk.bump("lookup:unrelated")
        return rng.choice([b"nosec", b"s", b"", b"S"]), rng.choice([b"nokey", b"k", b"", b"K"])
    n, ks = rng.choice(full)
    k = rng.choice(ks)
    if r < 0.35:
        chk.bump("lookup:present")
        return n, k
    if r < 0.5:
        m, ks2 = rng.choice(full)
        chk.bump("lookup:key-of-another-section")
        return n, rng.choice(ks2)
    if r < 0.65:
        chk.bump("lookup:key-variant")
        return n, variant(rng, k)
    if r < 0.8:
        chk.bump("lookup:section-variant")
        return variant(rng, n), k
    if r < 0.86:
        chk.bump("lookup:null-section")
        return None, k
    if r < 0.92:
        chk.bump("lookup:null-key")
        return n, None
    if r < 0.96:
        chk.bump("lookup:empty-name")
        return rng.choice([(n, b""), (b"", k)])
    chk.bump("lookup:swapped")
    return k, n


def gen_lookups(rng, chk, secs, op, count):
    out = []
    for _ in range(count):
        sec, key = pick_names(rng, chk, secs)
        # a NUL inside an argument: C sees the string up to it
        if key and rng.random() < 0.02:
            key = key + b"\x00tail"
            chk.bump("lookup:nul-in-argument")
        sd, idf, bd, dd = rng.choice(SDEFS), rng.choice(IDEFS), rng.randrange(2), rng.choice(DDEFS)
        if rng.random() < 0.2:
            idf, dd = rng.randrange(-2**31, 2**31), rng.getrandbits(64)
        chk.bump("default:bool-%s" % ("true" if bd else "false"))
        out.append("%s %s %s %s %d %d %016x" % (op, arg(sec), arg(key), arg(sd), idf, bd, dd))
    return out


def f3_probe():
    """the documented example of F3, smallest form"""
    l1 = Line("hdr", ["-", "-", hx(b"s"), "-", "-"], b"[s]")
    l2 = Line("cmt", ["-", "35", hx(b" a = b")], b"# a = b")
    l3 = Line("cmt", ["-", "59", hx(b" c = d")], b"; c = d")
    l4 = Line("ent", ["-", hx(b"k"), hx(b" "), hx(b" "), "n", hx(b"v"), "-", "0", "-"], b"k = v")
    return [l1.op(), l2.op(), l3.op(), l4.op(), "wfcheck", "gparse"]


# ---------------------------------------------------------------------------------------------
# malformed stream

SMALL = b"abk1= \t\r\n\"';#[]{}\xe9"
EX_ALPHABET = b"a=\"';[] "


def raw_case(data):
    """split at newlines so that delta debugging can drop whole lines"""
    ops = []
    for piece in data.split(b"\n"):
        ops.append(piece + b"\n")
    if ops:
        ops[-1] = ops[-1][:-1]
    return ["raw " + p.hex() for p in ops if p] + ["parse"]


def render_ops(ops):
    return b"".join(bytes.fromhex(o.split()[-1]) for o in ops if o.split()[0] in PIECE_OPS and o.split()[-1] != "-")


def mutate(rng, chk, data):
    data = bytearray(data)
    for _ in range(rng.randrange(1, 6)):
        kind = rng.choice(["flip", "ins", "del", "nul", "dup", "cut", "bom", "special", "long"])
        chk.bump("mutation:" + kind)
        pos = rng.randrange(0, len(data) + 1)
        if kind == "flip" and data:
            data[pos % len(data)] = rng.randrange(256)
        elif kind == "ins":
            data[pos:pos] = bytes(rng.choice(SMALL) for _ in range(rng.randrange(1, 4)))
        elif kind == "del" and data:
            del data[pos % len(data):pos % len(data) + rng.randrange(1, 5)]
        elif kind == "nul":
            data[pos:pos] = b"\0" * rng.randrange(1, 3)
        elif kind == "dup":
            e = min(len(data), pos + rng.randrange(1, 40))
            data[pos:pos] = data[pos:e]
        elif kind == "cut":
            del data[pos:]
        elif kind == "bom":
            b = rng.choice(ALL_BOMS)
            data[pos:pos] = b[:rng.randrange(1, len(b) + 1)]
        elif kind == "special":
            data[pos:pos] = rng.choice([b"[", b"]", b"=", b'"', b"'", b"\r\n", b"[]", b"[ ]", b'""', b"''", b"=\n", b" = ", b"{", b"}", b"{}"])
        elif kind == "long":
            data[pos:pos] = bytes([rng.choice(b"ab= ;\"")]) * rng.choice([1018, 1022, 1024, 1030, 2050])
    return bytes(data)


def gen_long_line(rng, chk):
    """physical lines around and beyond the 1024-byte buffer, '=' / brackets / quotes at chosen offsets"""
    n = rng.choice([1021, 1022, 1023, 1024, 1025, 1026, 1027, 1028, 1029, 1030, 2047, 2048, 2049, 3000, 5000])
    chk.bump("longline:%s" % (n if n <= 1030 else ">1030"))
    kind = rng.randrange(6)
    if kind == 0:
        body = b"k" * rng.randrange(1, n) + b"="
        body += b"v" * (n - len(body))
    elif kind == 1:
        body = b"[" + b"s" * (n - 2) + b"]"
    elif kind == 2:
        body = b"k = \"" + b"v" * (n - 6) + b"\""
    elif kind == 3:
        body = b"k" * (n - 3) + b" =v"
    elif kind == 4:
        body = bytes(rng.choice(SMALL.replace(b"\n", b"")) for _ in range(n))
    else:
        body = b" " * (n // 2) + b"k=v" + b" " * (n - n // 2 - 3)
    eol = rng.choice([b"\n", b"\r\n", b""])
    pre = rng.choice([b"", b"[s]\n", b"\xef\xbb\xbf[s]\n"])
    post = rng.choice([b"", b"\nx=1\n", b"\n[t]\ny = 2"])
    return pre + body + eol + post


def gen_raw(rng, chk, valid_pool):
    r = rng.random()
    if r < 0.35 and valid_pool:
        chk.bump("raw:mutated-valid")
        return mutate(rng, chk, rng.choice(valid_pool))
    if r < 0.6:
        chk.bump("raw:small-alphabet")
        pre = rng.choice([b"", b"[s]\n", b"[s]\n", b"\xef\xbb\xbf[s]\n", b"\xff\xfe[s]\n", b"\x00\x00\xfe\xff[s]\n", b"\xff\xfe\x00\x00[s]\n"])
        return pre + bytes(rng.choice(SMALL) for _ in range(rng.randrange(0, 80)))
    if r < 0.75:
        return gen_long_line(rng, chk)
    if r < 0.87:
        chk.bump("raw:random-bytes")
        pre = rng.choice([b"", b"[s]\n"])
        return pre + bytes(rng.randrange(256) for _ in range(rng.randrange(0, 200)))
    chk.bump("raw:corner")
    return rng.choice([b"", b"\n", b"[", b"]", b"=", b"[]", b"[ ]", b"[]\n=\n", b"[s]\n=\n", b"[s]\n=v\n", b"[s]\nk=\n", b"[s]\nk= \n", b"[s]\n\"\n", b"[s]\nk=\"\n",
                       b"[s]\nk='\n", b"[s]\nk=\"\"\n", b"[s]\nk=''\n", b"[s]\nk=\"'\n", b"[s]\r\nk=v\r\n", b"[s]\nk=v", b"[s]", b"[s]\n[s]\nk=v\n", b"[s]\nk=v\n[s]\nk=w\n",
                       b"[a]\nk=1\n[b]\n[a]\nj=2\n", b"\xef\xbb\xbf", b"\xef\xbb", b"\xef", b"\xfe\xff", b"\xff\xfe\x00\x00[s]\nk=v\n", b"\x00\x00\xfe\xff[s]\nk=v\n",
                       b"[s]\n\xef\xbb\xbfk=v\n", b"[s]\n\xfe\xffk=v\n", b"\x00[s]\nk=v\n", b"[s]\nk\x00=v\n", b"[s]\nk=v\x00w\n", b"[s] ; c\nk=v\n", b"[s]\nk # c = d\n",
                       b"[s]\na#b = c\n", b"[s]\nk = \" v \"\n", b"[s]\nk = \"''\"\n", b"[s]\nk = '\"\"'\n", b"[s]\nk = \"v\n", b"[s]\nk = v1 = v2\n", b"[s]\n[k=v]\n", b"[s]\n[k]=v\n", b"[[s]]\nk=v\n", b"[s]x]\nk=v\n",
                       b"[s]\nk={1 2 3}\n", b"[s]\nk={}\n", b"[s]\nk={ }\n", b"[s]\nk={a} b}\n", b"[s]\nk=99999999999999999999\n", b"[s]\nk=1e99999999999\n",
                       b"[s]\n" + b"k=v\n" * 50, b"[s]\n" + b"".join(b"k%d=%d\n" % (i, i) for i in range(40))])


# ---------------------------------------------------------------------------------------------

def parse_dump(line):
    """dump line -> (status, [(sec, [(key, fields)])], [probe fields])"""
    t = line.split()
    if not t:
        return ("", [], [])
    status, secs, probes = t[0], [], []
    cur = None
    i = 1
    while i < len(t):
        if t[i] == "S" and i + 1 < len(t):
            cur = (t[i + 1], [])
            secs.append(cur)
            i += 2
        elif t[i] == "K" and i + 7 < len(t) and cur is not None:
            cur[1].append((t[i + 1], t[i + 2:i + 8]))
            i += 8
        elif t[i] == "P" and i + 6 < len(t):
            probes.append(t[i + 1:i + 7])
            i += 7
        else:
            return ("unparsable", [], [line])
    return (status, secs, probes)


def strip_double(fields):
    return [f if not f.startswith("d=") else "d=*" for f in fields]


def getter_view(tokens):
    """spec view of one `s= i= b= l= d= e= [n=]` group: the double of a value that was found is judged by
    double_ok, not by equality; of the key count only the number of distinct keys is promised"""
    found = "e=1" in tokens
    out = []
    for t in tokens:
        if t.startswith("d=") and found:
            out.append("d=*")
        elif t.startswith("n="):
            out.append("n=*/" + t.split("/")[-1])
        else:
            out.append(t)
    return " ".join(out)


LIFE_MARKS = ("U", "N", "P", "Q", "M", "C", "X", "E", "L", "D")


def life_segments(line):
    segs, cur = [], None
    for t in line.split():
        if t in LIFE_MARKS:
            cur = [t]
            segs.append(cur)
        elif cur is None:
            segs.append([t])
        else:
            cur.append(t)
    return segs


def spec_view(op, line):
    o = op.split()[0] if op else ""
    if o == "gparse":
        # the documentation promises which sections / keys / values exist, not their order, not a
        # second listing of a repeated key; the double of a found value is judged by double_ok
        status, secs, probes = parse_dump(line)
        canon = []
        for name, keys in secs:
            seen, ks = set(), []
            for k, f in keys:
                if k not in seen:
                    seen.add(k)
                    ks.append(k + " " + " ".join(strip_double(f)))
            canon.append(name + " | " + " | ".join(ks))
        return status + " || " + " || ".join(sorted(canon)) + " || " + " | ".join(getter_view(p) for p in probes)
    if o == "parse":
        # arbitrary bytes: the property only promises a consistent object (first token) and no memory error
        return line.split()[0] if line.split() else ""
    if o == "gget":
        return getter_view(line.split())
    if o == "get":
        # any file: a key that is reported absent yields the defaults
        t = line.split()
        return getter_view(t) if "e=0" in t else "found"
    if o == "life":
        # unparsed / NULL / missing-file objects answer with the defaults; a second parse changes nothing
        segs = life_segments(line)
        out = []
        first_p = None
        for sg in segs:
            if sg[0] == "P":
                first_p = sg[1:]
                out.append(" ".join(sg[:4]))
            elif sg[0] == "Q":
                out.append("Q " + ("unchanged" if sg[1:] == first_p else "changed: " + " ".join(sg[1:])))
            else:
                out.append(" ".join(sg))
        return " | ".join(out)
    if o == "lifec":
        # a failing fclose is no failure of the parse: the call succeeds, the object is parsed (its content is the model's
        # business), a second parse changes nothing; a file that cannot be opened is reported whatever fclose would do
        segs = life_segments(line)
        out = []
        first_c = None
        for sg in segs:
            if sg[0] == "C":
                first_c = [t for t in sg[1:] if not t.startswith(("fc=", "w="))]
                out.append(" ".join(sg[:4]))
            elif sg[0] == "Q":
                out.append("Q " + ("unchanged" if [t for t in sg[1:] if not t.startswith(("fc=", "w="))] == first_c else "changed: " + " ".join(sg[1:])))
            elif sg[0] in ("X", "E", "L"):
                out.append(" ".join(sg[:4]))            # cannot be opened: failure reported, object stays unparsed
            elif sg[0] == "D":
                out.append(" ".join(sg[:4] + sg[6:]))   # a directory reads as an empty file
            else:
                out.append(" ".join(sg))
        return " | ".join(out)
    if o in ("chomp", "strdup", "strtok", "strtokb"):
        return line
    if o == "strtod":
        return "d=*" if double_claim(strtod_text(op)) is not None else line
    return ""


# ---- the double getter / p_strtod against an independent reference (Python's correctly rounded float())
NUMERAL = re.compile(rb"^[+-]?(\d+\.?\d*|\.\d+)([eE][+-]?\d+)?$")
C_SPACE = b" \t\n\x0b\x0c\r"


def double_claim(text):
    """the value the documentation promises for this text ("any commonly used notation", decimal point '.'),
    or None when it promises nothing we can check: not a plain decimal numeral, more digits than a double can
    take in without visible accumulation of rounding, or a magnitude near the ends of the double range"""
    if text is None:
        return None
    m = NUMERAL.match(text)
    if not m or sum(c in b"0123456789" for c in m.group(1)) > 40:
        return None
    if m.group(2) and abs(int(m.group(2)[1:])) > 280:
        return None
    ref = float(text)
    if ref != 0.0 and not (1e-280 < abs(ref) < 1e280):
        return None
    return ref


def double_ok(text, bits_hex):
    ref = double_claim(text)
    if ref is None:
        return True
    try:
        got = struct.unpack("<d", struct.pack("<Q", int(bits_hex, 16)))[0]
    except (ValueError, struct.error):
        return False
    if ref == 0.0:
        return got == 0.0
    return abs(got - ref) <= 1e-12 * abs(ref)


def strtod_text(op):
    t = op.split()
    if len(t) != 2 or t[1] == "NULL":
        return None
    try:
        b = b"" if t[1] == "-" else bytes.fromhex(t[1])
    except ValueError:
        return None
    return b.split(b"\0")[0].strip(C_SPACE)


def field(tokens, name):
    for t in tokens:
        if t.startswith(name + "="):
            return t[len(name) + 1:]
    return None


def group_double_ok(tokens):
    if "e=1" not in tokens:
        return True
    sv, dv = field(tokens, "s"), field(tokens, "d")
    if sv is None or dv is None or sv == "NULL":
        return False
    try:
        text = b"" if sv == "-" else bytes.fromhex(sv)
    except ValueError:
        return False
    return double_ok(text, dv)


def spec_match(op, c, sp):
    if spec_view(op, c) != spec_view(op, sp):
        return False
    o = op.split()[0] if op else ""
    if o == "gparse":
        status, secs, probes = parse_dump(c)
        return all(group_double_ok(f + ["e=1"] if "e=1" not in f else f) for _, keys in secs for _, f in keys)
    if o == "gget":
        return group_double_ok(c.split())
    if o == "strtod":
        return double_ok(strtod_text(op), field(c.split(), "d") or "")
    return True


# ---------------------------------------------------------------------------------------------
# pstring.c entry points

WS_ALPHABET = b" \t\x0ba"
TOK_ALPHABET = b"ab, "


def pstring_cases(rng, chk, thorough):
    cases = []
    # p_strchomp: every string of up to 5 (6) symbols over SP HT VT 'a' — complete for that scope
    depth = 6 if thorough else 5
    ops = ["chomp NULL", "chomp -"]
    for n in range(1, depth + 1):
        for t in itertools.product(WS_ALPHABET, repeat=n):
            ops.append("chomp " + bytes(t).hex())
    for b in range(1, 256):
        ops += ["chomp %02x61%02x" % (b, b), "chomp %02x" % b, "chomp %02x%02x" % (b, b)]
    ops += ["chomp " + (b" " * n + b"x" * m + b"\t" * k).hex() for n, m, k in [(0, 2000, 0), (1500, 1, 1500), (3000, 0, 0), (1, 1, 1)]]
    ops += ["chomp 6100206220", "chomp 200061"]
    chk.cov.setdefault("pstring", {})["chomp_exhaustive"] = {"alphabet": "SP HT VT a", "max_length": depth}
    cases += [ops[i:i + 200] for i in range(0, len(ops), 200)]
    # p_strtok: every string of up to 5 (6) symbols over a b , SP with the delimiter sets "," and ", "
    ops = []
    for n in range(0, depth + 1):
        for t in itertools.product(TOK_ALPHABET, repeat=n):
            h = hx(bytes(t))
            ops.append("strtok %s 2c" % h)
            ops.append("strtok %s 2c20" % h)
    ops += ["strtok 612c623b63 2c 3b", "strtok 612c623b63 NULL 2c", "strtok 612c62 NULL", "strtok 616263 -", "strtok - -", "strtok 61002c62 2c", "strtok 612c62 2c00",
            "strtok 61ff62fe63 ff fe", "strtok 612c622c63 2c NULL 2c", "strtokb 6162 20", "strtokb NULL 20", "strtokb 6162 NULL", "strtokb NULL NULL",
            "strtok 54686973206973206120746573742009737472696e67 2009", "strtok " + (b"a," * 1500).hex() + " 2c"]
    for _ in range(300 if thorough else 60):
        sb = bytes(rng.choice(b"abc,; \t\xff") for _ in range(rng.randrange(0, 30)))
        ds = [bytes(rng.choice(b",; \t\xffa") for _ in range(rng.randrange(0, 3))) for _ in range(rng.randrange(1, 4))]
        ops.append("strtok %s %s" % (hx(sb), " ".join(hx(d) for d in ds)))
    chk.cov["pstring"]["strtok_exhaustive"] = {"alphabet": "a b , SP", "max_length": depth, "delimiter_sets": [",", ", "]}
    cases += [ops[i:i + 200] for i in range(0, len(ops), 200)]
    # p_strdup
    ops = ["strdup NULL", "strdup -", "strdup 61", "strdup 610062", "strdup 00", "strdup " + (b"x" * 5000).hex(), "strdup " + bytes(range(1, 256)).hex()]
    # p_strtod: the numerals of the getter pools bare and wrapped in white space, signs, random numerals
    pool = INTS + DOUBLES + BOOLS + [b"", b" ", b"\t\n", b"1 2", b"1\x00 2"]
    for v in pool:
        ops.append("strtod " + hx(v))
        ops.append("strtod " + hx(rng.choice([b" ", b"\t", b"\n", b" \x0b\x0c\r "]) + v + rng.choice([b"", b" ", b"\r\n", b"\t\t"])))
    ops.append("strtod NULL")
    for _ in range(3000 if thorough else 400):
        ip = str(rng.randrange(0, 10 ** rng.randrange(0, 22))) if rng.random() < 0.9 else ""
        fp = ("." + "".join(rng.choice("0123456789") for _ in range(rng.randrange(0, 20)))) if rng.random() < 0.7 else ""
        ep = (rng.choice("eE") + rng.choice(["", "+", "-"]) + rng.choice(["", "0", "00"]) + str(rng.randrange(0, rng.choice([10, 60, 330])))) if rng.random() < 0.5 else ""
        v = (rng.choice(["", "", "-", "+"]) + ip + fp + ep).encode()
        if rng.random() < 0.3:
            v = rng.choice([b" ", b"\t ", b"\n"]) + v + rng.choice([b"", b" ", b"\n"])
        ops.append("strtod " + hx(v))
    chk.bump("op:pstring", len(ops))
    cases += [ops[i:i + 200] for i in range(0, len(ops), 200)]
    return cases


RAW_NAMES = [b"s", b"S", b"t", b"a", b"k", b"K", b"b", b"k1", b"", b"x y", b"\xe9"]


def directed_cases():
    """small files aimed at one clause each (all well-formed documents, so the spec column answers)"""
    def doc(lines, tail):
        return [o for l in lines for o in l.ops()] + ["wfcheck", "gparse"] + tail

    def H(n):
        return Line("hdr", ["-", "-", hx(n), "-", "-"], b"[" + n + b"]")

    def E(k, v, q="n"):
        return Line("ent", ["-", hx(k), "-", "-", q, hx(v), "-", "0", "-"], k + b"=" + QUOTES[q] + v + QUOTES[q])

    z = "%016x" % 0
    out = []
    # keys / sections that differ only in case or are prefixes of one another; every getter default both ways
    out.append(doc([H(b"sec"), E(b"key", b"1"), E(b"KEY", b"2"), E(b"ke", b"3"), E(b"key1", b"4"), H(b"SEC"), E(b"key", b"5"), H(b"se"), E(b"k", b"6")],
                   ["gget %s %s NULL 0 0 %s" % (hx(a), hx(b), z) for a in (b"sec", b"SEC", b"se", b"Sec", b"s", b"sec1") for b in (b"key", b"KEY", b"ke", b"key1", b"Key", b"k", b"key12")] +
                   ["life %s %s" % (hx(b"sec"), hx(b"key")), "life NULL NULL", "life %s %s" % (hx(b"SEC"), hx(b"KEY")),
                    "lifec %s %s" % (hx(b"sec"), hx(b"key")), "lifec NULL %s" % hx(b"key"), "lifec %s %s" % (hx(b"se"), hx(b"k"))]))
    # defaults: each getter with each "unusual" default for a missing key, a missing section, NULL names
    look = [("73", "6e6f"), ("6e6f", "6b"), ("NULL", "6b"), ("73", "NULL"), ("NULL", "NULL"), ("-", "6b"), ("73", "-")]
    out.append(doc([H(b"s"), E(b"k", b"7")],
                   ["gget %s %s %s %d %d %016x" % (a, b, arg(sd), i, bd, dd) for a, b in look for sd, i, bd, dd in
                    [(None, 0, 0, 0), (b"", -1, 1, 0x8000000000000000), (b"d" * 300, 2147483647, 0, 0x7ff8000000000000), (b"x", -2147483648, 1, 0xfff0000000000000)]]))
    # the same key in two sections, a key named like a section, a section that only has a key of another one
    out.append(doc([H(b"a"), E(b"x", b"1"), E(b"a", b"2"), H(b"b"), E(b"y", b"3"), H(b"x"), E(b"b", b"4")],
                   ["gget %s %s 64 -7 %d %s" % (hx(a), hx(b), bd, z) for a in (b"a", b"b", b"x", b"y") for b in (b"x", b"y", b"a", b"b") for bd in (0, 1)]))
    # corners of the grammar the round-trip theorem covers: no value text at all (the line assigns nothing, also when it
    # repeats a key that has a value), blanks directly inside quotes, a quoted value of blanks only, '=' and comment
    # markers inside values
    def EC(k, v, q, post, trail, cm, ct):
        return Line("ent", ["-", hx(k), "-", hx(post), q, hx(v), hx(trail), str(cm), hx(ct)],
                    k + b"=" + post + QUOTES[q] + v + QUOTES[q] + trail + (bytes([cm]) + ct if cm else b""))
    out.append(doc([H(b"s"), E(b"k", b"1"), E(b"k", b""), E(b"e", b""), EC(b"c", b"", "n", b" ", b"\t", 59, b" x = y"), EC(b"d", b"", "n", b"", b"", 35, b""),
                    E(b"q", b" a b ", "d"), E(b"r", b"\t", "s"), E(b"t", b" ; # = ", "d"), E(b"u", b"a=b=c"), EC(b"w", b"x = 'y'", "n", b" ", b" ", 59, b"z"),
                    H(b"only-empty"), E(b"a", b""), EC(b"b", b"", "n", b" ", b" ", 35, b" c")],
                   ["gget %s %s 64 -7 %d %s" % (hx(a), hx(b), bd, z) for a in (b"s", b"only-empty") for b in (b"k", b"e", b"c", b"d", b"q", b"r", b"t", b"u", b"w", b"a", b"b") for bd in (0, 1)]))
    # a byte-order mark at the start of lines inside the file (IniSpec.Line.mark / Header.mark): before an entry, a comment
    # line, a blank line, a header, the last line without newline; every kind; the same through a named pipe; a first
    # line with its own mark; a marked entry that repeats a key; a marked line without value
    def M(line, mark):
        line.mark = mark
        return line
    def C(t):
        return Line("cmt", ["-", "59", hx(t)], b";" + t)
    def B(ws):
        return Line("blk", [hx(ws)], ws)
    def last(line):
        line.eol = "eof"
        return line
    mk = ["gget %s %s 64 -7 0 %s" % (hx(a), hx(b), z) for a in (b"s", b"t") for b in (b"k", b"j", b"e")]
    marked = doc([H(b"s"), M(E(b"k", b"v"), "utf16be"), M(C(b" c = d"), "utf8"), M(B(b" "), "utf16le"), M(E(b"e", b""), "utf32be"), M(E(b"k", b"w", "d"), "utf8"),
                  M(H(b"t"), "utf32be"), M(last(E(b"j", b"1")), "utf8")], mk)
    out.append(marked)
    out.append(["fifo 1"] + marked + ["fifo 0"])
    for kind in sorted(BOMS):
        out.append(doc([M(H(b"s"), kind), M(E(b"k", b"1"), kind), M(H(b"t"), kind), M(B(b""), kind), M(C(b""), kind), M(E(b"j", b"2"), kind)], mk))
    out.append(["bom utf8 efbbbf"] + doc([H(b"s"), M(E(b"k", b"1"), "utf16le"), M(H(b"s"), "utf8"), M(E(b"j", b"2"), "utf16be")], mk))
    # repeated section headers: not merged, listed once each, look-ups see the first one in look-up order
    # (sections before the final one, latest first, then the final one)
    rep = ["gget %s %s 64 -7 0 %s" % (hx(a), hx(b), z) for a in (b"a", b"b") for b in (b"k", b"j", b"x")]
    out.append(doc([H(b"a"), E(b"k", b"1"), H(b"b"), E(b"x", b"1"), H(b"a"), E(b"j", b"2")], rep))
    out.append(doc([H(b"a"), E(b"k", b"1"), H(b"a"), E(b"k", b"2"), E(b"j", b"3"), H(b"b"), E(b"x", b"1")], rep))
    out.append(doc([H(b"a"), H(b"a"), E(b"k", b"1"), H(b"a")], rep))
    out.append(doc([H(b"a"), E(b"k", b"1"), H(b"a"), E(b"k", b""), H(b"a"), E(b"j", b"2"), H(b"a")], rep))
    out.append(doc([H(b"a"), E(b"k", b"1"), H(b"b"), E(b"x", b"1"), H(b"a"), E(b"k", b"2"), H(b"b"), E(b"x", b"2"), H(b"a"), E(b"k", b"3")], rep))
    # list values at the sizes of the item buffer, many items, white space other than SP/HT
    for v in (b"{" + b"x" * 1000 + b"}", b"{" + b" ".join([b"i"] * 400) + b"}", b"{a\x0bb\x0cc\rd}", b"{a}", b"{ a }", b"{a b}x}", b"{{}"):
        out.append(doc([H(b"s"), E(b"l", v)], ["gget 73 6c NULL 0 0 %s" % z]))
    # the same bytes through a named pipe (a path that cannot be sought in or rewound): plain, with a UTF-8 mark, raw bytes
    out.append(["fifo 1"] + doc([H(b"net"), E(b"host", b"a"), E(b"port", b"80"), H(b"t"), E(b"x", b"1", "d")],
                                ["gget %s %s NULL 0 0 %s" % (hx(b"net"), hx(b"port"), z)]) + ["fifo 0"])
    out.append(["fifo 1", "raw " + (b"\xef\xbb\xbf[net]\nhost = a\n[t]\nx=1\n").hex(), "parse", "reset",
                "raw " + (b"[s]\nk=v\n").hex(), "parse", "reset", "parse", "fifo 0"])
    return out


def signature_of(ops, r):
    return None


def finish(chk):
    """chk.finish(), tolerating the KeyError pv.Check.finish raises in its log line when the proof is broken
    (it pops 'discharged' first); the evidence file is already written at that point"""
    try:
        return chk.finish()
    except KeyError:
        return 1 if chk.violations else 0


def run(chk):
    cfg = pv.repo_config()
    proof_ok, driver_ok, detail = pv.proof_stage(chk, ["PV.Props.C16"])
    # a source shape the translator does not recognise means the theorems no longer speak about this code
    if any(d.startswith("extractor: ") and ("pinifile.c" in d or "pstring.c" in d or "gen_ini" in d) for d in detail):
        proof_ok = False
        chk.cov["discharged"] = 0
    try:
        exe = pv.build_harness("ini", cfg, ["ini.c"], repo_files=None, san="asan", link=["-Wl,--wrap=fclose"])
    except pv.BuildError as e:
        chk.violation(str(e), "harness for C16 does not build against the current source", no_input=True, suffix="txt")
        return finish(chk)
    fam = diffrun.Family("ini", exe, spec_view=spec_view, timeout=300, spec_match=spec_match)
    thorough = chk.tier == "thorough"
    rng = chk.rng
    cases = []
    cases += pv.load_corpus("C16")
    cases.append(f3_probe())
    # (i) documents of the grammar: small ones first so that a failure is reported on a small file
    ndoc_small, ndoc = (3000, 40000) if thorough else (300, 1700)
    docs = [gen_doc(rng, chk, 1, lookups=rng.choice([0, 1, 2])) for _ in range(ndoc_small)] + \
           [gen_doc(rng, chk, rng.choice([2, 3, 4, 6]), lookups=rng.choice([0, 2, 4])) for _ in range(ndoc)]
    cases += directed_cases()
    cases += docs
    # (ii) malformed stream
    nraw = 60000 if thorough else 2200
    pool = [render_ops(d) for d in docs[:400]]
    raws = []
    for _ in range(nraw):
        data = gen_raw(rng, chk, pool)
        c = raw_case(data)
        if rng.random() < 0.25:
            # lookups with names that may or may not be there (model column; absent keys must yield the defaults)
            names = [(n, [k for k in RAW_NAMES if rng.random() < 0.5] or [b"k"]) for n in RAW_NAMES if rng.random() < 0.4]
            c += gen_lookups(rng, chk, names, "get", rng.choice([1, 2, 3]))
            if rng.random() < 0.2:
                c.append("life %s %s" % (arg(rng.choice(RAW_NAMES + [None])), arg(rng.choice(RAW_NAMES + [None]))))
                chk.bump("op:life")
            if rng.random() < 0.15:
                c.append("lifec %s %s" % (arg(rng.choice(RAW_NAMES + [None])), arg(rng.choice(RAW_NAMES + [None]))))
                chk.bump("op:lifec")
        raws.append(c)
    cases += raws
    # (iv) the pstring.c entry points the parser and the getters rely on
    ps = pstring_cases(rng, chk, thorough)
    cases += ps
    # (iii) exhaustive small scope: every line of up to `depth` symbols inside a section
    depth = 5 if thorough else 4
    ex = [raw_case(b"[s]\n" + bytes(t) + b"\n") for n in range(1, depth + 1) for t in itertools.product(EX_ALPHABET, repeat=n)]
    cases += ex
    chk.cov["exhaustive_small_scope"] = {"alphabet": EX_ALPHABET.decode(), "max_line_length": depth, "files": len(ex)}
    chk.cov["generated"] = {"grammar_documents": len(docs), "malformed_files": len(raws), "exhaustive_lines": len(ex),
                            "pstring_ops": sum(len(c) for c in ps), "lookups_with_chosen_arguments": sum(1 for c in docs + raws for o in c if o.split()[0] in ("get", "gget")),
                            "life_cycle_scenarios": sum(1 for c in docs + raws for o in c if o.startswith("life ")),
                            "failing_fclose_scenarios": sum(1 for c in docs + raws for o in c if o.startswith("lifec "))}
    found, corr, thm = diffrun.campaign(chk, fam, cases, proof_ok, detail, signature_of, "C16", batch=60)
    diffrun.conclude(chk, found, corr, thm, proof_ok and driver_ok, detail, "C16 INI parser")
    chk.cov["rule"] = ("one case = one file, given as pieces (one op per physical line) followed by parse/gparse; (i) files rendered from random documents "
                       "of the documented grammar (PV.IniSpec.WF, re-checked by the driver: op wfcheck) with random layout, quoting, trailing comments, "
                       "BOM, line ends, lines padded up to exactly 1024 bytes — compared with the model dump and with the spec's `meaning`; "
                       "(ii) malformed files: mutated valid files, small-alphabet noise, random bytes, NULs, physical lines of 1021..1030 and 2047..5000 bytes, "
                       "BOM fragments, lone brackets/quotes/'=' — compared with the model dump, first token = consistency oracle of the harness, ASan+UBSan abort = violation; "
                       "(iii) every line of up to %d symbols over the alphabet a = \" ' ; [ ] SP inside a section (complete for that scope); " % depth +
                       "(iv) after the dump, lookups with chosen arguments (ops gget/get: present key, key of another section, names differing in case / by a prefix / by an extension, "
                       "NULL and empty names, a NUL inside an argument; string default NULL / empty / long, int default 0 / INT_MIN / INT_MAX / random, boolean default FALSE and TRUE, "
                       "double default +-0 / NaN / +-inf / denormal / random bits) compared with the model and, for documents, with the documented lookup (IniSpec.docFind); "
                       "(v) op life: unparsed object, NULL object, parse twice with the file rewritten in between, a path that does not exist parsed twice; "
                       "op lifec: the parse whose final fclose reports a failure (-Wl,--wrap=fclose, the real call is made, its result scripted), then a second parse, then objects for a missing file, a path through a regular file (ENOTDIR), a 5000-byte name and a directory; "
                       "(vi) the double of every found value and of p_strtod is also judged against Python's correctly rounded float() (relative 1e-12) when the text is a plain decimal "
                       "numeral of at most 40 digits with |exponent| <= 280; (vii) pstring.c entry points: p_strchomp on every string of up to 5 (thorough 6) symbols over SP HT VT a, "
                       "on every single byte, NULL; p_strtok on every string of up to 5 (6) symbols over a b , SP with delimiter sets \",\" and \", \" plus changing / NULL delimiter sets and a NULL "
                       "context; p_strdup; p_strtod on the numeral pools bare and wrapped in white space and on random numerals; " +
                       "a case is distinct by the hash of its op file, non-trivial when it has more than one op; branch_hits = distribution of generated constructs")
    chk.cov["exhaustive"] = False
    chk.assumptions += [
        "glibc sscanf/fgets/isspace/atoi/strtol in the C locale behave as the model's scan/splitLines/isSpace/atoi (validated by this differential run only, not proved)",
        "Lean's Float is IEEE-754 binary64 with the same +,*,/ as the C compiler emits for p_strtod (x86-64 SSE2, no FMA contraction, no excess precision); no theorem is stated about the double getter, its bits are compared on every generated value",
        "atoi on a numeral that does not fit an int is undefined in C: the model and the harness print `ovf` for the int and boolean getters there (decided in the harness by strtol+ERANGE / INT range) and the actual return value is not compared",
        "isdigit is called by p_strtod on a plain (signed) char; glibc's table lookup returns 0 for bytes >= 0x80, as the model assumes",
        "the file is read back exactly as written (regular file on a local file system, fopen \"r\" does no translation on POSIX)",
        "allocation never fails in this check (C18 covers failure)",
        "fopen (directory, \"r\") succeeds and the first fgets on it fails (Linux/glibc): a directory parses as an empty file (op lifec, segment D)",
        "the spec column is produced for documents satisfying PV.IniSpec.WF only: no NUL, lines <= 1024 bytes (mark included), at most one byte-order mark at the start of a line",
    ]
    return finish(chk)

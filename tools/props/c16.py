"""C16 — INI parser: robustness on all byte strings, documented grammar round trip
(model PV.Model.Ini, spec PV.Spec.Ini, theorems PV.Props.C16)."""
import itertools
import pv
import diffrun

MAXLINE = 1024
BLANKS = b" \t\r\x0b\x0c"
BOMS = {"utf8": b"\xef\xbb\xbf", "utf16be": b"\xfe\xff", "utf16le": b"\xff\xfe", "utf32be": b"\x00\x00\xfe\xff"}
ALL_BOMS = list(BOMS.values()) + [b"\xff\xfe\x00\x00"]
EOLS = {"lf": b"\n", "crlf": b"\r\n", "eof": b""}
QUOTES = {"n": b"", "s": b"'", "d": b'"'}
PIECE_OPS = ("raw", "bom", "blk", "cmt", "hdr", "ent")


def hx(b):
    return b.hex() if b else "-"


def is_space(c):
    return c == 32 or 9 <= c <= 13


# ---------------------------------------------------------------------------------------------
# documents of the documented grammar (mirrors PV.IniSpec; the driver re-renders every line and
# re-checks WF, so a slip here shows up as `bad-op` / `notwf`, never as a silent pass)

def blanks(rng, p=0.5, maxn=3):
    if rng.random() > p:
        return b""
    n = rng.randrange(1, maxn + 1)
    if rng.random() < 0.85:
        return bytes(rng.choice(b" \t") for _ in range(n))
    return bytes(rng.choice(BLANKS) for _ in range(n))


WORDS = [b"a", b"b", b"key", b"name", b"int_parameter_1", b"x y", b"size", b"path", b"k1", b"k2", b"k3", b"\xc3\xa9t\xc3\xa9", b"value",
         b"list", b"flag", b"A.B", b"a-b", b"a_b", b"Key With Blanks", b"\xef\xbc\xa1", b"0", b"{", b"}", b"'q'", b'"q"', b"a]b", b"a[b"]


def rand_bytes(rng, n, forbid):
    out = bytearray()
    while len(out) < n:
        c = rng.randrange(1, 256)
        if c not in forbid:
            out.append(c)
    return bytes(out)


def fix_ends(rng, s, bad_first, forbid):
    """make s non-empty with a non-blank first/last byte, first byte not in bad_first"""
    s = bytearray(s)
    ok = [c for c in b"abcxyzKQ019_.-" if c not in forbid and c not in bad_first]
    if not s:
        s.append(rng.choice(ok))
    if is_space(s[0]) or s[0] in bad_first:
        s[0] = rng.choice(ok)
    if is_space(s[-1]):
        s[-1] = rng.choice(ok)
    return bytes(s)


def gen_key(rng, chk):
    forbid = {0, 10, 61, 35, 59}
    r = rng.random()
    if r < 0.75:
        k = rng.choice(WORDS)
        if rng.random() < 0.3:
            k = k + str(rng.randrange(100)).encode()
    elif r < 0.9:
        k = rand_bytes(rng, rng.randrange(1, 12), forbid)
        chk.bump("key:random-bytes")
    else:
        k = rand_bytes(rng, rng.randrange(1, 6), forbid | set(range(128, 256))) + rng.choice([b" ", b"\t", b"  "]) + rng.choice(WORDS)
        chk.bump("key:inner-blanks")
    k = bytes(c for c in k if c not in forbid)
    return fix_ends(rng, k, {91}, forbid)


INTS = [b"0", b"1", b"-1", b"+5", b"007", b"42", b"-0", b"2147483647", b"-2147483648", b"2147483648", b"-2147483649", b"4294967297",
        b"99999999999999999999", b"-99999999999999999999", b"12abc", b"- 5", b"+-3", b"1 2", b"0x10", b"1e3", b"9223372036854775807",
        b"9223372036854775808", b"18446744073709551617"]
DOUBLES = [b"3.24", b"0.15", b"123.3e10", b"123.19", b"-1.5", b"+2.", b".5", b"-.5e-3", b"1e308", b"1e309", b"1e-308", b"1e-400", b"2E5",
           b"1e+2", b"0.1", b"0.30000000000000004", b"123456789012345678901234567890", b"1e4294967297", b"1e99999", b"1.7976931348623157e308",
           b"4.9e-324", b"1e50", b"1e58", b"1e8", b"5e-1x", b"e5", b".", b"-", b"1.2.3", b"1e", b"1e-", b"0.000000000000000000000000000001",
           b"3.141592653589793238462643383279"]
BOOLS = [b"true", b"TRUE", b"false", b"FALSE", b"True", b"0", b"1", b"2", b"-1", b"yes", b"tRUE", b"true1"]


def gen_list_value(rng):
    n = rng.randrange(0, 5)
    items = [rng.choice([b"1", b"2", b"5", b"10", b"val", b"2.0", b"true", b"FALSE", b"7654", b"a=b", b"x'y", b"{"]) for _ in range(n)]
    seps = [rng.choice([b" ", b"\t", b"  ", b" \t "]) for _ in range(n)]
    body = b"".join(i + s for i, s in zip(items, seps))
    return b"{" + blanks(rng, 0.3) + (body.rstrip(b" \t") if rng.random() < 0.6 else body) + b"}"


def gen_value(rng, chk, q):
    """value text for quoting style q ('n','s','d'); well-formed for that style"""
    r = rng.random()
    if r < 0.2:
        v, t = rng.choice(INTS), "int"
    elif r < 0.4:
        v, t = rng.choice(DOUBLES), "double"
        if rng.random() < 0.3:
            v = (b"-" if rng.random() < 0.3 else b"") + str(rng.randrange(0, 10**rng.randrange(1, 25))).encode() + b"." + \
                str(rng.randrange(0, 10**rng.randrange(1, 25))).encode() + (b"e" + str(rng.randrange(-330, 330)).encode() if rng.random() < 0.5 else b"")
    elif r < 0.5:
        v, t = rng.choice(BOOLS), "bool"
    elif r < 0.65:
        v, t = gen_list_value(rng), "list"
    elif r < 0.9:
        v, t = rng.choice([b"Test string", b"a=b", b"x = y = z", b"it's", b'say "hi"', b"[not a section]", b"a;b", b"a#b", b"Test string with #'",
                           b"c:\\dir\\file", b"\xc3\xbcber", b"==", b"{1 2", b"1 2}", b"tab\there", b"v"]), "string"
    else:
        v, t = rand_bytes(rng, rng.randrange(1, 20), {0, 10}), "random-bytes"
    forbid = {0, 10}
    if q == "n":
        forbid |= {35, 59}
    elif q == "s":
        forbid |= {39}
    else:
        forbid |= {34}
    v = bytes(c for c in v if c not in forbid)
    if q != "n" and (not v or rng.random() < 0.08):
        chk.bump("value:empty-quoted")
        return b""
    v = fix_ends(rng, v, {34, 39} if q == "n" else set(), forbid)
    if (q == "d" and v == b"''") or (q == "s" and v == b'""'):
        v = b"q" + v          # WF excludes a quoted value that is itself the other kind of empty quotes
    chk.bump("value:" + t)
    return v


def gen_comment_text(rng, chk):
    r = rng.random()
    if r < 0.35:
        chk.bump("comment:with-equals")
        return rng.choice([b" a = b", b"c=d", b" key = \"v\"", b"= x", b" x = 'y' ; z", b" a = b = c"])
    if r < 0.7:
        return rng.choice([b" Whole line is a comment", b"", b" ", b"[section]", b" ;;##", b" 'quoted\"", b"\t trailing \t"])
    return rand_bytes(rng, rng.randrange(0, 30), {0, 10})


def starts_with_bom(b):
    return any(b.startswith(x) for x in ALL_BOMS)


class Line:
    """one physical line: op token list (without the final hex) + its bytes without the line end"""

    def __init__(self, kind, fields, body):
        self.kind, self.fields, self.body, self.eol = kind, fields, body, "lf"

    def op(self):
        return " ".join([self.kind] + self.fields + [self.eol, hx(self.body + EOLS[self.eol])])


def gen_entry(rng, chk, keys_pool, pad_to=None):
    lead, pre, post, trail = blanks(rng, 0.25), blanks(rng, 0.7, 2), blanks(rng, 0.7, 2), blanks(rng, 0.3)
    if keys_pool and rng.random() < 0.25:
        key = rng.choice(keys_pool)
        chk.bump("entry:repeated-key")
    else:
        key = gen_key(rng, chk)
        keys_pool.append(key)
    q = rng.choice("nnnsd" if rng.random() < 0.7 else "nsd")
    value = gen_value(rng, chk, q)
    cm, ct = 0, b""
    if rng.random() < 0.3:
        cm, ct = rng.choice([35, 59]), gen_comment_text(rng, chk)
        chk.bump("entry:trailing-comment")
    if pad_to is not None:
        # grow the value (or the comment) so that the physical line has exactly pad_to bytes before the line end
        fixed = len(lead + key + pre + b"=" + post + QUOTES[q] * 2 + value + trail) + (1 + len(ct) if cm else 0)
        extra = pad_to - fixed
        if extra > 0:
            if cm and rng.random() < 0.5:
                ct = ct + b"c" * extra
            else:
                value = value + b"v" * extra
            chk.bump("entry:padded-to-%d" % pad_to)
    chk.bump("entry:quote-" + {"n": "none", "s": "single", "d": "double"}[q])
    body = lead + key + pre + b"=" + post + QUOTES[q] + value + QUOTES[q] + trail + (bytes([cm]) + ct if cm else b"")
    if not lead and starts_with_bom(body):
        return gen_entry(rng, chk, keys_pool, pad_to)
    return Line("ent", [hx(lead), hx(key), hx(pre), hx(post), q, hx(value), hx(trail), str(cm), hx(ct)], body)


def gen_body_line(rng, chk, keys_pool, in_section):
    r = rng.random()
    if r < 0.12:
        ws = blanks(rng, 0.5, 4)
        chk.bump("line:blank")
        return Line("blk", [hx(ws)], ws)
    if r < 0.3:
        lead, m, t = blanks(rng, 0.2), rng.choice([35, 59]), gen_comment_text(rng, chk)
        chk.bump("line:comment" + ("-in-section" if in_section else "-in-preamble"))
        return Line("cmt", [hx(lead), str(m), hx(t)], lead + bytes([m]) + t)
    pad = None
    if rng.random() < 0.04:
        pad = rng.choice([1020, 1021, 1022, 1023])
    chk.bump("line:entry" + ("" if in_section else "-in-preamble"))
    return gen_entry(rng, chk, keys_pool, pad)


def gen_header(rng, chk, names):
    while True:
        n = rng.choice([b"numeric_section", b"s", b"sec", b"string section", b"a=b", b"#hash", b"[nested", b"\xc3\xa9", b"list_section", b"S"])
        if rng.random() < 0.5:
            n = n + str(rng.randrange(1000)).encode()
        if rng.random() < 0.1:
            n = fix_ends(rng, rand_bytes(rng, rng.randrange(1, 10), {0, 10, 93}), set(), {0, 10, 93})
        if n not in names:
            break
    names.add(n)
    lead, pre, post, trail = blanks(rng, 0.15), blanks(rng, 0.2, 2), blanks(rng, 0.2, 2), blanks(rng, 0.2)
    chk.bump("line:header")
    return Line("hdr", [hx(lead), hx(pre), hx(n), hx(post), hx(trail)], lead + b"[" + pre + n + post + b"]" + trail)


def gen_doc(rng, chk, size):
    """returns the op list of one well-formed document (ending in wfcheck, gparse)"""
    lines = []
    keys_pool = []
    for _ in range(rng.choice([0, 0, 1, 2]) if size > 1 else 0):
        lines.append(gen_body_line(rng, chk, keys_pool, False))
    names = set()
    nsec = rng.randrange(0, size + 1) if size > 1 else 1
    for _ in range(nsec):
        lines.append(gen_header(rng, chk, names))
        keys_pool = []
        nl = rng.choice([0, 1, 2, 3, 5, 8]) if size > 1 else rng.randrange(1, 4)
        if nl == 0:
            chk.bump("section:empty")
        for _ in range(nl):
            lines.append(gen_body_line(rng, chk, keys_pool, True))
    bom = None
    r = rng.random()
    if r < 0.25:
        bom = rng.choice(sorted(BOMS))
        chk.bump("bom:" + bom)
    else:
        chk.bump("bom:none")
        if lines and starts_with_bom(lines[0].body):
            bom = "utf8"
    mode = rng.choice(["lf", "lf", "lf", "crlf", "mixed"])
    chk.bump("eol:" + mode)
    for l in lines:
        l.eol = mode if mode != "mixed" else rng.choice(["lf", "crlf"])
    if lines and rng.random() < 0.2:
        lines[-1].eol = "eof"
        chk.bump("eol:no-final-newline")
    # physical line limit (BOM counts on the first line)
    out = []
    for i, l in enumerate(lines):
        total = len(l.body) + len(EOLS[l.eol]) + (len(BOMS[bom]) if bom and i == 0 else 0)
        if total > MAXLINE:
            if l.eol == "crlf" and total - 1 <= MAXLINE:
                l.eol = "lf"
            else:
                chk.bump("line:dropped-too-long")
                continue
        if total == MAXLINE:
            chk.bump("line:exactly-1024")
        out.append(l)
    if out and out[-1].eol != "eof":
        pass
    for l in out[:-1]:
        if l.eol == "eof":
            l.eol = "lf"
    ops = []
    if bom:
        ops.append("bom %s %s" % (bom, BOMS[bom].hex()))
    ops += [l.op() for l in out]
    chk.bump("doc:sections=%d" % min(nsec, 6))
    return ops + ["wfcheck", "gparse"]


def f3_probe():
    """the documented example of F3, smallest form"""
    l1 = Line("hdr", ["-", "-", hx(b"s"), "-", "-"], b"[s]")
    l2 = Line("cmt", ["-", "35", hx(b" a = b")], b"# a = b")
    l3 = Line("cmt", ["-", "59", hx(b" c = d")], b"; c = d")
    l4 = Line("ent", ["-", hx(b"k"), hx(b" "), hx(b" "), "n", hx(b"v"), "-", "0", "-"], b"k = v")
    return [l1.op(), l2.op(), l3.op(), l4.op(), "wfcheck", "gparse"]


# ---------------------------------------------------------------------------------------------
# malformed stream

SMALL = b"abk1= \t\r\n\"';#[]{}\xe9"
EX_ALPHABET = b"a=\"';[] "


def raw_case(data):
    """split at newlines so that delta debugging can drop whole lines"""
    ops = []
    for piece in data.split(b"\n"):
        ops.append(piece + b"\n")
    if ops:
        ops[-1] = ops[-1][:-1]
    return ["raw " + p.hex() for p in ops if p] + ["parse"]


def render_ops(ops):
    return b"".join(bytes.fromhex(o.split()[-1]) for o in ops if o.split()[0] in PIECE_OPS and o.split()[-1] != "-")


def mutate(rng, chk, data):
    data = bytearray(data)
    for _ in range(rng.randrange(1, 6)):
        kind = rng.choice(["flip", "ins", "del", "nul", "dup", "cut", "bom", "special", "long"])
        chk.bump("mutation:" + kind)
        pos = rng.randrange(0, len(data) + 1)
        if kind == "flip" and data:
            data[pos % len(data)] = rng.randrange(256)
        elif kind == "ins":
            data[pos:pos] = bytes(rng.choice(SMALL) for _ in range(rng.randrange(1, 4)))
        elif kind == "del" and data:
            del data[pos % len(data):pos % len(data) + rng.randrange(1, 5)]
        elif kind == "nul":
            data[pos:pos] = b"\0" * rng.randrange(1, 3)
        elif kind == "dup":
            e = min(len(data), pos + rng.randrange(1, 40))
            data[pos:pos] = data[pos:e]
        elif kind == "cut":
            del data[pos:]
        elif kind == "bom":
            b = rng.choice(ALL_BOMS)
            data[pos:pos] = b[:rng.randrange(1, len(b) + 1)]
        elif kind == "special":
            data[pos:pos] = rng.choice([b"[", b"]", b"=", b'"', b"'", b"\r\n", b"[]", b"[ ]", b'""', b"''", b"=\n", b" = ", b"{", b"}", b"{}"])
        elif kind == "long":
            data[pos:pos] = bytes([rng.choice(b"ab= ;\"")]) * rng.choice([1018, 1022, 1024, 1030, 2050])
    return bytes(data)


def gen_long_line(rng, chk):
    """physical lines around and beyond the 1024-byte buffer, '=' / brackets / quotes at chosen offsets"""
    n = rng.choice([1021, 1022, 1023, 1024, 1025, 1026, 1027, 1028, 1029, 1030, 2047, 2048, 2049, 3000, 5000])
    chk.bump("longline:%s" % (n if n <= 1030 else ">1030"))
    kind = rng.randrange(6)
    if kind == 0:
        body = b"k" * rng.randrange(1, n) + b"="
        body += b"v" * (n - len(body))
    elif kind == 1:
        body = b"[" + b"s" * (n - 2) + b"]"
    elif kind == 2:
        body = b"k = \"" + b"v" * (n - 6) + b"\""
    elif kind == 3:
        body = b"k" * (n - 3) + b" =v"
    elif kind == 4:
        body = bytes(rng.choice(SMALL.replace(b"\n", b"")) for _ in range(n))
    else:
        body = b" " * (n // 2) + b"k=v" + b" " * (n - n // 2 - 3)
    eol = rng.choice([b"\n", b"\r\n", b""])
    pre = rng.choice([b"", b"[s]\n", b"\xef\xbb\xbf[s]\n"])
    post = rng.choice([b"", b"\nx=1\n", b"\n[t]\ny = 2"])
    return pre + body + eol + post


def gen_raw(rng, chk, valid_pool):
    r = rng.random()
    if r < 0.35 and valid_pool:
        chk.bump("raw:mutated-valid")
        return mutate(rng, chk, rng.choice(valid_pool))
    if r < 0.6:
        chk.bump("raw:small-alphabet")
        pre = rng.choice([b"", b"[s]\n", b"[s]\n", b"\xef\xbb\xbf[s]\n", b"\xff\xfe[s]\n", b"\x00\x00\xfe\xff[s]\n", b"\xff\xfe\x00\x00[s]\n"])
        return pre + bytes(rng.choice(SMALL) for _ in range(rng.randrange(0, 80)))
    if r < 0.75:
        return gen_long_line(rng, chk)
    if r < 0.87:
        chk.bump("raw:random-bytes")
        pre = rng.choice([b"", b"[s]\n"])
        return pre + bytes(rng.randrange(256) for _ in range(rng.randrange(0, 200)))
    chk.bump("raw:corner")
    return rng.choice([b"", b"\n", b"[", b"]", b"=", b"[]", b"[ ]", b"[]\n=\n", b"[s]\n=\n", b"[s]\n=v\n", b"[s]\nk=\n", b"[s]\nk= \n", b"[s]\n\"\n", b"[s]\nk=\"\n",
                       b"[s]\nk='\n", b"[s]\nk=\"\"\n", b"[s]\nk=''\n", b"[s]\nk=\"'\n", b"[s]\r\nk=v\r\n", b"[s]\nk=v", b"[s]", b"[s]\n[s]\nk=v\n", b"[s]\nk=v\n[s]\nk=w\n",
                       b"[a]\nk=1\n[b]\n[a]\nj=2\n", b"\xef\xbb\xbf", b"\xef\xbb", b"\xef", b"\xfe\xff", b"\xff\xfe\x00\x00[s]\nk=v\n", b"\x00\x00\xfe\xff[s]\nk=v\n",
                       b"[s]\n\xef\xbb\xbfk=v\n", b"[s]\n\xfe\xffk=v\n", b"\x00[s]\nk=v\n", b"[s]\nk\x00=v\n", b"[s]\nk=v\x00w\n", b"[s] ; c\nk=v\n", b"[s]\nk # c = d\n",
                       b"[s]\na#b = c\n", b"[s]\nk = \" v \"\n", b"[s]\nk = \"''\"\n", b"[s]\nk = '\"\"'\n", b"[s]\nk = \"v\n", b"[s]\nk = v1 = v2\n", b"[s]\n[k=v]\n", b"[s]\n[k]=v\n", b"[[s]]\nk=v\n", b"[s]x]\nk=v\n",
                       b"[s]\nk={1 2 3}\n", b"[s]\nk={}\n", b"[s]\nk={ }\n", b"[s]\nk={a} b}\n", b"[s]\nk=99999999999999999999\n", b"[s]\nk=1e99999999999\n",
                       b"[s]\n" + b"k=v\n" * 50, b"[s]\n" + b"".join(b"k%d=%d\n" % (i, i) for i in range(40))])


# ---------------------------------------------------------------------------------------------

def parse_dump(line):
    """dump line -> (status, [(sec, [(key, fields)])], [probe fields])"""
    t = line.split()
    if not t:
        return ("", [], [])
    status, secs, probes = t[0], [], []
    cur = None
    i = 1
    while i < len(t):
        if t[i] == "S" and i + 1 < len(t):
            cur = (t[i + 1], [])
            secs.append(cur)
            i += 2
        elif t[i] == "K" and i + 7 < len(t) and cur is not None:
            cur[1].append((t[i + 1], t[i + 2:i + 8]))
            i += 8
        elif t[i] == "P" and i + 6 < len(t):
            probes.append(t[i + 1:i + 7])
            i += 7
        else:
            return ("unparsable", [], [line])
    return (status, secs, probes)


def strip_double(fields):
    return [f if not f.startswith("d=") else "d=*" for f in fields]


def spec_view(op, line):
    o = op.split()[0] if op else ""
    if o == "gparse":
        # the documentation promises which sections / keys / values exist, not their order, not a
        # second listing of a repeated key, and nothing about the double conversion's bits
        status, secs, probes = parse_dump(line)
        canon = []
        for name, keys in secs:
            seen, ks = set(), []
            for k, f in keys:
                if k not in seen:
                    seen.add(k)
                    ks.append(k + " " + " ".join(strip_double(f)))
            canon.append(name + " | " + " | ".join(ks))
        return status + " || " + " || ".join(sorted(canon)) + " || " + " | ".join(" ".join(strip_double(p)) for p in probes)
    if o == "parse":
        # arbitrary bytes: the property only promises a consistent object (first token) and no memory error
        return line.split()[0] if line.split() else ""
    return ""


def signature_of(ops, r):
    return None


def finish(chk):
    """chk.finish(), tolerating the KeyError pv.Check.finish raises in its log line when the proof is broken
    (it pops 'discharged' first); the evidence file is already written at that point"""
    try:
        return chk.finish()
    except KeyError:
        return 1 if chk.violations else 0


def run(chk):
    cfg = pv.repo_config()
    proof_ok, driver_ok, detail = pv.proof_stage(chk, ["PV.Props.C16"])
    # a source shape the translator does not recognise means the theorems no longer speak about this code
    if any(d.startswith("extractor: ") and ("pinifile.c" in d or "pstring.c" in d or "gen_ini" in d) for d in detail):
        proof_ok = False
        chk.cov["discharged"] = 0
    try:
        exe = pv.build_harness("ini", cfg, ["ini.c"], repo_files=None, san="asan")
    except pv.BuildError as e:
        chk.violation(str(e), "harness for C16 does not build against the current source", no_input=True, suffix="txt")
        return finish(chk)
    fam = diffrun.Family("ini", exe, spec_view=spec_view, timeout=300)
    thorough = chk.tier == "thorough"
    rng = chk.rng
    cases = []
    cases += pv.load_corpus("C16")
    cases.append(f3_probe())
    # (i) documents of the grammar: small ones first so that a failure is reported on a small file
    ndoc_small, ndoc = (3000, 40000) if thorough else (300, 1700)
    docs = [gen_doc(rng, chk, 1) for _ in range(ndoc_small)] + [gen_doc(rng, chk, rng.choice([2, 3, 4, 6])) for _ in range(ndoc)]
    cases += docs
    # (ii) malformed stream
    nraw = 60000 if thorough else 2200
    pool = [render_ops(d) for d in docs[:400]]
    raws = []
    for _ in range(nraw):
        data = gen_raw(rng, chk, pool)
        raws.append(raw_case(data))
    cases += raws
    # (iii) exhaustive small scope: every line of up to `depth` symbols inside a section
    depth = 5 if thorough else 4
    ex = [raw_case(b"[s]\n" + bytes(t) + b"\n") for n in range(1, depth + 1) for t in itertools.product(EX_ALPHABET, repeat=n)]
    cases += ex
    chk.cov["exhaustive_small_scope"] = {"alphabet": EX_ALPHABET.decode(), "max_line_length": depth, "files": len(ex)}
    chk.cov["generated"] = {"grammar_documents": len(docs), "malformed_files": len(raws), "exhaustive_lines": len(ex)}
    found, corr, thm = diffrun.campaign(chk, fam, cases, proof_ok, detail, signature_of, "C16", batch=60)
    diffrun.conclude(chk, found, corr, thm, proof_ok and driver_ok, detail, "C16 INI parser")
    chk.cov["rule"] = ("one case = one file, given as pieces (one op per physical line) followed by parse/gparse; (i) files rendered from random documents "
                       "of the documented grammar (PV.IniSpec.WF, re-checked by the driver: op wfcheck) with random layout, quoting, trailing comments, "
                       "BOM, line ends, lines padded up to exactly 1024 bytes — compared with the model dump and with the spec's `meaning`; "
                       "(ii) malformed files: mutated valid files, small-alphabet noise, random bytes, NULs, physical lines of 1021..1030 and 2047..5000 bytes, "
                       "BOM fragments, lone brackets/quotes/'=' — compared with the model dump, first token = consistency oracle of the harness, ASan+UBSan abort = violation; "
                       "(iii) every line of up to %d symbols over the alphabet a = \" ' ; [ ] SP inside a section (complete for that scope); " % depth +
                       "a case is distinct by the hash of its op file, non-trivial when it has more than one op; branch_hits = distribution of generated constructs")
    chk.cov["exhaustive"] = False
    chk.assumptions += [
        "glibc sscanf/fgets/isspace/atoi/strtol in the C locale behave as the model's scan/splitLines/isSpace/atoi (validated by this differential run only, not proved)",
        "Lean's Float is IEEE-754 binary64 with the same +,*,/ as the C compiler emits for p_strtod (x86-64 SSE2, no FMA contraction, no excess precision); no theorem is stated about the double getter, its bits are compared on every generated value",
        "atoi on a numeral that does not fit an int is undefined in C: the model and the harness print `ovf` for the int and boolean getters there (decided in the harness by strtol+ERANGE / INT range) and the actual return value is not compared",
        "isdigit is called by p_strtod on a plain (signed) char; glibc's table lookup returns 0 for bytes >= 0x80, as the model assumes",
        "the file is read back exactly as written (regular file on a local file system, fopen \"r\" does no translation on POSIX)",
        "allocation never fails in this check (C18 covers failure)",
        "the spec column is produced for documents satisfying PV.IniSpec.WF only: distinct section names, non-empty unquoted values, no blanks directly inside quotes, no NUL, lines <= 1024 bytes, no line that starts like a byte-order mark",
    ]
    return finish(chk)

"""C08 — PShmBuffer = bounded FIFO byte queue (model PV.Model.ShmBuffer, theorems PV.Props.C08)."""
import itertools
import pv
import diffrun


def hexbytes(rng, n, ctr=[0]):
    out = []
    for _ in range(n):
        ctr[0] = (ctr[0] + 1) % 251
        out.append("%02x" % ctr[0])
    return "".join(out) if n else "-"


def gen_case(rng, chk, nops, unequal):
    cap = rng.choice([1, 2, 3, 4, 7, 16, 64, 255, 1000, 4096, 65536 if rng.random() < 0.1 else 33])
    ops = ["new 0 %d" % cap]
    handles = [0]
    free_ids = list(range(1, 6))
    used = 0
    chk.bump("cap<=4" if cap <= 4 else "cap>4")
    for _ in range(nops):
        r = rng.random()
        h = rng.choice(handles)
        free = cap - used
        if r < 0.40:
            c = rng.random()
            if c < 0.35:
                n = free
            elif c < 0.5:
                n = free + 1
            elif c < 0.6:
                n = max(0, free - 1)
            elif c < 0.65:
                n = 0
            elif c < 0.7:
                n = cap + 1
            else:
                n = rng.randrange(0, cap + 2)
            n = min(n, 70000)
            ops.append("w %d %s" % (h, hexbytes(rng, n)))
            if 0 < n <= free:
                used += n
                chk.bump("write-fits")
            else:
                chk.bump("write-rejected")
        elif r < 0.75:
            c = rng.random()
            n = used if c < 0.3 else used + 1 if c < 0.4 else 0 if c < 0.45 else 1 if c < 0.6 else rng.randrange(0, cap + 3)
            ops.append("r %d %d" % (h, n))
            if n:
                used -= min(n, used)
            chk.bump("read")
        elif r < 0.80:
            ops.append("clr %d" % h)
            used = 0
        elif r < 0.86:
            ops.append("used %d" % h)
        elif r < 0.92:
            ops.append("free %d" % h)
        elif r < 0.96 and free_ids:
            nh = free_ids.pop()
            if unequal:
                size = rng.choice([cap, cap, max(1, cap // 2), cap + 10, 0, 1])
                chk.bump("new-unequal-arg")
            else:
                size = rng.choice([cap, cap, 0, cap + rng.randrange(0, 50)])   # 0 / larger: no clamp
                chk.bump("new-same-or-larger-arg")
            ops.append("new %d %d" % (nh, size))
            handles.append(nh)
        elif len(handles) > 1:
            handles.remove(h)
            free_ids.append(h)
            ops.append("close %d" % h)
        ops.append("pos")
    ops += ["used %d" % handles[0], "free %d" % handles[0], "r %d %d" % (handles[0], cap + 1)]
    return ops


def exhaustive(depth, caps=(1, 2, 3, 4)):
    for cap in caps:
        lens = list(range(0, cap + 2))
        alphabet = ["w 0 L%d" % n for n in lens] + ["r 0 %d" % n for n in lens] + ["clr 0", "used 0"]
        for seq in itertools.product(alphabet, repeat=depth):
            ops = ["new 0 %d" % cap]
            b = 0
            for o in seq:
                if o.startswith("w 0 L"):
                    n = int(o[5:])
                    hx = "".join("%02x" % ((b + i) % 256) for i in range(n)) or "-"
                    b += n
                    ops.append("w 0 " + hx)
                else:
                    ops.append(o)
                ops.append("pos")
            ops += ["free 0", "r 0 %d" % (cap + 1)]
            yield ops


def signature_of(ops, r):
    sizes = [int(o.split()[2]) for o in ops if o.startswith("new ")]
    if sizes and any(0 < s < sizes[0] for s in sizes[1:]):
        return "handles-with-unequal-size-arguments"
    return None


def run(chk):
    cfg = pv.repo_config()
    proof_ok, driver_ok, detail = pv.proof_stage(chk, ["PV.Props.C08"])
    exe = pv.build_harness("sb", cfg, ["sb.c"], san="asan")
    fam = diffrun.Family("sb", exe)
    thorough = chk.tier == "thorough"
    rng = chk.rng
    cases = pv.load_corpus("C08")
    depth = 4 if thorough else 3
    ex = list(exhaustive(depth, (1, 2, 3, 4) if thorough else (1, 2, 3)))
    chk.cov["exhaustive_small_scope"] = {"depth": depth, "sequences": len(ex)}
    nr = 1500 if thorough else 250
    rnd = [gen_case(rng, chk, rng.choice([10, 40, 120]), unequal=False) for _ in range(nr)]
    uneq = [gen_case(rng, chk, rng.choice([10, 40]), unequal=True) for _ in range(nr // 5)]
    found, corr, thm = diffrun.campaign(chk, fam, cases + ex + rnd, proof_ok, detail, signature_of, "C08", batch=60)
    f2, c2, t2 = diffrun.campaign(chk, fam, uneq, proof_ok, detail, signature_of, "C08 unequal size arguments", batch=1)
    # supporting run / failing-input search for the atomicity clause: producer and consumer processes on a nearly full buffer
    st = [["stress %d %d:%d" % (cap, chunk, total)] for cap, chunk, total in
          ([(4096, 2048, 4000000), (64, 48, 300000)] + ([(2097152, 1048576, 400000000), (17, 9, 500000), (1024, 1000, 20000000)] if thorough else []))]
    f3, c3, t3 = diffrun.campaign(chk, fam, st, proof_ok, detail, signature_of, "C08 concurrent producer/consumer", batch=1, min_ops=1)
    diffrun.conclude(chk, found or f2 or f3, corr or c2 or c3, thm or t2 or t3, proof_ok and driver_ok, detail, "C08 shm buffer")
    chk.cov["rule"] = ("op files on one buffer name through up to 6 handles: capacities 1..65536, lengths biased to free, free±1, 0, capacity+1; header positions compared after every op; "
                       "exhaustive: all sequences of %d ops over write/read lengths 0..S+1, clear, used for small capacities; distinct by op-file hash, non-trivial = more than one op" % depth)
    chk.assumptions += ["capacity < 2^31 - 1 (the read result is a pint)", "POSIX shm objects are zero-filled at creation and MAP_SHARED is coherent (trusted)",
                        "concurrent atomicity relies on C07's lock (p_shm_lock brackets every operation: checked by the translator)"]
    return chk.finish()


def replay_family(cfg):
    return diffrun.Family("sb", pv.build_harness("sb", cfg, ["sb.c"], san="asan"))

"""C08 — PShmBuffer = bounded FIFO byte queue (model PV.Model.ShmBuffer, theorems PV.Props.C08)."""
import itertools
import os
import pv
import diffrun

PAGE = os.sysconf("SC_PAGE_SIZE")
HDR = 17            # two psize header words + the unused slot: segment size = capacity + 17
# lengths no capacity can hold: around the 32-bit, int and 33-bit borders (caller memory is reserved, never touched)
HUGE = [2 ** 31 - 1, 2 ** 31, 2 ** 31 + 1, 2 ** 32 - 1, 2 ** 32, 2 ** 32 + 1, 2 ** 32 + 7, 2 ** 33 + 3, 2 ** 36]
# lengths nobody can reserve: offered from a one-byte source (`wx`), they must be refused before anything is read;
# 2^64 - k for small k makes `used + len` wrap when the buffer holds k or more bytes
XHUGE = [2 ** 64 - 1, 2 ** 64 - 2, 2 ** 64 - 5, 2 ** 64 - 10, 2 ** 64 - 64, 2 ** 64 - 4096, 2 ** 63, 2 ** 63 - 1, 2 ** 63 + 1, 2 ** 48, 2 ** 32 + 1]


def hexbytes(rng, n, ctr=[0]):
    out = []
    for _ in range(n):
        ctr[0] = (ctr[0] + 1) % 257        # every byte value, 0x00 and 0xff included; the period is not a power of two
        out.append("%02x" % (ctr[0] % 256))
    return "".join(out) if n else "-"


def pick_cap(rng):
    c = rng.random()
    if c < 0.12:        # the segment (capacity + 17 bytes) ends exactly on / one off a page border
        return rng.choice([PAGE - HDR, PAGE - HDR - 1, PAGE - HDR + 1, 2 * PAGE - HDR, 2 * PAGE - HDR + 1])
    return rng.choice([1, 2, 3, 4, 7, 16, 64, 255, 1000, 4096, 65536 if rng.random() < 0.1 else 33])


def gen_case(rng, chk, nops, unequal):
    cap = pick_cap(rng)
    ops = []
    if rng.random() < 0.05:
        ops.append("new 0 0")           # a fresh name cannot be created with size 0; the handle id stays free
    ops.append("new 0 %d" % cap)
    handles = [0]
    owners = {0}
    free_ids = list(range(1, 6))
    used = 0
    chk.bump("cap<=4" if cap <= 4 else "cap on a page border" if (cap + HDR) % PAGE in (0, 1, PAGE - 1) else "cap>4")
    for _ in range(nops):
        r = rng.random()
        h = rng.choice(handles)
        free = cap - used
        if r < 0.38:
            c = rng.random()
            if c < 0.35:
                n = free
            elif c < 0.5:
                n = free + 1
            elif c < 0.6:
                n = max(0, free - 1)
            elif c < 0.65:
                n = 0
            elif c < 0.7:
                n = cap + 1
            else:
                n = rng.randrange(0, cap + 2)
            n = min(n, 70000)
            if not unequal and rng.random() < 0.06:      # (not on the corrupted positions of finding F6: the real copy would run away)
                ops.append("wz %d %d" % (h, rng.choice(HUGE)))      # can never fit: 0, nothing appended
                ops.append("wx %d %d" % (h, rng.choice(XHUGE)))
                chk.bump("write-huge-length")
            else:
                ops.append("w %d %s" % (h, hexbytes(rng, n)))
                if 0 < n <= free:
                    used += n
                    chk.bump("write-fits")
                else:
                    chk.bump("write-rejected")
        elif r < 0.73:
            c = rng.random()
            n = used if c < 0.3 else used + 1 if c < 0.4 else 0 if c < 0.45 else 1 if c < 0.6 else rng.choice(HUGE) if c < 0.68 and not unequal else rng.randrange(0, cap + 3)
            ops.append("r %d %d" % (h, n))
            if n:
                used -= min(n, used)
            chk.bump("read-huge-length" if n >= 2 ** 31 - 1 else "read")
        elif r < 0.78:
            ops.append("clr %d" % h)
            used = 0
            chk.bump("clear")
        elif r < 0.83:
            ops.append("used %d" % h)
        elif r < 0.88:
            ops.append("free %d" % h)
        elif r < 0.93 and free_ids:
            nh = free_ids.pop()
            if unequal:
                size = rng.choice([cap, cap, max(1, cap // 2), cap + 10, 0, 1])
                chk.bump("new-unequal-arg")
            else:
                size = rng.choice([cap, cap, 0, cap + rng.randrange(0, 50), cap + PAGE])   # 0 / larger: no clamp
                chk.bump("new-same-or-larger-arg")
            ops.append("new %d %d" % (nh, size))
            handles.append(nh)
        elif r < 0.95:
            ops.append("own %d" % h)
            owners.add(h)
            chk.bump("take_ownership")
        elif r < 0.96 and len(handles) > 1 and h in owners:
            # the holder of an owner handle is gone without freeing it (a killed process): the name stays until
            # somebody else takes ownership and frees
            ops.append("abandon %d" % h)
            handles.remove(h)
            owners.discard(h)
            free_ids.append(h)
            chk.bump("abandon owner")
        elif len(handles) > 1 and h not in owners:
            handles.remove(h)
            free_ids.append(h)
            ops.append("close %d" % h)
            chk.bump("close non-owner")
        elif len(handles) == 1 and rng.random() < 0.6:
            if h not in owners:
                ops.append("own %d" % h)
            # the last handle, an owner, goes: the name is removed; whoever comes next creates a fresh, empty
            # buffer of the capacity it asks for (never the old bytes, never the old capacity)
            ops.append("close %d" % h)
            free_ids.append(h)
            ops.append("pos")
            cap = pick_cap(rng)
            nh = free_ids.pop(0)
            ops.append("new %d %d" % (nh, cap))
            handles, owners, used = [nh], {nh}, 0
            chk.bump("owner free, fresh buffer")
        elif len(handles) > 1:
            # wind down to one handle so that the owner can go
            v = [x for x in handles if x not in owners] or handles[1:]
            x = v[0]
            if x in owners and len(handles) > 1:
                pass
            else:
                handles.remove(x)
                free_ids.append(x)
                ops.append("close %d" % x)
        ops.append("pos")
    ops += ["used %d" % handles[0], "free %d" % handles[0], "r %d %d" % (handles[0], cap + 1)]
    return ops


DIRECTED = [
    # the creator's process is gone; the documented clean-up through a follower: take ownership, free; then a fresh buffer
    ["new 0 8", "w 0 0102030405", "new 1 8", "abandon 0", "r 1 2", "own 1", "close 1", "pos", "new 2 3", "free 2", "used 2", "r 2 9", "w 2 0a0b0c", "pos"],
    # … and without the clean-up the buffer lives on with its bytes, whatever size the next opener asks for
    ["new 0 8", "w 0 0102030405", "new 1 8", "abandon 0", "close 1", "pos", "new 2 30", "free 2", "used 2", "r 2 9", "pos", "own 2", "close 2", "new 0 30", "free 0"],
    # owner goes, the next creator asks for another capacity: fresh and empty (take_ownership on a follower too)
    ["new 0 8", "w 0 0102030405", "new 1 8", "close 1", "own 0", "close 0", "pos", "new 2 3", "free 2", "used 2", "r 2 9", "w 2 0a0b0c", "w 2 0d", "r 2 2", "pos"],
    ["new 0 8", "w 0 0102030405", "new 1 0", "r 1 2", "close 1", "close 0", "pos", "new 1 20", "free 1", "r 1 30", "w 1 0708", "new 0 0", "r 0 1", "pos"],
    # lengths of 2^31 … 2^36 on a small and on a full buffer
    # opens of the live buffer that run out of memory at every allocation in turn: the buffer, its name and the other handles stay
    ["new 0 64", "w 0 0102030405", "newoom 64", "used 0", "new 1 64", "used 1", "r 1 3", "w 1 aabb", "r 0 10", "pos", "newoom 0", "new 2 0", "used 2", "w 2 01", "r 0 5"],
    ["new 0 9", "newoom 9", "new 1 9", "w 0 010203", "r 1 9", "newoom 5", "w 1 0a0b", "used 0", "r 0 9"],
    ["new 0 100", "w 0 0102030405060708090a"] + ["wx 0 %d" % n for n in XHUGE] + ["pos", "used 0", "r 0 100", "pos"] + ["wx 0 %d" % n for n in XHUGE[:4]] + ["pos"],
    ["new 0 7", "w 0 010203", "r 0 2", "w 0 0405060708"] + ["wx 0 %d" % (2 ** 64 - k) for k in range(1, 9)] + ["pos", "r 0 7", "pos"],
    ["new 0 5"] + ["wz 0 %d" % n for n in HUGE] + ["pos", "w 0 0102030405", "pos"] + ["wz 0 %d" % n for n in HUGE[:3]] + ["r 0 %d" % HUGE[5], "pos", "w 0 ff00ff", "r 0 %d" % HUGE[1], "pos"],
    # a segment that ends exactly on a page border: fill, wrap, clear
    ["new 0 %d" % (PAGE - HDR), "free 0", "w 0 " + "ab" * (PAGE - HDR), "pos", "r 0 100", "w 0 " + "cd" * 100, "pos", "clr 0", "pos", "free 0", "new 1 %d" % PAGE, "clr 1", "free 1", "pos"],
    ["new 0 %d" % (2 * PAGE - HDR), "clr 0", "w 0 " + "ef" * (2 * PAGE - HDR), "r 0 %d" % (2 * PAGE), "clr 0", "pos"],
]


def exhaustive(depth, caps=(1, 2, 3, 4)):
    for cap in caps:
        lens = list(range(0, cap + 2))
        alphabet = ["w 0 L%d" % n for n in lens] + ["r 0 %d" % n for n in lens] + ["clr 0", "used 0"]
        for seq in itertools.product(alphabet, repeat=depth):
            ops = ["new 0 %d" % cap]
            b = 0
            for o in seq:
                if o.startswith("w 0 L"):
                    n = int(o[5:])
                    hx = "".join("%02x" % ((b + i) % 256) for i in range(n)) or "-"
                    b += n
                    ops.append("w 0 " + hx)
                else:
                    ops.append(o)
                ops.append("pos")
            ops += ["free 0", "r 0 %d" % (cap + 1)]
            yield ops


def signature_of(ops, r):
    """F6: some handle was opened with a non-zero size argument smaller than the capacity of the buffer it joined
    (the protocol's life cycle is replayed: the name lives until an owner, as the last open handle, is closed)"""
    cap, hs, owners = None, set(), set()
    for o in ops:
        t = o.split()
        if t[0] == "new" and len(t) == 3 and t[1].isdigit() and t[2].isdigit():
            h, size = int(t[1]), int(t[2])
            if h in hs:
                continue
            if cap is None:
                if size == 0:
                    continue              # fails on a fresh name
                cap, hs, owners = size, {h}, {h}
            else:
                if 0 < size < cap:
                    return "handles-with-unequal-size-arguments"
                hs.add(h)
        elif t[0] == "own" and len(t) == 2 and t[1].isdigit() and int(t[1]) in hs:
            owners.add(int(t[1]))
        elif t[0] == "abandon" and len(t) == 2 and t[1].isdigit():
            hs.discard(int(t[1]))
            owners.discard(int(t[1]))
        elif t[0] == "close" and len(t) == 2 and t[1].isdigit() and int(t[1]) in hs:
            h = int(t[1])
            if h in owners:
                if len(hs) == 1:
                    cap, hs, owners = None, set(), set()
            else:
                hs.discard(h)
        elif t[0] == "reset":
            cap, hs, owners = None, set(), set()
    return None


# error exits: p_shm_lock / p_shm_unlock of the next op fail (scripted sem_wait / sem_post failure), NULL arguments
LOCKFAIL = [
    # the lock's sem_wait interrupted by handled signals (1, 2, 5 times) before every kind of op: nothing may show
    ["new 0 8", "failsem 2 0", "w 0 010203", "pos", "failsem 3 0", "r 0 2", "pos", "failsem 6 0", "used 0", "failsem 2 0", "free 0", "failsem 3 0", "clr 0", "pos", "used 0",
     "failsem 2 0", "w 0 0405", "failsem 2 0", "r 0 9", "pos"],
    ["new 0 8", "null", "w 0 010203", "failsem 1 0", "r 0 2", "pos", "failsem 0 1", "r 0 2", "pos", "used 0", "failsem 1 0", "w 0 0405", "pos", "failsem 0 1", "w 0 0405", "pos", "used 0",
     "failsem 1 0", "used 0", "failsem 0 1", "used 0", "failsem 1 0", "free 0", "failsem 0 1", "free 0", "failsem 1 0", "clr 0", "pos", "used 0", "failsem 0 1", "clr 0", "pos", "used 0",
     "failsem 1 1", "wz 0 3", "pos", "failsem 0 1", "w 0 " + "aa" * 9, "failsem 0 1", "r 0 0", "r 0 5", "failsem 1 0", "w 0 -", "pos", "failsem 0 1", "wz 0 2", "pos", "r 0 9"],
    ["null", "new 0 3", "failsem 0 1", "r 0 1", "failsem 0 1", "w 0 010203", "failsem 0 1", "w 0 04", "r 0 9", "pos", "new 1 3", "failsem 1 0", "w 1 05", "failsem 0 1", "w 1 06", "r 0 3", "pos"],
]


def sprinkle_lock_failures(rng, ops, p=0.06):
    out = []
    for o in ops:
        if o.split()[0] in ("w", "wz", "r", "clr", "used", "free") and rng.random() < p:
            out.append("failsem %d %d" % rng.choice([(1, 0), (0, 1), (1, 1), (2, 0), (4, 0)]))
        out.append(o)
    return out


def run(chk):
    cfg = pv.repo_config()
    # the buffer lives in a PShm segment and is locked by its semaphore: the facts extracted from pshm-posix.c and
    # psemaphore-posix.c (anchors of this property too) and the theorems of C07 / C06 over them are audited here as well — a
    # change of those files that the translator refuses breaks this property's obligations too
    proof_ok, driver_ok, detail = pv.proof_stage(chk, ["PV.Props.C08", "PV.Props.C07", "PV.Props.C06"])
    if any(d.startswith("extractor: ") and "pshmbuffer" in d for d in detail):
        proof_ok = False
    exe = pv.build_harness("sb", cfg, ["sb.c"], san="asan", link=["-Wl,--wrap=sem_wait,--wrap=sem_post"])
    fam = diffrun.Family("sb", exe)
    thorough = chk.tier == "thorough"
    rng = chk.rng
    cases = pv.load_corpus("C08")
    depth = 4 if thorough else 3
    ex = list(exhaustive(depth, (1, 2, 3, 4) if thorough else (1, 2, 3)))
    chk.cov["exhaustive_small_scope"] = {"depth": depth, "sequences": len(ex)}
    nr = 1500 if thorough else 250
    rnd = [gen_case(rng, chk, rng.choice([10, 40, 120]), unequal=False) for _ in range(nr)]
    uneq = [gen_case(rng, chk, rng.choice([10, 40]), unequal=True) for _ in range(nr // 5)]
    rnd += [sprinkle_lock_failures(rng, gen_case(rng, chk, rng.choice([10, 40]), unequal=False)) for _ in range(nr // 5)]
    chk.bump("lock-failure / NULL-argument histories", len(LOCKFAIL) + nr // 5)
    found, corr, thm = diffrun.campaign(chk, fam, cases + DIRECTED + LOCKFAIL + ex + rnd, proof_ok, detail, signature_of, "C08", batch=60)
    f2, c2, t2 = diffrun.campaign(chk, fam, uneq, proof_ok, detail, signature_of, "C08 unequal size arguments", batch=1)
    # supporting run / failing-input search for the atomicity clause: producer and consumer processes on a nearly full buffer
    st = [["stress %d %d:%d" % (cap, chunk, total)] for cap, chunk, total in
          ([(4096, 2048, 4000000), (64, 48, 300000)] + ([(2097152, 1048576, 400000000), (17, 9, 500000), (1024, 1000, 20000000)] if thorough else []))]
    # several producer processes (own handles, every other one opened with size 0) and several consumer threads sharing
    # one handle, whole frames only, while a third party polls used/free: CAP CHUNK:TOTAL:PRODUCERS:CONSUMERS
    st += [["stress %d %d:%d:%d:%d" % x] for x in
           ([(64, 16, 400000, 2, 2), (100, 33, 600000, 3, 1), (PAGE - HDR, 1024, 8000000, 2, 3), (17, 6, 120000, 4, 2)]
            + ([(64, 16, 4000000, 2, 2), (40, 13, 2000000, 5, 3), (2 * PAGE - HDR, 4096, 80000000, 3, 2), (7, 6, 300000, 2, 2)] if thorough else []))]
    # a clear through a third handle while a consumer drains a large buffer: CAP CHUNK:ROUNDS:0:0:clr
    st += [["stress %d %d:%d:0:0:clr" % x] for x in ([(16 << 20, 4096, 3)] + ([(64 << 20, 4096, 4), (1 << 20, 256, 6)] if thorough else []))]
    chk.bump("multi-party stress runs", len(st) - (5 if thorough else 2))
    f3, c3, t3 = diffrun.campaign(chk, fam, st, proof_ok, detail, signature_of, "C08 concurrent producer/consumer", batch=1, min_ops=1)
    diffrun.conclude(chk, found or f2 or f3, corr or c2 or c3, thm or t2 or t3, proof_ok and driver_ok, detail, "C08 shm buffer")
    chk.cov["rule"] = ("op files on one buffer name through up to 6 handles: capacities 1..65536 and page-border capacities (segment = capacity+17 = k pages, ±1), lengths biased to free, free±1, 0, capacity+1 "
                       "and 2^31-1 .. 2^36 (reads and writes), all byte values; take_ownership, close of followers, close of the last owner followed by a fresh buffer of another capacity; header positions compared after every op; "
                       "scripted failures of p_shm_lock / p_shm_unlock (sem_wait / sem_post wrapped) before read / write / clear / space queries, directed and sprinkled over random histories; NULL buffer / name / storage for every call; "
                       "exhaustive: all sequences of %d ops over write/read lengths 0..S+1, clear, used for small capacities; "
                       "concurrent: 1 producer/1 consumer streams and P producer processes x C consumer threads (shared handle) with whole frames + a used/free poller; distinct by op-file hash, non-trivial = more than one op" % depth)
    chk.assumptions += ["capacity < 2^31 - 1 (the read result is a pint)", "POSIX shm objects are zero-filled at creation and MAP_SHARED is coherent (trusted)",
                        "concurrent atomicity relies on C07's lock (p_shm_lock brackets every operation: checked by the translator)"]
    return chk.finish()


def replay_family(cfg):
    return diffrun.Family("sb", pv.build_harness("sb", cfg, ["sb.c"], san="asan", link=["-Wl,--wrap=sem_wait,--wrap=sem_post"]))

"""Shared machinery of the socket family (C09, C10, C19 socket part): harness build, script generators, spec views."""
import errno as E
import itertools
import os
import pv
import diffrun

WRAPPED = ["socket", "fcntl", "fcntl64", "setsockopt", "getsockopt", "getsockname", "getpeername", "bind", "connect", "listen",
           "accept", "accept4", "recv", "recvfrom", "send", "sendto", "poll", "shutdown", "close", "signal",
           "p_socket_address_new_from_native", "p_socket_address_to_native"]
NOFORTIFY = ["-U_FORTIFY_SOURCE", "-D_FORTIFY_SOURCE=0"]


def build(cfg, name="socket", src="socket.c", san="asan"):
    """psocket.c is included textually by the harness; the rest of the library is linked as objects"""
    files = [f for f in cfg["sources"] if os.path.basename(f) != "psocket.c"]
    link = ["-Wl," + ",".join("--wrap=" + w for w in WRAPPED)]
    return pv.build_harness(name, cfg, [src], repo_files=files, san=san, extra=NOFORTIFY, link=link)


# --------------------------------------------------------------------------------------------
# script building blocks.  A case is a list of op lines; `sys …` lines queue native results.

SA4 = "02001f907f000001" + "00" * 8                       # sockaddr_in 127.0.0.1:8080
SA4B = "0200c3500a000005" + "00" * 8                      # 10.0.0.5:50000
SA6 = "0a001f90" + "00000000" + "00" * 15 + "01" + "00000000"   # sockaddr_in6 [::1]:8080
ADDRS = {2: [SA4, SA4B], 10: [SA6]}
HARD = [E.ECONNRESET, E.EPIPE, E.ENOTCONN, E.EBADF, E.ETIMEDOUT, E.ECONNREFUSED, E.EMFILE, E.EINVAL, E.ENOMEM, 9999]
SOCK_STREAM, SOCK_DGRAM = 1, 2


def sysl(name, ret, **kw):
    return "sys %s %s" % (name, ret) + "".join(" %s=%s" % (k, v) for k, v in kw.items())


def hexbytes(rng, n):
    return "".join("%02x" % rng.randrange(256) for _ in range(n)) if n else "-"


def t_new(fd, getfd=1):
    s = [sysl("socket", fd), sysl("fcntl", getfd)]
    if getfd != "e9" and (int(getfd) & 1) == 0:
        s.append(sysl("fcntl", 0))
    return s + [sysl("fcntl", 2), sysl("fcntl", 0)]


def t_details(native_type=SOCK_STREAM, fam=2, peer=True, ka=0):
    sa = ADDRS[fam][0]
    return [sysl("getsockopt", 0, v=native_type), sysl("getsockname", 0, sa=sa),
            sysl("getpeername", 0, sa=sa) if peer else sysl("getpeername", "e%d" % E.ENOTCONN),
            sysl("getsockopt", 0, v=ka)]


def t_newfd(**kw):
    return t_details(**kw) + [sysl("fcntl", 2), sysl("fcntl", 0)]


def t_accept_tail(fd, getfd=0, **kw):
    """getfd=None: no F_GETFD/F_SETFD pair at all (a source without the FD_CLOEXEC block consumes exactly this)"""
    if getfd is None:
        return t_newfd(**kw)
    s = [sysl("fcntl", getfd)]
    if (getfd & 1) == 0:
        s.append(sysl("fcntl", 0))
    return s + t_newfd(**kw)


def mk_socket(slot, fam=2, typ=1, proto=6, fd=5, blocking=True, timeout=0):
    ops = t_new(fd) + ["new %d %d %d %d" % (slot, fam, typ, proto)]
    if not blocking:
        ops.append("setblk %d 0" % slot)
    if timeout:
        ops.append("setto %d %d" % (slot, timeout))
    return ops


# ---- the retry loops: alphabets and exhaustive enumeration along the loop structure

POLL_ALPHA = ["1", "0", "e%d" % E.EINTR, "e%d" % E.EBADF]


def data_alpha(kind, buflen, payload):
    """result alphabet of the data call: full, short, interrupted, would-block, two hard errors (6 symbols)"""
    ei, ea = "e%d" % E.EINTR, "e%d" % E.EAGAIN
    if kind in ("recv", "recvfrom"):
        full = {"d": payload[:2 * buflen] or "-"}
        short = {"d": payload[:2] or "-"}
        if kind == "recvfrom":
            full["sa"] = short["sa"] = SA4
        return [(str(buflen), full), ("1", short), (ei, {}), (ea, {}), ("e%d" % E.ECONNRESET, {}), ("0", {"d": "-", **({"sa": SA4} if kind == "recvfrom" else {})})]
    if kind in ("send", "sendto"):
        return [(str(buflen), {}), ("1", {}), (ei, {}), (ea, {}), ("e%d" % E.EPIPE, {}), ("e%d" % E.ECONNRESET, {})]
    if kind == "accept":
        return [("7", {}), ("9", {}), (ei, {}), (ea, {}), ("e%d" % E.ECONNABORTED, {}), ("e%d" % E.EMFILE, {})]
    if kind == "connect":
        return [("0", {}), (ei, {}), ("e%d" % E.EINPROGRESS, {}), (ea, {}), ("e%d" % E.ECONNREFUSED, {}), ("e%d" % E.EALREADY, {})]
    raise ValueError(kind)


def enum_loop(kind, blocking, depth, buflen=4, payload="a1b2c3d4"):
    """every script (list of sys lines) of at most `depth` native results that the retry loop of `kind`
    can consume, following the loop structure (wait phase <-> data phase); scripts cut at `depth` end in exhaustion."""
    da = data_alpha(kind, buflen, payload)
    out = []

    def rec(phase, acc):
        if len(acc) >= depth:
            out.append(list(acc))
            return
        if phase == "wait":
            for p in POLL_ALPHA:
                # readiness is sometimes reported together with POLLHUP / POLLERR (peer closed with data still queued)
                extra = {"v": (16, 8, 24)[len(acc) % 3]} if (p == "1" and len(acc) % 2 == 1) else {}
                acc.append(sysl("poll", p, **extra))
                if p == "1":
                    rec("data", acc)
                elif p == "e%d" % E.EINTR:
                    rec("wait", acc)
                else:
                    out.append(list(acc))
                acc.pop()
        else:
            for ret, kw in da:
                acc.append(sysl(kind, ret, **kw))
                again = ret == "e%d" % E.EINTR or (blocking and ret == "e%d" % E.EAGAIN)
                if kind == "connect":
                    again = ret == "e%d" % E.EINTR
                if again:
                    rec("wait" if blocking and kind != "connect" else "data", acc)
                else:
                    out.append(list(acc))
                acc.pop()

    rec("wait" if blocking and kind != "connect" else "data", [])
    return out


def call_line(kind, slot, buflen=4, payload="a1b2c3d4", fam=2, newslot=1, want=1):
    if kind == "recv":
        return "recv %d %d" % (slot, buflen)
    if kind == "recvfrom":
        return "recvfrom %d %d %d" % (slot, buflen, want)
    if kind == "send":
        return "send %d %s" % (slot, payload[:2 * buflen])
    if kind == "sendto":
        return "sendto %d %s %s" % (slot, ADDRS[fam][0], payload[:2 * buflen])
    if kind == "accept":
        return "accept %d %d" % (slot, newslot)
    if kind == "connect":
        return "connect %d %s" % (slot, ADDRS[fam][0])
    if kind == "wait":
        return "wait %d 1" % slot
    raise ValueError(kind)


def tail_for(kind, script, rng=None):
    """native results needed after the loop on the success path"""
    last = script[-1].split() if script else []
    if kind == "accept" and last[:2] == ["sys", "accept"] and not last[2].startswith("e"):
        return t_accept_tail(int(last[2]))
    if kind == "recvfrom" and last[:2] == ["sys", "recvfrom"] and not last[2].startswith("e"):
        return [sysl("fromnative", 1)]
    return []


def connect_tails(script, blocking):
    """after the connect loop: in blocking mode an in-progress result goes on to poll + SO_ERROR"""
    last = script[-1].split() if script else []
    inprog = last[:2] == ["sys", "connect"] and last[2] in ("e%d" % E.EINPROGRESS, "e%d" % E.EAGAIN, "e%d" % E.EALREADY)
    if not (blocking and inprog):
        return [[]]
    outs = []
    for p in (["1"], ["e%d" % E.EINTR, "1"], ["0"], ["e%d" % E.EBADF], ["e%d" % E.EINTR, "e%d" % E.EINTR, "0"]):
        pl = [sysl("poll", x) for x in p]
        if p[-1] == "1":
            for g in (sysl("getsockopt", 0, v=0), sysl("getsockopt", 0, v=E.ECONNREFUSED), sysl("getsockopt", "e%d" % E.EBADF), sysl("getsockopt", 0, v=E.EINTR)):
                outs.append(pl + [g])
        else:
            outs.append(pl)
    return outs


MODES = [("blk", True, 0), ("blkT", True, 50), ("nb", False, 0), ("nbT", False, 50)]


def exhaustive_cases(depth, kinds=("recv", "recvfrom", "send", "sendto", "accept", "connect", "wait")):
    """(label, ops) for every kind x mode x script of the enumeration"""
    for kind in kinds:
        for mname, blocking, timeout in MODES:
            if kind == "wait":
                scripts = [[sysl("poll", x) for x in seq] for n in range(0, depth + 1) for seq in itertools.product(POLL_ALPHA, repeat=n)
                           if all(x == "e%d" % E.EINTR for x in seq[:-1])]
            else:
                scripts = enum_loop(kind, blocking, depth)
            typ, proto = (2, 17) if kind in ("recvfrom", "sendto") else (1, 6)
            for sc in scripts:
                tails = connect_tails(sc, blocking) if kind == "connect" else [tail_for(kind, sc)]
                if kind == "accept" and tails[0]:
                    tails.append(t_accept_tail(0, getfd=None))
                for tl in tails:
                    yield kind + "/" + mname, mk_socket(0, 2, typ, proto, 5, blocking, timeout) + sc + tl + [call_line(kind, 0)]


def eintr_kth_cases(kmax=6):
    """C19, socket part: EINTR injected at the k-th invocation of each blocking native call site (the earlier
    invocations are made to happen by would-block rounds), exhaustive for k <= kmax, every call kind, with/without timeout"""
    ei, ea = "e%d" % E.EINTR, "e%d" % E.EAGAIN
    for kind in ("recv", "recvfrom", "send", "sendto", "accept"):
        good = data_alpha(kind, 4, "a1b2c3d4")[0]
        typ, proto = (2, 17) if kind in ("recvfrom", "sendto") else (1, 6)
        for timeout in (0, 50):
            for site in ("poll", kind):
                for k in range(1, kmax + 1):
                    sc = []
                    for _ in range(k - 1):
                        sc += [sysl("poll", 1), sysl(kind, ea)]
                    sc += [sysl("poll", ei), sysl("poll", 1)] if site == "poll" else [sysl("poll", 1), sysl(kind, ei), sysl("poll", 1)]
                    sc.append(sysl(kind, good[0], **good[1]))
                    yield "c19/%s@%s" % (site, kind), mk_socket(0, 2, typ, proto, 5, True, timeout) + sc + tail_for(kind, sc) + [call_line(kind, 0)]
    for k in range(1, kmax + 1):        # connect(): k-1 EINTRs are themselves the earlier invocations; and its wait
        sc = [sysl("connect", ei)] * k + [sysl("connect", "e%d" % E.EINPROGRESS)] + [sysl("poll", ei)] * k + [sysl("poll", 1), sysl("getsockopt", 0, v=0)]
        yield "c19/connect", mk_socket(0) + sc + [call_line("connect", 0)]
        yield "c19/wait", mk_socket(0) + [sysl("poll", ei)] * k + [sysl("poll", 1), "wait 0 2"]


# ---- directed input classes that the random generators never (or almost never) reach

ERRNOS = list(range(0, 134)) + [255, 512, 9999, 2**31 - 1]
SIZES_EDGE = [0, 1, 2**31 - 1, 2**31, 2**32 - 1, 2**32, 2**32 + 1]


def errno_sweep_cases():
    """every errno value 0..133 (and a few beyond the table) as the result of the data call, of the wait's poll and of
    the second data call after one would-block round: which native codes are retried, which are reported, for each
    call kind and mode.  ("fails for a real reason": only EINTR and EAGAIN may be swallowed.)"""
    for kind in ("recv", "recvfrom", "send", "sendto", "accept", "connect"):
        typ, proto = (2, 17) if kind in ("recvfrom", "sendto") else (1, 6)
        good = data_alpha(kind, 4, "a1b2c3d4")[0]
        for mname, blocking, timeout in MODES[:3]:
            for e in ERRNOS:
                pre = [sysl("poll", 1)] if (blocking and kind != "connect") else []
                sc = pre + [sysl(kind, "e%d" % e)]
                # what a retry would consume (the script left over is reported by `left=`)
                sc2 = sc + pre + [sysl(kind, good[0], **good[1])]
                if kind == "connect":
                    tails = [[sysl("poll", 1), sysl("getsockopt", 0, v=0)]] if blocking else [[]]
                    for tl in tails:
                        yield "errno/%s/%s" % (kind, mname), mk_socket(0, 2, typ, proto, 5, blocking, timeout) + sc + tl + [call_line(kind, 0)]
                    continue
                yield "errno/%s/%s" % (kind, mname), mk_socket(0, 2, typ, proto, 5, blocking, timeout) + sc2 + tail_for(kind, sc2) + [call_line(kind, 0)]
        for e in ERRNOS:          # the wait itself
            yield "errno/poll@" + kind, mk_socket(0, 2, typ, proto, 5, True, 50) + [sysl("poll", "e%d" % e), sysl("poll", 1)] + \
                [sysl(kind, good[0], **good[1])] + tail_for(kind, [sysl(kind, good[0], **good[1])]) + [call_line(kind, 0)]
    for e in ERRNOS:
        yield "errno/wait", mk_socket(0) + [sysl("poll", "e%d" % e), sysl("poll", 1), "wait 0 1"]
        yield "errno/chk", mk_socket(0) + [sysl("getsockopt", 0, v=e), "chk 0"]
        yield "errno/connect-soerror", mk_socket(0) + [sysl("connect", "e%d" % E.EINPROGRESS), sysl("poll", 1), sysl("getsockopt", 0, v=e), call_line("connect", 0)]


def argument_cases():
    """legal-but-unusual and documented-invalid arguments of every entry point: NULL buffer / address / result pointer,
    length 0 (an empty datagram is a legal datagram; a zero-length receive is a legal receive), lengths around 2^31 and
    2^32, pboolean arguments other than 0/1, descriptor 0, time-outs at the ends of the int range, a NULL socket, and the
    same on a closed socket (the closed check comes after the argument check)"""
    for mname, blocking, timeout in MODES:
        for state in ("open", "closed"):
            def sock(typ=1, proto=6):
                ops = mk_socket(0, 2, typ, proto, 5, blocking, timeout)
                return ops + ([sysl("close", 0), "close 0"] if state == "closed" else [])
            w = [sysl("poll", 1)] if blocking else []
            lab = "args/%s/%s" % (mname, state)
            # receive_from without an address result pointer / with one; datagram longer, equal, shorter than the buffer; empty datagram
            for want in (0, 1):
                for n, d in ((4, "a1b2c3d4"), (2, "a1b2"), (4, "a1b2c3d4e5f6"), (0, "-")):
                    yield lab, sock(2, 17) + w + [sysl("recvfrom", n, d=d, sa=SA4)] + ([sysl("fromnative", 1)] if want else []) + ["recvfrom 0 4 %d" % want]
                yield lab, sock(2, 17) + w + [sysl("recvfrom", 4, d="a1b2c3d4", sa=SA4), sysl("fromnative", 1), "recvfrom 0 0 %d" % want]
                yield lab, sock(2, 17) + w + [sysl("recvfrom", 4, d="a1b2c3d4", sa=SA4), sysl("fromnative", 1), "recvfrom 0 4 %d null" % want]
                yield lab, sock(2, 17) + w + [sysl("recvfrom", 4, d="a1b2c3d4", sa=SA6), sysl("fromnative", 1), "recvfrom 0 9 %d" % want]
                yield lab, sock(2, 17) + w + [sysl("recvfrom", 4, d="a1b2c3d4", sa="-"), sysl("fromnative", 0), "recvfrom 0 9 %d" % want]
            # receive: NULL buffer, length 0, edge lengths
            yield lab, sock() + w + [sysl("recv", 0, d="-"), "recv 0 0"]
            yield lab, sock() + w + [sysl("recv", 4, d="a1b2c3d4"), "recv 0 4 null"]
            yield lab, sock() + w + [sysl("recv", 4, d="a1b2c3d4"), "recv 0 0 null"]
            for n in SIZES_EDGE:
                yield lab, sock() + w + [sysl("recv", 3, d="a1b2c3"), "recv 0 %d" % n]
                yield lab, sock() + w + [sysl("send", 3), "send 0 a1b2c3d4 %d" % n]
                yield lab, sock(2, 17) + w + [sysl("sendto", 3), "sendto 0 %s a1b2c3d4 %d" % (SA4, n)]
                yield lab, sock(2, 17) + w + [sysl("recvfrom", 3, d="a1b2c3", sa=SA4), sysl("fromnative", 1), "recvfrom 0 %d 1" % n]
            # send / send_to: empty payload, NULL buffer, NULL address
            yield lab, sock() + w + [sysl("send", 0), "send 0 - 0"]
            yield lab, sock() + w + [sysl("send", 0), "send 0 -"]
            yield lab, sock() + w + [sysl("send", 1), "send 0 null 4"]
            yield lab, sock() + w + [sysl("send", 1), "send 0 null 0"]
            yield lab, sock(2, 17) + w + [sysl("sendto", 0), "sendto 0 %s -" % SA4]           # the empty datagram
            yield lab, sock(2, 17) + w + [sysl("sendto", 0), "sendto 0 %s a1b2 0" % SA6]
            yield lab, sock(2, 17) + w + [sysl("sendto", 2), "sendto 0 null a1b2"]
            yield lab, sock(2, 17) + w + [sysl("sendto", 2), "sendto 0 %s null 2" % SA4]
            yield lab, sock(2, 17) + w + [sysl("sendto", 2), "sendto 0 null null 0"]
            yield lab, sock() + [sysl("connect", 0), "connect 0 null"]
            yield lab, sock() + [sysl("setsockopt", 0), sysl("setsockopt", 0), sysl("bind", 0), "bind 0 null 1"]
            # pboolean arguments that are neither 0 nor 1
            for v in (2, -1, 256, 2**31 - 1, -2**31):
                yield lab, sock() + ["setblk 0 %d" % v, "setblk 0 0", "setblk 0 %d" % v] + [sysl("poll", 0), "recv 0 4"]
                yield lab, sock() + [sysl("setsockopt", 0), "setka 0 %d" % v, sysl("setsockopt", 0), "setka 0 %d" % v, sysl("setsockopt", 0), "setka 0 0",
                                     sysl("setsockopt", "e%d" % E.EINVAL), "setka 0 %d" % v]
                yield lab, sock(2, 17) + [sysl("setsockopt", 0), sysl("setsockopt", 0), sysl("bind", 0), "bind 0 %s %d" % (SA4, v)]
            # time-outs at the ends of the int range, then a wait
            for t in (1, -1, 2**31 - 1, -2**31, -2**31 + 1, 2**31 - 2, 65535, 65536, 2**16 + 2**15):
                yield lab, sock() + ["setto 0 %d" % t, sysl("poll", 0), "wait 0 1", "setblk 0 1"] + [sysl("poll", 0), "recv 0 4"]
            for b in (0, -1, 2**31 - 1, -2**31, 128, 4096):
                yield lab, sock() + ["setbl 0 %d" % b, sysl("listen", 0), "listen 0", "setbl 0 7"]
            for c in (1, 2):
                for x in (8, 16, 24, 32, 0, 1, 4, 5, 2):     # revents exactly: POLLERR / POLLHUP alone (no POLLIN / POLLOUT), POLLNVAL, nothing
                    yield lab, sock() + [sysl("poll", 1, x=x), "wait 0 %d" % c]
                    yield lab, sock(2, 17) + ([sysl("poll", 1, x=x)] if blocking else []) + [sysl("recvfrom", "e%d" % E.ECONNREFUSED), "recvfrom 0 8 0"]
                    yield lab, sock() + ([sysl("poll", 1, x=x)] if blocking else []) + [sysl("send", "e%d" % E.EPIPE), "send 0 a1b2"]
                    yield lab, sock() + ([sysl("poll", 1, x=x)] if blocking else []) + [sysl("recv", 2, d="a1b2"), "recv 0 8"]
    # enumeration arguments outside their range: the code tests `== POLLIN` / `== RCV` and takes the other arm for everything else
    for c in (0, 3, -1, 2**31 - 1):
        yield "args/enum", mk_socket(0) + [sysl("poll", 1), "wait 0 %d" % c, sysl("poll", 0), "wait 0 %d" % c]
    for d in (2, -1, 2**31 - 1, -2**31):
        yield "args/enum", mk_socket(0) + [sysl("setsockopt", 0), "setbuf 0 %d 4096" % d, sysl("setsockopt", "e%d" % E.ENOBUFS), "setbuf 0 %d 0" % d,
                                           sysl("setsockopt", 1), "setbuf 0 %d 1" % d]
    for d in (0, 1):
        for n in SIZES_EDGE:
            yield "args/setbuf", mk_socket(0) + [sysl("setsockopt", 0), "setbuf 0 %d %d" % (d, n), sysl("setsockopt", "e%d" % E.EINVAL), "setbuf 0 %d %d" % (d, n)]
    # p_socket_new over the whole family x type x protocol grid (values inside and outside the enumerations; SEQPACKET / SCTP),
    # with socket() succeeding and refusing; then the getters, a connect attempt and free
    for fam in (2, 10, 1, 0, -1, 9999):
        for typ in (1, 2, 3, 0, 4, -1):
            for proto in (6, 17, 132, 0, -1, 999):
                yield "args/new-grid", t_new(7) + ["new 0 %d %d %d" % (fam, typ, proto), "setto 0 3", sysl("close", 0), "free 0"]
            yield "args/new-grid", [sysl("socket", "e%d" % E.EAFNOSUPPORT)] + ["new 0 %d %d 6" % (fam, typ), "setto 0 3", "free 0"]
            yield "args/new-grid", [sysl("socket", "e%d" % E.EPROTONOSUPPORT)] + ["new 0 %d %d 132" % (fam, typ), "free 0"]
    # descriptor 0 is a descriptor
    for fd in (0, 1, 2, 1023, 1024, 4095):          # (the harness tracks close-on-exec for descriptors below 4096)
        yield "args/fd", t_new(fd) + ["new 0 2 1 6", sysl("poll", 1), sysl("recv", 1, d="aa"), "recv 0 4", sysl("close", 0), "close 0"]
        yield "args/fd", t_new(fd, 0) + ["new 0 10 2 17", sysl("close", 0), "free 0"]
        yield "args/fd", t_newfd() + ["newfd 0 %d" % fd, sysl("poll", 1), sysl("send", 1), "send 0 aa", sysl("close", 0), "free 0"]
        yield "args/fd", mk_socket(0) + [sysl("listen", 0), "listen 0", sysl("poll", 1), sysl("accept", fd)] + t_accept_tail(fd) + ["accept 0 1", sysl("close", 0), "close 1"]
        yield "args/fd", mk_socket(0) + [sysl("listen", 0), "listen 0", sysl("poll", 1), sysl("accept", fd)] + t_accept_tail(fd, getfd=1) + ["accept 0 1"]
    for fd in (-1, -2, -2**31):
        yield "args/fd", t_newfd() + ["newfd 0 %d" % fd]
    # a NULL socket (empty slot) at every entry point, and every getter on it
    null_ops = ["recv 3 4", "recv 3 4 null", "recvfrom 3 4 1", "recvfrom 3 4 0", "send 3 a1b2", "send 3 null 2", "sendto 3 %s a1b2" % SA4, "sendto 3 null a1b2",
                "accept 3 2", "connect 3 " + SA4, "connect 3 null", "bind 3 %s 1" % SA4, "bind 3 null 0", "listen 3", "close 3", "shutdown 3 1 1", "shutdown 3 0 0",
                "setbuf 3 1 1024", "wait 3 1", "wait 3 2", "chk 3", "setka 3 1", "setblk 3 0", "setbl 3 9", "setto 3 50", "local 3", "remote 3", "free 3"]
    yield "args/null-socket", list(null_ops)
    for o in null_ops:
        yield "args/null-socket", [o]
    # every call after close, on a socket that was connected / listening (closed_is_dead for each entry point, no native call)
    for typ, proto in ((1, 6), (2, 17)):
        base = mk_socket(0, 2, typ, proto, 5) + [sysl("connect", 0), "connect 0 " + SA4, "setto 0 30", sysl("setsockopt", 0), "setka 0 1", sysl("close", 0), "close 0"]
        for o in [x.replace(" 3", " 0", 1) for x in null_ops if not x.startswith("free")] + ["close 0", "setbl 0 3", "setto 0 -5"]:
            yield "args/after-close", base + [o, "close 0", sysl("close", 0), "free 0"]


SA_UNIX = "0100" + "2f746d702f78" + "00"                  # sockaddr_un "/tmp/x": a family the library does not know
SA_SHORT4 = "0200"                                        # only sa_family written (addrlen 2)
BADADDR = ["bad:" + SA4, "bad:" + SA6]                    # an address object p_socket_address_to_native rejects


def details_variants():
    """every branch of pp_socket_set_details_from_fd + pp_socket_set_fd_blocking as (label, native results, socket made?):
    SO_TYPE failing / non-zero / option length != 4, every native type, getsockname failing / non-zero / reporting address
    length 0 (SO_DOMAIN branch, failing), address families the library knows and does not know (no getpeername then),
    getpeername results, SO_KEEPALIVE failing / odd option length / values other than 0 and 1, F_GETFL / F_SETFL failing"""
    ebadf, enotsock, enotconn = "e%d" % E.EBADF, "e%d" % E.ENOTSOCK, "e%d" % E.ENOTCONN
    blk = [sysl("fcntl", 2), sysl("fcntl", 0)]
    ok_tail = [sysl("getpeername", 0, sa=SA4), sysl("getsockopt", 0, v=0)] + blk
    for ret in (enotsock, ebadf, "1", "7"):
        yield "so_type-fails", [sysl("getsockopt", ret, v=1)], False
    for ln in (0, 1, 2, 3, 5, 8, -1):
        yield "so_type-optlen", [sysl("getsockopt", 0, v=1, l=ln)], False
    for nt in (1, 2, 5, 3, 0, 77, -1):
        for sa in (SA4, SA6, SA_UNIX):
            known = sa != SA_UNIX
            yield "native-type/family", [sysl("getsockopt", 0, v=nt), sysl("getsockname", 0, sa=sa)] + \
                ([sysl("getpeername", 0, sa=sa)] if known else []) + [sysl("getsockopt", 0, v=1)] + blk, True
    for ret in (ebadf, "e%d" % E.ENOBUFS, "1"):
        yield "getsockname-fails", [sysl("getsockopt", 0, v=1), sysl("getsockname", ret, sa=SA4)], False
    for ret in (enotsock, "e%d" % E.ENOPROTOOPT, "1"):
        yield "so_domain-fails", [sysl("getsockopt", 0, v=1), sysl("getsockname", 0, sa="-"), sysl("getsockopt", ret, v=2)], False
    for sa in (SA_UNIX, "1000" + "00" * 10, "ffff", "0000", "0a01" + "00" * 26, "0201" + "00" * 14):
        yield "family-unknown", [sysl("getsockopt", 0, v=2), sysl("getsockname", 0, sa=sa), sysl("getsockopt", 0, v=1)] + blk, True
    yield "family-short-sa", [sysl("getsockopt", 0, v=1), sysl("getsockname", 0, sa=SA_SHORT4)] + ok_tail, True
    for pr in ("0", "5", enotconn, ebadf):
        yield "getpeername", [sysl("getsockopt", 0, v=1), sysl("getsockname", 0, sa=SA6), sysl("getpeername", pr, sa=SA6), sysl("getsockopt", 0, v=0)] + blk, True
    for kr, kw in (("0", {"v": 1, "l": 1}), ("0", {"v": 7, "l": 8}), ("0", {"v": 256}), ("0", {"v": -1}), ("0", {"v": 0, "l": 0}), ("1", {"v": 1}),
                   ("e%d" % E.ENOPROTOOPT, {"v": 1}), (ebadf, {})):
        yield "so_keepalive", [sysl("getsockopt", 0, v=1), sysl("getsockname", 0, sa=SA4), sysl("getpeername", enotconn), sysl("getsockopt", kr, **kw)] + blk, True
    head = [sysl("getsockopt", 0, v=1), sysl("getsockname", 0, sa=SA4), sysl("getpeername", 0, sa=SA4), sysl("getsockopt", 0, v=0)]
    yield "f_getfl-fails", head + [sysl("fcntl", ebadf), sysl("fcntl", 0)], True
    yield "f_getfl-nonblock-set", head + [sysl("fcntl", 2048 | 2), sysl("fcntl", 0)], True
    for ret in (ebadf, "e%d" % E.EINVAL):
        yield "f_setfl-fails", head + [sysl("fcntl", 2), sysl("fcntl", ret)], False


def adoption_cases():
    """p_socket_new_from_fd directly and inside p_socket_accept (which must close the descriptor itself when the adoption
    fails), over details_variants(); afterwards every getter is read by one more call and the object is freed"""
    for lab, sc, made in details_variants():
        for fd in (6, 0):
            after = [sysl("close", 0), "free 0"] if made else ["free 0"]
            yield "adopt/newfd/" + lab, sc + ["newfd 0 %d" % fd, "setto 0 7"] + after
        for getfd in (0, 1):
            for closeret in ((0, "e%d" % E.EIO) if not made else (0,)):
                tail = sc + ([] if made else [sysl("close", closeret)])
                after = [sysl("close", 0), "free 1"] if made else ["free 1"]
                yield "adopt/accept/" + lab, mk_socket(0, 10, 1, 0) + [sysl("listen", 0), "listen 0", sysl("poll", 1), sysl("accept", 9)] + \
                    [sysl("fcntl", getfd)] + ([sysl("fcntl", 0)] if getfd == 0 else []) + tail + ["accept 0 1", "setto 1 7"] + after + [sysl("close", 0), "free 0"]


def bad_address_cases():
    """bind / connect / send_to with an address object that p_socket_address_to_native rejects: FAILED, no bind / connect /
    sendto issued, mode fields untouched; in every mode, on an open, a connected and a closed socket"""
    for mname, blocking, timeout in MODES:
        for state in ("open", "connected", "closed"):
            for bad in BADADDR:
                def sock(typ=1, proto=6):
                    ops = mk_socket(0, 2, typ, proto, 5, blocking, timeout)
                    if state == "connected":
                        ops += [sysl("connect", 0), "connect 0 " + SA4]
                    return ops + ([sysl("close", 0), "close 0"] if state == "closed" else [])
                w = [sysl("poll", 1)] if blocking else []
                lab = "badaddr/%s/%s" % (mname, state)
                yield lab, sock() + [sysl("connect", 0), "connect 0 " + bad, sysl("connect", 0), "connect 0 " + SA4]
                yield lab, sock() + [sysl("connect", "e%d" % E.EINPROGRESS), sysl("poll", 1), sysl("getsockopt", 0, v=0), "connect 0 " + bad]
                for reuse in (0, 1):
                    yield lab, sock(2, 17) + [sysl("setsockopt", 0), sysl("setsockopt", 0), sysl("bind", 0), "bind 0 %s %d" % (bad, reuse)]
                    yield lab, sock() + [sysl("setsockopt", "e%d" % E.ENOPROTOOPT), sysl("setsockopt", "e%d" % E.ENOPROTOOPT), sysl("bind", 0), "bind 0 %s %d" % (bad, reuse)]
                yield lab, sock(2, 17) + w + [sysl("sendto", 2), "sendto 0 %s a1b2" % bad]
                yield lab, sock(2, 17) + w + [sysl("sendto", 0), "sendto 0 %s -" % bad]
                yield lab, sock(2, 17) + w + [sysl("sendto", 2), "sendto 0 %s null 2" % bad]
                yield lab, sock(2, 17) + w + [sysl("sendto", 2), "sendto 0 %s a1b2" % bad, sysl("poll", 1), sysl("sendto", 2), "sendto 0 %s a1b2" % SA4]
    for fl in SHUTDOWN_FLAGS:
        for ret in (0, "e%d" % E.ENOTCONN, 1):
            yield "shutdown/" + fl.replace(" ", ","), mk_socket(0) + [sysl("connect", 0), "connect 0 " + SA4, sysl("shutdown", ret), "shutdown 0 " + fl,
                                                                  sysl("shutdown", 0), "shutdown 0 1 1", sysl("close", 0), "close 0", sysl("shutdown", 0), "shutdown 0 " + fl]
    yield "badaddr/null-socket", ["connect 3 " + BADADDR[0], "bind 3 %s 1" % BADADDR[1], "sendto 3 %s a1b2" % BADADDR[0]]


def special_cases():
    out = []
    for lab, ops in itertools.chain(errno_sweep_cases(), argument_cases(), adoption_cases(), bad_address_cases()):
        out.append((lab, ops))
    return out


# ---- structured long scripts: k EINTRs / EAGAIN bursts / short transfers in all positions

def structured_loop(rng, kind, blocking, buflen, payload):
    ei, ea = "e%d" % E.EINTR, "e%d" % E.EAGAIN
    sc = []
    rounds = rng.choice([0, 1, 2, 3, 5, 8, 13, 30])
    for _ in range(rounds):
        c = rng.random()
        if blocking and kind != "connect":
            for _ in range(rng.choice([0, 0, 1, 2, 6])):
                sc.append(sysl("poll", ei))
            if c < 0.25:
                continue
            sc.append(sysl("poll", 1, **({"x": rng.choice([8, 16, 24, 0])} if rng.random() < 0.1 else {})))
        sc.append(sysl(kind, ei if (c < 0.6 or not blocking or kind == "connect") else ea))
    end = rng.random()
    if blocking and kind != "connect":
        for _ in range(rng.choice([0, 0, 1, 3])):
            sc.append(sysl("poll", ei))
        if end < 0.12:
            return sc + [sysl("poll", 0)]
        if end < 0.2:
            return sc + [sysl("poll", "e%d" % rng.choice(HARD))]
        if end < 0.24:
            return sc + [sysl("poll", rng.choice([2, 3]))]
        if end < 0.27:
            return sc
        sc.append(sysl("poll", 1))
    if end < 0.4:
        return sc + [sysl(kind, "e%d" % rng.choice(HARD + [E.EAGAIN, E.EINPROGRESS]))]
    if end < 0.43:
        return sc
    if kind in ("recv", "recvfrom"):
        n = rng.choice([buflen, buflen, max(0, buflen - 1), 1, 0, buflen + 3, rng.randrange(0, buflen + 1)])
        dn = rng.choice([n, n, n, max(0, n - 1), n + 2])
        kw = {"d": hexbytes(rng, dn)}
        if kind == "recvfrom":
            kw["sa"] = rng.choice([SA4, SA4B, SA6, SA4[:8]])
        sc.append(sysl(kind, n, **kw))
        if kind == "recvfrom":
            # `fromnative 1` = whatever the real conversion returns (NULL for the truncated sockaddr)
            sc.append(sysl("fromnative", 0 if len(kw["sa"]) < 32 else rng.choice([1, 1, 1, 0])))
    elif kind in ("send", "sendto"):
        sc.append(sysl(kind, rng.choice([buflen, buflen, 1, max(1, buflen // 2), 0, buflen + 1])))
    elif kind == "accept":
        fd = rng.choice([7, 8, 9, 100, 0])
        sc.append(sysl("accept", fd))
        tl = t_accept_tail(fd, getfd=rng.choice([0, 0, 1, 2, None]), native_type=rng.choice([1, 1, 2, 5, 77]), fam=rng.choice([2, 10]),
                           peer=rng.random() < 0.8, ka=rng.choice([0, 1, 7]))
        if rng.random() < 0.3:
            i = rng.randrange(len(tl))
            tl[i] = " ".join(tl[i].split()[:2]) + " e%d" % rng.choice(HARD + [E.EINTR])
            if rng.random() < 0.7:
                tl.append(sysl("close", rng.choice([0, 0, "e%d" % E.EIO])))
        sc += tl
    elif kind == "connect":
        sc.append(sysl("connect", rng.choice(["0", "e%d" % E.EINPROGRESS, "e%d" % E.EINPROGRESS, "e%d" % E.EAGAIN, "e%d" % E.EALREADY, "e%d" % E.EISCONN, 1])))
        for _ in range(rng.choice([0, 0, 2, 5])):
            sc.append(sysl("poll", ei))
        sc.append(sysl("poll", rng.choice([1, 1, 1, 0, "e%d" % E.EBADF])))
        sc.append(sysl("getsockopt", rng.choice([0, 0, 0, "e%d" % E.EBADF]), v=rng.choice([0, 0, E.ECONNREFUSED, E.ETIMEDOUT, E.EINTR, E.EAGAIN])))
    return sc


def odd_argument_call(rng, kind, slot, payload, fam):
    """NULL buffer / NULL address / length 0 forms of the four data calls"""
    sa = ADDRS[fam][0]
    if kind == "recv":
        return rng.choice(["recv %d 0", "recv %d 4 null", "recv %d 0 null"]) % slot
    if kind == "recvfrom":
        return rng.choice(["recvfrom %d 0 1", "recvfrom %d 0 0", "recvfrom %d 4 1 null", "recvfrom %d 4 0 null"]) % slot
    if kind == "send":
        return rng.choice(["send %d - 0", "send %d null 4", "send %d null 0", "send %d " + payload + " 0"]) % slot
    return rng.choice(["sendto %d " + sa + " -", "sendto %d " + sa + " " + payload + " 0", "sendto %d null " + payload, "sendto %d " + sa + " null 4",
                       "sendto %d null null 0"]) % slot


def structured_case(rng, chk=None):
    kind = rng.choice(["recv", "recvfrom", "send", "sendto", "accept", "connect", "wait"])
    mname, blocking, timeout = rng.choice(MODES)
    timeout = rng.choice([0, 1, 50, 2**31 - 1]) if timeout else 0
    fam = rng.choice([2, 10])
    typ, proto = (2, 17) if kind in ("recvfrom", "sendto") else rng.choice([(1, 6), (1, 0), (2, 17)])
    buflen = rng.choice([1, 2, 4, 7, 16, 64, 1500])
    payload = hexbytes(rng, buflen)
    if chk:
        chk.bump("struct:%s/%s" % (kind, mname))
    if kind == "wait":
        sc = [sysl("poll", "e%d" % E.EINTR)] * rng.choice([0, 1, 2, 7, 20]) + [sysl("poll", rng.choice([1, 0, "e%d" % E.EBADF, 2]))]
        call = "wait 0 %d" % rng.choice([1, 2])
    else:
        sc = structured_loop(rng, kind, blocking, buflen, payload)
        call = call_line(kind, 0, buflen, payload, fam, want=rng.choice([1, 1, 0]))
        if kind in ("send", "recv") and rng.random() < 0.05:
            big = rng.choice([2**32 * rng.choice([1, 2]) + rng.choice([0, 1, buflen]), 2**31 - 1, 2**31, 2**32 - 1, 2**31 + buflen])
            call = ("send 0 %s %d" % (payload, big)) if kind == "send" else ("recv 0 %d" % big)
        elif kind in ("send", "recv", "sendto", "recvfrom") and rng.random() < 0.04:
            call = odd_argument_call(rng, kind, 0, payload, fam)
    return mk_socket(0, fam, typ, proto, rng.choice([3, 5, 64]), blocking, timeout) + sc + [call]


# ---- random call sequences (C10): every op gets a plausible script with random failure injection

class Sim:
    """rough generator-side memory of what exists (only to make scripts plausible; never used to judge)"""

    def __init__(self):
        self.blocking = {}
        self.closed = {}
        self.nextfd = 3


def inject(rng, lines, p=0.15):
    if lines and rng.random() < p:
        i = rng.randrange(len(lines))
        t = lines[i].split()
        lines = lines[:i] + ["sys %s e%d" % (t[1], rng.choice(HARD + [E.EINTR, E.EAGAIN]))] + lines[i + 1:]
    return lines


def polls(rng, blocking):
    if not blocking:
        return []
    last = rng.choice([1, 1, 1, 1, 0])
    extra = {"v": rng.choice([16, 8, 24, 32])} if (last == 1 and rng.random() < 0.3) else {}
    if last == 1 and not extra and rng.random() < 0.15:
        extra = {"x": rng.choice([8, 16, 24, 32, 0])}
    return [sysl("poll", "e%d" % E.EINTR)] * rng.choice([0, 0, 0, 1, 3]) + [sysl("poll", last, **extra)]


DETAILS_VARIANTS = list(details_variants())
# p_socket_shutdown's two pboolean arguments: every non-zero C int means TRUE (Spec.shutdownArgs).  Before the repair (known_findings.json,
# "fixed", C10) the function compared them with `== TRUE`: (2, 0) shut the WRITE direction down, (2, 2) shut only WRITE down and left
# `connected` set, (1, 2) shut only READ down.  The non-canonical pairs are what makes an unrepaired tree alarm.
SHUTDOWN_FLAGS = ["0 0", "0 1", "1 0", "1 1", "0 1", "1 0", "1 1", "0 2", "0 -1", "0 256", "0 2147483647", "0 -2147483648",
                  "2 0", "2 2", "1 2", "2 1", "-1 0", "-1 -1", "256 0", "1 -1", "2147483647 -2147483648", "-2147483648 1", "7 9"]


def random_sequence(rng, n, chk=None):
    sim = Sim()
    ops = []
    slots = list(range(4))
    for _ in range(n):
        live = [s for s in slots if s in sim.blocking]
        empty = [s for s in slots if s not in sim.blocking]
        r = rng.random()
        if (not live or r < 0.12) and empty:
            s = rng.choice(empty)
            fd = sim.nextfd
            sim.nextfd += 1
            if rng.random() < 0.04:
                fd = 0
            if rng.random() < 0.75:
                fam, (typ, proto) = rng.choice([2, 10]), rng.choice([(1, 6), (2, 17), (1, 0), (3, 132)])
                if rng.random() < 0.05:
                    fam, typ, proto = rng.choice([(0, 1, 6), (2, 0, 6), (2, 1, -1), (2, 9, 6)])
                ops += inject(rng, t_new(fd, rng.choice([1, 1, 0, 2]))) + ["new %d %d %d %d" % (s, fam, typ, proto)]
            else:
                if rng.random() < 0.3:
                    dv = rng.choice(DETAILS_VARIANTS)[1]
                else:
                    dv = t_newfd(native_type=rng.choice([1, 2, 5, 9]), fam=rng.choice([2, 10]), peer=rng.random() < 0.5, ka=rng.choice([0, 1]))
                ops += inject(rng, dv) + ["newfd %d %d" % (s, rng.choice([fd, fd, -1]))]
            sim.blocking[s] = True          # if creation failed the slot stays empty; later ops hit NULL (also a case)
            sim.closed[s] = False
            if chk:
                chk.bump("seq:create")
            continue
        s = rng.choice(live + ([rng.choice(slots)] if rng.random() < 0.05 else [])) if live else rng.choice(slots)
        blk = sim.blocking.get(s, True)
        fam = rng.choice([2, 10])
        op = rng.choice(["recv", "send", "recvfrom", "sendto", "accept", "connect", "bind", "listen", "close", "close", "shutdown", "setbuf",
                         "wait", "chk", "setka", "setblk", "setbl", "setto", "local", "remote", "free"])
        if chk:
            chk.bump("seq:" + op)
        buflen = rng.choice([1, 3, 8, 32])
        if op in ("recv", "send", "recvfrom", "sendto", "accept", "connect"):
            payload = hexbytes(rng, buflen)
            sc = structured_loop(rng, op, blk, buflen, payload) if not sim.closed.get(s) or rng.random() < 0.3 else []
            if op == "accept":
                empty2 = [x for x in slots if x not in sim.blocking and x != s]
                if not empty2:
                    continue
                ns = rng.choice(empty2)
                ops += sc + ["accept %d %d" % (s, ns)]
                sim.blocking[ns] = True
                sim.closed[ns] = False
            else:
                if op != "connect" and rng.random() < 0.04:
                    ops += sc + [odd_argument_call(rng, op, s, payload, fam)]
                else:
                    cl = call_line(op, s, buflen, payload, fam, want=rng.choice([1, 1, 0]))
                    if op in ("connect", "sendto") and rng.random() < 0.04:
                        cl = cl.replace(" " + ADDRS[fam][0], " bad:" + ADDRS[fam][0], 1)
                    ops += sc + [cl]
        elif op == "bind":
            ops += inject(rng, [sysl("setsockopt", 0), sysl("setsockopt", 0), sysl("bind", 0)]) + ["bind %d %s %d" % (s, rng.choice(ADDRS[fam] + ["null", "bad:" + ADDRS[fam][0]]), rng.choice([0, 1, 1, 2, -1]))]
        elif op == "listen":
            ops += inject(rng, [sysl("listen", 0)]) + ["listen %d" % s]
        elif op == "close":
            ops += inject(rng, [sysl("close", 0)], 0.1) + ["close %d" % s]
            sim.closed[s] = True
        elif op == "shutdown":
            ops += inject(rng, [sysl("shutdown", 0)]) + ["shutdown %d %s" % (s, rng.choice(SHUTDOWN_FLAGS))]
        elif op == "setbuf":
            ops += inject(rng, [sysl("setsockopt", 0)]) + ["setbuf %d %d %d" % (s, rng.randrange(2), rng.choice([0, 1024, 65536, 2**31, 2**32 + 5]))]
        elif op == "wait":
            ops += polls(rng, True) + ["wait %d %d" % (s, rng.choice([1, 2]))]
        elif op == "chk":
            ops += inject(rng, [sysl("getsockopt", 0, v=rng.choice([0, 0, E.ECONNREFUSED]))]) + ["chk %d" % s]
        elif op == "setka":
            ops += inject(rng, [sysl("setsockopt", 0)], 0.25) + ["setka %d %d" % (s, rng.choice([0, 0, 1, 1, 2, -1, 256]))]
        elif op == "setblk":
            b = rng.choice([0, 0, 1, 1, 2, -1, 256])
            ops.append("setblk %d %d" % (s, b))
            sim.blocking[s] = b != 0
        elif op == "setbl":
            ops.append("setbl %d %d" % (s, rng.choice([0, 1, 5, 128, -3])))
        elif op == "setto":
            ops.append("setto %d %d" % (s, rng.choice([0, 0, 10, 250, -1, -500, 2**31 - 1, -2**31, 1, 65536])))
        elif op in ("local", "remote"):
            ops += inject(rng, [sysl("getsockname" if op == "local" else "getpeername", 0, sa=rng.choice(ADDRS[fam])), sysl("fromnative", rng.choice([1, 1, 0]))]) + ["%s %d" % (op, s)]
        elif op == "free":
            ops += inject(rng, [sysl("close", 0)], 0.1) + ["free %d" % s]
            sim.blocking.pop(s, None)
            sim.closed.pop(s, None)
    return ops


def lifecycle_exhaustive(depth):
    """every sequence of `depth` lifecycle ops on one stream socket, each with the script of its happy path"""
    alpha = [
        [sysl("close", 0), "close 0"],
        [sysl("close", "e%d" % E.EIO), "close 0"],
        [sysl("listen", 0), "listen 0"],
        ["setbl 0 9"],
        ["setto 0 -4"],
        ["setto 0 30"],
        ["setblk 0 0"],
        [sysl("poll", 1), sysl("recv", "e%d" % E.EAGAIN), sysl("poll", 0), sysl("recv", 2, d="abcd"), "recv 0 4"],
        [sysl("poll", 1), sysl("send", 2), sysl("send", 2), "send 0 a1a2"],
        [sysl("connect", 0), sysl("connect", 0), "connect 0 " + SA4],
        [sysl("shutdown", 0), "shutdown 0 1 1"],
        [sysl("setsockopt", 0), "setka 0 1"],
    ]
    for seq in itertools.product(alpha, repeat=depth):
        ops = mk_socket(0)
        for a in seq:
            ops += a
        yield ops + [sysl("close", 0), "free 0"]


# --------------------------------------------------------------------------------------------
# spec views

def fields(line):
    d = {}
    for t in line.split():
        if "=" in t:
            k, v = t.split("=", 1)
            d[k] = v
    return d


DATA_CALLS = ("send:", "sendto:", "recv:", "recvfrom:", "connect:", "accept:", "fromnative:")


def view_c09(op, line):
    """C09 looks at: what the caller got (return, error, bytes, address), which data calls were issued with which
    arguments (descriptor, buffer offset, length, flags, bytes), MSG_NOSIGNAL, and the number of waits"""
    if "=" not in line:
        return line
    f = fields(line)
    iss = f.get("iss", "-").split(",")
    return "r=%s e=%s d=%s a=%s data=%s polls=%d ns=%s sw=%s" % (f.get("r"), f.get("e"), f.get("d"), f.get("a"),
                                                               ",".join(x for x in iss if x.startswith(DATA_CALLS)), sum(x.startswith("poll:") for x in iss), f.get("ns"), f.get("sw"))


def view_c10(op, line):
    """C10 looks at everything: outcome, getters, every native call with its descriptor / timeout / flags, close-on-exec.
    HOW a descriptor becomes close-on-exec is not part of the statement (the `cx` field says whether it is): the
    F_GETFD / F_SETFD calls are dropped from the issued-call list and accept4 (…, flags) counts as accept (…) — a source
    that accepts with accept4 (SOCK_CLOEXEC) differs from the model (correspondence), not from the property."""
    if " iss=" not in line:
        return line
    head, rest = line.split(" iss=", 1)
    iss, tail = (rest.split(" ", 1) + [""])[:2]
    out = []
    for x in iss.split(","):
        f = x.split(":")
        if f[0] == "fcntl" and len(f) >= 3 and f[2] in ("1", "2"):
            continue
        if f[0] == "accept4":
            x = ":".join(["accept"] + f[1:4])
        out.append(x)
    tail = " ".join(t for t in tail.split(" ") if not t.startswith("left="))   # unconsumed script entries: a correspondence matter
    return "%s iss=%s %s" % (head, ",".join(out) or "-", tail)


def desync(line):
    """the implementation asked the scripted kernel for a native call the script does not hold at this point (`exhausted`,
    `mismatch <wanted> <queued>`): the source issues other native calls than the model — a correspondence break; whether the
    property fails is decided by the calls that follow (the script is re-synchronised at every op) and by the real-kernel runs"""
    return line in ("exhausted", "dead") or line.startswith("mismatch ")      # `dead`: the rest of a case after a desync


def make_family(exe, view):
    return diffrun.Family("socket", exe, spec_view=view, timeout=300,
                          spec_match=lambda op, c, sp: desync(c) or desync(sp) or view(op, c) == view(op, sp))


# --------------------------------------------------------------------------------------------
# the check itself (shared by C09 and C10)

ASSUMPTIONS = [
    "kernel contract (trusted): a TCP connection is a reliable FIFO byte pipe (send appends a prefix 1<=k<=len or fails, recv pops 1<=k<=min(avail,buflen)); "
    "a UDP socket is a bag of (datagram, sender) pairs and recvfrom returns one cut to buflen",
    "poll(fds, 1, T) returns 0 only after T ms (T = -1: never) — timing itself is not proved; close() releases the descriptor; "
    "fcntl(F_GETFD/F_SETFD) on a valid descriptor does not fail; native calls return -1/errno or a non-negative value",
    "p_socket_address_to_native / new_from_native are opaque here (C17): addresses are given in native form; allocation never fails (C18)",
    "Linux x86-64 configuration of psocket.c (poll, not select; MSG_NOSIGNAL, SOCK_CLOEXEC, SO_DOMAIN defined); int 32 bit, size_t 64 bit",
]


def replay(chk, path, view):
    cfg = pv.repo_config()
    pv.proof_stage(chk, [])
    exe = build(cfg)
    fam = make_family(exe, view)
    ops = [l.strip() for l in open(path) if l.strip() and not l.startswith("#")]
    r = diffrun.judge(fam, ops)
    text = "".join(o + "\n" for o in ops)
    _, cout, _ = fam.run_c(text)
    _, mout, _ = fam.run_m(text)
    for o, c, m in zip(ops, cout.splitlines(), mout.splitlines()):
        print("%s\n   C: %s\n   M: %s" % (o, c, m))
    if r is None:
        print("replay: implementation, model and spec agree")
        return 0
    print("replay: %s at op %d: %s" % (r["kind"], r["at"], r["detail"]))
    return 1


def scripted_cases(chk, thorough, which):
    """corpus + exhaustive small scope + structured + random sequences"""
    rng = chk.rng
    depth = 6 if thorough else 5
    ex = []
    for label, ops in exhaustive_cases(depth):
        chk.bump("exh:" + label)
        ex.append(ops)
    for label, ops in eintr_kth_cases(6):
        chk.bump("exh:" + label)
        ex.append(ops)
    special = []
    for label, ops in special_cases():
        chk.bump("dir:" + label)
        special.append(ops)
    life = list(lifecycle_exhaustive(3 if thorough else 2)) if which == "C10" else []
    nstruct = (40000 if thorough else 8000) if which == "C09" else (10000 if thorough else 2500)
    nseq = (5000 if thorough else 1000) if which == "C09" else (30000 if thorough else 5000)
    structured = [structured_case(rng, chk) for _ in range(nstruct)]
    seqs = [random_sequence(rng, rng.choice([10, 25, 60]), chk) for _ in range(nseq)]
    chk.cov["exhaustive_small_scope"] = {"loop_script_depth": depth, "alphabet_per_data_call": 6, "poll_alphabet": len(POLL_ALPHA),
                                         "modes": [m[0] for m in MODES], "scripts": len(ex), "lifecycle_sequences": len(life),
                                         "errno_sweep": "every native code 0..133 (+4 beyond the table) at the data call, at the wait and in SO_ERROR, per call kind and mode",
                                         "directed_argument_cases": len(special)}
    return pv.load_corpus(which) + special + ex + life + structured + seqs


def finish(chk):
    """pv.Check.finish logs cov['discharged'] after moving it away when the proof is broken; the evidence file is
    already written at that point"""
    try:
        return chk.finish()
    except KeyError:
        return 1 if chk.violations else 0

"""Shared machinery of the socket family (C09, C10, C19 socket part): harness build, script generators, spec views."""
import errno as E
import itertools
import os
import pv
import diffrun

WRAPPED = ["socket", "fcntl", "fcntl64", "setsockopt", "getsockopt", "getsockname", "getpeername", "bind", "connect", "listen",
           "accept", "accept4", "recv", "recvfrom", "send", "sendto", "poll", "shutdown", "close", "signal",
           "p_socket_address_new_from_native"]
NOFORTIFY = ["-U_FORTIFY_SOURCE", "-D_FORTIFY_SOURCE=0"]


def build(cfg, name="socket", src="socket.c", san="asan"):
    """psocket.c is included textually by the harness; the rest of the library is linked as objects"""
    files = [f for f in cfg["sources"] if os.path.basename(f) != "psocket.c"]
    link = ["-Wl," + ",".join("--wrap=" + w for w in WRAPPED)]
    return pv.build_harness(name, cfg, [src], repo_files=files, san=san, extra=NOFORTIFY, link=link)

"""Shared machinery of the IPC family (C06 named semaphore, C07 shared memory, IPC part of C19).

model PV.Model.IPC, spec PV.Spec.IPC, driver `pvdriver ipc`, harness harness/ipc.c (server + worker
processes, link-time wrappers of every IPC system call).  Op protocol: lean/PV/Driver/IPC.lean."""
import itertools
import os
import re
import tempfile
from concurrent.futures import ThreadPoolExecutor

import pv
import diffrun

WRAP = ["sem_open", "sem_close", "sem_unlink", "sem_wait", "sem_post", "shm_open", "shm_unlink",
        "ftruncate", "mmap", "munmap", "close", "fstat"]
NW, NN, NH = 3, 4, 16
PAGE = os.sysconf("SC_PAGE_SIZE")

ASSUMPTIONS = [
    "POSIX named semaphores and shared-memory objects are a name->object map with atomic open/unlink; an unlinked object lives on while referenced (trusted contract, modelled as PV.IPC.OS)",
    "MAP_SHARED mappings of one object are coherent (a store through one mapping is what a load through another returns)",
    "munmap works on whole pages: mapping lengths are compared rounded up to the page size (%d)" % PAGE,
    "the 52-bit truncated SHA-1 platform keys of the names in use do not collide (keys are abstract in the model)",
    "only the POSIX IPC variants are built (and modelled) on this platform; psemaphore-sysv.c / pshm-sysv.c have their own model (PV.Model.IPCSysV, theorems PV.Props.C06sysv / C07sysv), tied by harness/ipc_sysv.c (tools/props/ipc_sysv.py)",
    "sem_wait blocking is a scheduler matter: scripted histories acquire only when the model says a unit is available",
    "allocation never fails in these checks (C18 covers failure)",
]


def build(cfg):
    return pv.build_harness("ipc", cfg, ["ipc.c"], san="asan", link=["-Wl," + ",".join("--wrap=" + w for w in WRAP)])


def _norm_res(s):
    return " ; ".join("fail" if p.strip().startswith("fail") else p.strip() for p in s.split(" ; "))


def spec_view(op, line):
    """what the spec determines of an answer line: the result without error codes and system
    calls; for `obs` the API part (values, sizes, bytes, mapping counts)"""
    if " || " in line:
        return line.split(" || ", 1)[0].strip()
    if " => " in line or line.startswith("=> "):
        line = line.split("=> ", 1)[1]
    return _norm_res(line.strip())


class Fam(diffrun.Family):
    """runs the harness with a key log, removes whatever a killed run left in /dev/shm"""

    def __init__(self, exe, api_only=False, env=None, timeout=120):
        super().__init__("ipc", exe, spec_view=spec_view, env=env, timeout=timeout)
        self.api_only = api_only
        self.leftovers = 0

    def run_c(self, text):
        fd, keylog = tempfile.mkstemp(prefix="pvipc-keys-", dir=pv.CACHE)
        os.close(fd)
        env = dict(self.env or {})
        env["PVIPC_KEYLOG"] = keylog
        try:
            rc, out, err = pv.run_proc([self.exe], text, self.timeout, env)
        finally:
            try:
                for k in open(keylog).read().split():
                    p = os.path.join("/dev/shm", k)
                    if os.path.exists(p):
                        self.leftovers += 1
                        try:
                            os.unlink(p)
                        except OSError:
                            pass
                os.unlink(keylog)
            except OSError:
                pass
        if self.api_only:
            out = "".join(spec_view("", l) + "\n" for l in out.splitlines())
        return rc, out, err

    def run_m(self, text):
        rc, out, err = pv.run_model(self.name, text)
        if self.api_only:
            res = []
            for l in out.splitlines():
                m, sp = diffrun.split_model_line(l)
                v = spec_view("", m)
                res.append(v if sp is None or v == sp else v + " SPECDIFF " + sp)
            out = "".join(l + "\n" for l in res)
        return rc, out, err


def model_lines(ops):
    rc, out, err = pv.run_model("ipc", "".join(o + "\n" for o in ops))
    return out.splitlines()


def prefilter(ops, rounds=12):
    """drop ops the model rejects (bad-op) or that would block, so the harness never hangs"""
    ops = list(ops)
    for _ in range(rounds):
        ml = model_lines(ops)
        ro = set()          # handle ids opened READONLY so far (a store through one is outside the contract: the model faults)
        ro_wr = set()
        for i, o in enumerate(ops):
            t = o.split()
            if "new-shm" in t and t[-1] == "ro":
                ro.add(t[t.index("new-shm") + 1])
            elif "new-shm" in t or "new-sem" in t:
                ro.discard(t[t.index("new-shm" if "new-shm" in t else "new-sem") + 1])
            elif len(t) == 5 and t[1] == "wr" and t[2] in ro:
                ro_wr.add(i)
        # also an access the spec itself calls a fault (offset not below the reported size): out of contract
        bad = [i for i, l in enumerate(ml) if l == "bad-op" or "would-block" in l.split(" SPECDIFF")[0] or "out-of-fuel" in l
               or (l.endswith("=> fault") and " SPECDIFF" not in l) or (i in ro_wr and i < len(ml))]
        if not bad:
            return ops
        drop = set(bad)
        ops = [o for i, o in enumerate(ops) if i not in drop]
    return ops


def ntrace(line):
    """number of system calls in an answer line"""
    head = line.split("=> ")[0]
    return len(head.split())


def syscalls_of(setup, op):
    """how many system calls the model says `op` makes after `setup`"""
    ml = model_lines(setup + [op])
    return ntrace(ml[len(setup)]) if len(ml) > len(setup) else 0


# ---------------------------------------------------------------------------------------------
# findings: signatures

def _impl_spec(detail):
    m = re.search(r"implementation '([^']*)', spec '([^']*)'", detail)
    if not m:
        return "", ""
    return spec_view("", m.group(1)), spec_view("", m.group(2))


def signature_of(ops, r):
    """name the known shapes of failure (matched against known_findings.json by the main session);
    works on full answer lines and on their API-only view"""
    at = r.get("at", 0)
    op = ops[at] if at < len(ops) else ""
    d = r.get("detail", "")
    impl, spec = _impl_spec(d)
    had_par = any(o.startswith("par ") for o in ops[: at + 1])
    if op.startswith("par ") and "new-shm" in op:
        # a first-time opener fails where every serialisation of the two calls lets it succeed
        a, b = impl.split(" ; "), spec.split(" ; ")
        if len(a) == len(b) and any(x == "fail" and y.startswith("ok") for x, y in zip(a, b)):
            return "first-open-race-window-a"
    if had_par and re.match(r"\d+ lock \d+", op) and spec == "would-block" and impl == "ok":
        return "first-open-race-window-b"
    m = re.match(r"\d+ new-shm \d+ (m\d) ", op + " ")
    if m and impl == "fail" and spec.startswith("ok") and any(re.match(r"\d+ crashA? 1 new-shm \d+ %s " % m.group(1), o + " ") for o in ops[:at]):
        return "crash-leaves-zero-size-segment"
    # creator killed after mmap/close but before it made the lock; a follower re-created the lock and its plain
    # free unlinked it while the segment lives on: the lock name is gone / a second lock object exists
    cr = [re.match(r"\d+ crashA? [34] new-shm \d+ (m\d) ", o + " ") for o in ops[:at]]
    cr = [m.group(1) for m in cr if m]
    if cr and any(re.match(r"\d+ free \d+$", o) for o in ops[:at]):
        if re.match(r"\d+ lock \d+", op) and spec == "would-block" and impl == "ok":
            return "follower-free-unlinks-lock-after-creator-crash"
        if op == "obs":
            for name in cr:
                a = re.search(r"\b%s=(\d+)/(\S+)" % name, impl)
                b = re.search(r"\b%s=(\d+)/(\S+)" % name, spec)
                if a and b and a.group(1) == b.group(1) and a.group(2) == "-" and b.group(2) != "-":
                    return "follower-free-unlinks-lock-after-creator-crash"
    return None


def shrink_keep(fam, ops, kind, sig, budget=60):
    """delta debugging that keeps kind AND signature of the failure and never accepts a candidate in which
    the model itself would block (such a history is not a legal one: the harness would just wait)"""
    def ok(cand):
        r = diffrun.judge(fam, cand)
        if r is None or r["kind"] != kind or signature_of(cand, r) != sig:
            return False
        d = r.get("detail", "")
        return "TIMEOUT" not in d and not re.search(r"\(model '[^']*would-block", d)
    cur, tries, chunk = list(ops), 0, max(1, len(ops) // 2)
    while chunk >= 1 and tries < budget:
        i, progressed = 0, False
        while i < len(cur) and tries < budget:
            cand = cur[:i] + cur[i + chunk:]
            if not cand:
                i += chunk
                continue
            tries += 1
            if ok(cand):
                cur, progressed = cand, True
            else:
                i += chunk
        if chunk == 1 and not progressed:
            break
        chunk = max(1, chunk // 2) if chunk > 1 else (1 if progressed else 0)
        if chunk == 0:
            break
    return cur


class Runner:
    """campaigns with batching, one report per signature, API-only search after a correspondence break"""

    def __init__(self, chk, fam, proof_ok, detail, label):
        self.chk, self.fam, self.proof_ok, self.detail, self.label = chk, fam, proof_ok, detail, label
        self.found = False
        self.corr = None
        self.thm = None
        self.sigs = {}
        self.unsigned = 0

    def _report(self, ops, r):
        pre = signature_of(ops, r)
        if (pre is not None and self.sigs.get(pre, 0) >= 1) or (pre is None and self.unsigned >= 3):
            if pre is not None:
                self.sigs[pre] += 1
            else:
                self.unsigned += 1
            return
        small = shrink_keep(self.fam, ops[: r["at"] + 1] if r["at"] < len(ops) else ops, r["kind"], pre, budget=60)
        r2 = diffrun.judge(self.fam, small) or r
        sig = signature_of(small, r2) or signature_of(ops, r)
        if sig is not None:
            self.sigs[sig] = self.sigs.get(sig, 0) + 1
            if self.sigs[sig] > 1:
                return
        else:
            self.unsigned += 1
            if self.unsigned > 3:
                return
        if self.chk.violation("\n".join(small) + "\n", "%s %s: %s" % (self.label, r2["kind"], r2["detail"]), signature=sig):
            # a finding with a signature (F11, zero-size segment) must not hide a broken proof / correspondence
            if sig is None:
                self.found = True

    def one(self, ops, count=True):
        ops = list(ops)
        if count:
            self.chk.count("\n".join(ops), nontrivial=len(ops) > 1)
        r = diffrun.judge(self.fam, ops)
        if r is None:
            self.chk.cov["traces_validated_against_impl"] += 1
            return None
        if r["kind"] in ("spec", "crash"):
            # a case whose only spec difference is an already reported signature is still a validated trace
            self._report(ops, r)
        elif r["kind"] == "thm":
            self.thm = self.thm or (ops, r)
        else:
            self.corr = self.corr or (ops, r)
        return r

    def run(self, cases, batch=25, parallel=4):
        cases = [list(c) for c in cases]
        groups = list(diffrun.batches(cases, batch)) if batch > 1 else [[c] for c in cases]

        def judge_group(g):
            joined = []
            for c in g:
                joined += c + ["reset"]
            return diffrun.judge(self.fam, joined) if len(g) > 1 else diffrun.judge(self.fam, g[0])

        # in chunks, so that a tree that fails everywhere (a mutant) stops after a few concrete replays
        for i in range(0, len(groups), parallel * 2):
            if self.enough():
                break
            chunk = groups[i:i + parallel * 2]
            with ThreadPoolExecutor(parallel) as ex:
                verdicts = list(ex.map(judge_group, chunk))
            for g, v in zip(chunk, verdicts):
                for c in g:
                    self.chk.count("\n".join(c), nontrivial=len(c) > 1)
                    self.chk.sample(c[:30], cap=4)
                if v is None:
                    self.chk.cov["traces_validated_against_impl"] += len(g)
                else:
                    for c in g:
                        if self.enough():
                            break
                        self.one(c, count=False)

    def enough(self):
        return self.unsigned >= 3

    def run_model_only(self, cases, batch=25, parallel=4):
        """correspondence only: histories outside the property's precondition (concurrent CREATE-mode
        opens), where the spec may differ from model and code alike; implementation == model is what is checked"""
        cases = [list(c) for c in cases]
        groups = list(diffrun.batches(cases, batch))

        def cmp_group(g):
            joined = []
            for c in g:
                joined += c + ["reset"]
            text = "".join(o + "\n" for o in joined)
            crc, cout, cerr = self.fam.run_c(text)
            mrc, mout, merr = self.fam.run_m(text)
            cl = cout.splitlines()
            ml = [diffrun.split_model_line(l)[0] for l in mout.splitlines()]
            if crc != 0 or mrc != 0 or cl != ml:
                i = pv.first_diff(cl, ml)
                return {"kind": "model", "at": i or 0, "detail": "implementation %r, model %r (rc %s/%s)" % (
                    cl[i] if i is not None and i < len(cl) else "<end>", ml[i] if i is not None and i < len(ml) else "<end>", crc, mrc), "ops": joined}
            return None

        with ThreadPoolExecutor(parallel) as ex:
            verdicts = list(ex.map(cmp_group, groups))
        for g, v in zip(groups, verdicts):
            for c in g:
                self.chk.count("\n".join(c), nontrivial=len(c) > 1)
            if v is None:
                self.chk.cov["traces_validated_against_impl"] += len(g)
            elif self.corr is None:
                self.corr = (v["ops"][: v["at"] + 1], v)

    def search(self, cases):
        """DESIGN §2.4: the proof or the correspondence no longer speaks about this code: judge the
        same cases by the spec alone (API-visible part of every answer)"""
        api = Fam(self.fam.exe, api_only=True, env=self.fam.env, timeout=self.fam.timeout)
        full, self.fam = self.fam, api
        try:
            for c in cases:
                r = diffrun.judge(api, list(c))
                if r is not None and r["kind"] in ("spec", "crash"):
                    self._report(list(c), r)
                    if self.found and self.unsigned >= 2:
                        break
        finally:
            self.fam = full

    def conclude(self, search_cases, family_label):
        if not self.found and (self.corr is not None or not self.proof_ok):
            self.search(search_cases)
        diffrun.conclude(self.chk, self.found, self.corr, self.thm, self.proof_ok, self.detail, family_label)


# ---------------------------------------------------------------------------------------------
# generator side: a small simulation of the spec, so that generated histories are mostly legal

class Sim:
    def __init__(self):
        self.sem, self.shm, self.ctr, self.lock, self.segsize, self.hs, self.nxt = {}, {}, {}, {}, {}, {}, 0

    def free_h(self, rng):
        free = [h for h in range(NH) if h not in self.hs]
        return rng.choice(free) if free else None

    def new_sem(self, w, h, n, init, create):
        if n in self.sem and not create:
            self.hs[h] = dict(k="sem", w=w, n=n, inc=self.sem[n], own=False)
        else:
            self.nxt += 1
            self.sem[n] = self.nxt
            self.ctr[self.nxt] = init
            self.hs[h] = dict(k="sem", w=w, n=n, inc=self.nxt, own=True)

    def new_shm(self, w, h, n, size, ro=False):
        if n in self.shm:
            i = self.shm[n]
            real = self.segsize[i]
            rep = real if size == 0 or real < size else size
            self.hs[h] = dict(k="shm", w=w, n=n, inc=i, own=False, size=rep, ro=ro)
            return True
        if size == 0:
            return False
        self.nxt += 1
        self.shm[n] = self.nxt
        self.segsize[self.nxt] = size
        self.lock[self.nxt] = 1
        self.hs[h] = dict(k="shm", w=w, n=n, inc=self.nxt, own=True, size=size, ro=ro)
        return True

    def free(self, h):
        x = self.hs.pop(h)
        if x["own"]:
            (self.sem if x["k"] == "sem" else self.shm).pop(x["n"], None)

    def kill(self, w):
        for h in [h for h, x in self.hs.items() if x["w"] == w]:
            del self.hs[h]


SIZES = [1, 100, PAGE - 1, PAGE, PAGE + 1, 2 * PAGE, 3 * PAGE]


def offsets(rng, size):
    c = [0, size - 1, size // 2, min(size - 1, PAGE - 1), min(size - 1, PAGE), rng.randrange(size)]
    return rng.choice(c)


def gen_history(rng, chk, n, sem_w=1.0, shm_w=1.0, obs_every=1, kills=True):
    """random history over several names x handles x processes; `obs` after (almost) every op"""
    sim = Sim()
    ops = []
    for _ in range(n):
        r = rng.random() * (sem_w + shm_w)
        w = rng.randrange(NW)
        mine = [h for h, x in sim.hs.items() if x["w"] == w]
        sems = [h for h in mine if sim.hs[h]["k"] == "sem"]
        shms = [h for h in mine if sim.hs[h]["k"] == "shm"]
        op = None
        if r < sem_w:
            c = rng.random()
            if c < 0.28 or not sems:
                h = sim.free_h(rng)
                if h is None:
                    continue
                nme, init, create = rng.randrange(NN), rng.choice([0, 1, 1, 2, 3, 3, 300 if rng.random() < 0.3 else 2]), rng.random() < 0.3
                op = "%d new-sem %d s%d %d %s" % (w, h, nme, init, "CREATE" if create else "OPEN")
                chk.bump("new-sem " + ("CREATE" if create else "OPEN") + (" existing" if nme in sim.sem else " fresh"))
                sim.new_sem(w, h, nme, init, create)
            elif c < 0.52:
                h = rng.choice(sems)
                if sim.ctr[sim.hs[h]["inc"]] > 0:
                    sim.ctr[sim.hs[h]["inc"]] -= 1
                    op = "%d acq %d" % (w, h)
                    chk.bump("acquire")
            elif c < 0.74:
                h = rng.choice(sems)
                if sim.ctr[sim.hs[h]["inc"]] < 6:
                    sim.ctr[sim.hs[h]["inc"]] += 1
                    op = "%d rel %d" % (w, h)
                    chk.bump("release")
            elif c < 0.82:
                h = rng.choice(sems)
                sim.hs[h]["own"] = True
                op = "%d own %d" % (w, h)
                chk.bump("take_ownership")
            else:
                h = rng.choice(sems)
                chk.bump("free sem " + ("owner" if sim.hs[h]["own"] else "non-owner"))
                sim.free(h)
                op = "%d free %d" % (w, h)
        else:
            c = rng.random()
            if c < 0.22 or not shms:
                h = sim.free_h(rng)
                if h is None:
                    continue
                nme = rng.randrange(NN)
                ro = rng.random() < 0.2
                if nme in sim.shm:
                    real = sim.segsize[sim.shm[nme]]
                    size = rng.choice([0, real, max(1, real // 2), real + 1, 1, rng.choice(SIZES), real - 1 if real > 1 else 1, real + PAGE])
                    chk.bump("new-shm existing " + ("zero" if size == 0 else "smaller" if size < real else "larger" if size > real else "equal"))
                else:
                    size = rng.choice(SIZES + [0] if rng.random() < 0.1 else SIZES)
                    chk.bump("new-shm fresh" + (" zero" if size == 0 else ""))
                op = "%d new-shm %d m%d %d%s" % (w, h, nme, size, " ro" if ro else "")
                if ro:
                    chk.bump("new-shm READONLY")
                sim.new_shm(w, h, nme, size, ro)
            elif c < 0.45:
                rw = [x for x in shms if not sim.hs[x].get("ro")]
                if rw:
                    h = rng.choice(rw)
                    op = "%d wr %d %d %d" % (w, h, offsets(rng, sim.hs[h]["size"]), rng.choice([0, 255, rng.randrange(256), rng.randrange(1, 256)]))
                    chk.bump("write")
            elif c < 0.60:
                h = rng.choice(shms)
                op = "%d rd %d %d" % (w, h, offsets(rng, sim.hs[h]["size"]))
                chk.bump("read")
            elif c < 0.68:
                h = rng.choice(shms)
                if sim.lock[sim.hs[h]["inc"]] > 0:
                    sim.lock[sim.hs[h]["inc"]] -= 1
                    op = "%d lock %d" % (w, h)
                    chk.bump("lock")
            elif c < 0.78:
                h = rng.choice(shms)
                if sim.lock[sim.hs[h]["inc"]] == 0:
                    sim.lock[sim.hs[h]["inc"]] += 1
                    op = "%d unlock %d" % (w, h)
                    chk.bump("unlock")
            elif c < 0.82:
                op = "%d size %d" % (w, rng.choice(shms))
            elif c < 0.88:
                h = rng.choice(shms)
                sim.hs[h]["own"] = True
                op = "%d own %d" % (w, h)
                chk.bump("take_ownership")
            else:
                h = rng.choice(shms)
                chk.bump("free shm " + ("owner" if sim.hs[h]["own"] else "non-owner"))
                sim.free(h)
                op = "%d free %d" % (w, h)
        if op is None:
            continue
        if kills and rng.random() < 0.02:
            ops.append("%d kill" % w)
            sim.kill(w)
            chk.bump("kill idle process")
        ops.append(op)
        if obs_every and (len(ops) % obs_every == 0):
            ops.append("obs")
    ops.append("obs")
    return ops


def crash_cases(setup, op, recovery, variants=("crash", "crashA")):
    """op = 'W rest…': every crash point the model says the call has, both kill placements, then recovery"""
    w, rest = op.split(" ", 1)
    n = syscalls_of(setup, op)
    out = []
    for k in range(0, n + 1):
        for v in variants:
            if v == "crashA" and k == 0:
                continue
            out.append(setup + ["%s %s %d %s" % (w, v, k, rest), "obs"] + recovery + ["obs"])
    return n, out


def eintr_cases(setup, op, tail, maxn=6, counts=(1, 2, 6)):
    """EINTR n times before the k-th system call of `op`, for every k the call has (k <= maxn) and n in counts"""
    w, rest = op.split(" ", 1)
    n = min(syscalls_of(setup, op), maxn)
    out = []
    for k in range(n):
        for c in counts:
            script = ",".join(str(c if i == k else 0) for i in range(n))
            out.append(setup + ["%s eintr %s %s" % (w, script, rest), "obs"] + tail)
    if n:
        out.append(setup + ["%s eintr %s %s" % (w, ",".join("1" for _ in range(n)), rest), "obs"] + tail)
    return out


FAIL_ERRS = ["ENOMEM", "EACCES", "EMFILE", "EINVAL", "EBADF", "ENOENT"]


def _trace_tokens(setup, op):
    ml = model_lines(setup + [op])
    if len(ml) <= len(setup):
        return []
    return ml[len(setup)].split("=> ")[0].split()


def fail_cases(setup, op, tail, second=True):
    """scripted failures of the environment: every system call the model says `op` makes fails (the call is not made,
    errno rotates over FAIL_ERRS; the opens also with EEXIST / ENOENT / EINTR, which the code treats specially), and —
    `second` — every later system call of THAT run (the clean-up the failure path makes: close, munmap, shm_unlink,
    sem_unlink, the retry of a loop) fails as well.  The op itself is compared with the model system call by system
    call; `obs` and `tail` (recovery through the API) follow."""
    w, rest = op.split(" ", 1)
    toks = _trace_tokens(setup, op)
    out, firsts = [], []
    for k, tk in enumerate(toks):
        errs = [FAIL_ERRS[k % len(FAIL_ERRS)], FAIL_ERRS[(k + 3) % len(FAIL_ERRS)]]
        if tk.startswith("sem_open") or tk.startswith("shm_open"):
            errs += ["EEXIST", "ENOENT", "EINTR"]
        if tk.startswith("sem_wait"):
            errs += ["EINTR"]
        for e in dict.fromkeys(errs):
            firsts.append((k, e))
    for k, e in firsts:
        out.append(setup + ["%s fail %d:%s %s" % (w, k, e, rest), "obs"] + tail)
    if second:
        for k, e in firsts[::2] if len(firsts) > 12 else firsts:
            t2 = _trace_tokens(setup, "%s fail %d:%s %s" % (w, k, e, rest))
            for j in range(k + 1, len(t2)):
                e2 = FAIL_ERRS[(k + j) % len(FAIL_ERRS)]
                # a creator whose shm_unlink on the failure path fails as well leaves a zero-size (or half-made) name behind:
                # nothing the code could do; the case is tied system call by system call, without the recovery tail
                keep = [] if t2[j].startswith("shm_unlink") else tail
                out.append(setup + ["%s fail %d:%s,%d:%s %s" % (w, k, e, j, e2, rest), "obs"] + keep)
    return out


def sprinkle_failures(rng, ops, p=0.05):
    """random histories: a few API calls get a scripted failure at a random system call (prefilter then drops what the
    changed history makes illegal).  Not `free`: a clean-up that fails half-way (segment name left, lock name removed under
    live handles) is a state the spec column cannot describe for arbitrary later ops; those failures are covered by the
    directed `fail_cases` with their fixed recovery tails."""
    out = []
    for o in ops:
        t = o.split()
        if len(t) >= 3 and t[0].isdigit() and t[1] in ("new-sem", "new-shm", "acq", "rel", "lock", "unlock") and rng.random() < p:
            out.append("%s fail %d:%s %s" % (t[0], rng.randrange(8 if t[1].startswith("new") else 1),
                                             rng.choice(FAIL_ERRS + ["EEXIST", "EINTR"]), " ".join(t[1:])))
        else:
            out.append(o)
    return out


def schedules(la, lb):
    """all interleavings of la system calls of `a` with lb of `b`"""
    for pos in itertools.combinations(range(la + lb), la):
        s = ["b"] * (la + lb)
        for p in pos:
            s[p] = "a"
        yield "".join(s)


def run_expect(chk, fam, ops, expect, label):
    """a scenario the model cannot express (a system call failing for a reason outside the modelled contract): the
    API-visible part of every answer is compared with what the property statement says, written out by hand.
    `expect`: one entry per op, None = not judged, a string = API view, a callable = predicate on the API view"""
    text = "".join(o + "\n" for o in ops)
    rc, out, err = fam.run_c(text)
    got = [spec_view("", l) for l in out.splitlines()]
    chk.count("\n".join(ops), nontrivial=True)
    for i, e in enumerate(expect):
        g = got[i] if i < len(got) else "<no answer>"
        ok = True if e is None else (e(g) if callable(e) else g == e)
        if not ok:
            chk.violation(text, "%s (API view against the statement): op %r answered %r, expected %s (rc %s)" % (
                label, ops[i], g, "a value satisfying the statement" if callable(e) else repr(e), rc))
            return False
    if rc != 0:
        chk.violation(text, "%s: harness exit code %s %s" % (label, rc, err[-300:]))
        return False
    chk.cov["traces_validated_against_impl"] += 1
    return True


def run_stress(chk, exe, args, label):
    rc, out, err = pv.run_proc([exe] + [str(a) for a in args], "", timeout=240)
    chk.cov.setdefault("supporting_runs", []).append(out.strip() or ("rc=%s %s" % (rc, err[-200:])))
    if rc != 0:
        chk.violation("%s %s\n%s\n%s" % (exe, " ".join(str(a) for a in args), out, err[-1500:]), "%s (supporting run on real processes): %s" % (label, out.strip()), suffix="txt")
    return rc == 0

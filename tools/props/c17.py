"""C17 — socket address conversions (model PV.Model.SockAddr, spec PV.Spec.SockAddr, theorems PV.Props.C17).

Arrangement (protocol: see the head of harness/sockaddr.c):

  1. the generator writes plain op lines;
  2. `sockaddr platform` (the harness's annotate mode, which does NOT call the library) adds to every
     `new` / `text` line what this platform's own inet_pton / inet_ntop / getaddrinfo (AI_NUMERICHOST)
     answer for the string / address:   `new <hex string> <port> | p4=… p6=… gai=…`,
     `text <addr> | ntop=… p4=… p6=… gai=…`;
  3. harness (library; ignores the annotation, recomputes the platform column itself and prints it) and model
     driver (takes the annotation as its `Platform` parameter and echoes it) run the same annotated lines; the
     lines are compared.  The model's spec column (` SPECDIFF …`) uses the explicit byte layout, the byte-wise
     classification and the *concrete* glibc IPv4 text functions `ntop4`/`pton4`, so a platform whose IPv4 rule
     differs from the Lean one, or a library answer that differs from the platform view, shows up as a
     spec difference.  Replay files contain the annotated lines and are self-contained.

Platform text model (PV.Model.Inet6Text, theorems PV.Props.C17text): the ops `ntop6` / `ntop4` / `pton` do not call the
library.  The harness answers them with the real inet_ntop / inet_pton / getaddrinfo, the driver with the Lean model of
those functions, for every address the `text` generators use, for all 256 zero/non-zero group patterns, and for the valid /
malformed string stream.  The spec view of such a line is empty (the property says nothing about it), so a difference is
a correspondence break of that model (kind `model`), never a finding about the library.

Every native buffer given to the library is a heap block of exactly the stated size (ASan = the oracle for
"no access beyond the buffer"); the model predicts such an access as `fault`.
"""
import ipaddress
import itertools
import pv
import diffrun

EDGE = [0, 1, 126, 127, 128, 254, 255]
PORTS = [0, 1, 255, 256, 65535]
U32 = [0, 1, 2**32 - 1]
F7_SIGNATURE = "p_socket_address_new_from_native(len=1) reads sa_family beyond the buffer"


def hx(b):
    return bytes(b).hex() if len(b) else "-"


def v4(a, port):
    return "v4 %s %d" % (hx(a), port)


def v6(a, port, flow, scope):
    return "v6 %s %d %d %d" % (hx(a), port, flow, scope)


def rport(rng):
    return rng.choice(PORTS) if rng.random() < 0.3 else rng.randrange(65536)


def ru32(rng):
    return rng.choice(U32) if rng.random() < 0.4 else rng.randrange(2**32)


def structured_v6(rng):
    z = bytes(16)
    out = [z, bytes(15) + b"\x01", bytes(15) + b"\x02", b"\x01" + bytes(15), bytes(12) + b"\x01\x00\x00\x00", bytes(12) + b"\x00\x00\x00\x01",
           bytes(10) + b"\xff\xff" + bytes([127, 0, 0, 1]), bytes(10) + b"\xff\xff" + bytes([1, 2, 3, 4]), bytes(12) + bytes([1, 2, 3, 4]),
           bytes.fromhex("fe80") + bytes(13) + b"\x01", bytes.fromhex("ff02") + bytes(13) + b"\x01", bytes.fromhex("ff020000000000000000000000010002"),
           bytes.fromhex("20010db8000000000000000000000001"), bytes.fromhex("20010db8000000010000000000000001"), bytes.fromhex("00010000000000000000000000000000"),
           bytes.fromhex("0001000200030004000500060007" "0008"), bytes.fromhex("00010000000000020000000000000003"), bytes.fromhex("00000000000100000000000000000001"),
           bytes([255] * 16), bytes.fromhex("0064ff9b") + bytes(8) + bytes([192, 0, 2, 33])]
    for i in range(16):                      # one non-zero byte at every position (each 32-bit word of the any/loopback tests)
        b = bytearray(16)
        b[i] = rng.choice([1, 128, 255])
        out.append(bytes(b))
        b = bytearray(bytes(15) + b"\x01")
        b[i] ^= rng.choice([1, 2, 128])
        out.append(bytes(b))
    for zs in range(0, 8):                   # runs of zero groups of every length at every position (compression forms)
        for pos in range(0, 8 - zs + 1):
            g = [rng.randrange(1, 65536) for _ in range(8)]
            for k in range(pos, pos + zs):
                g[k] = 0
            out.append(b"".join(x.to_bytes(2, "big") for x in g))
    return out


def text_forms(rng, a16):
    ip = ipaddress.IPv6Address(bytes(a16))
    forms = [ip.compressed, ip.exploded, ip.compressed.upper(), ":".join("%x" % int(g, 16) for g in ip.exploded.split(":"))]
    if ip.ipv4_mapped is not None:
        forms.append("::ffff:" + str(ip.ipv4_mapped))
    forms.append(":".join(ip.exploded.split(":")[:6]) + ":" + ".".join(str(x) for x in bytes(a16)[12:]))
    return forms


def groups(gs):
    return b"".join(int(x).to_bytes(2, "big") for x in gs)


def format_rule_v6(rng):
    """addresses aimed at the formatting rules of inet_ntop (AF_INET6)"""
    out = []
    digit_classes = [1, 0xf, 0x10, 0xff, 0x100, 0xfff, 0x1000, 0xffff, 0xa, 0xabcd, 0x9, 0xfffe]
    for pat in range(256):                   # every zero / non-zero pattern of the eight groups
        nz = [i for i in range(8) if pat >> i & 1]
        out.append(groups([1 if i in nz else 0 for i in range(8)]))
        out.append(groups([0xffff if i in nz else 0 for i in range(8)]))
        out.append(groups([rng.choice(digit_classes) if i in nz else 0 for i in range(8)]))
        out.append(groups([rng.randrange(1, 65536) if i in nz else 0 for i in range(8)]))
    # ties between runs of equal length, a single zero group, runs at both ends
    out += [groups(g) for g in ([1, 0, 0, 2, 3, 0, 0, 4], [1, 0, 0, 2, 0, 0, 0, 4], [1, 0, 0, 0, 2, 0, 0, 4], [0, 0, 1, 2, 3, 4, 0, 0], [0, 0, 1, 0, 0, 2, 0, 0],
                                [1, 0, 2, 3, 4, 5, 6, 7], [0, 1, 2, 3, 4, 5, 6, 7], [1, 2, 3, 4, 5, 6, 7, 0], [1, 0, 2, 0, 3, 0, 4, 0], [0, 1, 0, 2, 0, 3, 0, 4],
                                [0, 0, 0, 1, 0, 0, 0, 2], [0, 0, 0, 0, 1, 0, 0, 0], [1, 0, 0, 0, 0, 0, 0, 0], [0, 0, 0, 0, 0, 0, 0, 1], [0, 0, 0, 0, 0, 0, 1, 0])]
    # the dotted tail: run 0..5 (v4-compatible), run 0..4 + ffff (v4-mapped), and everything just beside those
    tails = [(0, 0), (0, 1), (1, 0), (0x0102, 0x0304), (0xffff, 0xffff), (0x7f00, 0x0001), (0x0a0b, 0), (0, 0x0100), (0xc0a8, 0x0001), (0x0900, 0x6309)]
    for t6, t7 in tails:
        for g5 in (0, 0xffff, 0xfffe, 1, 0xfff, 0xff):
            out.append(groups([0, 0, 0, 0, 0, g5, t6, t7]))
        out.append(groups([0, 0, 0, 0, 0xffff, 0, t6, t7]))
        out.append(groups([0, 0, 0, 0, 1, 0xffff, t6, t7]))
        out.append(groups([1, 0, 0, 0, 0, 0xffff, t6, t7]))
        out.append(groups([1, 0, 0, 0, 0, 0, t6, t7]))
        out.append(groups([0x64, 0xff9b, 0, 0, 0, 0, t6, t7]))
    return out


PTON_AIMED = ["", ":", "::", ":::", "::::", "1", "1:", ":1", "::1", "1::", "1::2::3", "::1::", "1::2:3::", "12345::", "::12345", "1:12345::", "::00001", "::0000", "0000::",
              "1:2:3:4:5:6:7:8:9", "1:2:3:4:5:6:7:8", "1:2:3:4:5:6:7", "1:2:3:4:5:6:7:", ":1:2:3:4:5:6:7", "1:2:3:4:5:6:7::", "::1:2:3:4:5:6:7", "1:2:3:4:5:6:7:8::", "::1:2:3:4:5:6:7:8",
              "1:2:3:4::5:6:7:8", "1:2:3::5:6:7:8", "1::8:", ":1::8", "ABCD::EF01", "AbCd::eF01", "abcd::ef01", "g::", "::g", "::G", "G::", "::@", "::`", "::/", "::1g", "::fG", "1:G::", "::ffff:1.2.3.G", "::1.2.3.4G", "::9:", "::a:", "::f:", "::F", "::A", "::a", "::f", "::-1", "::+1", "::0x1", ":: 1", "::1 ", " ::1", "::1\n", "::1\t",
              "1:2:3:4:1.2.3.4:5", "1.2.3.4::", "1.2.3.4:1::", "::1.2.3.4", "::1.2.3.4:5", "::1.2.3.4::", "1::1.2.3.4", "1:2:3:4:5:6:1.2.3.4", "1:2:3:4:5:6:7:1.2.3.4", "1:2:3:4:5:1.2.3.4",
              "1:2:3:4:5::1.2.3.4", "1:2:3:4:5:6::1.2.3.4", "::ffff:1.2.3.4", "::FFFF:1.2.3.4", "::ffff:01.2.3.4", "::ffff:1.02.3.4", "::ffff:1.2.3.04", "::ffff:1.2.3.256", "::ffff:256.2.3.4",
              "::ffff:1.2.3", "::ffff:1.2.3.4.5", "::ffff:1.2.3.", "::ffff:.1.2.3", "::ffff:1..2.3", "::ffff:1.2.3.4.", "::a.2.3.4", "::1.a.3.4", "::12345.2.3.4", "::1234.2.3.4", "::0.0.0.0",
              "::255.255.255.255", "::00.0.0.0", "::0.0.0.00", "::1.2.3.4 ", "::1.2.3.4%1", "::%1", "fe80::1%lo", "1.2.3.4", "1.2.3", "0:0:0:0:0:0:0:0", "0:0:0:0:0:0:0::", "::0:0:0:0:0:0:0",
              "0::0", "0:0::0:0", "00:000:0000::", "f:f:f:f:f:f:f:f", "ffff:ffff:ffff:ffff:ffff:ffff:ffff:ffff", "ffff:ffff:ffff:ffff:ffff:ffff:255.255.255.255", "fffff::", "::ffff1",
              "1:2:3:4:5:6:7:8%1", "[::1]", "::1/64", "::1\x00:2", "1:::2", "1::2:", "1::2::", ".::", "::.", "::1.", "::.1", "1:2:3:4:5:6:7.8", "1:2:3:4:5:6:7:8.9", "::1.2.3.4.5.6", "::1:2.3.4.5"]


def mutate(rng, b, alphabet):
    b = bytearray(b)
    for _ in range(rng.choice([1, 1, 1, 2, 3])):
        r = rng.random()
        i = rng.randrange(len(b) + 1)
        if r < 0.35 and b:
            del b[min(i, len(b) - 1)]
        elif r < 0.7:
            b.insert(i, rng.choice(alphabet))
        elif b:
            b[min(i, len(b) - 1)] = rng.choice(alphabet)
    return bytes(b)


SCOPES = ["%1", "%lo", "%eth9", "%0", "%4294967295", "%4294967296", "%", "%%", "%-1", "%1 ", "%01", "%0x1", "%lo0"]


def string_corpus(rng, n_mut):
    s = []
    valid4 = ["0.0.0.0", "127.0.0.1", "255.255.255.255", "1.2.3.4", "192.168.0.1", "10.0.0.255", "127.0.0.0", "9.99.199.249"]
    near4 = ["01.2.3.4", "1.02.3.4", "1.2.3.04", "00.0.0.0", "0.0.0.00", "000.0.0.0", "1.2.3", "1.2.3.4.", ".1.2.3.4", "1.2.3.4.5", "1..2.3", "256.1.1.1", "1.2.3.256",
             "1.2.3.4 ", " 1.2.3.4", "1.2.3.4\n", "1.2.3.0x4", "0x1.2.3.4", "1.2.3.4a", "a.b.c.d", "1,2,3,4", "1.2.3.-4", "+1.2.3.4", "1.2.3.4/8", "1.2.3.1000", "0255.1.1.1",
             "4294967295", "16777343", "127.1", "1.2.65535", "", ".", "...", "....", "1", "255", "999.999.999.999", "1.2.3.4\x00junk", "１.2.3.4"]
    valid6 = ["::", "::1", "1::", "::ffff:1.2.3.4", "::1.2.3.4", "fe80::1", "ff02::1", "2001:db8::1", "1:2:3:4:5:6:7:8", "0:0:0:0:0:0:0:0", "::01", "::0001", "1::8", "1:2:3:4:5:6:1.2.3.4",
              "FE80::ABCD", "::ffff:0:0", "64:ff9b::192.0.2.33", "1:0:0:2::3", "1::2:0:0:3"]
    near6 = [":", ":::", "::00001", "1::2::3", "12345::", "::g", "a:", ":a", "1:2:3:4:5:6:7:8:9", "1:2:3:4:5:6:7", "1:2:3:4:5:6:7:", ":1:2:3:4:5:6:7", "[::1]", "::1 ", " ::1", "::1/128",
             "1.2.3.4:80", "::1.2.3", "::1.2.3.256", "::01.2.3.4", "1:2:3:4:5:6:7:1.2.3.4", "::ffff:1.2.3.4.5", "::%", "1::%", "fe80::1%lo%1", "::1:", "::1::", "0:0:0:0:0:0:0:0:0", "::ffff:1.2.3.4:1",
             ":%1", "%1:", "%", "%lo", "a%b", "::\x00:1", "：:1"]
    s += valid4 + near4 + valid6 + near6
    for v in valid6 + ["fe80::1", "ff02::1", "2001:db8::1", "::ffff:1.2.3.4", "::1", "::"]:
        for sc in SCOPES:
            s.append(v + sc)
    for v in valid4[:3]:
        for sc in SCOPES[:4]:
            s.append(v + sc)
    # very long
    s += ["a" * 5000, "1." * 2500, "1.2.3." + "0" * 600, "1.2.3." + "0" * 600 + "4", "9" * 400 + ".1.1.1", ":" * 3000, "1:" * 2000, "::" + "0" * 300 + "1", "fe80::1%" + "x" * 4000,
          "fe80::1%" + "9" * 300, "::ffff:" + "1." * 1000, "%" * 2000, "1.2.3.4" + " " * 1000, "0" * 4000]
    out = [x.encode("utf-8", "surrogatepass") for x in s]
    # mutations of valid strings
    base = [x.encode() for x in valid4 + valid6 + ["fe80::1%1", "fe80::1%lo", "ff02::1%1"]]
    alphabet = b"0123456789abcdefABCDEF.:%xg -/\x00\xff\x80[]+"
    for _ in range(n_mut):
        b = bytearray(rng.choice(base))
        for _ in range(rng.choice([1, 1, 1, 2, 3])):
            r = rng.random()
            i = rng.randrange(len(b) + 1)
            if r < 0.35 and b:
                del b[min(i, len(b) - 1)]
            elif r < 0.7:
                b.insert(i, rng.choice(alphabet))
            elif b:
                b[min(i, len(b) - 1)] = rng.choice(alphabet)
        out.append(bytes(b))
    # garbage
    for _ in range(max(20, n_mut // 10)):
        out.append(bytes(rng.randrange(256) for _ in range(rng.choice([1, 2, 3, 7, 15, 16, 40, 46, 47, 200]))))
    return out


def native_buffers(rng):
    """every length 0..40, both families (and others), structured contents"""
    for ln in range(0, 41):
        heads = [[2, 0], [10, 0], [0, 0], [1, 0], [2, 1], [10, 1], [0, 2], [0, 10], [2, 10], [255, 255], [2], [10], [3, 0], [28, 0], [30, 0]]
        for h in heads:
            for fill in ("zero", "ff", "inc", "rnd", "loop"):
                if fill == "zero":
                    body = [0] * 40
                elif fill == "ff":
                    body = [255] * 40
                elif fill == "inc":
                    body = list(range(0x10, 0x10 + 40))
                elif fill == "rnd":
                    body = [rng.randrange(256) for _ in range(40)]
                else:
                    body = [0x12, 0x34, 127, 0, 0, 1] + [0] * 15 + [1] + [0] * 18 if h[0] == 2 else [0x12, 0x34, 0, 0, 0, 0] + [0] * 15 + [1] + [7, 0, 0, 0] + [0] * 14
                yield bytes((h + body)[:ln])


def chunks(lines, n):
    for i in range(0, len(lines), n):
        yield lines[i:i + n]


def annotate(exe, cases):
    """pass every op line through `sockaddr platform` (one process for everything)"""
    flat = [l for c in cases for l in c]
    rc, out, err = pv.run_proc([exe, "platform"], "".join(l + "\n" for l in flat), 600)
    got = out.split("\n")
    if got and got[-1] == "":
        got.pop()
    if rc != 0 or len(got) != len(flat):
        raise pv.BuildError("platform annotation pass failed: rc=%s, %d lines for %d ops\n%s" % (rc, len(got), len(flat), err[-1500:]))
    res, i = [], 0
    for c in cases:
        res.append(got[i:i + len(c)])
        i += len(c)
    return res


PLATFORM_MODEL_OPS = ("ntop6", "ntop4", "pton")


def spec_view(op, line):
    """the property says nothing about the lines of the platform-model ops: a difference there is between glibc and its
    Lean model (kind `model`, a correspondence break), not between the library and the spec"""
    return "" if op.split(" ", 1)[0] in PLATFORM_MODEL_OPS else line


def signature_of(ops, r):
    real = [o for o in ops if o != "reset"]
    if len(real) == 1:
        t = real[0].split()
        if t[0] in ("fromnative", "nrt") and len(t) >= 2 and len(t[1]) == 2 and t[1] != "-":
            return F7_SIGNATURE
    return None


def finish(chk):
    """pv.Check.finish writes the evidence and then logs `cov["discharged"]`, which it has just moved into
    `proof_broken` when the proof stage failed (KeyError in the common machinery); the verdict is unaffected"""
    try:
        return chk.finish()
    except KeyError:
        return 1 if chk.violations else 0


def replay(chk, path):
    """re-run one replay file (annotated op lines) on the current tree; exit status 1 when it still fails"""
    cfg = pv.repo_config()
    ok, out = pv.lake_build(["pvdriver"])
    exe = pv.build_harness("sockaddr", cfg, ["sockaddr.c"], repo_files=None, san="asan")
    ops = [l.rstrip("\n") for l in open(path) if l.strip() and not l.startswith("#")]
    r = diffrun.judge(diffrun.Family("sockaddr", exe, timeout=300, spec_view=spec_view), ops)
    if r is None:
        print("replay: implementation, model and spec agree on %d ops" % len(ops))
        return 0
    print("replay: %s at op %d: %s" % (r["kind"], r["at"], r["detail"]))
    return 1


def run(chk):
    cfg = pv.repo_config()
    proof_ok, driver_ok, detail = pv.proof_stage(chk, ["PV.Props.C17", "PV.Props.C17text"])
    if any(d.startswith("extractor: C17 ") or "gen_sockaddr" in d for d in detail):
        # the translator refused the current source: PV.Generated.SockAddr is the last one it could produce,
        # so the theorems (even if they still build) are not about this code
        proof_ok = False
        chk.cov["discharged"] = 0
    try:
        exe = pv.build_harness("sockaddr", cfg, ["sockaddr.c"], repo_files=None, san="asan")
    except pv.BuildError as e:
        chk.violation(str(e), "harness for C17 does not build against the current source", no_input=True, suffix="txt")
        return finish(chk)
    fam = diffrun.Family("sockaddr", exe, timeout=300, spec_view=spec_view)
    thorough = chk.tier == "thorough"
    rng = chk.rng
    ops = []          # flat list of op lines, grouped into cases below

    def add(line, key):
        ops.append(line)
        chk.bump(key)

    # ---- native buffers: every length 0..40 (exact-size heap blocks), then back to native at several lengths
    nb = list(native_buffers(rng))
    for b in nb:
        add("fromnative " + hx(b), "fromnative:len%02d" % len(b) if len(b) in (0, 1, 2, 15, 16, 27, 28) else "fromnative:other-len")
    for b in nb:
        if len(b) >= 16 and b[0] in (2, 10):
            for dl in (0, 1, 15, 16, 17, 27, 28, 29, 40):
                add("nrt %s %d" % (hx(b), dl), "nrt")
    # ---- lengths well beyond the structures: what callers really pass (sizeof (struct sockaddr_storage) = 128, a page, 64 KiB)
    for ln in (41, 64, 127, 128, 129, 255, 256, 1024, 4096, 65535, 65536, 100000):
        for h, body in (([2, 0], [0x1f, 0x90, 127, 0, 0, 1]), ([10, 0], [0x1f, 0x90, 0, 0, 0, 1] + [0] * 15 + [1, 9, 0, 0, 0]), ([1, 0], [1, 2, 3]), ([2, 1], [0] * 6)):
            b = bytes((h + body + [rng.randrange(256) for _ in range(64)])[:ln]) + bytes(max(0, ln - 70 - len(body)))
            b = b[:ln] + bytes(ln - len(b[:ln]))
            add("fromnative " + hx(b), "fromnative:big-len")
            if h[0] in (2, 10) and h[1] == 0:
                for dl in (ln, 128, 16, 28, 27):
                    add("nrt %s %d" % (hx(b), dl), "nrt:big")
    # ---- stated lengths around 2^31 / 2^32 / 2^33 (one honest mapping in the harness; a length narrowed to 32 bits, or to a
    #      signed int, turns these into "too small"): both families, both directions
    big = [2**31 - 1, 2**31, 2**31 + 27, 2**32 - 1, 2**32, 2**32 + 15, 2**32 + 27, 2**32 + 28, 2**33]
    for ln in big + [64, 65, 128, 4096, 2**20 + 1, 2**32 + 16]:
        key = "big-len:%d" % ln if ln in big else "big-len:other"
        add("tonativebig %s %d" % (v4([10, 1, 2, 3], rport(rng)), ln), key)
        add("tonativebig %s %d" % (v6(bytes.fromhex("20010db8000000000000000000000001"), rport(rng), ru32(rng), ru32(rng)), ln), key)
        add("fromnativebig %s %d" % (hx(bytes([2, 0, 0x1f, 0x90, 127, 0, 0, 1]) + bytes(8)), ln), key)
        add("fromnativebig %s %d" % (hx(bytes([10, 0, 0x1f, 0x90, 4, 3, 2, 1]) + bytes.fromhex("fe80") + bytes(13) + b"\x01" + bytes([9, 0, 0, 0])), ln), key)
        add("fromnativebig %s %d" % (hx(bytes([1, 0, 1, 2, 3])), ln), key)
    # ---- to native: every destination length 0..40, both families
    s6 = structured_v6(rng)
    for dl in (41, 64, 127, 128, 129, 256, 4096, 65535, 65536, 2**20):
        add("tonative %s %d" % (v4([10, 1, 2, 3], rport(rng)), dl), "tonative:big-dest")
        add("tonative %s %d" % (v6(s6[12], rport(rng), ru32(rng), ru32(rng)), dl), "tonative:big-dest")
    for dl in range(0, 41):
        for a in ([127, 0, 0, 1], [0, 0, 0, 0], [255, 255, 255, 255], [rng.randrange(256) for _ in range(4)]):
            add("tonative %s %d" % (v4(a, rport(rng)), dl), "tonative:v4")
        for a in (s6[1], s6[0], bytes([255] * 16), bytes(rng.randrange(256) for _ in range(16))):
            add("tonative %s %d" % (v6(a, rport(rng), ru32(rng), ru32(rng)), dl), "tonative:v6")
    # ---- IPv4: boundary classes exhaustively, then random; every port class
    n4 = 0
    for i, a in enumerate(itertools.product(EDGE, repeat=4)):
        add("text " + v4(a, PORTS[i % len(PORTS)]), "v4:boundary")
        add("ntop4 " + hx(a), "platform-model:ntop4")
        n4 += 1
    for p in PORTS + [rng.randrange(65536) for _ in range(20)]:
        add("text " + v4([127, 0, 0, 1], p), "v4:port")
        add("text " + v6(s6[1], p, 0, 0), "v6:port")
    nrand4 = 1000000 if thorough else 100000
    for i in range(nrand4):
        a = rng.randrange(2**32).to_bytes(4, "big")
        add("text " + v4(a, rport(rng)), "v4:random")
        if i % 4 == 0:
            add("ntop4 " + hx(a), "platform-model:ntop4")
    # ---- IPv6: structured + random, flow / scope classes
    for a in s6:
        for fl, sc in ((0, 0), (1, 1), (2**32 - 1, 2**32 - 1), (ru32(rng), ru32(rng))):
            add("text " + v6(a, rport(rng), fl, sc), "v6:structured")
        add("setfs %s %d %d" % (v6(a, rport(rng), ru32(rng), ru32(rng)), ru32(rng), ru32(rng)), "setfs:v6")
        add("ntop6 " + hx(a), "platform-model:ntop6")
        for t in text_forms(rng, a):
            add("pton " + hx(t.encode()), "platform-model:pton")
        for t in text_forms(rng, a):
            for suffix in ("", "%1", "%lo", "%%%d" % ru32(rng)):
                add("new %s %d" % (hx((t + suffix).encode()), rport(rng)), "new:v6-forms")
    nrand6 = 200000 if thorough else 20000
    for _ in range(nrand6):
        k = rng.random()
        a = bytearray(rng.randrange(256) for _ in range(16))
        if k < 0.3:                       # sparse: zero groups
            for g in range(8):
                if rng.random() < 0.6:
                    a[2 * g] = a[2 * g + 1] = 0
        elif k < 0.4:
            a[:10] = bytes(10)
            a[10:12] = rng.choice([b"\xff\xff", b"\x00\x00"])
        add("text " + v6(a, rport(rng), ru32(rng), ru32(rng)), "v6:random")
        add("ntop6 " + hx(a), "platform-model:ntop6")
    # ---- the formatting rules of inet_ntop (AF_INET6): through the library and against the Lean model of glibc
    fr = format_rule_v6(rng)
    for a in fr:
        add("text " + v6(a, rport(rng), 0, 0), "v6:format-rules")
        add("ntop6 " + hx(a), "platform-model:ntop6")
    # ---- inet_pton / getaddrinfo against the Lean model: aimed malformed strings, every text form, mutations of real texts
    for t in PTON_AIMED:
        add("pton " + hx(t.encode("latin-1")), "platform-model:pton")
    alphabet6 = b"0123456789abcdefABCDEF.:::..%xg -/@G`\x00\xff"
    for _ in range(20000 if thorough else 4000):
        a = rng.choice(fr) if rng.random() < 0.7 else bytes(rng.randrange(256) for _ in range(16))
        t = rng.choice(text_forms(rng, a)).encode()
        add("pton " + hx(t), "platform-model:pton")
        add("pton " + hx(mutate(rng, t, alphabet6)), "platform-model:pton")
    for _ in range(200):
        add("setfs %s %d %d" % (v4(rng.randrange(2**32).to_bytes(4, "big"), rport(rng)), ru32(rng), ru32(rng)), "setfs:v4")
    # ---- creation from arbitrary strings
    for s in string_corpus(rng, 20000 if thorough else 3000):
        add("new %s %d" % (hx(s), rport(rng)), "new:string")
        add("pton " + hx(s), "platform-model:pton")
    for _ in range(5000 if thorough else 500):   # valid dotted quads with/without leading zeros
        a = [rng.choice(EDGE + [rng.randrange(256)]) for _ in range(4)]
        fmt = rng.choice(["%d.%d.%d.%d", "%d.%d.%d.%d", "%02d.%d.%d.%d", "%d.%03d.%d.%d", "%d.%d.%d.%04d", "%d.%d.%d", "%d.%d.%d.%d."])
        add("new %s %d" % (hx((fmt % tuple(a[:fmt.count("%")])).encode()), rport(rng)), "new:dotted")
    # ---- any / loopback constructors, capability queries
    for f in (0, 1, 2, 3, 9, 10, 11, 28, 255, 65535):
        for p in PORTS + [rng.randrange(65536)]:
            add("any %d %d" % (f, p), "any")
            add("loop %d %d" % (f, p), "loop")
    add("sup", "sup")
    # ---- NULL pointer arguments at every entry point (each answers its failure value and touches nothing)
    add("getnull", "null")
    for ln in (0, 1, 2, 16, 28, 128, 65536):
        add("fromnative null %d" % ln, "null")
        add("tonative null %d" % ln, "null")
        add("tonative nulldest %s %d" % (v4([127, 0, 0, 1], 80), ln), "null")
        add("tonative nulldest %s %d" % (v6(s6[1], 80, 1, 2), ln), "null")
    for p in PORTS:
        add("new null %d" % p, "null")

    chk.cov["ops"] = len(ops)
    try:
        cases = annotate(exe, [pv_c for pv_c in pv.load_corpus("C17")] + list(chunks(ops, 50)))
    except pv.BuildError as e:
        chk.violation(str(e), "platform annotation pass of the C17 harness failed", no_input=True, suffix="txt")
        return finish(chk)
    found, corr, thm = diffrun.campaign(chk, fam, cases, proof_ok, detail, signature_of, "C17", batch=40)
    # "creation from text succeeds exactly for the numeric strings the platform accepts" — whatever the host's interfaces are:
    # the text ops once more with the LIBRARY running in a private network namespace that has an IPv4 address besides
    # loopback and no IPv6 address but ::1 (the configuration in which getaddrinfo's AI_ADDRCONFIG hides a family); the
    # platform's answers are the ones annotated above, in the ordinary namespace.  Skipped where namespaces are not permitted.
    if not found:
        import shutil
        import subprocess
        probe = shutil.which("unshare") and shutil.which("ip") and subprocess.run(
            ["unshare", "-n", "sh", "-c", "ip link set lo up && ip addr add 10.77.1.1/24 dev lo"], stdout=subprocess.DEVNULL, stderr=subprocess.DEVNULL).returncode == 0
        if probe:
            class NetnsFamily(diffrun.Family):
                def run_c(self, text):
                    return pv.run_proc(["unshare", "-n", "sh", "-c", 'ip link set lo up && ip addr add 10.77.1.1/24 dev lo && exec "$0"', self.exe], text, self.timeout, self.env)
            lits = ["::1", "::", "2001:db8::1", "fe80::1", "::ffff:1.2.3.4", "ff02::1", "1:2:3:4:5:6:7:8", "::1.2.3.4", "127.0.0.1", "10.77.1.1", "1.2.3", "::g"]
            nlines = ["new %s %d" % (hx(l.encode()), 80 + i) for i, l in enumerate(lits)]
            try:
                ncases = annotate(exe, [nlines])
                f2, c2, t2 = diffrun.campaign(chk, NetnsFamily("sockaddr", exe, timeout=120, spec_view=spec_view), ncases, proof_ok, detail, signature_of,
                                              "C17 (library in a network namespace with IPv4 10.77.1.1 and no IPv6 but ::1)", batch=1)
                found, corr, thm = found or f2, corr or c2, thm or t2
                chk.bump("text-creation in an IPv4-only network namespace", len(nlines))
            except pv.BuildError:
                pass
        else:
            chk.assumptions.append("network namespaces not available: text creation was not re-run on an IPv4-only host configuration")
    diffrun.conclude(chk, found, corr, thm, proof_ok and driver_ok, detail, "C17 socket address conversions")
    chk.cov["exhaustive_small_scope"] = {"native_lengths": "0..40 x 15 family heads x 5 fills; 41..100000 (12 lengths incl. 128 = sockaddr_storage) x 4 heads", "tonative_big_dest": "41..2^20 (10 lengths)", "stated_lengths_2^31_2^33": "2^31-1, 2^31, 2^31+27, 2^32-1, 2^32, 2^32+15, 2^32+27, 2^32+28, 2^33 x both families x both directions (one MAP_NORESERVE mapping)", "tonative_destlen": "0..40 x 8 addresses",
                                         "ipv4_boundary_octets": n4}
    chk.cov["rule"] = ("op lines (one library call sequence each) grouped 50 to a case; exact-size heap buffers of every length 0..40 for "
                       "from-native, every destination length 0..40 for to-native, IPv4 octets in {0,1,126,127,128,254,255}^4 exhaustively plus %d random "
                       "addresses, structured (zero runs of every length/position, mapped, link-local, multicast) plus %d random IPv6 addresses with "
                       "flow/scope in {0,1,2^32-1,random}, ports {0,1,255,256,65535,random}, strings (valid, near-valid, scoped, mutated, garbage, very long); "
                       "a case is distinct by the hash of its op lines; `ops` is the number of op lines" % (nrand4, nrand6))
    chk.cov["exhaustive"] = False
    chk.assumptions += ["Linux x86-64 layout of sockaddr_in / sockaddr_in6 as measured by the translator's offsetof probe (PV.Generated.SA)",
                        "inet_pton / inet_ntop / getaddrinfo (AI_NUMERICHOST) are parameters of the library model; their answers are taken from this platform "
                        "(glibc) per input; IPv4 text is additionally checked against the concrete Lean functions ntop4/pton4",
                        "PV.Props.C17text discharges the platform contract pton6 (ntop6 a) = some a for a Lean model of glibc's inet_ntop / inet_pton / numeric "
                        "getaddrinfo (PV.Model.Inet6Text, written after glibc's sources); that this model is what the platform does is checked by the differential "
                        "only (ops ntop6 / ntop4 / pton: every generated address, all 256 zero-group patterns, valid / malformed / mutated strings; "
                        "getaddrinfo on strings with ':' and without '%' only)",
                        "allocation failure is not part of this check (C18 covers allocation)",
                        "interface-name scopes (%lo) depend on the interfaces present in the sandbox; numeric scopes do not"]
    return finish(chk)

"""C07 — shared memory: one memory per name across processes, sizes, system-wide lock, owner free,
crash recovery, first-open race (model PV.Model.IPC, theorems PV.Props.C07)."""
import pv
from props import ipc
from props import ipc_sysv

P = ipc.PAGE

BASIC = [
    # creator, follower with a smaller size argument, free of the follower: its mapping must be gone (F5)
    ["0 new-shm 0 m0 %d" % (2 * P), "1 new-shm 1 m0 100", "obs", "0 wr 0 5 171", "1 rd 1 5", "1 free 1", "obs", "0 own 0", "0 free 0", "obs"],
    ["0 new-shm 0 m0 %d" % (3 * P), "0 new-shm 1 m0 %d" % (P + 1), "obs", "0 free 1", "obs", "0 free 0", "obs"],
    # larger / zero / equal size arguments, same memory through every handle
    ["0 new-shm 0 m1 %d" % P, "1 new-shm 1 m1 %d" % (2 * P), "2 new-shm 2 m1 0", "1 wr 1 %d 9" % (P - 1), "2 rd 2 %d" % (P - 1), "0 rd 0 %d" % (P - 1), "obs",
     "1 lock 1", "obs", "1 unlock 1", "2 lock 2", "2 unlock 2", "obs"],
    # owner free, then a fresh segment of the new size
    ["0 new-shm 0 m0 100", "0 wr 0 0 7", "1 new-shm 1 m0 0", "1 own 1", "1 free 1", "obs", "2 new-shm 2 m0 %d" % (P + 1), "2 rd 2 0", "obs", "0 rd 0 0", "0 free 0", "obs"],
    # READONLY handles: creator or follower, they see every store of the others, report the same sizes, share the lock
    ["0 new-shm 0 m0 %d ro" % (P + 1), "obs", "1 new-shm 1 m0 0", "1 wr 1 %d 255" % P, "1 wr 1 0 1", "0 rd 0 %d" % P, "0 rd 0 0", "obs", "2 new-shm 2 m0 100 ro", "1 wr 1 99 17", "2 rd 2 99", "obs",
     "0 lock 0", "obs", "0 unlock 0", "2 lock 2", "obs", "2 unlock 2", "2 free 2", "obs", "0 free 0", "obs", "1 new-shm 3 m0 5 ro", "obs"],
    ["0 new-shm 0 m1 %d" % (2 * P), "0 wr 0 %d 200" % (2 * P - 1), "1 new-shm 1 m1 %d ro" % (3 * P), "1 rd 1 %d" % (2 * P - 1), "0 wr 0 %d 0" % (2 * P - 1), "1 rd 1 %d" % (2 * P - 1), "1 own 1", "1 free 1", "obs",
     "2 new-shm 2 m1 1 ro", "2 rd 2 0", "obs"],
    # names that differ only in the first byte (m0/m1) or only in the last one (m2/m3): four different memories
    ["0 new-shm 0 m0 100", "0 new-shm 1 m1 200", "1 new-shm 2 m2 300", "1 new-shm 3 m3 400", "0 wr 0 5 1", "0 wr 1 5 2", "1 wr 2 5 3", "1 wr 3 5 4", "obs", "0 lock 0", "1 lock 2", "obs", "0 lock 1", "1 lock 3", "obs"],
    # a creator whose descriptor 0 is free (a daemon): the exclusive shm_open returns descriptor 0; owner free, then a fresh segment of the new size
    ["2 close0", "2 new-shm 0 m3 %d" % P, "2 wr 0 0 165", "obs", "1 new-shm 1 m3 0", "1 rd 1 0", "1 free 1", "2 free 0", "obs", "1 new-shm 2 m3 %d" % (2 * P), "1 rd 2 0", "obs", "2 kill"],
    # a fresh name with size 0 cannot be created
    ["0 new-shm 0 m2 0", "obs", "0 new-shm 0 m2 1", "obs"],
]


# creator killed between close and its p_semaphore_new: a follower re-creates the lock (sem_created), its plain free
# unlinks the lock while the segment and other handles live on, the next opener makes a second lock (finding)
LOCK_LOST = [
    ["0 %s %d new-shm 0 m0 %d" % (v, kk, P), "1 new-shm 1 m0 0", "2 new-shm 2 m0 0", "obs", "1 free 1", "obs",
     "0 new-shm 3 m0 0", "2 lock 2", "0 lock 3", "obs"]
    for (v, kk) in (("crash", 4), ("crash", 3), ("crashA", 4))
]


def crash_scenarios():
    def rec(size):
        return ["1 new-shm 8 m0 0", "obs", "1 own 8", "1 free 8", "obs", "1 new-shm 9 m0 %d" % size, "1 rd 9 0", "obs",
                "2 new-shm 10 m0 0", "2 wr 10 %d 77" % (size - 1), "1 rd 9 %d" % (size - 1), "2 lock 10", "obs", "2 unlock 10", "1 lock 9", "1 unlock 9", "obs"]
    seg = ["1 new-shm 1 m0 %d" % (2 * P), "1 wr 1 0 5"]
    return [
        ("new, fresh name", [], "0 new-shm 0 m0 %d" % P, rec(100)),
        ("new, existing name", seg, "0 new-shm 0 m0 100", rec(P + 1)),
        ("new, existing name, lock held", seg + ["1 lock 1"], "0 new-shm 0 m0 0", rec(P)),
        ("free by the creator", ["0 new-shm 0 m0 %d" % P, "1 new-shm 1 m0 0"], "0 free 0", rec(2 * P)),
        ("free by a non-owner", seg + ["0 new-shm 0 m0 %d" % P], "0 free 0", rec(100)),
        ("free after take_ownership", seg + ["0 new-shm 0 m0 0", "0 own 0"], "0 free 0", rec(1)),
        ("lock", seg, "1 lock 1", rec(P)),
        ("unlock", seg + ["1 lock 1"], "1 unlock 1", rec(P)),
    ]


def eintr_scenarios():
    seg = ["1 new-shm 1 m0 %d" % (2 * P)]
    tail = ["2 new-shm 5 m0 0", "2 lock 5", "2 unlock 5", "obs"]
    return [
        ([], "0 new-shm 0 m0 %d" % P, tail),
        (seg, "0 new-shm 0 m0 100", tail),
        (seg, "1 lock 1", ["1 unlock 1", "obs"]),
        (seg, "1 unlock 1", ["obs"]),
    ]


def fail_scenarios():
    """(setup, op, tail): scripted failures of every system call of the op, and of every clean-up call after it"""
    seg = ["1 new-shm 1 m0 %d" % (2 * P), "1 wr 1 0 5"]
    tail = ["2 new-shm 12 m0 0", "obs", "2 lock 12", "2 unlock 12", "2 own 12", "2 free 12", "obs", "0 new-shm 13 m0 %d" % (P + 1), "0 rd 13 %d" % P, "obs"]
    return [
        ([], "0 new-shm 0 m0 %d" % P, tail),                                        # creator
        (["1 crash 5 new-shm 1 m0 %d" % P, "1 new-shm 1 m0 0", "1 own 1", "2 crash 1 free 1"], "0 new-shm 0 m0 100", tail),   # creator that finds a stale lock (unlink / re-create loop)
        (seg, "0 new-shm 0 m0 100", tail + ["1 rd 1 0", "obs"]),                     # follower
        (seg, "0 new-shm 0 m0 0 ro", tail + ["1 rd 1 0", "obs"]),
        (seg, "1 lock 1", ["1 lock 1", "obs"]),
        (seg + ["1 lock 1"], "1 unlock 1", ["1 unlock 1", "obs"]),
        (["0 new-shm 0 m0 %d" % P, "1 new-shm 1 m0 0"], "0 free 0", tail),          # the creator frees: munmap, shm_unlink, sem_close, sem_unlink
        (seg + ["0 new-shm 0 m0 %d" % P], "0 free 0", tail),                        # a follower frees: munmap, sem_close
        (seg + ["0 new-shm 0 m0 0", "0 own 0"], "0 free 0", tail),
    ]


def race_cases(rng, thorough):
    """two processes create the same name for the first time concurrently: every interleaving of the
    creator's 5 and the follower's 7 system calls (a first), mirrored samples, and unequal requests"""
    out = []
    scheds = list(ipc.schedules(5, 7))
    a_first = [s for s in scheds if s[0] == "a"]
    mirror = ["".join("b" if c == "a" else "a" for c in s) for s in rng.sample(a_first, 40 if thorough else 15)]
    if not thorough:      # quick: the two window witnesses + a sample; thorough: all 330 interleavings
        a_first = ["abbbaaaabbbb", "aaaabbbbbbab"] + rng.sample(a_first, 100)
    for s in a_first + mirror:
        out.append(["par %s 0 new-shm 0 m0 %d ; 1 new-shm 1 m0 %d" % (s, P, P), "obs", "0 wr 0 1 33", "1 rd 1 1", "0 lock 0", "1 lock 1", "obs"])
    for s in rng.sample(a_first, 120 if thorough else 40):
        out.append(["par %s 0 new-shm 0 m1 %d ; 1 new-shm 1 m1 100" % (s, 2 * P), "obs", "0 lock 0", "1 lock 1", "obs"])
    # a creator that fails (size 0) next to a creator that succeeds: the failing one must not remove the other's name
    # … in particular when the other one creates the name right after the failing one's shm_unlink
    targeted = ["aaaaab" + t for t in ("bbbba", "bbbab", "bbabb", "babbb", "abbbb")]
    for s in targeted + rng.sample(list(ipc.schedules(6, 5)), 120 if thorough else 50):
        out.append(["par %s 0 new-shm 0 m2 0 ; 1 new-shm 1 m2 %d" % (s, P), "obs", "2 new-shm 2 m2 0", "2 wr 2 0 9", "1 rd 1 0", "obs"])
    return out


def unmappable_scenarios():
    """creations that fail in ftruncate / mmap for a reason the model does not contain (a size no object can have):
    nothing may be left behind, the name stays usable, a later creator gets the size it asks for.
    (ops, expected API view per op; None = any)"""
    fails = lambda g: g == "fail"
    gone = lambda g: g.startswith("s0=- s1=- s2=- s3=- m0=- m1=- m2=- m3=-") and "H" not in g and "#" not in g
    out = []
    for size in (2 ** 63, 2 ** 63 + P, 2 ** 64 - 1, 2 ** 62, 2 ** 47 + 1):
        out.append((["0 new-shm 0 m0 %d" % size, "obs", "1 new-shm 1 m0 0", "obs", "1 new-shm 1 m0 %d" % P, "1 wr 1 5 9", "2 new-shm 2 m0 %d" % size, "2 rd 2 5", "2 size 2", "0 new-shm 0 m0 0 ro", "0 lock 0"],
                    [fails, gone, fails, gone, "ok %d" % P, "ok", "ok %d" % P, "09", str(P), "ok %d" % P, "ok"]))
    return out


def run(chk):
    cfg = pv.repo_config()
    proof_ok, driver_ok, detail = pv.proof_stage(chk, ["PV.Props.C07", "PV.Props.C07sysv"])
    if any(d.startswith("extractor: ") and ("pshm" in d or "psemaphore" in d or "ipc" in d or "perror" in d or "psysclose" in d) for d in detail):
        proof_ok = False
    exe = ipc.build(cfg)
    thorough = chk.tier == "thorough"
    fam = ipc.Fam(exe, env={"PVIPC_GETVALUE": "1"} if thorough else None)
    R = ipc.Runner(chk, fam, proof_ok and driver_ok, detail, "C07")
    rng = chk.rng

    corpus = pv.load_corpus("C07")
    crash, npoints = [], {}
    for name, setup, op, rec in crash_scenarios():
        n, cs = ipc.crash_cases(setup, op, rec)
        npoints[name] = n
        crash += [ipc.prefilter(c) for c in cs]
        chk.bump("crash scenario: " + name, len(cs))
    chk.cov["crash_points"] = npoints
    eintr = []
    for setup, op, tail in eintr_scenarios():
        eintr += ipc.eintr_cases(setup, op, tail, counts=(1, 2, 3, 4, 5, 6, 150, 1000) if thorough else (1, 2, 6, 150))
    chk.cov["eintr_cases"] = len(eintr)
    fails = []
    for setup, op, tail in fail_scenarios():
        fails += [ipc.prefilter(c) for c in ipc.fail_cases(setup, op, tail)]
    chk.cov["scripted_failure_cases"] = len(fails)
    chk.bump("scripted system-call failure cases", len(fails))
    races = [ipc.prefilter(c) for c in race_cases(rng, thorough)]
    chk.cov["race_schedules"] = len(races)
    nr = 800 if thorough else 70
    rnd = [ipc.prefilter(ipc.gen_history(rng, chk, rng.choice([8, 25, 60]), sem_w=0.25, shm_w=1.0)) for _ in range(nr)]
    rnd += [ipc.prefilter(ipc.sprinkle_failures(rng, ipc.gen_history(rng, chk, rng.choice([8, 25, 60]), sem_w=0.25, shm_w=1.0))) for _ in range(max(10, nr // 5))]

    R.run(corpus + BASIC + [ipc.prefilter(c) for c in LOCK_LOST], batch=1)
    R.run(crash + eintr, batch=20)
    R.run([["0 null", "obs", "1 new-shm 0 m0 100", "1 null", "obs"]], batch=1)      # NULL guards of every public call
    R.run(fails, batch=20)
    R.run(races, batch=30)
    R.run(rnd, batch=10)
    chk.cov["finding_cases"] = dict(R.sigs)
    for ops, expect in unmappable_scenarios():
        if not ipc.run_expect(chk, fam, ops, expect, "C07 creation with an impossible size"):
            R.found = True
            break
    chk.bump("unmappable-size scenarios", len(unmappable_scenarios()))
    # real processes contending for p_shm_lock around a non-atomic counter (quick: short runs)
    for (n, it) in (((4, 20000), (8, 8000), (16, 3000)) if thorough else ((3, 3000), (6, 1000))):
        ipc.run_stress(chk, exe, ["stress-shm", n, it], "C07 lock stress")
    # System V variant (pshm-sysv.c + psemaphore-sysv.c linked instead of the posix files): API-level histories against the spec column
    Rs = ipc_sysv.run_c07(chk, cfg, [c for c in BASIC if not any(" close0" in o for o in c)])
    if getattr(Rs, "new_violations", 0):
        R.found = True
    R.conclude(BASIC + races[-60:] + crash + eintr + fails + races[:-60] + rnd, "C07 shared memory")
    chk.cov["harness_leftovers_in_dev_shm"] = fam.leftovers
    chk.cov["rule"] = ("op files over 3 worker processes x 4 names x 16 handles: p_shm_new with sizes 1..3 pages (re-open smaller / larger / zero / equal), byte stores and loads at offsets biased to 0, size-1 and page borders, "
                       "lock/unlock, take_ownership, free, SIGKILL; after every op: reported size, first bytes and checksum through every live handle, /proc/<pid>/maps entries of the segment per process, "
                       "/dev/shm presence and size, lock value (drained by an observer%s), system calls made — compared with model and spec; crash: SIGKILL before/after every system call of new/free/lock/unlock (8 scenarios) "
                       "then new/take_ownership/free/new; EINTR n<=6 at every k; scripted failures: every system call of p_shm_new (creator, creator with a stale lock, follower, read-only follower), lock, unlock and free (creator / follower / after take_ownership) fails "
                       "(errno rotating over ENOMEM/EACCES/EMFILE/EINVAL/EBADF/ENOENT, opens also EEXIST/ENOENT/EINTR) and every later call of that run (close at each of its sites, munmap, shm_unlink, the lock semaphore's calls) fails too, then recovery through the API; NULL guards of every public call; races: interleavings of two first-time p_shm_new replayed with gated system calls (quick: both windows + 100 sampled, thorough: all 330 + mirrored); distinct by op-file hash, non-trivial = more than one op; "
                       "System V variant (harness/ipc_sysv.c, model PV.Model.IPCSysV, theorems PV.Props.C07sysv; every answer line is also compared with the System V model column): the basic and recovery histories and random histories over 3 processes with SIGKILL of workers between calls, key files on tmpfs and on a file system that reuses inode numbers; "
                       "every answer, segment size (shmctl), lock value (drained through the API), size/bytes/checksum through every live handle and the attachments of every process (/proc/self/maps) after every op compared with the spec column where the statement determines it"
                       % (", cross-checked with sem_getvalue" if thorough else ""))
    chk.assumptions += ipc.ASSUMPTIONS
    return chk.finish()

import props.trees as T


def run(chk):
    # PVMath.C13Log (second lean_lib, imports single Mathlib modules; never imported by the driver) turns the
    # integer bounds into the real-valued 1.4405*log2(n+2) / 2*log2(n+1) forms of the property statement
    return T.run(chk, "C13", T.view_c13, ["PV.Props.C13", "PVMath.C13Log"], "C13 trees")


def replay_family(cfg):
    import pv, diffrun
    fam = diffrun.Family("tree", pv.build_harness("tree", cfg, ["tree.c"], san="asan"), spec_view=T.view_c13)
    fam.keep_prefix = 1
    return fam

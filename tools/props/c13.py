import props.trees as T


def run(chk):
    return T.run(chk, "C13", T.view_c13, ["PV.Props.C13"], "C13 trees")

import props.trees as T


def run(chk):
    return T.run(chk, "C14", T.view_c14, ["PV.Props.C14", "PV.Props.C12clear"], "C14 trees")


def replay_family(cfg):
    import pv, diffrun
    fam = diffrun.Family("tree", pv.build_harness("tree", cfg, ["tree.c"], san="asan"), spec_view=T.view_c14)
    fam.keep_prefix = 1
    return fam

import props.trees as T


def run(chk):
    return T.run(chk, "C14", T.view_c14, ["PV.Props.C14", "PV.Props.C12clear"], "C14 trees")

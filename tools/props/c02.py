"""C02 — read-write lock: writer exclusion, trylock, no lost wake-up / no deadlock.

model PV.Model.RWLock (general: mutex + 2 condvars + packed counters; posix: return-code mapping),
theorems PV.Props.C02, tie:
  (T) tools/extract.py gen_rwlock -> PV/Generated/RWLock.lean (masks/shifts + wait/wake structure),
  (C) schedule-exact differential: harness/rwlock.c runs /repo/src/prwlock-general.c on ucontext
      coroutines (every p_mutex_* / p_cond_variable_* call is a scheduling point), the model driver
      runs the same schedule; status of every thread and both counter words compared after each step.
      EXHAUSTIVE: the full reachable state graph (with spurious wake-ups and every choice of the
      waiter a signal wakes) of each small program mix is enumerated on the model side; a set of
      maximal schedules covering EVERY transition is replayed on the C side.
      RANDOM: 8-16 threads, long programs, random spurious wake-ups (the C side schedules itself,
      the chosen schedule is then replayed on both sides).
      FAILING PRIMITIVES: op `fail T` = the p_mutex_lock / p_mutex_unlock / p_cond_variable_wait / signal / broadcast call
      thread T is suspended at returns FALSE (model: PV.RWLock.failStep); state graphs with up to 3 failing calls per path,
      one directed schedule per failure branch, random schedules with failures; `free` / `newfail K` = p_rwlock_free on a live
      lock / p_rwlock_new with allocation K failing; sticky oracle !INCONSISTENT (counter fields = user-level holders whenever
      the internal mutex is free).
  posix: pthread_rwlock_* wrapped at link time with scripted return codes vs. the mapping model.
  thorough: real threads under clang-14 -fsanitize=thread for both implementations (supporting).
"""
import itertools
import os
import re
import subprocess
import time
from collections import deque
from concurrent.futures import ThreadPoolExecutor

import pv
import diffrun

ROUND = {"R": ["rlock", "runlock"], "W": ["wlock", "wunlock"], "r": ["rtry", "runlock"], "w": ["wtry", "wunlock"],
         # a trylock attempted WHILE the thread holds the lock (what trylock is for: it must answer at once, FALSE unless a second
         # read hold is grantable): a = R[tryR]  b = R[tryW]  c = W[tryR]  d = W[tryW]
         "a": ["rlock", "rtry", "runlock", "runlock"], "b": ["rlock", "wtry", "wunlock", "runlock"],
         "c": ["wlock", "rtry", "runlock", "wunlock"], "d": ["wlock", "wtry", "wunlock", "wunlock"]}
OPS = ["rlock", "wlock", "rtry", "wtry", "runlock", "wunlock"]
WRAPS = ["rdlock", "tryrdlock", "wrlock", "trywrlock", "unlock", "init", "destroy"]


def src_tag():
    """harness/rwlock.c #includes prwlock-general.c: the cache key must follow the repo sources"""
    return "src-" + pv.file_hash(pv.repo_sources())


def prog_of(code):
    out = []
    for ch in code:
        out += ROUND[ch]
    return out


def header(progs, nospec=False):
    h = ["prog %d %s" % (i, " ".join(p)) for i, p in enumerate(progs)]
    return h + (["nospec"] if nospec else []) + ["start"]


def spec_view(op, line):
    """the property only speaks about the oracle flags: no deadlock, no unsafe grant"""
    return " ".join(t for t in line.split() if t.startswith("!"))


# --------------------------------------------------------------------------------------------
# exhaustive: state graph from the model driver, transition-covering set of maximal schedules

def explore(progs, max_states=400000, fails=0, nospec=False):
    text = "".join(l + "\n" for l in header(progs, nospec)[:-1]) + ("explore %d %d\n" % (max_states, fails) if fails else "explore %d\n" % max_states)
    rc, out, err = pv.run_model("rwlock", text)
    if rc != 0:
        raise RuntimeError("explore failed: " + err[-300:])
    edges, finals, dead = [], set(), {}
    stats = None
    for l in out.splitlines():
        if l.startswith("E "):
            _, a, b, lbl = l.split(" ", 3)
            edges.append((int(a), int(b), lbl))
        elif l.startswith("F "):
            finals.add(int(l.split()[1]))
        elif l.startswith("X "):
            p = l.split(" ", 2)
            dead[int(p[1])] = p[2]
        elif l.startswith("end "):
            m = re.match(r"end states=(\d+) transitions=(\d+) truncated=(\w+)", l)
            stats = (int(m.group(1)), int(m.group(2)), m.group(3) == "true")
    if stats is None:
        raise RuntimeError("explore: no summary line")
    return edges, finals, dead, stats


def covering_schedules(edges, finals, dead, nstates):
    """maximal schedules (lists of op lines) such that every transition of the graph is taken by at
    least one of them.  prefix = BFS tree path from the initial state, suffix = shortest path to a
    terminal state (all done, or deadlocked) preferring non-spurious steps."""
    succ = [[] for _ in range(nstates)]
    pred = [[] for _ in range(nstates)]
    for i, (a, b, lbl) in enumerate(edges):
        succ[a].append(i)
        pred[b].append(i)
    # prefix tree
    pre = [None] * nstates
    seen = [False] * nstates
    seen[0] = True
    dq = deque([0])
    while dq:
        s = dq.popleft()
        for i in succ[s]:
            b = edges[i][1]
            if not seen[b]:
                seen[b] = True
                pre[b] = i
                dq.append(b)
    # suffix: backward BFS from terminals
    nxt = [None] * nstates
    dist = [None] * nstates
    dq = deque()
    for s in range(nstates):
        if s in finals or s in dead:
            dist[s] = 0
            dq.append(s)
    while dq:
        s = dq.popleft()
        for i in pred[s]:
            a = edges[i][0]
            if dist[a] is None:
                dist[a] = dist[s] + 1
                nxt[a] = i
                dq.append(a)
    stuck = [s for s in range(nstates) if dist[s] is None]

    def prefix(s):
        p = []
        while pre[s] is not None:
            p.append(pre[s])
            s = edges[pre[s]][0]
        return p[::-1]

    def suffix(s):
        p = []
        while nxt[s] is not None:
            p.append(nxt[s])
            s = edges[nxt[s]][1]
        return p

    covered = [False] * len(edges)
    scheds = []
    # longest-first would cover more per schedule; simple order is good enough
    for i in range(len(edges) - 1, -1, -1):
        if covered[i]:
            continue
        a, b, _ = edges[i]
        path = prefix(a) + [i] + suffix(b)
        for j in path:
            covered[j] = True
        scheds.append([edges[j][2] for j in path])
    return scheds, stuck


def mixes(nthreads, nrounds, alphabet="RWrw"):
    progs = ["".join(p) for p in itertools.product(alphabet, repeat=nrounds)]
    return [list(m) for m in itertools.combinations_with_replacement(progs, nthreads)]


class Stats:
    def __init__(self):
        self.states = self.transitions = self.schedules = self.mixes = self.steps = 0
        self.truncated = 0
        self.model_deadlocks = 0


def run_pair(exe, text):
    crc, cout, cerr = pv.run_proc([exe], text, 300)
    mrc, mout, merr = pv.run_model("rwlock", text)
    return crc, cout, cerr, mrc, mout, merr


def exhaustive_mix(exe, codes):
    """returns (stats tuple, cases needing the slow path)"""
    progs = [prog_of(c) for c in codes]
    edges, finals, dead, (ns, nt, trunc) = explore(progs)
    scheds, stuck = covering_schedules(edges, finals, dead, ns)
    h = header(progs)
    cases = [h + s for s in scheds]
    text = "".join("".join(l + "\n" for l in c) + "reset\n" for c in cases)
    crc, cout, cerr, mrc, mout, merr = run_pair(exe, text)
    nlines = sum(len(c) + 1 for c in cases)
    clean = (crc == 0 and mrc == 0 and cout == mout and "!" not in cout and len(cout.splitlines()) == nlines
             and "not-enabled" not in cout and "bad-op" not in cout and not stuck and not dead)
    return (ns, nt, trunc, len(scheds), nlines, len(dead), len(stuck)), ([] if clean else cases), cases[:1]


def exhaustive_fail_mix(exe, codes, fails, nospec=False):
    """as exhaustive_mix, on the state graph that also contains up to `fails` FAILING primitive calls per path
    (p_mutex_lock / p_mutex_unlock / p_cond_variable_wait / signal / broadcast returning FALSE: op `fail T`).
    Deadlock states are expected here (a failed p_mutex_unlock wedges the lock, a failed signal loses a wake-up);
    the safety flags (!UNSAFE !TRYBLOCK !INCONSISTENT) are not."""
    progs = [prog_of(c) for c in codes]
    edges, finals, dead, (ns, nt, trunc) = explore(progs, fails=fails, nospec=nospec)
    scheds, stuck = covering_schedules(edges, finals, dead, ns)
    h = header(progs, nospec)
    cases = [h + s for s in scheds]
    text = "".join("".join(l + "\n" for l in c) + "reset\n" for c in cases)
    crc, cout, cerr, mrc, mout, merr = run_pair(exe, text)
    nlines = sum(len(c) + 1 for c in cases)
    clean = (crc == 0 and mrc == 0 and cout == mout and "SPECDIFF" not in mout and len(cout.splitlines()) == nlines
             and (nospec or ("!UNSAFE" not in cout and "!INCONSISTENT" not in cout and "!TRYBLOCK" not in cout))
             and "not-enabled" not in cout and "bad-op" not in cout and not stuck)
    nfail = sum(1 for c in cases for l in c if l.startswith("fail "))
    return (ns, nt, trunc, len(scheds), nlines, len(dead), len(stuck), nfail), ([] if clean else cases), cases[-1:]


def lifecycle_cases():
    """p_rwlock_free of the general model on a live lock (idle, held, with waiters) and p_rwlock_new with each of its
    four allocations failing: which parts are released"""
    nf = ["newfail %d" % k for k in range(4)]
    cases = [nf + header([prog_of("R")]) + ["free"] + nf,
             header([prog_of("R")]) + ["run 0", "run 0", "free"],
             header([prog_of("W"), prog_of("R"), prog_of("W")]) + ["run 0", "run 0", "run 1", "run 1", "run 2", "run 2", "newfail 2", "free", "newfail 3"],
             header([prog_of("RW")]) + ["run 0"] * 8 + ["free", "reset"] + nf + header([prog_of("W")]) + ["run 0", "fail 0", "free"]]
    return cases


def fail_site_cases():
    """one directed schedule per failure branch of prwlock-general.c (each `fail` hits a different call site)"""
    c = []
    for code in "RWrw":
        acq, rel = ROUND[code]
        h = header([prog_of(code + code)])
        c.append(h + ["fail 0", "run 0", "run 0", "run 0", "run 0"])                  # p_mutex_lock of the acquire fails
        c.append(h + ["run 0", "fail 0"])                                              # final p_mutex_unlock after the grant
        c.append(h + ["run 0", "run 0", "fail 0"])                                     # p_mutex_lock of the unlock call
        c.append(h + ["run 0", "run 0", "run 0", "fail 0"])                            # final p_mutex_unlock of the unlock call
    # trylock not grantable, its p_mutex_unlock fails (result of the unlock ignored)
    c.append(header([prog_of("W"), prog_of("r")]) + ["run 0", "run 0", "run 1", "fail 1"])
    c.append(header([prog_of("R"), prog_of("w")]) + ["run 0", "run 0", "run 1", "fail 1"])
    # p_cond_variable_wait fails at once: reader behind a writer, writer behind a reader / a writer; then the holder leaves
    c.append(header([prog_of("W"), prog_of("RR")]) + ["run 0", "run 0", "run 1", "fail 1", "run 1", "run 0", "run 0", "run 0", "run 1", "run 1", "run 1", "run 1"])
    c.append(header([prog_of("R"), prog_of("WW")]) + ["run 0", "run 0", "run 1", "fail 1", "run 1", "run 0", "run 0", "run 1", "run 1", "run 1", "run 1"])
    c.append(header([prog_of("W"), prog_of("WR")]) + ["run 0", "run 0", "run 1", "fail 1", "run 1", "run 0", "run 0", "run 1", "run 1", "run 1", "run 1"])
    # wait fails on the SECOND round of the loop (after a spurious wake-up)
    c.append(header([prog_of("W"), prog_of("R")]) + ["run 0", "run 0", "run 1", "run 1", "spur 1", "run 0", "run 1", "fail 1", "run 1", "run 0", "run 0"])
    c.append(header([prog_of("R"), prog_of("W")]) + ["run 0", "run 0", "run 1", "run 1", "spur 1", "run 1", "fail 1", "run 1", "run 0", "run 0", "run 0"])
    # signal of reader_unlock fails (a writer waits): lost wake-up; signal / broadcast of writer_unlock fail
    c.append(header([prog_of("R"), prog_of("W")]) + ["run 0", "run 0", "run 1", "run 1", "run 0", "fail 0", "run 0", "spur 1", "run 1", "run 1", "run 1", "run 1"])
    c.append(header([prog_of("W"), prog_of("W")]) + ["run 0", "run 0", "run 1", "run 1", "run 0", "fail 0", "run 0", "spur 1", "run 1", "run 1", "run 1", "run 1"])
    c.append(header([prog_of("W"), prog_of("R"), prog_of("R")]) + ["run 0", "run 0", "run 1", "run 1", "run 2", "run 2", "run 0", "fail 0", "run 0", "spur 1", "run 1", "run 1", "run 1", "run 1"])
    # the zero-reader-count path of reader_unlock (undisciplined), with its p_mutex_unlock failing: TRUE all the same
    c.append([l for l in header([["runlock", "runlock"], ["rlock"]], nospec=True)] + ["run 0", "run 0", "run 0", "fail 0", "run 1", "fail 1"])
    c.append([l for l in header([["runlock"], ["rlock", "runlock"]], nospec=True)] + ["run 1", "run 1", "run 1", "run 1", "run 0", "fail 0"])
    return c


# --------------------------------------------------------------------------------------------
# directed: many simultaneous readers (the counter fields are 15 bits wide: "any number of readers")

def many_readers(exe, n, acq, seed, extra=()):
    """n threads take the lock for reading (directed prefix: all hold at the same instant), a writer trylock must fail at
    that moment; the rest (the writer's blocking wlock, the readers leaving in any order, spurious wake-ups) is scheduled by
    the harness itself from `seed` and replayed on both sides.  A wrong grant shows as !UNSAFE, a lost wake-up as !DEADLOCK."""
    progs = [[acq if not isinstance(acq, list) else acq[i % len(acq)], "runlock"] for i in range(n)] + [["wtry", "wunlock", "wlock", "wunlock"]]
    pre = []
    for i in range(n):
        pre += ["run %d" % i] * 2
    pre += ["twin"] + ["run %d" % n] * 2 + ["twin"]
    case, verdict, rc, err = auto_schedule(exe, progs, seed, 40 * n + 200, 5, prefix=["null %s" % o for o in extra], middle=pre)
    return case


def side_ops_cases():
    """NULL arguments and a second lock object at every kind of moment of a small run"""
    progs = [prog_of("RW"), prog_of("Wr"), prog_of("bw")]
    h = header(progs)
    sched = ["run 0", "twin", "run 0", "run 1", "twin", "run 1", "twin", "run 2", "run 2", "run 2", "twin", "run 2", "run 0", "run 0", "twin", "run 2", "run 2", "run 2", "twin"]
    return [["null %s" % o for o in OPS] + h + ["null %s" % o for o in OPS] + sched + ["null wunlock", "twin"],
            h + ["twin", "run 2", "run 2", "twin", "run 2", "run 2", "twin", "null rtry"]]


# --------------------------------------------------------------------------------------------
# random: the harness schedules itself, the schedule is replayed on both sides

def auto_schedule(exe, progs, seed, nsteps, spur_pct, nospec=False, prefix=(), middle=(), fail_pm=0):
    """prefix: ops before the programs; middle: directed ops after `start`, before the harness takes over;
    fail_pm: per-mille probability of a failing primitive call (`fail T`) per step"""
    h = list(prefix) + header(progs, nospec) + list(middle)
    text = "".join(l + "\n" for l in h) + ("auto %d %d %d %d\n" % (seed, nsteps, spur_pct, fail_pm) if fail_pm else "auto %d %d %d\n" % (seed, nsteps, spur_pct))
    rc, out, err = pv.run_proc([exe], text, 300)
    lines = out.splitlines()[len(h):]
    sched, verdict = [], "crash"
    for l in lines:
        if l.startswith("auto "):
            verdict = l.split()[1]
            break
        sched.append(l)
    return h + sched, verdict, rc, err


def random_progs(rng, nthreads, max_rounds, disciplined=True, nested=True):
    progs = []
    style = rng.choice(["mixed", "writer-heavy", "reader-heavy", "try-heavy"])
    weights = {"mixed": [3, 3, 1, 1, 1, 1, 1, 1], "writer-heavy": [1, 6, 0, 1, 0, 1, 1, 1], "reader-heavy": [6, 1, 1, 0, 2, 1, 0, 0],
               "try-heavy": [1, 1, 3, 3, 2, 2, 2, 2]}[style]
    for _ in range(nthreads):
        n = rng.randrange(1, max_rounds + 1)
        if disciplined:
            p = []
            for ch in rng.choices("RWrwabcd" if nested else "RWrw", weights if nested else weights[:4], k=n):
                p += ROUND[ch]
        else:
            p = [rng.choice(OPS) for _ in range(2 * n)]
        progs.append(p)
    return progs, style


# --------------------------------------------------------------------------------------------
# posix mapping

def posix_cases(rng, n):
    codes = [0, 0, 0, 16, 11, 22, 35, 1, -1, 110, 12, 2147483647, -2147483648]   # 0, EBUSY, EAGAIN, EINVAL, EDEADLK, EPERM ...
    cases = []
    for op in OPS:
        cases.append(["call %s %d" % (op, c) for c in codes] + ["null " + op, "ident"])
    cases.append(["new %d" % c for c in codes] + ["ident"])
    cases.append(["free %d" % c for c in codes] + ["ident", "call rlock 0", "free 16", "call runlock 0"])
    cases.append(["ident", "ident"])
    for _ in range(n):
        c = []
        for _ in range(rng.randrange(5, 60)):
            r = rng.random()
            if r < 0.85:
                c.append("call %s %d" % (rng.choice(OPS), rng.choice(codes + [rng.randrange(-200, 200)])))
            elif r < 0.91:
                c.append("null " + rng.choice(OPS))
            elif r < 0.93:
                c.append("free %d" % rng.choice(codes))
            elif r < 0.95:
                c.append("ident")
            else:
                c.append("new %d" % rng.choice(codes))
        cases.append(c)
    return cases


# --------------------------------------------------------------------------------------------
# supporting real-thread runs under TSan

def tsan_runs(chk, cfg, seeds, nthreads, rounds):
    res = {"runs": 0, "ok": 0}
    for impl, files in (("general", ["prwlock-general.c", "pmutex-posix.c", "pcondvariable-posix.c"]), ("posix", ["prwlock-posix.c"])):
        try:
            exe = pv.build_harness("rwlock_threads_" + impl, cfg, ["rwlock_threads.c"], repo_files=files, san="tsan",
                                   cc="clang-14", tag="rwthr-" + impl)
        except pv.BuildError as e:
            chk.violation(str(e), "C02 supporting real-thread harness (%s) does not build" % impl, no_input=True, suffix="txt")
            continue
        for scen in ("rr", "share", "two", "tryhold", "readers 200", "readers 33"):
            # finite rounds with a writer queued between two read acquisitions: must run to completion;
            # two independent lock objects; trylock against a real holder; many simultaneous readers
            cmd = [exe] + scen.split()
            rc, out, err = pv.run_proc(cmd, "", 60, env={"TSAN_OPTIONS": "halt_on_error=1:exitcode=66"})
            res["runs"] += 1
            if rc == 0 and out.startswith("ok"):
                res["ok"] += 1
            else:
                chk.violation("cmd: rwlock_threads (%s implementation) %s\nstdout: %s\nstderr:\n%s" % (impl, scen, out, err[-2000:]),
                              "C02 real-thread scenario `%s` (%s implementation): a finite scenario of lock / trylock / unlock calls did not run to completion as the property demands: %s"
                              % (scen, impl, (out or err).strip().splitlines()[0] if (out or err).strip() else "rc=%s" % rc), suffix="txt")
        for sd in seeds:
            cmd = [exe, str(nthreads), str(rounds), str(sd), "150"]
            rc, out, err = pv.run_proc(cmd, "", 200, env={"TSAN_OPTIONS": "halt_on_error=1:exitcode=66:second_deadlock_stack=1"})
            res["runs"] += 1
            if rc == 0 and out.startswith("ok"):
                res["ok"] += 1
                res.setdefault(impl, []).append(out.strip())
            else:
                chk.violation("cmd: %s\nstdout: %s\nstderr:\n%s" % (" ".join(cmd), out, err[-3000:]),
                              "C02 real-thread run (%s implementation, TSan): rc=%s %s" % (impl, rc, (out or err).strip().splitlines()[0] if (out or err).strip() else ""),
                              suffix="txt")
    return res


# --------------------------------------------------------------------------------------------

def signature_of(ops, r):
    return None


def finish(chk):
    """pv.Check.finish() raises KeyError in its final log line when the proof stage failed (it has
    popped cov['discharged'] by then); the evidence file is already written at that point"""
    try:
        return chk.finish()
    except KeyError:
        pv.log("[C02] %s (proof stage broken), %d violation(s)" % ("FAIL" if chk.violations else "ok", len(chk.violations)))
        return 1 if chk.violations else 0


def run(chk):
    cfg = pv.repo_config()
    thorough = chk.tier == "thorough"
    rng = chk.rng
    proof_ok, driver_ok, detail = pv.proof_stage(chk, ["PV.Props.C02"])
    if any(d.startswith("extractor: prwlock") for d in detail):
        proof_ok = False          # an unknown source shape: the theorems do not speak about this code
    try:
        exe = pv.build_harness("rwlock", cfg, ["rwlock.c"], repo_files=[], san="plain", tag=src_tag())
        pexe = pv.build_harness("rwlock_posix", cfg, ["rwlock_posix.c"], repo_files=["prwlock-posix.c"], san="asan",
                                link=["-Wl,--wrap=pthread_rwlock_" + w for w in WRAPS])
    except pv.BuildError as e:
        chk.violation(str(e), "harness for C02 does not build against the current source", no_input=True, suffix="txt")
        return finish(chk)
    fam = diffrun.Family("rwlock", exe, spec_view=spec_view)
    pfam = diffrun.Family("rwlock-posix", pexe)
    found = False
    corr = thm = None
    st = Stats()
    slow = []

    # ---- corpus + exhaustive small scope
    corpus = pv.load_corpus("C02")
    if driver_ok:
        t0 = time.time()
        mixlist = mixes(2, 2) + mixes(3, 1) + mixes(2, 1) + mixes(1, 2)
        all32 = mixes(3, 2)
        rng.shuffle(all32)
        special = [["WW", "WW", "RR"], ["WR", "RW", "WW"], ["WW", "WW", "WW"], ["RR", "RR", "WW"], ["rw", "WR", "RW"], ["ww", "RW", "WR"],
                   ["Rr", "WW", "wR"], ["WR", "WR", "WR"]]
        mixlist += special + (all32 if thorough else all32[:150])
        mixlist += mixes(4, 1)
        # trylock while holding (nested rounds a b c d)
        nest3 = mixes(3, 1, "RWabcd")
        rng.shuffle(nest3)
        mixlist += mixes(2, 1, "RWrwabcd") + (nest3 if thorough else nest3[:20]) + [["aW", "Wb"], ["cd", "RW"], ["ab", "cd"], ["bR", "Wc", "a"]]
        if thorough:
            a42, a33 = mixes(4, 2), mixes(3, 3)
            rng.shuffle(a42)
            rng.shuffle(a33)
            mixlist += a42[:30] + a33[:60] + [["WW", "WW", "RR", "RR"], ["WR", "RW", "WW", "RR"], ["WRW", "RWR", "WWW"]]
        samples = []
        with ThreadPoolExecutor(max(2, pv.NCPU)) as ex:
            for codes, (stt, bad, smp) in zip(mixlist, ex.map(lambda c: exhaustive_mix(exe, c), mixlist)):
                ns, nt, trunc, nsched, nlines, ndead, nstuck = stt
                st.mixes += 1
                st.states += ns
                st.transitions += nt
                st.schedules += nsched
                st.steps += nlines
                st.truncated += 1 if trunc else 0
                st.model_deadlocks += ndead
                chk.cov["evaluations"] += nsched
                if not bad:
                    chk.cov["traces_validated_against_impl"] += nsched
                    for k in range(nsched):
                        chk.distinct.add((tuple(codes), k))
                else:
                    slow += bad
                if smp and len(samples) < 2:
                    samples.append(smp[0])
        for s in samples:
            chk.sample(s[:60], cap=3)
        chk.cov["states"] = st.states
        chk.cov["transitions"] = st.transitions
        chk.cov["exhaustive_small_scope"] = {
            "program_mixes": st.mixes, "complete": st.truncated == 0,
            "scope": "all round mixes (R W tryR tryW) of 1x2, 2x1, 2x2, 3x1 threads x rounds; %s 3x2 mixes%s; nested rounds (a trylock while the thread holds: R[tryR] R[tryW] W[tryR] W[tryW]) "
                     "2x1 all, 3x1 sample; every reachable state with spurious wake-ups and every signal choice" % (
                "all 816" if thorough else "158 of the 816", "; all 4x1 mixes; 32 of the 4x2 and 61 of the 3x3 mixes" if thorough else "; all 4x1 mixes"),
            "states": st.states, "transitions": st.transitions, "covering_maximal_schedules_replayed_on_C": st.schedules,
            "steps_compared": st.steps, "model_deadlock_states": st.model_deadlocks, "seconds": round(time.time() - t0, 1)}
        # the number of distinct non-trivial cases of the exhaustive part = schedules (each is a different path)
        sizes = [(32, "rtry"), (40, "rtry"), (40, "rlock"), (64, ["rlock", "rtry"]), (70, ["rlock", "rtry", "rtry"]), (130, ["rtry", "rlock"])]
        if thorough:
            sizes += [(128, "rtry"), (256, "rtry"), (256, "rlock"), (257, ["rtry", "rlock"]), (300, "rtry")]
        directed = side_ops_cases() + [many_readers(exe, n, acq, rng.randrange(1, 2**31), OPS if k == 0 else ()) for n, acq in sizes for k in range(2)]
        chk.cov["directed"] = {"many_simultaneous_readers": [n for n, _ in sizes], "second_lock_object_and_NULL_argument_cases": 2}
        # ---- failing primitives: exhaustive small scope (state graph with up to F failing calls per path)
        t0 = time.time()
        fmix = [(m, 3) for m in mixes(1, 1)] + [(m, 2) for m in mixes(1, 2)] + [(m, 3 if thorough else 2) for m in mixes(2, 1)]
        m22, m31 = mixes(2, 2), mixes(3, 1)
        rng.shuffle(m22)
        rng.shuffle(m31)
        fmix += [(m, 1) for m in (m22 if thorough else m22[:30])] + [(m, 2 if thorough else 1) for m in (m31 if thorough else m31[:10])]
        fmix += [(["RW", "WR"], 2), (["WW", "R", "R"], 1 + thorough), (["R", "W", "W"], 2)]
        # nested rounds: a failed outer acquire leaves an undisciplined rest (the inner trylock and both unlocks still run): correspondence only
        fmix += [(m, 1, True) for m in mixes(2, 1, "abcd")]
        fst = {"program_mixes": 0, "states": 0, "transitions": 0, "schedules": 0, "steps": 0, "fail_ops": 0, "deadlock_states": 0}
        fslow = []
        fsamples = []
        with ThreadPoolExecutor(max(2, pv.NCPU)) as ex:
            for (codes, nf), (stt, bad, smp) in zip([a[:2] for a in fmix], ex.map(lambda a: exhaustive_fail_mix(exe, *a), fmix)):
                ns, nt, trunc, nsched, nlines, ndead, nstuck, nfail = stt
                fst["program_mixes"] += 1
                fst["states"] += ns
                fst["transitions"] += nt
                fst["schedules"] += nsched
                fst["steps"] += nlines
                fst["fail_ops"] += nfail
                fst["deadlock_states"] += ndead
                st.truncated += 1 if trunc else 0
                chk.cov["evaluations"] += nsched
                if not bad:
                    chk.cov["traces_validated_against_impl"] += nsched
                    for k in range(nsched):
                        chk.distinct.add((tuple(codes), "fail", nf, k))
                else:
                    fslow += bad
                if smp and len(fsamples) < 1:
                    fsamples.append(smp[0])
        for s_ in fsamples:
            chk.sample(s_[:60], cap=4)
        fst["seconds"] = round(time.time() - t0, 1)
        fst["scope"] = ("failing primitive calls (p_mutex_lock / p_mutex_unlock / p_cond_variable_wait / signal / broadcast return FALSE, op `fail T`): "
                        "1x1 mixes <= 3 failures per path, 1x2 <= 2, 2x1 <= %d, %s 2x2 mixes <= 1, %s 3x1 mixes, nested rounds 2x1 <= 1 (correspondence only); every transition replayed on the C code"
                        % (3 if thorough else 2, "all" if thorough else "30", "all" if thorough else "10"))
        chk.cov["exhaustive_failing_primitives"] = fst
        directed += lifecycle_cases() + fail_site_cases()
        chk.cov["directed"]["lifecycle (p_rwlock_free on a live lock, p_rwlock_new with allocation K failing)"] = len(lifecycle_cases())
        chk.cov["directed"]["one schedule per failure branch"] = len(fail_site_cases())
        f1, c1, t1 = diffrun.campaign(chk, fam, corpus + directed + slow[:400] + fslow[:400], proof_ok, detail, signature_of, "C02", batch=1)
        found, corr, thm = found or f1, corr or c1, thm or t1
    else:
        pv.log("model driver does not build: C-side search only")

    # ---- random long schedules (C schedules itself; replayed on both sides)
    nrand = 1200 if thorough else 150
    rcases = []
    t0 = time.time()
    verdicts = {}
    for i in range(nrand):
        nthreads = rng.randrange(8, 17)
        progs, style = random_progs(rng, nthreads, 40 if thorough else 16)
        spur = rng.choice([0, 0, 5, 20, 50])
        case, verdict, rc, err = auto_schedule(exe, progs, rng.randrange(1, 2**31), 400000, spur)
        verdicts[verdict] = verdicts.get(verdict, 0) + 1
        chk.bump("random:" + style)
        chk.bump("spurious_pct:%d" % spur)
        if verdict in ("deadlock", "unsafe", "crash") and not driver_ok:
            chk.violation("\n".join(case) + "\n", "C02 harness oracle (C side only, model driver unavailable): %s" % verdict)
            found = True
        rcases.append(case)
    # small programs that are NOT disciplined: pure correspondence (unlock without holding, nested locks, self-deadlock)
    ucases = []
    for i in range(1000 if thorough else 150):
        progs, _ = random_progs(rng, rng.randrange(1, 5), 4, disciplined=False)
        case, verdict, rc, err = auto_schedule(exe, progs, rng.randrange(1, 2**31), 5000, rng.choice([0, 10, 40]), nospec=True)
        ucases.append(case)
    # the same with failing primitive calls sprinkled in (safety flags still apply; deadlocks are expected)
    fcases = []
    for i in range(600 if thorough else 80):
        progs, style = random_progs(rng, rng.randrange(2, 10), 6, nested=False)
        case, verdict, rc, err = auto_schedule(exe, progs, rng.randrange(1, 2**31), 20000, rng.choice([0, 5, 30]), fail_pm=rng.choice([10, 40, 150]))
        chk.bump("random-with-failures:" + style)
        fcases.append(case)
    for i in range(300 if thorough else 40):
        progs, _ = random_progs(rng, rng.randrange(1, 5), 4, disciplined=False)
        case, verdict, rc, err = auto_schedule(exe, progs, rng.randrange(1, 2**31), 5000, rng.choice([0, 10, 40]), nospec=True, fail_pm=rng.choice([30, 100, 250]))
        fcases.append(case)
    chk.cov["random_failing_primitives"] = {"schedules": len(fcases), "fail_ops": sum(1 for c in fcases for l in c if l.startswith("fail ")),
                                            "steps": sum(len(c) for c in fcases)}
    chk.cov["random"] = {"disciplined_schedules": nrand, "threads": "8-16", "auto_verdicts": verdicts,
                         "steps": sum(len(c) for c in rcases), "undisciplined_schedules": len(ucases), "seconds": round(time.time() - t0, 1)}
    if driver_ok:
        f2, c2, t2 = diffrun.campaign(chk, fam, rcases, proof_ok, detail, signature_of, "C02 random", batch=20)
        f3, c3, t3 = diffrun.campaign(chk, fam, ucases, proof_ok, detail, signature_of, "C02 undisciplined programs (correspondence only)", batch=50)
        found, corr, thm = found or f2 or f3, corr or c2 or c3, thm or t2 or t3
        f5, c5, t5 = diffrun.campaign(chk, fam, fcases, proof_ok, detail, signature_of, "C02 random schedules with failing primitive calls", batch=20)
        found, corr, thm = found or f5, corr or c5, thm or t5

    # ---- posix mapping
    if driver_ok:
        f4, c4, t4 = diffrun.campaign(chk, pfam, posix_cases(rng, 200 if thorough else 40), proof_ok, detail, signature_of, "C02 posix mapping", batch=50)
        found, corr, thm = found or f4, corr or c4, thm or t4

    # ---- supporting: real threads under TSan (thorough)
    if thorough:
        chk.cov["tsan_real_threads"] = tsan_runs(chk, cfg, [chk.seed * 10 + k for k in range(3)], 12, 20000)
        if chk.violations:
            found = True
    else:
        # the two queued-writer scenarios are cheap: every tier
        nv = len(chk.violations)
        chk.cov["real_thread_scenarios"] = tsan_runs(chk, cfg, [], 0, 0)
        if len(chk.violations) > nv:
            found = True

    diffrun.conclude(chk, found, corr, thm, proof_ok and driver_ok, detail, "C02 rwlock")
    chk.cov["rule"] = ("schedules over programs of lock/unlock rounds (R W tryR tryW): exhaustive part = for each small program mix the whole reachable state graph of the model "
                       "(spurious wake-ups and every signal choice included) and a set of maximal schedules covering every transition, each replayed step by step on the C code; "
                       "random part = 8-16 threads, up to %d rounds each, spurious wake-up probability 0-50%%, schedule chosen by the harness and replayed on both sides; "
                       "plus undisciplined small programs (correspondence only), the same three kinds with failing primitive calls (`fail T`: state graphs with a bounded number of failures per path, "
                       "a directed schedule per failure branch, random), p_rwlock_free / failing p_rwlock_new, and scripted pthread return codes for the posix mapping. "
                       "distinct = hash of the op file (program mix for the exhaustive part); non-trivial = more than one op" % (40 if thorough else 16))
    chk.cov["exhaustive"] = False
    chk.assumptions += ["pthread mutex / condition variable satisfy POSIX (Mesa semantics: wait atomically releases the mutex, signal wakes at most one waiter, spurious wake-ups allowed); for the liveness half (no deadlock, termination) "
                        "the primitives never fail; the safety half (exclusion, counter refinement, FALSE = nothing acquired) is proved and run WITH failing primitive calls (op `fail T`), assuming a failed call has no effect "
                        "(a failed p_mutex_unlock leaves the mutex owned, a failed wait returns at once still owning it, a failed signal wakes nobody)",
                        "client convention under failures: a thread stops after an unlock call that failed at its p_mutex_lock (it still holds) and after any call that met a failed p_mutex_unlock "
                        "(it owns the internal mutex for ever: its next call would self-deadlock); nested rounds (trylock while holding) with failures are run as correspondence only",
                        "fewer than 2^15 threads use one lock simultaneously (field width of the packed counters; same limit in the C code)",
                        "programs are disciplined: every acquired lock is released by the same thread before its next blocking acquire (a trylock may be attempted while holding); unlock only of a held lock; a failed trylock skips the unlock",
                        "allocation failure in p_rwlock_new: its four failure exits are run by `newfail K` (NULL returned, exactly the parts allocated before are released); the allocator-level enumeration is C18's business",
                        "posix model: pthread_rwlock_* is a trusted abstract machine; only the return-code mapping of prwlock-posix.c is checked"]
    return finish(chk)


def replay(chk, path):
    cfg = pv.repo_config()
    exe = pv.build_harness("rwlock", cfg, ["rwlock.c"], repo_files=[], san="plain", tag=src_tag())
    fam = diffrun.Family("rwlock", exe, spec_view=spec_view)
    ops = [l.strip() for l in open(path) if l.strip() and not l.startswith("#")]
    r = diffrun.judge(fam, ops)
    print("agree" if r is None else "%s at op %d: %s" % (r["kind"], r["at"], r["detail"]))
    return 0 if r is None else 1

"""C06 — named semaphore: one counter per name across threads and processes, OPEN/CREATE semantics,
owner free, crash recovery (model PV.Model.IPC, theorems PV.Props.C06)."""
import itertools
import pv
from props import ipc
from props import ipc_sysv


def exhaustive(depth):
    """every legal sequence of `depth` calls on one name by two processes (handles numbered in order)"""
    news = [(w, m, i) for w in (0, 1) for (m, i) in (("OPEN", 1), ("OPEN", 2), ("CREATE", 0), ("CREATE", 2))]
    acts = [("new",) + x for x in news] + [(a, h) for a in ("acq", "rel", "own", "free") for h in range(3)]
    for seq in itertools.product(acts, repeat=depth):
        sim = ipc.Sim()
        ops, nh, ok = [], 0, True
        for a in seq:
            if a[0] == "new":
                _, w, m, i = a
                if nh >= 3:
                    ok = False
                    break
                sim.new_sem(w, nh, 0, i, m == "CREATE")
                ops.append("%d new-sem %d s0 %d %s" % (w, nh, i, m))
                nh += 1
            else:
                act, h = a
                if h not in sim.hs:
                    ok = False
                    break
                x = sim.hs[h]
                if act == "acq":
                    if sim.ctr[x["inc"]] == 0:
                        ok = False
                        break
                    sim.ctr[x["inc"]] -= 1
                elif act == "rel":
                    sim.ctr[x["inc"]] += 1
                elif act == "own":
                    x["own"] = True
                ops.append("%d %s %d" % (x["w"], act, h))
                if act == "free":
                    sim.free(h)
            ops.append("obs")
        if ok:
            yield ops


# initial values beyond one and two bytes (the counter is an int: SEM_VALUE_MAX is INT_MAX), names that differ only in
# their first byte (s0/s1) or only in their last byte after 290 equal ones (s2/s3), all four names alive at once
DIRECTED = [
    ["0 new-sem 0 s0 300 CREATE", "obs", "1 new-sem 1 s0 7 OPEN", "1 acq 1", "0 rel 0", "0 rel 0", "obs", "2 new-sem 2 s0 257 CREATE", "obs", "1 rel 1", "obs"],
    ["0 new-sem 0 s1 70000 OPEN", "obs", "1 new-sem 1 s1 1 OPEN", "1 acq 1", "1 acq 1", "obs"],
    # the top of the counter's range (SEM_VALUE_MAX = INT_MAX): a release adds one unit up to and including the maximum.
    # (`obs` drains a semaphore unit by unit through the API and gives up beyond 100000 units: these histories are judged
    # by the results of acquire / release alone and never go past the maximum)
    ["0 new-sem 0 s0 2147483647 CREATE", "0 acq 0", "0 rel 0", "1 new-sem 1 s0 5 OPEN", "1 acq 1", "1 acq 1", "1 rel 1", "0 rel 0", "0 acq 0", "0 rel 0"],
    ["0 new-sem 0 s1 2147483644 CREATE", "1 new-sem 1 s1 1 OPEN", "1 rel 1", "1 rel 1", "1 rel 1", "0 acq 0", "0 rel 0", "1 acq 1", "1 acq 1", "1 rel 1", "1 rel 1"],
    ["0 new-sem 0 s0 2147483646 OPEN", "0 rel 0", "0 acq 0", "0 acq 0", "0 rel 0", "0 rel 0"],
    ["0 new-sem 0 s0 1 OPEN", "1 new-sem 1 s1 2 OPEN", "2 new-sem 2 s2 3 OPEN", "0 new-sem 3 s3 4 OPEN", "obs", "0 acq 0", "obs", "1 rel 1", "obs", "2 acq 2", "obs", "0 rel 3", "obs",
     "1 new-sem 4 s0 5 CREATE", "obs", "2 own 2", "2 free 2", "obs", "1 free 1", "obs", "0 free 3", "obs", "1 free 4", "obs"],
    ["0 new-sem 0 s1 2 CREATE", "1 new-sem 1 s0 0 OPEN", "obs", "1 own 1", "1 free 1", "obs", "0 acq 0", "0 acq 0", "obs", "2 new-sem 2 s0 1 OPEN", "obs"],
]


def crash_scenarios():
    rec = lambda v: ["1 new-sem 8 s0 0 OPEN", "1 own 8", "1 free 8", "obs", "1 new-sem 9 s0 %d CREATE" % v, "obs",
                     "2 new-sem 10 s0 7 OPEN"] + (["2 acq 10"] if v else []) + ["0 new-sem 11 s0 5 OPEN", "0 rel 11"]
    holder = ["1 new-sem 1 s0 2 OPEN", "1 acq 1"]
    return [
        ("new OPEN, fresh name", [], "0 new-sem 0 s0 3 OPEN", rec(2)),
        ("new OPEN, existing name", holder, "0 new-sem 0 s0 3 OPEN", rec(1)),
        ("new CREATE, fresh name", [], "0 new-sem 0 s0 3 CREATE", rec(0)),
        ("new CREATE, existing name", holder, "0 new-sem 0 s0 3 CREATE", rec(3)),
        ("free by the creator", ["0 new-sem 0 s0 1 OPEN", "1 new-sem 1 s0 1 OPEN", "1 acq 1"], "0 free 0", rec(2)),
        ("free by a non-owner", holder, "1 free 1", rec(1)),
        ("free after take_ownership", holder + ["2 new-sem 2 s0 0 OPEN", "2 own 2"], "2 free 2", rec(2)),
        ("acquire", holder, "1 acq 1", rec(1)),
        ("release", holder, "1 rel 1", rec(4)),
    ]


def eintr_scenarios():
    holder = ["1 new-sem 1 s0 2 OPEN"]
    tail = ["2 new-sem 5 s0 9 OPEN", "2 acq 5", "obs"]
    return [
        ([], "0 new-sem 0 s0 3 OPEN", tail),
        (holder, "0 new-sem 0 s0 3 OPEN", tail),
        (holder, "0 new-sem 0 s0 3 CREATE", tail),
        ([], "0 new-sem 0 s0 1 CREATE", tail),
        (holder, "1 acq 1", tail),
        (holder, "1 rel 1", tail),
        (holder + ["1 own 1"], "1 free 1", []),
    ]


def fail_scenarios():
    """(setup, op, tail): scripted failures of every system call of the op (tools/props/ipc.py fail_cases)"""
    holder = ["1 new-sem 1 s0 2 OPEN"]
    tail = ["2 new-sem 12 s0 3 OPEN", "obs", "2 rel 12", "2 acq 12", "2 own 12", "2 free 12", "obs", "0 new-sem 13 s0 1 CREATE", "obs"]
    return [
        ([], "0 new-sem 0 s0 3 OPEN", tail),
        (holder, "0 new-sem 0 s0 3 OPEN", tail),
        ([], "0 new-sem 0 s0 3 CREATE", tail),
        (holder, "0 new-sem 0 s0 3 CREATE", tail + ["1 rel 1", "obs"]),
        (holder, "1 acq 1", ["1 acq 1", "obs"]),
        (holder, "1 rel 1", ["1 rel 1", "obs"]),
        (holder, "1 free 1", tail),                                  # the creator: sem_close, sem_unlink
        (holder + ["2 new-sem 2 s0 0 OPEN"], "2 free 2", tail),      # a non-owner: sem_close only
    ]


def concurrent_create_cases():
    """two concurrent p_semaphore_new calls of which at least one is CREATE mode (outside the property's
    precondition; exercises the unlink / re-create loop): every schedule prefix of length 8"""
    out = []
    for bits in itertools.product("ab", repeat=8):
        s = "".join(bits)
        out.append(["2 new-sem 5 s0 1 OPEN", "par %s 0 new-sem 0 s0 2 CREATE ; 1 new-sem 1 s0 3 CREATE" % s, "obs", "0 rel 0", "1 rel 1", "obs"])
    for bits in itertools.product("ab", repeat=6):
        s = "".join(bits)
        out.append(["2 new-sem 5 s0 1 OPEN", "par %s 0 new-sem 0 s0 2 CREATE ; 1 new-sem 1 s0 3 OPEN" % s, "obs", "0 rel 0", "1 rel 1", "obs"])
    return out


def free_open_race_cases():
    """an OPEN-mode p_semaphore_new racing with the owner's free of the same name (every schedule prefix of length 6):
    the statement quantifies over concurrent acquirers / releasers only, so the spec column does not judge these (on the
    unchanged code the OPEN fails with ENOENT when the unlink lands between its two sem_open calls); the implementation is
    compared with the model system call by system call"""
    out = []
    for bits in itertools.product("ab", repeat=6):
        s = "".join(bits)
        out.append(["0 new-sem 0 s0 2 OPEN", "par %s 0 free 0 ; 1 new-sem 1 s0 3 OPEN" % s, "obs", "1 rel 1", "obs"])
    return out


def run(chk):
    cfg = pv.repo_config()
    proof_ok, driver_ok, detail = pv.proof_stage(chk, ["PV.Props.C06", "PV.Props.C06sysv"])
    if any(d.startswith("extractor: ") and ("psemaphore" in d or "ipc" in d or "perror" in d) for d in detail):
        proof_ok = False
    exe = ipc.build(cfg)
    thorough = chk.tier == "thorough"
    fam = ipc.Fam(exe, env={"PVIPC_GETVALUE": "1"} if thorough else None)
    R = ipc.Runner(chk, fam, proof_ok and driver_ok, detail, "C06")
    rng = chk.rng

    corpus = pv.load_corpus("C06")
    # crash points: every system call boundary of every call, both kill placements, then the documented recovery
    crash, npoints = [], {}
    for name, setup, op, rec in crash_scenarios():
        n, cs = ipc.crash_cases(setup, op, rec)
        npoints[name] = n
        crash += cs
        chk.bump("crash scenario: " + name, len(cs))
    chk.cov["crash_points"] = npoints
    eintr = []
    for setup, op, tail in eintr_scenarios():
        eintr += ipc.eintr_cases(setup, op, tail, counts=(1, 2, 3, 4, 5, 6, 150, 1000) if thorough else (1, 2, 6, 150))
    chk.cov["eintr_cases"] = len(eintr)
    fails = []
    for setup, op, tail in fail_scenarios():
        fails += [ipc.prefilter(c) for c in ipc.fail_cases(setup, op, tail)]
    chk.cov["scripted_failure_cases"] = len(fails)
    chk.bump("scripted system-call failure cases", len(fails))
    depth = 4 if thorough else 3
    ex = list(exhaustive(depth))
    chk.cov["exhaustive_small_scope"] = {"depth": depth, "sequences": len(ex)}
    nr = 600 if thorough else 250
    rnd = [ipc.prefilter(ipc.gen_history(rng, chk, rng.choice([8, 25, 70]), sem_w=1.0, shm_w=0.0)) for _ in range(nr)]
    rnd += [ipc.prefilter(ipc.sprinkle_failures(rng, ipc.gen_history(rng, chk, rng.choice([8, 25, 70]), sem_w=1.0, shm_w=0.0))) for _ in range(nr // 5)]

    R.run(DIRECTED, batch=1)
    R.run(corpus + crash + eintr, batch=20)
    R.run([["0 null", "obs", "1 new-sem 0 s0 1 OPEN", "1 null", "obs"]], batch=1)      # NULL / invalid-argument guards of every public call
    R.run(fails, batch=20)
    R.run(ex, batch=40)
    R.run(rnd, batch=10)
    conc = [ipc.prefilter(c) for c in concurrent_create_cases()]
    chk.cov["concurrent_create_schedules_model_tie_only"] = len(conc)
    R.run_model_only(conc)
    race = [ipc.prefilter(c) for c in free_open_race_cases()]
    chk.cov["free_open_race_schedules_model_tie_only"] = len(race)
    R.run_model_only(race)      # new / free racing each other is outside the statement's quantifier (like concurrent CREATE): syscall-exact tie only
    # real processes blocking in p_semaphore_acquire and woken by releases of the others (quick: short runs)
    for (n, v, it) in (((6, 1, 3000), (8, 3, 3000), (12, 2, 1500)) if thorough else ((3, 1, 400), (6, 2, 300))):
        ipc.run_stress(chk, exe, ["stress-sem", n, v, it], "C06 v-exclusion stress")
    # System V variant (psemaphore-sysv.c linked instead of the posix file): API-level histories against the spec column
    Rs = ipc_sysv.run_c06(chk, cfg, ex)
    if getattr(Rs, "new_violations", 0):
        R.found = True      # a concrete System V replay was reported: no additional no-failing-input-found line
    R.conclude(DIRECTED + crash + eintr + fails + ex[:400] + rnd, "C06 named semaphore")
    chk.cov["harness_leftovers_in_dev_shm"] = fam.leftovers
    chk.cov["rule"] = ("op files over 3 worker processes x 4 names (two differing only in the first byte, with a percent sign and non-ASCII bytes; two ~300 bytes long differing only in the last byte) x 16 handles: new OPEN/CREATE (init 0..3, 257, 300, 70000), acquire only when the model has a unit, release, take_ownership, free, SIGKILL of idle processes; "
                       "after every op the value of every name (drained through a fresh OPEN handle in an observer process%s), presence of /dev/shm/sem.<key> and the system calls made are compared with the model; "
                       "crash: SIGKILL before/after every system call of new/free/acquire/release (9 scenarios), then open/take_ownership/free/create(v); EINTR n<=6 at every k; "
                       "scripted failures: every system call of new OPEN/CREATE (fresh / existing name), acquire, release, free (owner / non-owner) fails with errno rotating over ENOMEM/EACCES/EMFILE/EINVAL/EBADF/ENOENT (opens also EEXIST/ENOENT/EINTR), and every later call of that run (unlink / retry / close) fails too, then recovery through the API; NULL / negative-value guards of every public call; "
                       "exhaustive: all legal call sequences of length %d on one name from two processes; distinct by op-file hash, non-trivial = more than one op; "
                       "System V variant (harness/ipc_sysv.c, model PV.Model.IPCSysV, theorems PV.Props.C06sysv): the directed histories, a sample of the exhaustive sequences and random histories with SIGKILL of workers between calls, "
                       "every answer and the value of every name after every op (drained through the API by an observer, cross-checked with semctl GETVAL) compared with the spec column where the statement determines it, and EVERY answer line (system calls with flags and results, observer views) with the System V model column, crash points at every system call of new/free/recreating acquire/release and EINTR scripts included"
                       % (", cross-checked with sem_getvalue" if thorough else "", depth))
    chk.assumptions += ipc.ASSUMPTIONS
    return chk.finish()

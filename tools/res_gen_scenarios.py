#!/usr/bin/env python3
"""Developer tool (not run by the checks): rewrite lean/PV/Model/Res/Scenarios.lean from the scenario functions of
harness/res.c (`dump NAME` of the built harness), in both forms — call lines and parsed calls.
The check C18 only *compares* the two sides (`dump`, `selfcheck`); run this after editing the C scenarios,
then `lake build`."""
import os
import subprocess
import sys
import tempfile

sys.path.insert(0, os.path.dirname(os.path.abspath(__file__)))
import pv
from props import resfam


def main():
    cfg = pv.repo_config()
    exe = resfam.build(cfg)
    names = subprocess.run([exe], input="list\n", capture_output=True, text=True).stdout.split()
    dumps = subprocess.run([exe], input="".join("dump %s\n" % n for n in names), capture_output=True, text=True).stdout.splitlines()
    path = os.path.join(pv.LEAN, "PV", "Model", "Res", "Scenarios.lean")
    head = ("import PV.Model.Res.Calls\n/-! # C18 — the scenario programs\n\n"
            "The same call lines as the scenario functions of `harness/res.c` (the check compares `dump NAME` of both\n"
            "sides literally).  A scenario starts the library, performs calls, frees whatever it obtained and shuts\n"
            "the library down; allocator failures are injected over the whole of it, initialisation included.\n"
            "Written by tools/res_gen_scenarios.py from the C scenario table. -/\nnamespace PV.Res\n\n")
    lines = ["def scenarios : List (String × List String) := ["]
    for n, d in zip(names, dumps):
        lines.append('  ("%s", [%s]),' % (n, ", ".join('"%s"' % l for l in d.split(";"))))
    lines[-1] = lines[-1].rstrip(",")
    lines.append("]\n")
    tail = ("\n/-- `scenarios` and `scenarioCalls` agree -/\ndef scenariosConsistent : Bool :=\n"
            "  scenarios.length == scenarioCalls.length &&\n  (scenarios.zip scenarioCalls).all fun (a, b) =>\n"
            "    a.1 == b.1 && reprStr (a.2.map fun l => parseCall (splitToks l)) == reprStr (b.2.map some)\n\n"
            "def findScenario (name : String) : Option (List String) := (scenarios.find? (·.1 = name)).map (·.2)\n\nend PV.Res\n")
    # first pass: table of lines only, so that Lean can parse them
    open(path, "w").write(head + "\n".join(lines) + "\ndef scenarioCalls : List (String × List Call) := []\n" + tail)
    ok, out = pv.lake_build(["PV.Model.Res"])
    if not ok:
        print(out[-3000:])
        return 1
    gen = ("import PV.Model.Res\nopen PV.Res\n#eval do\n  for (n, ls) in scenarios do\n    IO.println s!\"@@ {n}\"\n"
           "    for l in ls do IO.println (match parseCall (splitToks l) with | some c => reprStr c | none => \"ERROR \" ++ l)\n")
    fd, tmp = tempfile.mkstemp(suffix=".lean", dir=pv.CACHE)
    os.write(fd, gen.encode())
    os.close(fd)
    rc, out = pv.sh(["lake", "env", "lean", tmp], cwd=pv.LEAN)
    os.unlink(tmp)
    if rc != 0 or "ERROR" in out:
        print(out[-3000:])
        return 1
    sc, cur = [], None
    for l in out.splitlines():
        if l.startswith("@@ "):
            cur = (l[3:], [])
            sc.append(cur)
        elif l.strip() and cur is not None and l.startswith("PV.Res."):
            cur[1].append(l.replace("PV.Res.", ""))
    calls = ["/-- the same scenarios as parsed calls (`pvdriver res` answers `selfcheck` by comparing the two tables);\n"
             "    the balance theorem of `PV.Props.C18` is stated over these -/",
             "def scenarioCalls : List (String × List Call) := ["]
    for n, cs in sc:
        calls.append('  ("%s", [\n    %s]),' % (n, ",\n    ".join(cs)))
    calls[-1] = calls[-1].rstrip(",")
    calls.append("]\n")
    open(path, "w").write(head + "\n".join(lines) + "\n" + "\n".join(calls) + tail)
    ok, out = pv.lake_build(["PV.Model.Res"])
    print("ok" if ok else out[-3000:])
    return 0 if ok else 1


if __name__ == "__main__":
    sys.exit(main())

"""A small C front end for the translator (tools/extract_atomics.py).

Input: the output of `gcc -E -P` (macros expanded, `#if` resolved).  It tokenises the text, finds the
top-level function definitions, and parses parameter lists and bodies of the *subset* of C used by the
atomic / spinlock / mutex back-ends into tuples.  Anything outside the subset raises ParseError:
the caller turns that into a translator problem (never a guess).

Expressions
  ('num', int) ('id', name) ('str',)
  ('call', fname, [args]) ('cast', type, e) ('un', op, e)   op in & * - ! ~ +
  ('pre', op, e) ('post', op, e)   op in ++ --
  ('bin', op, a, b) ('assign', op, lhs, rhs) ('cond', c, a, b) ('member', '->'|'.', e, name)
  ('sizeof',)
Types are strings of space-joined tokens, pointer stars included: "volatile pint *".
Statements
  ('decl', type, name, init|None) ('expr', e) ('return', e|None)
  ('if', c, [then], [else]) ('do', [body], c) ('while', c, [body])
"""
import re


class ParseError(Exception):
    pass


_TOK = re.compile(r"""
    (?P<ws>\s+)
  | (?P<id>[A-Za-z_][A-Za-z_0-9]*)
  | (?P<num>0[xX][0-9a-fA-F]+[uUlL]*|[0-9]+[uUlL]*)
  | (?P<str>"(?:\\.|[^"\\])*")
  | (?P<chr>'(?:\\.|[^'\\])*')
  | (?P<op>->|\+\+|--|<<=|>>=|<<|>>|<=|>=|==|!=|&&|\|\||\+=|-=|\*=|/=|%=|&=|\|=|\^=|\.\.\.|[-+*/%&|^~!<>=?:;,.(){}\[\]\#])
""", re.X)


def tokenize(text):
    out, i = [], 0
    while i < len(text):
        m = _TOK.match(text, i)
        if not m:
            raise ParseError("cannot tokenise at %r" % text[i:i + 30])
        i = m.end()
        k = m.lastgroup
        if k == "ws":
            continue
        out.append((k, m.group(k)))
    return out


BASE_TYPES = {"void", "char", "short", "int", "long", "float", "double", "signed", "unsigned", "_Bool"}
QUALS = {"const", "volatile", "restrict", "__restrict", "static", "register", "extern", "inline", "__inline", "__extension__"}


def typedef_names(toks):
    """names introduced by top-level typedefs (last identifier of the declaration, or `(*name)`)"""
    names = set()
    i, depth = 0, 0
    n = len(toks)
    while i < n:
        k, v = toks[i]
        if v == "{":
            depth += 1
        elif v == "}":
            depth -= 1
        elif depth == 0 and v == "typedef":
            j = i + 1
            d2 = 0
            last = None
            fp = None
            pd = 0
            while j < n:
                kk, vv = toks[j]
                if vv in "{":
                    d2 += 1
                elif vv == "}":
                    d2 -= 1
                elif d2 == 0:
                    if vv == "(":
                        pd += 1
                        if j + 2 < n and toks[j + 1][1] == "*" and toks[j + 2][0] == "id" and fp is None:
                            fp = toks[j + 2][1]
                    elif vv == ")":
                        pd -= 1
                    elif vv == ";" and pd == 0:
                        break
                    elif kk == "id" and pd == 0 and vv not in ("__attribute__", "__asm__"):
                        last = vv
                    elif vv == "[" and pd == 0:
                        pass
                j += 1
            nm = fp or last
            if nm:
                names.add(nm)
            i = j
        i += 1
    return names


class Func:
    def __init__(self, name, ret, params, body):
        self.name, self.ret, self.params, self.body = name, ret, params, body   # params: [(type, name)]


def find_functions(toks):
    """top-level `... name ( params ) { body }` definitions -> dict name -> (ret_toks, param_toks, body_toks)"""
    out = {}
    i, n = 0, len(toks)
    depth = 0
    stmt_start = 0
    while i < n:
        k, v = toks[i]
        if v == "{" and depth == 0:
            # is this a function body?  look back: ... id ( ... ) {
            j = i - 1
            if j >= 0 and toks[j][1] == ")":
                d, p = 0, j
                while p >= 0:
                    if toks[p][1] == ")":
                        d += 1
                    elif toks[p][1] == "(":
                        d -= 1
                        if d == 0:
                            break
                    p -= 1
                if p > 0 and toks[p - 1][0] == "id" and toks[p - 1][1] not in ("__attribute__", "__asm__"):
                    name = toks[p - 1][1]
                    # body
                    q, d = i, 0
                    while q < n:
                        if toks[q][1] == "{":
                            d += 1
                        elif toks[q][1] == "}":
                            d -= 1
                            if d == 0:
                                break
                        q += 1
                    out[name] = (toks[stmt_start:p - 1], toks[p + 1:j], toks[i + 1:q])
                    i = q + 1
                    stmt_start = i
                    continue
            # struct / union / enum / initialiser at top level: skip
            depth += 1
        elif v == "{":
            depth += 1
        elif v == "}":
            depth -= 1
            if depth == 0 and i + 1 < n and toks[i + 1][1] != ";" and False:
                stmt_start = i + 1
        elif v == ";" and depth == 0:
            stmt_start = i + 1
        i += 1
    return out


def struct_members(toks, tag):
    """members of `struct tag { … }` -> [(type, name)] (simple declarators only)"""
    n = len(toks)
    for i in range(n - 2):
        if toks[i][1] == "struct" and toks[i + 1][1] == tag and toks[i + 2][1] == "{":
            j = i + 3
            members, cur = [], []
            while j < n and toks[j][1] != "}":
                if toks[j][1] == "{":
                    raise ParseError("nested aggregate in struct " + tag)
                if toks[j][1] == ";":
                    if not cur or cur[-1][0] != "id":
                        raise ParseError("member declarator of struct %s not understood" % tag)
                    members.append((" ".join(t[1] for t in cur[:-1]), cur[-1][1]))
                    cur = []
                else:
                    cur.append(toks[j])
                j += 1
            return members
    return None


class Parser:
    def __init__(self, toks, types):
        self.t, self.i, self.types = toks, 0, types

    # -- token helpers
    def peek(self, k=0):
        return self.t[self.i + k][1] if self.i + k < len(self.t) else None

    def kind(self, k=0):
        return self.t[self.i + k][0] if self.i + k < len(self.t) else None

    def eat(self, v=None):
        if self.i >= len(self.t):
            raise ParseError("unexpected end, wanted %r" % v)
        k, x = self.t[self.i]
        if v is not None and x != v:
            raise ParseError("expected %r, found %r (token %d)" % (v, x, self.i))
        self.i += 1
        return x

    def at_end(self):
        return self.i >= len(self.t)

    def is_type_start(self, k=0):
        v = self.peek(k)
        return self.kind(k) == "id" and (v in BASE_TYPES or v in QUALS or v in self.types or v in ("struct", "union", "enum"))

    def parse_type(self):
        """type specifier + qualifiers + pointer stars (no declarator name)"""
        parts = []
        seen = False
        while self.kind() == "id" and self.is_type_start():
            v = self.eat()
            if v in ("struct", "union", "enum"):
                parts.append(v)
                if self.kind() != "id":
                    raise ParseError("anonymous aggregate type")
                parts.append(self.eat())
                seen = True
            else:
                parts.append(v)
                if v not in QUALS:
                    seen = True
        if not seen:
            raise ParseError("type expected near token %d (%r)" % (self.i, self.peek()))
        while self.peek() in ("*", "const", "volatile", "restrict", "__restrict"):
            parts.append(self.eat())
        return " ".join(p for p in parts if p not in ("static", "register", "extern", "inline", "__inline", "__extension__"))

    # -- parameters
    def parse_params(self):
        ps = []
        if self.at_end():
            return ps
        if self.peek() == "void" and self.i + 1 == len(self.t):
            return ps
        while True:
            ty = self.parse_type()
            if self.kind() != "id":
                raise ParseError("parameter name expected")
            nm = self.eat()
            ps.append((ty, nm))
            if self.at_end():
                return ps
            self.eat(",")

    # -- statements
    def parse_block_items(self):
        items = []
        while not self.at_end() and self.peek() != "}":
            items += self.parse_stmt()
        return items

    def parse_stmt(self):
        v = self.peek()
        if v == ";":
            self.eat()
            return []
        if v == "{":
            self.eat("{")
            items = self.parse_block_items()
            self.eat("}")
            return items
        if v == "return":
            self.eat()
            if self.peek() == ";":
                self.eat()
                return [("return", None)]
            e = self.parse_expr()
            self.eat(";")
            return [("return", e)]
        if v == "if":
            self.eat()
            self.eat("(")
            c = self.parse_expr()
            self.eat(")")
            th = self.parse_stmt()
            el = []
            if self.peek() == "else":
                self.eat()
                el = self.parse_stmt()
            return [("if", c, th, el)]
        if v == "do":
            self.eat()
            body = self.parse_stmt()
            self.eat("while")
            self.eat("(")
            c = self.parse_expr()
            self.eat(")")
            self.eat(";")
            return [("do", body, c)]
        if v == "while":
            self.eat()
            self.eat("(")
            c = self.parse_expr()
            self.eat(")")
            body = self.parse_stmt()
            return [("while", c, body)]
        if v in ("for", "switch", "goto", "break", "continue", "case", "default", "asm", "__asm__"):
            raise ParseError("statement kind %r is outside the translator's subset" % v)
        if self.is_type_start() and not (self.kind(1) == "op" and self.peek(1) in ("(", "=", ".", "->", "[", "+", "-")):
            # a storage class changes what a local IS (a `static` local is shared by all threads): never dropped silently
            k = 0
            while self.kind(k) == "id" and self.is_type_start(k):
                if self.peek(k) in ("static", "extern", "register"):
                    raise ParseError("storage class %r on a local declaration is outside the subset" % self.peek(k))
                k += 1
            ty = self.parse_type()
            if self.kind() != "id":
                raise ParseError("declarator name expected")
            nm = self.eat()
            init = None
            if self.peek() == "=":
                self.eat()
                init = self.parse_assign()
            if self.peek() == ",":
                raise ParseError("multiple declarators in one declaration")
            self.eat(";")
            return [("decl", ty, nm, init)]
        e = self.parse_expr()
        self.eat(";")
        return [("expr", e)]

    # -- expressions (precedence climbing)
    def parse_expr(self):
        e = self.parse_assign()
        if self.peek() == ",":
            raise ParseError("comma operator is outside the subset")
        return e

    def parse_assign(self):
        lhs = self.parse_cond()
        if self.peek() in ("=", "+=", "-=", "*=", "/=", "%=", "&=", "|=", "^=", "<<=", ">>="):
            op = self.eat()
            rhs = self.parse_assign()
            return ("assign", op, lhs, rhs)
        return lhs

    def parse_cond(self):
        c = self.parse_bin(0)
        if self.peek() == "?":
            self.eat()
            a = self.parse_expr()
            self.eat(":")
            b = self.parse_cond()
            return ("cond", c, a, b)
        return c

    LEVELS = [["||"], ["&&"], ["|"], ["^"], ["&"], ["==", "!="], ["<", ">", "<=", ">="], ["<<", ">>"], ["+", "-"], ["*", "/", "%"]]

    def parse_bin(self, lvl):
        if lvl == len(self.LEVELS):
            return self.parse_unary()
        a = self.parse_bin(lvl + 1)
        while self.kind() == "op" and self.peek() in self.LEVELS[lvl]:
            op = self.eat()
            b = self.parse_bin(lvl + 1)
            a = ("bin", op, a, b)
        return a

    def parse_unary(self):
        v = self.peek()
        if v in ("++", "--"):
            self.eat()
            return ("pre", v, self.parse_unary())
        if v in ("&", "*", "-", "!", "~", "+"):
            self.eat()
            return ("un", v, self.parse_unary())
        if v == "sizeof":
            self.eat()
            if self.peek() == "(":
                self.eat("(")
                d = 1
                while d:
                    x = self.eat()
                    d += {"(": 1, ")": -1}.get(x, 0)
            else:
                self.parse_unary()
            return ("sizeof",)
        if v == "(" and self.is_type_start(1):
            self.eat("(")
            ty = self.parse_type()
            self.eat(")")
            return ("cast", ty, self.parse_unary())
        return self.parse_postfix()

    def parse_postfix(self):
        k, v = self.kind(), self.peek()
        if v == "(":
            self.eat("(")
            e = self.parse_expr()
            self.eat(")")
        elif k == "num":
            s = self.eat().rstrip("uUlL")
            e = ("num", int(s, 0) if not (len(s) > 1 and s[0] == "0" and s[1] not in "xX") else int(s, 8))
        elif k == "id":
            e = ("id", self.eat())
        elif k == "str":
            self.eat()
            while self.kind() == "str":
                self.eat()
            e = ("str",)
        else:
            raise ParseError("unexpected token %r in expression" % v)
        while True:
            v = self.peek()
            if v == "(":
                if e[0] != "id":
                    raise ParseError("call through an expression")
                self.eat("(")
                args = []
                if self.peek() != ")":
                    while True:
                        args.append(self.parse_assign())
                        if self.peek() == ",":
                            self.eat()
                            continue
                        break
                self.eat(")")
                e = ("call", e[1], args)
            elif v in ("->", "."):
                self.eat()
                if self.kind() != "id":
                    raise ParseError("member name expected")
                e = ("member", v, e, self.eat())
            elif v in ("++", "--"):
                self.eat()
                e = ("post", v, e)
            elif v == "[":
                raise ParseError("array subscript is outside the subset")
            else:
                return e


class Unit:
    """a preprocessed translation unit"""

    def __init__(self, text):
        self.toks = tokenize(text)
        self.types = typedef_names(self.toks)
        self.raw = find_functions(self.toks)

    def func(self, name):
        if name not in self.raw:
            raise ParseError("function %s not found" % name)
        ret_t, par_t, body_t = self.raw[name]
        ret = [v for k, v in ret_t if v not in ("__attribute__",)]
        # drop __attribute__ ((…)) groups from the return type
        rt, i = [], 0
        while i < len(ret_t):
            if ret_t[i][1] == "__attribute__":
                i += 1
                d = 0
                while i < len(ret_t):
                    d += {"(": 1, ")": -1}.get(ret_t[i][1], 0)
                    i += 1
                    if d == 0:
                        break
                continue
            rt.append(ret_t[i][1])
            i += 1
        rt = [x for x in rt if x not in ("static", "extern", "inline", "__inline")]
        params = Parser(par_t, self.types).parse_params()
        p = Parser(body_t, self.types)
        body = p.parse_block_items()
        if not p.at_end():
            raise ParseError("trailing tokens in body of " + name)
        return Func(name, " ".join(rt), params, body)

    def struct(self, tag):
        return struct_members(self.toks, tag)

    def file_scope_decls(self, name):
        """token texts of every file-scope declaration statement (not a function definition or prototype) that
        mentions identifier `name`, e.g. ['static', 'PMutex', '*', 'm', '=', '(', '(', 'void', '*', ')', '0', ')']"""
        out, cur, depth, i, n = [], [], 0, 0, len(self.toks)
        bodies = set()
        for nm, (ret_t, par_t, body_t) in self.raw.items():
            bodies.add(id(body_t))
        while i < n:
            v = self.toks[i][1]
            if v == "{":
                depth += 1
            elif v == "}":
                depth -= 1
                if depth == 0:
                    # end of a function body or of an aggregate: a following `;` closes the aggregate's declaration
                    if not (i + 1 < n and self.toks[i + 1][1] == ";"):
                        cur = []
            elif depth == 0:
                if v == ";":
                    if name in cur and not (cur.index(name) + 1 < len(cur) and cur[cur.index(name) + 1] == "("):
                        out.append(cur)
                    cur = []
                else:
                    cur.append(v)
            i += 1
        return out

    def count_assignments(self, name):
        """how often `name =` (plain assignment or initialiser) occurs in the whole unit"""
        k = 0
        for i in range(len(self.toks) - 1):
            if self.toks[i] == ("id", name) and self.toks[i + 1] == ("op", "="):
                k += 1
        return k

#!/usr/bin/env python3
"""regenerate the generated tables of DESIGN.md §0.2 (status) and §0.4 (seeded changes) between their markers"""
import glob, json, os, re
V = os.path.dirname(os.path.dirname(os.path.abspath(__file__)))
man = json.load(open(os.path.join(V, "MANIFEST.json")))
props = {json.loads(l)["id"]: json.loads(l) for l in open(os.path.join(V, "properties.jsonl"))}
claimed = {c["property_id"]: c for c in man["checks"]}
rows = ["| id | title | status | obligations (theorems audited) | technique |", "|---|---|---|---|---|"]
for pid in sorted(props):
    if pid in claimed:
        ev = {}
        try:
            ev = json.load(open(os.path.join(V, "evidence", pid + ".json")))
        except OSError:
            pass
        ob = ev.get("coverage", {}).get("obligations", "?")
        rows.append("| %s | %s | claimed (proof) | %s | %s |" % (pid, props[pid]["title"], ob, claimed[pid].get("technique", "")))
    else:
        na = next((n for n in man.get("not_applicable", []) if n["property_id"] == pid), {})
        rows.append("| %s | %s | not claimed: %s | – | – |" % (pid, props[pid]["title"], na.get("reason", "")))
status = "\n".join(rows)
srow = ["| seed | breaks | needs to manifest | our checks (quick tier) | note |", "|---|---|---|---|---|"]
for d in sorted(glob.glob(os.path.join(V, "seeded", "*", "meta.json"))):
    m = json.load(open(d))
    oc = "; ".join("%s: %s" % (k, v.split(" — ")[0] if len(v) < 60 else v[:57] + "…") for k, v in sorted(m.get("our_checks_against_it", {}).items()))
    note = m.get("history") or m.get("strengthening") or m.get("note") or ""
    srow.append("| %s | %s | %s | %s | %s |" % (m["seed_id"], m["breaks_property"], m["needs_to_manifest"].replace("|", "/"), oc.replace("|", "/"), note.replace("|", "/")[:300]))
seeds = "\n".join(srow)
p = os.path.join(V, "DESIGN.md")
s = open(p).read()
def put(s, tag, body):
    a, b = "<!-- BEGIN %s -->" % tag, "<!-- END %s -->" % tag
    if a not in s:
        raise SystemExit("marker %s missing" % tag)
    return s[:s.index(a) + len(a)] + "\n" + body + "\n" + s[s.index(b):]
s = put(s, "STATUS", status)
s = put(s, "SEEDS", seeds)
open(p, "w").write(s)
print("tables updated")

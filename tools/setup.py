#!/usr/bin/env python3
"""MANIFEST.setup_cmd: build the Lean project (all theorems + driver) and the repo configuration cache, offline."""
import os
import sys

sys.path.insert(0, os.path.dirname(os.path.abspath(__file__)))
import pv
import extract

ps = extract.run()
for p in ps:
    print("extract:", p)
ok, out = pv.lake_build([])
print(out[-2000:])
cfg = pv.repo_config()
print("configured:", len(cfg["sources"]), "sources,", len(cfg["defines"]), "defines")
# warm the sanitizer object cache for the whole library
pv.build_objs(cfg, cfg["sources"], "asan")
sys.exit(0 if ok else 1)

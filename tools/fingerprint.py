#!/usr/bin/env python3
"""Source fingerprints: which of a property's source files differ from the text the hand-written models were last
validated against at the thorough tier (golden_sources.json, committed; comments and white space do not count).

A difference is NOT a violation and breaks nothing by itself.  It makes the quick tier of the properties anchored in
the changed files run their thorough campaign (all scenarios, real-kernel / real-thread runs, larger scopes): the
hand-written parts of a model are tied to the code by the correspondence run only, so a changed text gets the deep one.
(Properties whose thorough campaign takes longer than about five minutes keep their quick campaign: NO_ESCALATION.)

  fingerprint.py            show what differs for every property
  fingerprint.py --update   developer tool: record the current /repo text as validated (run the thorough tier first)"""
import hashlib
import json
import os
import re
import sys

HERE = os.path.dirname(os.path.abspath(__file__))
VERIF = os.path.dirname(HERE)
GOLDEN = os.path.join(VERIF, "golden_sources.json")
EXTRA = {"C19": ["src/puthread-posix.c"], "C05": ["src/patomic-c11.c", "src/pspinlock-c11.c"], "C03": ["src/pcondvariable.h"],
         "C08": ["src/psemaphore-posix.c"], "C16": ["src/pstring.c"], "C09": ["src/perror-private.h"], "C10": ["src/perror.c"]}
WHOLE = {"C18", "C20"}                         # anchored in the whole library
NO_ESCALATION = {"C07", "C11", "C20"}          # thorough campaign of 5-15 minutes


def _repo():
    return os.environ.get("VERIF_REPO", "/repo")


def _strip(text):
    text = re.sub(r"/\*.*?\*/", " ", text, flags=re.S)
    text = re.sub(r"//[^\n]*", " ", text)
    return re.sub(r"\s+", " ", text).strip()


def current():
    out = {}
    d = os.path.join(_repo(), "src")
    for f in sorted(os.listdir(d)):
        if f.endswith((".c", ".h")) or f == "CMakeLists.txt":
            try:
                t = open(os.path.join(d, f), errors="replace").read()
            except OSError:
                continue
            out["src/" + f] = hashlib.sha1((_strip(t) if f != "CMakeLists.txt" else t).encode()).hexdigest()[:16]
    return out


def anchors(prop):
    files = []
    for l in open(os.path.join(VERIF, "properties.jsonl")):
        d = json.loads(l)
        if d["id"] == prop:
            files = list(d["anchors"]["files"])
    return files + EXTRA.get(prop, [])


def changed(prop):
    """anchor files of the property whose text differs from the validated one (or are new / gone)"""
    try:
        gold = json.load(open(GOLDEN))["files"]
    except (OSError, ValueError, KeyError):
        return []
    cur = current()
    names = sorted(set(gold) | set(cur)) if prop in WHOLE else anchors(prop)
    return [f for f in names if gold.get(f) != cur.get(f)]


def escalate(prop):
    return prop not in NO_ESCALATION


def main():
    if "--update" in sys.argv:
        import subprocess
        head = subprocess.run(["git", "-C", _repo(), "rev-parse", "HEAD"], capture_output=True, text=True).stdout.strip()
        json.dump({"_comment": "text fingerprints (comments/white space stripped) of /repo/src at the commit the models were last validated "
                               "against at the thorough tier; see tools/fingerprint.py", "commit": head, "files": current()},
                  open(GOLDEN, "w"), indent=1, sort_keys=True)
        print("recorded", head)
        return
    for i in range(1, 21):
        p = "C%02d" % i
        print(p, changed(p) or "unchanged", "" if escalate(p) else "(no escalation)")


if __name__ == "__main__":
    main()

#!/usr/bin/env python3
"""regenerate MANIFEST.json from the table below (single place to edit)"""
import json, os
V = os.path.dirname(os.path.dirname(os.path.abspath(__file__)))
props = [json.loads(l) for l in open(os.path.join(V, "properties.jsonl"))]
TB = "Trusted: Lean 4.33.0 kernel + propext/Classical.choice/Quot.sound (audited by #print axioms on every run; no sorry/native_decide/bv_decide); tools/extract.py; the C harness, generator and canonicaliser of this property. "
claimed = {
 "C15": dict(text="Lean theorems (PV.Props.C15): every op sequence on PHashTable refines a map for all 64-bit keys/values, no UB in the hash arithmetic, listings are exactly the content, PList ops = sequence ops; tied by translator facts (bucket count, hash expression) and an ASan/UBSan differential run of the real code against model and spec.",
             note=TB + "Allocation failure excluded here (C18). Value (ppointer)-1 excluded (API-inherent).",
             technique="Lean 4 refinement proof + translator + differential correspondence (ASan/UBSan)", ref="§3 C15"),
 "C08": dict(text="Lean theorems (PV.Props.C08): for every capacity < 2^31-1, every rd/wr position and every op sequence the ring buffer never leaves its data area and answers exactly as one bounded FIFO byte queue (write all-or-nothing, read oldest min(len,used), used+free=capacity, clear); tied by a differential run of the real PShmBuffer (several handles, header positions compared after every op, exhaustive small scopes). Handles opened with a smaller size argument are a recorded finding (F6), proved as a concrete disagreement.",
             note=TB + "POSIX shm zero-fill and MAP_SHARED coherence; atomicity of concurrent ops rests on the per-name lock (C07). Partial: theorems are for handles sharing one modulus.",
             technique="Lean 4 refinement proof (ring buffer -> FIFO queue) + differential correspondence", ref="§3 C08"),
 "C12": dict(text="Lean theorems (PV.Props.C12): for each of BST, red-black and AVL and every comparator that is oriented and transitive (Std.TransCmp), every sequence of insert/replace/remove/lookup/foreach-with-any-stop/clear/count from the empty tree gives exactly the outputs of a strictly sorted association list (node count, found flags, lookup results, visited prefix in ascending order, destroy logs) and the C code never dereferences NULL; models are recursive transliterations of the parent-pointer loops, tied by a shape-exact differential run (tree shape reconstructed from comparator probes after every op; exhaustive small scopes + random).",
             note=TB + "The threaded (Morris) traversal's link restoration is covered by shape comparison before/after every traversal, not by a theorem (functional traversal proved). Allocation failure excluded (C18).",
             technique="Lean 4 refinement proof (tree algorithms -> sorted map) + shape-exact differential correspondence", ref="§3 C12"),
 "C13": dict(text="Lean theorems (PV.Props.C13): every AVL tree reachable by any op sequence has stored balance factors equal to the height differences and within [-1,1]; every reachable red-black tree has a black root, no red-red edge and equal black heights; hence fib(h+2) <= n+1 (AVL, i.e. h <= 1.4405 log2(n+2)) and 2^ceil(h/2) <= n+1 (red-black, i.e. h <= 2 log2(n+1)); a lookup compares at most h keys. Tied by the same shape-exact differential run plus harness-side balance / colourability / depth oracles on the reconstructed shape.",
             note=TB + "The logarithmic forms are stated in exact integer form (Fibonacci / power of two); the real-valued 1.44*log2 rewriting is not formalised.",
             technique="Lean 4 invariant proof by induction over operations + differential correspondence", ref="§3 C13"),
 "C14": dict(text="Lean theorems (PV.Props.C14 on top of C12): the destroy log of every call equals the spec's (old pair on replace, removed pair on remove, everything on clear) and over any history destroyed ++ stored is a permutation of inserted, so with distinct objects nothing is destroyed twice or while stored; for all three variants. Tied by notifier identity logs under ASan (heap-allocated keys/values: double destroy = double free).",
             note=TB + "Behaviour without notifiers (tree never frees/alters user objects) is checked by the harness only (objects verified intact), not a theorem.",
             technique="Lean 4 refinement + multiset (Perm) invariant over histories + differential correspondence under ASan", ref="§3 C14"),
 "C19": dict(text="Lean theorems (PV.Props.C19): p_uthread_sleep, for every number of handled signals, every remaining-time value and every ambient errno, returns 0 having re-issued the native sleep with exactly the remaining time, the slept intervals add up to the request, genuine errors are reported at once; the interruption test (return value vs errno) is a translator fact. Tied by a scripted clock_nanosleep (exhaustive for k<=6 interruptions) and real SIGALRM storms. The semaphore / shared-memory / socket parts are the *_eintr_transparent theorems and EINTR-injection campaigns of C06, C07 and C09.",
             note=TB + "POSIX clock_nanosleep contract (error as return value, errno untouched, remaining time written). Real-signal runs check only a lower bound on elapsed time. Until C06/C07/C09 are registered this check decides the sleep part only.",
             technique="Lean 4 proof over scripted syscall results (induction on the interruption script) + translator + scripted/real-signal differential", ref="§3 C19"),
 "C17": dict(text="Lean theorems (PV.Props.C17, 18 obligations): the byte-exact model of new_from_native / to_native equals an explicit layout spec for every buffer and length; native round trips in both directions for all addresses, ports, flow infos and scope ids; port byte order; size/family; any/loopback classification (mask proved by bit extensionality); too-small buffers fail without any write; no out-of-bounds read or write for every length; IPv4 text round trip for all 2^32 addresses with concrete ntop4/pton4; IPv6 text relative to the platform contract; creation-from-text dispatch and success conditions. Tied by translator facts (struct sizes/offsets from a compiled probe, config macros, loopback mask, statement order) and a differential run with exact-size heap buffers under ASan and a platform column from the harness's own inet_pton/inet_ntop.",
             note=TB + "inet_pton/inet_ntop/getaddrinfo are parameters of the model (platform contract pton6(ntop6 a) = a is a hypothesis of the IPv6 text theorem).",
             technique="Lean 4 proof (byte-level model = layout spec, round trips, bounds) + translator + differential correspondence under ASan", ref="§3 C17"),
 "C16": dict(text="Lean theorems (PV.Props.C16, 17 obligations): for ALL byte strings the parser model is total (structural recursion), every string copied into the fixed 1025-byte buffers is <= 1024 bytes (so the strcpy/sscanf stores stay in bounds), and the object is consistent (every listed section has a key, every listed key exists and has a retrievable value); for documents of the documented grammar (all quoting styles, trailing comments, blanks, CRLF, BOMs, repeated keys, empty sections, preamble, comment lines with '=', lines up to 1024 bytes) parse(render d) = the documented meaning (parse_render_partial: the excluded corners are explicit WF hypotheses), getters convert as documented. The model's sscanf patterns are decide-checked equal to the format strings extracted from the source. Tied by a differential run of the real parser under ASan/UBSan on rendered, mutated and random files (every getter compared, doubles bit for bit).",
             note=TB + "libc sscanf/fgets/isspace/atoi in the C locale agree with the model's semantics (validated by the differential only); no theorem about floating point (p_strtod compared bit-for-bit). parse_render is _partial: 'key =' without value, repeated section headers, NULs, over-long lines and a few quoting corners are WF hypotheses (documented in Props/C16.lean).",
             technique="Lean 4 proof (total parser model, bounds, grammar round trip) + translator (format strings) + differential correspondence under ASan/UBSan", ref="§3 C16"),
}
checks = []
for pid, c in sorted(claimed.items()):
    checks.append({"property_id": pid, "quick_cmd": "python3 tools/check.py %s --tier quick" % pid,
                   "thorough_cmd": "python3 tools/check.py %s --tier thorough" % pid,
                   "evidence_file": "evidence/%s.json" % pid,
                   "replay_cmd_template": "python3 tools/check.py %s --replay {path}" % pid, "engine": "lean4-pv",
                   "level_claimed": {"category": "proof", "text": c["text"], "design_ref": c["ref"]},
                   "level_note": c["note"], "technique": c["technique"]})
na = [{"property_id": p["id"], "reason": "not yet built (planned per DESIGN.md §3); no check is registered, nothing is claimed"}
      for p in props if p["id"] not in claimed]
m = {"version": 1, "setup_cmd": "python3 tools/setup.py",
     "hooks": {"guard": "PLIBSYS_VERIF",
               "enable": "harnesses compile /repo/src/*.c themselves with -DPLIBSYS_VERIF (no source hook exists; the define is reserved)",
               "baseline_off_cmd": "cmake -G Ninja -S /repo -B /repo/_build && cmake --build /repo/_build && ctest --test-dir /repo/_build -j8 --timeout 900",
               "source_commits": [], "add_only": True},
     "engines": [{"name": "lean4-pv", "path": "lean", "serves_properties": sorted(claimed),
                  "kind_free_text": "Lean 4 models + theorems (lake project PV), model driver pvdriver, C harnesses built from /repo/src, tools/check.py"}],
     "checks": checks, "not_applicable": na,
     "notes": "See DESIGN.md. known_findings.json lists recorded findings and fix: commits."}
json.dump(m, open(os.path.join(V, "MANIFEST.json"), "w"), indent=1)
print("claimed:", sorted(claimed))

#!/usr/bin/env python3
"""regenerate MANIFEST.json from the table below (single place to edit)"""
import json, os
V = os.path.dirname(os.path.dirname(os.path.abspath(__file__)))
props = [json.loads(l) for l in open(os.path.join(V, "properties.jsonl"))]
TB = "Trusted: Lean 4.33.0 kernel + propext/Classical.choice/Quot.sound (audited by #print axioms on every run; no sorry/native_decide/bv_decide); tools/extract.py; the C harness, generator and canonicaliser of this property. "
claimed = {
 "C15": dict(text="Lean theorems (PV.Props.C15): every op sequence on PHashTable refines a map for all 64-bit keys/values, no UB in the hash arithmetic, listings are exactly the content, PList ops = sequence ops; tied by translator facts (bucket count, hash expression) and an ASan/UBSan differential run of the real code against model and spec.",
             note=TB + "Allocation failure excluded here (C18). Value (ppointer)-1 excluded (API-inherent).",
             technique="Lean 4 refinement proof + translator + differential correspondence (ASan/UBSan)", ref="§3 C15"),
 "C08": dict(text="Lean theorems (PV.Props.C08): for every capacity < 2^31-1, every rd/wr position and every op sequence the ring buffer never leaves its data area and answers exactly as one bounded FIFO byte queue (write all-or-nothing, read oldest min(len,used), used+free=capacity, clear); tied by a differential run of the real PShmBuffer (several handles, header positions compared after every op, exhaustive small scopes). Handles opened with a smaller size argument are a recorded finding (F6), proved as a concrete disagreement.",
             note=TB + "POSIX shm zero-fill and MAP_SHARED coherence; atomicity of concurrent ops rests on the per-name lock (C07). Partial: theorems are for handles sharing one modulus.",
             technique="Lean 4 refinement proof (ring buffer -> FIFO queue) + differential correspondence", ref="§3 C08"),
}
checks = []
for pid, c in sorted(claimed.items()):
    checks.append({"property_id": pid, "quick_cmd": "python3 tools/check.py %s --tier quick" % pid,
                   "thorough_cmd": "python3 tools/check.py %s --tier thorough" % pid,
                   "evidence_file": "evidence/%s.json" % pid,
                   "replay_cmd_template": "python3 tools/check.py %s --replay {path}" % pid, "engine": "lean4-pv",
                   "level_claimed": {"category": "proof", "text": c["text"], "design_ref": c["ref"]},
                   "level_note": c["note"], "technique": c["technique"]})
na = [{"property_id": p["id"], "reason": "not yet built (planned per DESIGN.md §3); no check is registered, nothing is claimed"}
      for p in props if p["id"] not in claimed]
m = {"version": 1, "setup_cmd": "python3 tools/setup.py",
     "hooks": {"guard": "PLIBSYS_VERIF",
               "enable": "harnesses compile /repo/src/*.c themselves with -DPLIBSYS_VERIF (no source hook exists; the define is reserved)",
               "baseline_off_cmd": "cmake -G Ninja -S /repo -B /repo/_build && cmake --build /repo/_build && ctest --test-dir /repo/_build -j8 --timeout 900",
               "source_commits": [], "add_only": True},
     "engines": [{"name": "lean4-pv", "path": "lean", "serves_properties": sorted(claimed),
                  "kind_free_text": "Lean 4 models + theorems (lake project PV), model driver pvdriver, C harnesses built from /repo/src, tools/check.py"}],
     "checks": checks, "not_applicable": na,
     "notes": "See DESIGN.md. known_findings.json lists recorded findings and fix: commits."}
json.dump(m, open(os.path.join(V, "MANIFEST.json"), "w"), indent=1)
print("claimed:", sorted(claimed))

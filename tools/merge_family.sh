#!/bin/bash
# merge_family.sh <name>: fetch /tmp/agents/<name>/verif branch family-<name>, merge, union-resolve the three hook files
set -e
N=$1
cd /verif
git add -A; git commit -qm "wip before merging $N" || true
git fetch -q ${AGENTS_DIR:-/tmp/agents}/$N/verif family-$N:family-$N
git merge --no-edit family-$N >/tmp/merge-$N.log 2>&1 || true
grep -i conflict /tmp/merge-$N.log || true
for f in lean/Main.lean lean/PV.lean; do if grep -q '<<<<<<<' $f; then python3 tools/union_merge.py --dedup $f; fi; done
if grep -q '<<<<<<<' tools/extract.py; then
  # both sides append code near the end of extract.py: git interleaves the hunks. Rebuild the file as
  # main's version + the lines the branch added since the merge base, inserted before `def run():`
  BASE=$(git merge-base HEAD family-$N)
  git show HEAD:tools/extract.py > /tmp/extract_main_$N.py
  git diff $BASE family-$N -- tools/extract.py | sed -n '/^@@/,$p' | grep '^+' | sed 's/^+//' > /tmp/extract_add_$N.py
  python3 - "$N" <<'PYEOF'
import sys, re, ast
n = sys.argv[1]
main = open('/tmp/extract_main_%s.py' % n).read()
add = open('/tmp/extract_add_%s.py' % n).read()
add = re.sub(r"^GENERATORS = \[gen_consts, (\w+)\]$", r"GENERATORS.append(\1)", add, flags=re.M)
i = main.index("\ndef run():")
new = main[:i] + "\n\n" + add + "\n" + main[i:]
ast.parse(new)
open('/verif/tools/extract.py', 'w').write(new)
PYEOF
fi
sort -u lean/PV.lean -o lean/PV.lean
# evidence files conflict trivially: keep ours
for f in $(git diff --name-only --diff-filter=U); do case $f in evidence/*) git checkout --ours $f;; esac; done
python3 -c "import ast;ast.parse(open('/verif/tools/extract.py').read())"
grep -n "^GENERATORS" tools/extract.py
git diff --name-only --diff-filter=U

#!/bin/bash
# merge_family.sh <name>: fetch /tmp/agents/<name>/verif branch family-<name>, merge, union-resolve the three hook files
set -e
N=$1
cd /verif
git add -A; git commit -qm "wip before merging $N" || true
git fetch -q /tmp/agents/$N/verif family-$N:family-$N
git merge --no-edit family-$N >/tmp/merge-$N.log 2>&1 || true
grep -i conflict /tmp/merge-$N.log || true
for f in lean/Main.lean lean/PV.lean; do if grep -q '<<<<<<<' $f; then python3 tools/union_merge.py --dedup $f; fi; done
if grep -q '<<<<<<<' tools/extract.py; then python3 tools/union_merge.py tools/extract.py; fi
sort -u lean/PV.lean -o lean/PV.lean
# evidence files conflict trivially: keep ours
for f in $(git diff --name-only --diff-filter=U); do case $f in evidence/*) git checkout --ours $f;; esac; done
python3 -c "import ast;ast.parse(open('/verif/tools/extract.py').read())"
grep -n "^GENERATORS" tools/extract.py
git diff --name-only --diff-filter=U

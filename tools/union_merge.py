#!/usr/bin/env python3
"""resolve git conflict markers by keeping both sides (ours first), dropping exact duplicate lines inside the region"""
import sys
DEDUP = "--dedup" in sys.argv
sys.argv = [a for a in sys.argv if a != "--dedup"]
for p in sys.argv[1:]:
    out, side, seen = [], None, set()
    for l in open(p):
        if l.startswith("<<<<<<< "): side = "ours"; seen = set(); continue
        if l.startswith("=======") and side: side = "theirs"; continue
        if l.startswith(">>>>>>> ") and side: side = None; continue
        if side and DEDUP:
            if l in seen: continue
            seen.add(l)
        out.append(l)
    open(p, "w").write("".join(out))

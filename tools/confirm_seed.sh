#!/bin/bash
# confirm a seeded change: usage confirm_seed.sh <PROP> <mdir> [ctest-regex]
# several of these can run at once when each runs in private namespaces (own /dev/shm, System V IPC, loopback) and its own clone:
#   CONFIRM_VER=/tmp/confirm/verifN unshare -m -i -n bash -c 'mount -t tmpfs tmpfs /dev/shm; ip link set lo up; bash tools/confirm_seed.sh …'
# 1. fresh worktree of /repo HEAD  2. apply patch, build, run the test suite (or regex)  3. demo with change (must fail)
# 4. run our check(s) against the patched tree  5. revert, rebuild, demo without change (must pass)  6. clean up
set -u
PROP=$1; MD=$2; RX=${3:-}
NAME=$(echo "$MD" | tr '/' '_')
WT=/tmp/confirm/wt-$NAME
LOG=/tmp/confirm/logs/$NAME.log
exec >"$LOG" 2>&1
git -C /repo worktree remove --force "$WT" 2>/dev/null
git -C /repo worktree add -q --detach "$WT" HEAD || exit 2
cd "$WT"
if ! git apply "$MD/patch.diff"; then echo "RESULT patch-does-not-apply"; git -C /repo worktree remove --force "$WT"; exit 3; fi
cmake -G Ninja -S "$WT" -B "$WT/_b" -DCMAKE_BUILD_TYPE=RelWithDebInfo >/dev/null 2>&1
cmake --build "$WT/_b" 2>&1 | tail -2
if [ -n "$RX" ]; then ctest --test-dir "$WT/_b" -R "$RX" --timeout 900 2>&1 | tail -4; else ctest --test-dir "$WT/_b" -j6 --timeout 900 2>&1 | tail -4; fi
DEMO=$(ls "$MD"/demo.c "$MD"/demo.cpp 2>/dev/null | head -1)
CC=gcc; case "$DEMO" in *.cpp) CC=g++;; esac
$CC "$DEMO" -I"$WT/src" -I"$WT/_b/src" -L"$WT/_b/src" -lplibsys -lpthread -lm -ldl -lrt -Wl,-rpath,"$WT/_b/src" -o "$WT/_b/demo" && { timeout 300 "$WT/_b/demo" | tail -3; echo "DEMO-WITH-CHANGE rc=${PIPESTATUS[0]}"; }
# run the checks from a private clone of /verif so that evidence/ and lean/PV/Generated of /verif are not touched
VER=${CONFIRM_VER:-/tmp/confirm/verif}
if [ -d "$VER/.git" ]; then git -C "$VER" pull -q --ff-only /verif main 2>/dev/null || { rm -rf "$VER"; git clone -q /verif "$VER"; }; else git clone -q /verif "$VER"; fi
for P in $PROP; do
  echo "== our check $P against the patched tree"
  VERIF_REPO="$WT" python3 "$VER/tools/check.py" "$P" --tier quick 2>&1 | grep -E "VIOLATION|KNOWN|->|^\[" | cut -c1-400 | head -12
  echo "CHECK-$P rc=${PIPESTATUS[0]}"
done
git checkout -- . && cmake --build "$WT/_b" 2>&1 | tail -1
$CC "$DEMO" -I"$WT/src" -I"$WT/_b/src" -L"$WT/_b/src" -lplibsys -lpthread -lm -ldl -lrt -Wl,-rpath,"$WT/_b/src" -o "$WT/_b/demo" && { timeout 300 "$WT/_b/demo" | tail -2; echo "DEMO-WITHOUT-CHANGE rc=${PIPESTATUS[0]}"; }
cd /; git -C /repo worktree remove --force "$WT"
echo "RESULT done"

#!/usr/bin/env python3
"""NOTE: runs the check from /verif itself, so evidence/ and lean/PV/Generated are rewritten for the mutated tree:
re-run `tools/extract.py` and the affected checks on the clean tree afterwards (or use tools/confirm_seed.sh, which works in a clone).
Self-validation: apply a source mutation to a scratch worktree, run a check against it, report.
usage: selfval.py <worktree> <Cxx> <file> <old-snippet> <new-snippet> [--tier quick]
or programmatic use via run_mutant()."""
import os, subprocess, sys

def run_mutant(wt, prop, fname, old, new, tier="quick", count=1):
    p = os.path.join(wt, "src", fname)
    s = open(p).read()
    if s.count(old) < 1:
        return "SNIPPET-NOT-FOUND"
    open(p, "w").write(s.replace(old, new, count))
    try:
        env = dict(os.environ, VERIF_REPO=wt)
        r = subprocess.run([sys.executable, os.path.join(os.path.dirname(os.path.abspath(__file__)), "check.py"), prop, "--tier", tier],
                           env=env, stdout=subprocess.PIPE, stderr=subprocess.PIPE, text=True)
        lines = [l for l in r.stdout.splitlines() if l.startswith(("VIOLATION", "KNOWN-FINDING"))]
        detail = [l for l in r.stderr.splitlines() if l.startswith("  ->")]
        return "rc=%d %s | %s" % (r.returncode, "; ".join(l[:160] for l in lines[:2]), "; ".join(d[:200] for d in detail[:1]))
    finally:
        subprocess.run(["git", "-C", wt, "checkout", "--", "."], check=True)

if __name__ == "__main__":
    print(run_mutant(*sys.argv[1:6]))

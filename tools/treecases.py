#!/usr/bin/env python3
"""Audit of the rebalancing cases of ptree-rb.c / ptree-avl.c IN THEIR CONTEXTS (developer tool; decides nothing).

  treecases.py audit            which case contexts do the deterministic cases of the quick tier reach, which only the
                                seeded random sequences (5 seeds), which only a wider random pool
  treecases.py extend [N]       keep the witness file and ADD witnesses for contexts no deterministic case reaches, from a pool of
                                3*N targeted constructions: random sparse (Fibonacci-like) AVL shapes of height 4..8 built
                                rotation-free by level-order insertion, then removals that shrink several levels in a row
  treecases.py regen [N]        choose (greedily, from a pool of 2*3*N random ins/rem sequences) witnesses for every context
                                the deterministic cases do not reach and REWRITE tools/props/tree_witnesses.ops

Line coverage (tools/covaudit.py) cannot tell a rotation at the root from one deep in the tree, nor which loop iteration
preceded it.  This tool instruments a SCRATCH git worktree of the repo (never /repo itself): every `break` / `continue` /
rotation call / recolouring of the four fix-up loops records its source line and, for a rotation, the position of the
rotated node (root, left child, right child), whether an inner subtree changes sides, and the balance factor involved;
p_tree_{rb,avl}_remove records the kind of node it unlinks.  A *context* is one such record (U), two consecutive records
of one call (B), the kind of unlinked node (H), that kind followed by the first fix-up step (HG), the last step (END).
The harness harness/tree.c is built against the instrumented tree and fed the op files of tools/props/trees.py.
The anchors are found by function name and statement text; an unknown shape of the source raises."""
import json
import os
import random
import re
import shutil
import subprocess
import sys
import tempfile

HERE = os.path.dirname(os.path.abspath(__file__))
sys.path.insert(0, HERE)

TRACER = r'''
#include <stdio.h>
#include <stdlib.h>
static FILE *pvt_f; static char pvt_buf[8192]; static size_t pvt_n;
static void pvt_flush (void) { if (!pvt_f) { const char *p = getenv ("PV_TRACE"); pvt_f = fopen (p ? p : "/dev/null", "a"); } if (pvt_n) { fprintf (pvt_f, "%s\n", pvt_buf); fflush (pvt_f); } pvt_n = 0; pvt_buf[0] = 0; }
static void pvt_begin (const char *w) { static int reg; if (!reg) { reg = 1; atexit (pvt_flush); } pvt_flush (); pvt_n = (size_t) snprintf (pvt_buf, sizeof pvt_buf, "%s", w); }
static void pvt (int line) { if (pvt_n < sizeof pvt_buf - 64) pvt_n += (size_t) snprintf (pvt_buf + pvt_n, sizeof pvt_buf - pvt_n, " L%d", line); }
static void pvt_s (const char *s) { if (pvt_n < sizeof pvt_buf - 64) pvt_n += (size_t) snprintf (pvt_buf + pvt_n, sizeof pvt_buf - pvt_n, " %s", s); }
'''


def func_ranges(src):
    """{name: (first, last)} by the repo's style: name at column 0, `{` and `}` at column 0"""
    out, i = {}, 0
    while i < len(src):
        if src[i].startswith("{"):
            j, name = i - 1, None
            while j >= 0 and i - j < 40:
                m = re.match(r"([A-Za-z_]\w*)\s*\(", src[j])
                if m:
                    name = m.group(1)
                    break
                j -= 1
            k = i
            while k < len(src) and not src[k].startswith("}"):
                k += 1
            if name:
                out[name] = (i + 1, k + 1)
            i = k
        i += 1
    return out


def instrument(wt, fn, kind):
    p = os.path.join(wt, "src", fn)
    src = open(p).read().split("\n")
    fr = func_ranges(src)
    need = ["pp_tree_%s_balance_insert" % kind, "pp_tree_%s_balance_remove" % kind, "p_tree_%s_insert" % kind, "p_tree_%s_remove" % kind]
    for n in need:
        if n not in fr:
            raise SystemExit("treecases: %s: function %s not found" % (fn, n))
    ranges = [fr[need[0]], fr[need[1]]]
    out, nb, nrot = [], 0, 0
    for i, ln in enumerate(src, 1):
        inr = any(lo <= i <= hi for lo, hi in ranges)
        s = ln.strip()
        for which in ("insert", "remove"):
            lo, hi = fr["p_tree_%s_%s" % (kind, which)]
            if lo <= i <= hi and re.fullmatch(r"cur_node\s*=\s*\*?root_node;", s):
                ln += ' pvt_begin ("%s-%s");' % (kind, which[:3])
                nb += 1
        if inr and s in ("break;", "continue;"):
            out.append("{ pvt (%d); %s }" % (i, s))
            continue
        m = re.match(r"pp_tree_(rb|avl)_rotate_(\w+) \((.*), root\);$", s)
        if inr and m:
            x, nrot = m.group(3), nrot + 1
            if kind == "rb":   # x goes DOWN; context: its position, the inner subtree that changes sides
                inner = "((PTreeBaseNode *) (%s))->right->left" % x if m.group(2) == "left" else "((PTreeBaseNode *) (%s))->left->right" % x
                out.append('{ PTreeRBNode *pvx = (%s); pvt (%d); pvt_s (pvx->parent == NULL ? "root" : pvx->parent->base.left == (PTreeBaseNode *) pvx ? "lc" : "rc"); pvt_s ((%s) ? "inner" : "noinner"); %s }' % (x, i, inner, s))
            else:              # x goes UP (single) / its inner child goes up (double); context: position of x->parent
                if m.group(2) in ("left", "right"):
                    inner = "(%s)->base.left" % x if m.group(2) == "left" else "(%s)->base.right" % x
                    extra = 'pvt_s (pvx->balance_factor == 0 ? "bf0" : "bf1");'
                else:
                    g = "((PTreeAVLNode *) (%s)->base.right)" % x if m.group(2) == "left_right" else "((PTreeAVLNode *) (%s)->base.left)" % x
                    inner = "%s->base.left != NULL || %s->base.right != NULL" % (g, g)
                    extra = 'pvt_s (%s->balance_factor == 0 ? "g0" : %s->balance_factor == 1 ? "g+" : "g-");' % (g, g)
                out.append('{ PTreeAVLNode *pvx = (%s), *pvp = pvx->parent; pvt (%d); pvt_s (pvp->parent == NULL ? "root" : pvp->parent->base.left == (PTreeBaseNode *) pvp ? "lc" : "rc"); pvt_s ((%s) ? "inner" : "noinner"); %s %s }' % (x, i, inner, extra, s))
            continue
        if inr and kind == "avl" and re.match(r"parent->balance_factor = -?[01];$", s):
            out.append("{ pvt (%d); %s }" % (i, s))
            continue
        if inr and kind == "rb" and (re.fullmatch(r"sibling->color\s*= P_TREE_RB_COLOR_RED;", s) or
                                     (re.fullmatch(r"gparent->color\s*= P_TREE_RB_COLOR_RED;", s) and any(x.strip() == "continue;" for x in src[i:i + 6]))):
            out.append("{ pvt (%d); %s }" % (i, s))
            continue
        if s == "prev_node = cur_node->left;":
            out.append(ln + ' pvt_s (prev_node->right ? "2ch-deep" : "2ch-direct"); pvt_s (cur_node == *root_node ? "at-root" : "at-inner");')
            continue
        if s.startswith("child_node = cur_node->left == NULL"):
            out.append(ln + ' pvt_s (child_node == NULL ? "leaf" : child_node == cur_node->left ? "onlyL" : "onlyR"); pvt_s (cur_node == *root_node ? "unlink-root" : "unlink-inner");'
                       + (' pvt_s (pp_tree_rb_is_black ((PTreeRBNode *) cur_node) ? "blk" : "red");' if kind == "rb" else ""))
            continue
        if s.startswith("if (*cur_node != NULL) {"):
            out.append(ln + ' pvt_s ("replace");')
            continue
        out.append(ln)
    if nb != 2 or nrot < 8:
        raise SystemExit("treecases: %s: unexpected shape (entry anchors %d, rotation calls %d)" % (fn, nb, nrot))
    txt = "\n".join(out)
    e = txt.find("\n", txt.rfind("#include"))
    open(p, "w").write(txt[:e + 1] + TRACER + txt[e + 1:])


def feats(line):
    t = line.split()
    kind, t = t[0], t[1:]
    head = []
    while t and not t[0].startswith("L"):
        head.append(t.pop(0))
    groups = []
    for x in t:
        if x.startswith("L"):
            groups.append(x)
        else:
            groups[-1] += "," + x
    F = set()
    if head:
        F.add(kind + " H " + " ".join(head))
    for g in groups:
        F.add(kind + " U " + g)
    for a, b in zip(groups, groups[1:]):
        F.add(kind + " B " + a + " > " + b)
    if head and groups:
        F.add(kind + " HG " + " ".join(head) + " > " + groups[0])
    if groups:
        F.add(kind + " END " + groups[-1])
    return F


class Audit:
    def __init__(self):
        repo = os.environ.get("VERIF_REPO", "/repo")
        self.tmp = tempfile.mkdtemp(prefix="treecases-")
        self.wt = os.path.join(self.tmp, "wt")
        subprocess.run(["git", "-C", repo, "worktree", "add", "--detach", self.wt, "HEAD"], check=True, stdout=subprocess.DEVNULL, stderr=subprocess.DEVNULL)
        self.repo = repo
        instrument(self.wt, "ptree-rb.c", "rb")
        instrument(self.wt, "ptree-avl.c", "avl")
        os.environ["VERIF_REPO"] = self.wt
        import pv
        self.pv = pv
        self.exe = pv.build_harness("tree", pv.repo_config(), ["tree.c"], san="asan")

    def close(self):
        subprocess.run(["git", "-C", self.repo, "worktree", "remove", "--force", self.wt], stdout=subprocess.DEVNULL, stderr=subprocess.DEVNULL)
        shutil.rmtree(self.tmp, ignore_errors=True)

    def trace(self, cases):
        tf = os.path.join(self.tmp, "trace")
        if os.path.exists(tf):
            os.unlink(tf)
        inp = "\n".join("\n".join(c) for c in cases) + "\n"
        p = subprocess.run([self.exe], input=inp, stdout=subprocess.PIPE, stderr=subprocess.PIPE, text=True, env=dict(os.environ, PV_TRACE=tf))
        if p.returncode != 0:
            raise SystemExit("treecases: harness failed: " + p.stderr[-400:])
        return [l for l in open(tf).read().split("\n") if l]

    def featset(self, cases):
        F = set()
        for l in self.trace(cases):
            F |= feats(l)
        return F


class FakeChk:
    def __init__(self, seed):
        self.rng = random.Random(seed)
        self.tier = "quick"

    def bump(self, k):
        pass


def deterministic(pv, trees, witnesses=True):
    det = pv.load_corpus("trees") + trees.null_cases() + trees.oom_cases() + trees.extra_cases() + (trees.witness_cases() if witnesses else [])
    return det, list(trees.exhaustive_seqs(3)) + list(trees.exhaustive_orders(4))


def gen(rng, ty):
    n = rng.choice([3, 4, 5, 6, 7, 8, 9, 10, 12, 14, 16, 20, 24, 32])
    style = rng.choice(["rand", "asc", "desc", "perfect", "zig"])
    keys = list(range(1, n + 1))
    if style == "rand":
        rng.shuffle(keys)
    elif style == "desc":
        keys.reverse()
    elif style == "zig":
        keys = [k for p in zip(keys[:n // 2], reversed(keys[n // 2:])) for k in p] + ([keys[n // 2]] if n % 2 else [])
    elif style == "perfect":
        keys = sorted(keys, key=lambda k: (-(k & -k), k))
    ops = ["ins %d" % (2 * k) for k in keys]        # even keys; odd ones can go between them later
    present = set(2 * k for k in keys)
    for _ in range(rng.choice([1, 2, 3, 5, 8, n, 2 * n])):
        if rng.random() < 0.65 and present:
            k = rng.choice(sorted(present))
            ops.append("rem %d" % k)
            present.discard(k)
        else:
            k = rng.randrange(1, 2 * n + 2)
            ops.append("ins %d" % k)
            present.add(k)
    return ["new %s" % ty] + ops


def avl_shape(rng, h, sparse):
    """a random AVL shape of height h as nested (left, right) / None; `sparse` = probability of taking the uneven split"""
    if h == 0:
        return None
    if h == 1:
        return (None, None)
    r = rng.random()
    if r < sparse / 2:
        return (avl_shape(rng, h - 1, sparse), avl_shape(rng, h - 2, sparse))
    if r < sparse:
        return (avl_shape(rng, h - 2, sparse), avl_shape(rng, h - 1, sparse))
    return (avl_shape(rng, h - 1, sparse), avl_shape(rng, h - 1, sparse))


def bfs_keys(shape):
    """in-order keys 2, 4, 6 … on the shape, listed level by level: inserting them in this order builds exactly the shape
    without a single rotation (every prefix of a level order of an AVL shape is an AVL shape)"""
    ctr = [0]
    def lab(t):
        if t is None:
            return None
        l = lab(t[0])
        ctr[0] += 2
        k = ctr[0]
        return (l, k, lab(t[1]))
    t = lab(shape)
    out, level = [], [t]
    while level:
        nxt = []
        for n in level:
            if n is not None:
                out.append(n[1])
                nxt += [n[0], n[2]]
        level = nxt
    return out


# ---- direct construction of a pair of consecutive AVL removal steps -------------------------------------------------------------
def fibmin(h):
    """a minimal AVL shape of height h (left-heavy everywhere)"""
    return None if h <= 0 else (None, None) if h == 1 else (fibmin(h - 1), fibmin(h - 2))


def mirror(t):
    return None if t is None else (mirror(t[1]), mirror(t[0]))


def with_bf(h, bf):
    """an AVL shape of height h >= 1 whose root has balance factor bf (height left - height right)"""
    if bf == 0:
        return (fibmin(h - 1), fibmin(h - 1))
    return (fibmin(h - 1), fibmin(h - 2)) if bf == 1 else (fibmin(h - 2), fibmin(h - 1))


def shrinkable(h, target):
    """a shape of height h that loses one level when the leaf `target` (a unique object) is removed"""
    return target if h == 1 else (shrinkable(h - 1, target), fibmin(h - 2))


def rot_site(step, below, hb, target):
    """the subtree P in which `step` (a rotation context string such as L293,lc,inner,g+) happens when its short side `below`
    (height hb before the removal, hb - 1 after) shrinks; returns (P, height of P before)"""
    w = step.split(",")
    left_branch = w[0] in ("L293", "L296")           # the shrinking node is the LEFT child
    if w[0] in ("L293", "L316"):                     # double rotation: sibling leans towards the shrinking side, g = its inner child
        g = with_bf(hb, {"g+": 1, "g-": -1, "g0": 0}[w[3]])
        sib = (g, fibmin(hb - 1)) if left_branch else (fibmin(hb - 1), g)
    else:                                            # single rotation: sibling even (bf0) or leaning away (bf1)
        if w[3] == "bf0":
            sib = (fibmin(hb), fibmin(hb))
        else:
            sib = (fibmin(hb - 1), fibmin(hb)) if left_branch else (fibmin(hb), fibmin(hb - 1))
    return ((below, sib) if left_branch else (sib, below)), hb + 2


def construct_pair(a, b):
    """op list whose last removal performs step a and then, one level up, step b (both rotation contexts, a with `inner`)"""
    target = [None, None]                            # a list: its own identity (equal tuples are shared by the compiler)
    wa, wb = a.split(","), b.split(",")
    hb = 1 if "noinner" in a else 3                  # height of the shrinking side below the first rotation
    p1, h1 = rot_site(a, shrinkable(hb, target), hb, target)
    p2, h2 = rot_site(b, p1, h1, target)
    if (wa[1] == "lc") != (wb[0] in ("L293", "L296")):
        return None                                  # a's position contradicts b's branch
    top = p2 if wb[1] == "root" else (p2, fibmin(h2)) if wb[1] == "lc" else (fibmin(h2), p2)
    ctr = [0]
    found = []
    def lab(t):
        if t is None:
            return None
        l = lab(t[0])
        ctr[0] += 2
        k = ctr[0]
        if t is target:
            found.append(k)
        return (l, k, lab(t[1]))
    lt = lab(top)
    out, level = [], [lt]
    while level:
        nxt = []
        for n in level:
            if n is not None:
                out.append(n[1])
                nxt += [n[0], n[2]]
        level = nxt
    return ["new avl"] + ["ins %d" % k for k in out] + ["rem %d" % found[0]]


def gen_targeted(rng):
    """minimal-ish (Fibonacci-like) AVL trees of height 4..8 built rotation-free, then removals: a removal on the short side
    of a chain of uneven nodes shrinks level after level, each level with its own rotation kind"""
    h = rng.choice([4, 5, 5, 6, 6, 6, 7, 7, 8])
    keys = bfs_keys(avl_shape(rng, h, rng.choice([0.6, 0.8, 0.9, 1.0])))
    ops = ["ins %d" % k for k in keys]
    present = sorted(keys)
    for _ in range(rng.choice([1, 1, 2, 3, 5])):
        k = rng.choice(present)
        present.remove(k)
        ops.append("rem %d" % k)
    return ["new avl"] + ops


def pool_targeted(a, seeds, n):
    pool = []
    for seed in seeds:
        rng = random.Random(seed)
        cands = [gen_targeted(rng) for _ in range(n)]
        recs = a.trace(cands)
        i = 0
        for c in cands:
            k = len(c) - 1
            pool.append((c, [feats(l) for l in recs[i:i + k]]))
            i += k
        assert i == len(recs)
    return pool


def greedy(pool, todo, build_free=False):
    """witnesses (op list prefix, contexts gained) covering `todo`; the cost of a witness is its length (with build_free the
    rotation-free build-up of a targeted tree counts only a little: it cannot be shortened)"""
    chosen = []
    while todo:
        best = None
        for ci, (c, fs) in enumerate(pool):
            gain, bp = set(), None
            for i, f in enumerate(fs):
                g = f & todo
                if g:
                    gain |= g
                    score = len(gain) / ((i / 8.0 if build_free else i) + 8.0)
                    if bp is None or score > bp[0]:
                        bp = (score, i, set(gain))
            if bp and (best is None or bp[0] > best[0]):
                best = (bp[0], ci, bp[1], bp[2])
        if best is None:
            break
        _, ci, i, gain = best
        chosen.append((pool[ci][0][:i + 2], sorted(gain)))
        todo -= gain
    return chosen


def pool_of(a, seeds, n):
    pool = []
    for seed in seeds:
        rng = random.Random(seed)
        for ty in ("rb", "avl"):
            cands = [gen(rng, ty) for _ in range(n)]
            recs = a.trace(cands)
            i = 0
            for c in cands:
                k = len(c) - 1                       # one record per ins / rem op
                pool.append((c, [feats(l) for l in recs[i:i + k]]))
                i += k
            assert i == len(recs)
    return pool


def by_type(F):
    return ", ".join("%s %d" % (t, len([f for f in F if f.split()[1] == t])) for t in ("U", "H", "END", "B", "HG"))


def main():
    cmd = sys.argv[1] if len(sys.argv) > 1 else "audit"
    a = Audit()
    try:
        import props.trees as trees
        regen = cmd == "regen"
        if cmd == "extend":
            # keep the witness file, add witnesses for contexts that neither it nor the other deterministic cases reach,
            # from a pool of targeted AVL constructions (and the plain random pool)
            n = int(sys.argv[2]) if len(sys.argv) > 2 else 4000
            det, ex = deterministic(a.pv, trees, witnesses=True)
            A = a.featset(det) | a.featset(ex)
            pool = pool_targeted(a, (21, 22, 23), n) + pool_of(a, (31, 32, 33), n)
            # every rule-consistent pair (rotation, then rotation one level up) that nothing reached so far: built directly
            reached = A | set().union(*[f for c, fs in pool for f in fs])
            steps = [f[len("avl-rem U "):] for f in reached if f.startswith("avl-rem U L") and f.count(",") == 3]
            want = []
            for x in steps:
                wx = x.split(",")
                if wx[3] == "bf0" or wx[1] == "root":
                    continue                          # the loop ends after it
                for y in steps:
                    wy = y.split(",")
                    if wy[2] == "inner" and (wx[1] == "lc") == (wy[0] in ("L293", "L296")) and "avl-rem B %s > %s" % (x, y) not in reached:
                        want.append(construct_pair(x, y))
            if want:
                recs = a.trace(want)
                i = 0
                for c in want:
                    k = len(c) - 1
                    pool.append((c, [feats(l) for l in recs[i:i + k]]))
                    i += k
            print("direct constructions of rotation pairs: %d" % len(want))
            seen = set().union(*[f for c, fs in pool for f in fs])
            todo = seen - A
            print("deterministic: %d contexts (%s); targeted pool %d trees reaches %d, new: %d (%s)" % (len(A), by_type(A), len(pool), len(seen), len(todo), by_type(todo)))
            chosen = greedy(pool, set(todo), build_free=True)
            path = os.path.join(HERE, "props", "tree_witnesses.ops")
            txt = open(path).read().rstrip("\n").split("\n")
            base = sum(1 for l in txt if l.startswith("new "))
            out = txt + [""]
            for i, (c, g) in enumerate(chosen):
                out.append(("# %d (targeted AVL construction: level-order build, then removals): %s" % (base + i, "; ".join(g)))[:1500])
                out += c + [""]
            open(path, "w").write("\n".join(out))
            print("added %d witnesses, %d ops" % (len(chosen), sum(len(c) - 1 for c, g in chosen)))
            return 0
        det, ex = deterministic(a.pv, trees, witnesses=not regen)
        A = a.featset(det) | a.featset(ex)
        print("deterministic cases of the quick tier%s: %d contexts (%s)" % (" WITHOUT the witnesses" if regen else "", len(A), by_type(A)))
        if not regen:
            B = set()
            for seed in (1, 2, 3, 4, 5):
                c = FakeChk(seed)
                Bs = a.featset([trees.gen_random(c.rng, c, c.rng.choice([20, 80, 400, 600])) for _ in range(200)])
                print("  seed %d: random part reaches %d contexts, %d of them not reached deterministically" % (seed, len(Bs), len(Bs - A)))
                B |= Bs
            print("reached only by the random part (5 seeds): %d (%s)" % (len(B - A), by_type(B - A)))
            for f in sorted(B - A):
                print("   ", f)
            return 0
        n = int(sys.argv[2]) if len(sys.argv) > 2 else 5000
        pool = pool_of(a, (11, 12, 13), n)
        todo = set().union(*[f for c, fs in pool for f in fs]) - A
        print("pool %d sequences; contexts to witness: %d" % (len(pool), len(todo)))
        chosen = []
        while todo:
            best = None
            for ci, (c, fs) in enumerate(pool):
                gain, bp = set(), None
                for i, f in enumerate(fs):
                    g = f & todo
                    if g:
                        gain |= g
                        score = len(gain) / (i + 8.0)
                        if bp is None or score > bp[0]:
                            bp = (score, i, set(gain))
                if bp and (best is None or bp[0] > best[0]):
                    best = (bp[0], ci, bp[1], bp[2])
            if best is None:
                break
            _, ci, i, gain = best
            chosen.append((pool[ci][0][:i + 2], sorted(gain)))
            todo -= gain
        NOTIF = ("", " plain", " konly", " vonly", " wide", " plain wide", " konly wide", " vonly wide", " data", " plain data")
        head = open(os.path.join(HERE, "props", "tree_witnesses.ops")).read().split("\n")
        out = [l for l in head[:head.index("")] if l.startswith("#")] + [""]
        for i, (c, g) in enumerate(chosen):
            out.append(("# %d: %s" % (i, "; ".join(g)))[:1500])
            out.append("new %s%s" % (c[0].split()[1], NOTIF[i % len(NOTIF)]))
            out += c[1:] + [""]
        open(os.path.join(HERE, "props", "tree_witnesses.ops"), "w").write("\n".join(out))
        print("wrote %d witnesses, %d ops" % (len(chosen), sum(len(c) - 1 for c, g in chosen)))
        return 0
    finally:
        a.close()


if __name__ == "__main__":
    sys.exit(main())

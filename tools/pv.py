"""Common machinery for the plibsys Lean-4 verification checks (see /verif/DESIGN.md §2).

Everything here rebuilds from /repo's *working tree*; caches live under /verif/.cache keyed by
content hashes, so an edited source file is always recompiled.
"""
import fcntl
import hashlib
import json
import os
import random
import re
import shutil
import subprocess
import sys
import tempfile
import time
from concurrent.futures import ThreadPoolExecutor

VERIF = os.path.dirname(os.path.dirname(os.path.abspath(__file__)))
REPO = os.environ.get("VERIF_REPO", "/repo")
CACHE = os.path.join(VERIF, ".cache")
LEAN = os.path.join(VERIF, "lean")
HARNESS = os.path.join(VERIF, "harness")
EVIDENCE = os.path.join(VERIF, "evidence")
REPLAYS = os.path.join(EVIDENCE, "replays")
GUARD = "PLIBSYS_VERIF"
NCPU = os.cpu_count() or 4
ALLOWED_AXIOMS = {"propext", "Classical.choice", "Quot.sound"}

os.makedirs(CACHE, exist_ok=True)
os.makedirs(REPLAYS, exist_ok=True)


def log(*a):
    print(*a, file=sys.stderr, flush=True)


def sh(cmd, **kw):
    """run, return (rc, stdout+stderr)"""
    p = subprocess.run(cmd, stdout=subprocess.PIPE, stderr=subprocess.STDOUT, text=True, errors="replace", **kw)
    return p.returncode, p.stdout


def file_hash(paths, extra=""):
    h = hashlib.sha256(extra.encode())
    for p in sorted(paths):
        h.update(p.encode())
        try:
            with open(p, "rb") as f:
                h.update(f.read())
        except OSError:
            h.update(b"<missing>")
    return h.hexdigest()[:16]


class Lock:
    def __init__(self, name):
        self.path = os.path.join(CACHE, name + ".lock")

    def __enter__(self):
        self.f = open(self.path, "w")
        fcntl.flock(self.f, fcntl.LOCK_EX)
        return self

    def __exit__(self, *a):
        fcntl.flock(self.f, fcntl.LOCK_UN)
        self.f.close()


# --------------------------------------------------------------------------------------------
# repo configuration (plibsysconfig.h + define list), regenerated with the repo's own CMake

def _walk(d):
    out = []
    for root, _, files in os.walk(d):
        for f in files:
            out.append(os.path.join(root, f))
    return out


def repo_config():
    """returns dict(incdir=..., defines=[...], sources=[basename...])"""
    inputs = [os.path.join(REPO, "CMakeLists.txt"), os.path.join(REPO, "src", "CMakeLists.txt"),
              os.path.join(REPO, "src", "plibsysconfig.h.in")]
    inputs += _walk(os.path.join(REPO, "cmake")) + _walk(os.path.join(REPO, "platforms"))
    key = file_hash(inputs)
    d = os.path.join(CACHE, "cfg-" + key)
    meta = os.path.join(d, "meta.json")
    with Lock("cfg"):
        if not os.path.exists(meta):
            scratch = tempfile.mkdtemp(prefix="cfgbuild-", dir=CACHE)
            try:
                rc, out = sh(["cmake", "-G", "Ninja", "-S", REPO, "-B", scratch, "-DPLIBSYS_TESTS=OFF"])
                if rc != 0:
                    raise RuntimeError("cmake configure failed:\n" + out[-3000:])
                ninja = open(os.path.join(scratch, "build.ninja")).read()
                m = re.search(r"build src/CMakeFiles/plibsys\.dir/\S+\.c\.o:.*?\n\s+DEFINES = (.*)\n", ninja)
                defines = [x for x in m.group(1).split() if x != "-Dplibsys_EXPORTS"]
                sources = sorted(set(re.findall(r"build src/CMakeFiles/plibsys\.dir/(\S+\.c)\.o:", ninja)))
                os.makedirs(d, exist_ok=True)
                shutil.copy(os.path.join(scratch, "src", "plibsysconfig.h"), os.path.join(d, "plibsysconfig.h"))
                json.dump({"defines": defines, "sources": sources}, open(meta, "w"))
            finally:
                shutil.rmtree(scratch, ignore_errors=True)
    m = json.load(open(meta))
    m["incdir"] = d
    return m


SAN_FLAGS = {
    "asan": ["-fsanitize=address,undefined", "-fno-sanitize-recover=all", "-fno-omit-frame-pointer"],
    "asan-nosio": ["-fsanitize=address,undefined", "-fno-sanitize=signed-integer-overflow",
                   "-fno-sanitize-recover=all", "-fno-omit-frame-pointer"],
    "tsan": ["-fsanitize=thread"],
    "plain": [],
}


# VERIF_COV=1 (tools/covaudit.py): every gcc build of the harnesses and of the repo's objects is instrumented for gcov, so
# that the audit can list the lines of the anchored source files that the correspondence runs never executed
COV = bool(os.environ.get("VERIF_COV"))
COV_FLAGS = ["--coverage", "-fprofile-update=atomic"]


def cflags(cfg, san="asan", opt="-O1", cc="gcc"):
    cov = COV_FLAGS if COV and cc == "gcc" else []
    return ["-g", opt, "-w", "-D" + GUARD] + cfg["defines"] + ["-I" + os.path.join(REPO, "src"), "-I" + cfg["incdir"]] + SAN_FLAGS[san] + cov


def repo_sources():
    return [p for p in _walk(os.path.join(REPO, "src")) if p.endswith((".c", ".h"))]


def build_objs(cfg, files, san="asan", extra=(), tag="", cc="gcc", opt="-O1"):
    """compile the given /repo/src files (basenames) into objects; cached by content hash"""
    flags = cflags(cfg, san, opt, cc) + list(extra)
    key = file_hash(repo_sources() + [os.path.join(cfg["incdir"], "plibsysconfig.h")], " ".join(flags) + cc + tag)
    d = os.path.join(CACHE, "obj-" + key)
    os.makedirs(d, exist_ok=True)
    _touch(d)

    def one(f):
        o = os.path.join(d, f.replace("/", "_") + ".o")
        if os.path.exists(o):
            return o, 0, ""
        # (coverage builds compile straight to the final name: the .gcno/.gcda names derive from it)
        tmp = o if COV else o + ".%d.tmp" % os.getpid()
        rc, out = sh([cc] + flags + ["-c", os.path.join(REPO, "src", f), "-o", tmp])
        if rc == 0 and tmp != o:
            os.replace(tmp, o)
        return o, rc, out

    with ThreadPoolExecutor(NCPU) as ex:
        res = list(ex.map(one, files))
    for o, rc, out in res:
        if rc != 0:
            raise BuildError("compiling %s failed:\n%s" % (o, out[-3000:]))
    # (a coverage audit needs the .gcno / .gcda of every object directory of the run: C01 alone builds nine)
    _gc_cache("obj-", keep=40 if COV else 6)
    return [o for o, _, _ in res]


class BuildError(Exception):
    pass


def _touch(d):
    try:
        os.utime(d, None)
    except OSError:
        pass


def _gc_cache(prefix, keep, min_age_s=3 * 3600):
    """drop the oldest cache directories beyond `keep` — but never one used within the last hours: another check may be
    running at the same time and still link against it (a directory's mtime is refreshed on every use)"""
    now = time.time()
    ds = []
    for x in os.listdir(CACHE):
        if x.startswith(prefix):
            p = os.path.join(CACHE, x)
            try:
                ds.append((os.path.getmtime(p), p))
            except OSError:
                pass
    ds.sort(reverse=True)
    for mt, p in ds[keep:]:
        if now - mt > min_age_s:
            shutil.rmtree(p, ignore_errors=True)


def build_harness(name, cfg, harness_srcs, repo_files=None, san="asan", extra=(), link=(), cc="gcc", tag="", opt="-O1"):
    """link harness sources (under /verif/harness) with objects of the repo's files.
    repo_files=None -> the whole library as configured for this platform."""
    if repo_files is None:
        repo_files = cfg["sources"]
    objs = build_objs(cfg, repo_files, san, extra=extra, tag=tag, cc=cc, opt=opt)
    flags = cflags(cfg, san, opt, cc) + list(extra)
    hs = [os.path.join(HARNESS, s) for s in harness_srcs]
    if COV and cc == "gcc":
        hs = hs + [os.path.join(HARNESS, "cov_flush.c")]
        link = list(link) + ["-Wl,--wrap=_exit"]
    hdeps = hs + [p for p in _walk(HARNESS) if p.endswith(".h")]
    # repo sources are part of the key as well: a harness may `#include` a repo .c file directly
    key = file_hash(hdeps + objs + repo_sources(), " ".join(flags + list(link)) + cc + tag)
    d = os.path.join(CACHE, "bin-" + key)
    os.makedirs(d, exist_ok=True)
    _touch(d)
    exe = os.path.join(d, name)
    if not os.path.exists(exe):
        tmp = exe if COV else exe + ".%d.tmp" % os.getpid()
        rc, out = sh([cc] + flags + ["-I" + HARNESS] + hs + objs + ["-o", tmp, "-lpthread", "-ldl", "-lrt", "-lm"] + list(link))
        if rc != 0 and "undefined reference" in out and set(repo_files) != set(cfg["sources"]):
            # the files this harness isolates now call into other parts of the library (a rewrite may do that and
            # still be right): offer the rest of the library as an archive, from which only what is needed is taken
            rest = [f for f in cfg["sources"] if f not in repo_files]
            clang = cc.startswith("clang")
            rextra = list(extra) + (["-include", os.path.join(HARNESS, "uthread_clang_atomics.h")] if clang else [])
            robjs = build_objs(cfg, rest, san, extra=rextra, tag=tag, cc=cc, opt=opt)
            if clang:
                hs = hs + [os.path.join(HARNESS, "clang_atomics_impl.c")]
            lib = os.path.join(d, "librest.%d.a" % os.getpid())
            rc2, out2 = sh(["ar", "rcs", lib] + robjs)
            if rc2 == 0:
                rc, out = sh([cc] + flags + ["-I" + HARNESS] + hs + objs + [lib, "-o", tmp, "-lpthread", "-ldl", "-lrt", "-lm"] + list(link))
            try:
                os.unlink(lib)
            except OSError:
                pass
        if rc != 0:
            raise BuildError("linking harness %s failed:\n%s" % (name, out[-3000:]))
        if tmp != exe:
            os.replace(tmp, exe)
    _gc_cache("bin-", keep=40)
    return exe


# --------------------------------------------------------------------------------------------
# Lean side

def write_if_changed(path, content):
    try:
        if open(path).read() == content:
            return False
    except OSError:
        pass
    os.makedirs(os.path.dirname(path), exist_ok=True)
    with open(path, "w") as f:
        f.write(content)
    return True


def lake_build(targets):
    """returns (ok, output).  Serialised: several checks may run at once."""
    with Lock("lake"):
        rc, out = sh(["lake", "build"] + list(targets), cwd=LEAN)
    return rc == 0, out


def driver_path():
    return os.path.join(LEAN, ".lake", "build", "bin", "pvdriver")


_COMMENT_BLOCK = re.compile(r"/-.*?-/", re.S)
_COMMENT_LINE = re.compile(r"--.*")
FORBIDDEN = re.compile(r"\bsorry\b|\badmit\b|^\s*axiom\s|native_decide|bv_decide|implemented_by|\bunsafe\s|maxHeartbeats\s+0\b", re.M)


def strip_comments(src):
    return _COMMENT_LINE.sub("", _COMMENT_BLOCK.sub("", src))


def lean_files_for(module_roots):
    """all PV/*.lean files transitively imported by the given modules (within the project)"""
    seen, todo = set(), list(module_roots)
    while todo:
        m = todo.pop()
        if m in seen:
            continue
        p = os.path.join(LEAN, m.replace(".", "/") + ".lean")
        if not os.path.exists(p):
            continue
        seen.add(m)
        for imp in re.findall(r"^\s*import\s+(\S+)", open(p).read(), re.M):
            if imp.startswith("PV"):
                todo.append(imp)
    return sorted(seen)


def theorem_names(module):
    """fully qualified names of the theorems declared in a Props module"""
    src = strip_comments(open(os.path.join(LEAN, module.replace(".", "/") + ".lean")).read())
    ns, names = [], []
    for line in src.splitlines():
        m = re.match(r"\s*namespace\s+(\S+)", line)
        if m:
            ns.append(m.group(1))
            continue
        m = re.match(r"\s*end\s+(\S+)", line)
        if m and ns and ns[-1] == m.group(1):
            ns.pop()
            continue
        if re.match(r"\s*(?:@\[[^\]]*\]\s*)?private\s+theorem\b", line):
            continue   # private helpers are covered through the public theorems that use them
        m = re.match(r"\s*(?:@\[[^\]]*\]\s*)?(?:protected\s+)?theorem\s+(\S+)", line)
        if m:
            names.append(".".join(ns + [m.group(1)]))
    return names


def audit(modules):
    """source grep + #print axioms for every theorem of the given Props modules.
    returns dict(theorems=[...], axioms={thm:[...]}, problems=[...])"""
    problems = []
    for m in lean_files_for(modules):
        p = os.path.join(LEAN, m.replace(".", "/") + ".lean")
        hit = FORBIDDEN.search(strip_comments(open(p).read()))
        if hit:
            problems.append("forbidden construct %r in %s" % (hit.group(0).strip(), m))
    thms = []
    for m in modules:
        thms += theorem_names(m)
    src = "".join("import %s\n" % m for m in modules) + "".join("#print axioms %s\n" % t for t in thms)
    fd, tmp = tempfile.mkstemp(suffix=".lean", dir=CACHE)
    os.write(fd, src.encode())
    os.close(fd)
    try:
        with Lock("lake"):
            rc, out = sh(["lake", "env", "lean", tmp], cwd=LEAN)
    finally:
        os.unlink(tmp)
    axioms = {}
    # "'name' depends on axioms: [a, b]"  /  "'name' does not depend on any axioms"
    for m in re.finditer(r"'([^']+)' depends on axioms: \[([^\]]*)\]", out.replace("\n ", " ").replace("\n", " ")):
        axioms[m.group(1)] = [a.strip() for a in m.group(2).split(",") if a.strip()]
    for m in re.finditer(r"'([^']+)' does not depend on any axioms", out):
        axioms[m.group(1)] = []
    if rc != 0:
        problems.append("axiom audit did not run cleanly: " + out[-800:])
    for t in thms:
        if t not in axioms:
            problems.append("no axiom report for theorem " + t)
        else:
            bad = [a for a in axioms[t] if a not in ALLOWED_AXIOMS]
            if bad:
                problems.append("theorem %s depends on %s" % (t, bad))
    return {"theorems": thms, "axioms": axioms, "problems": problems}


def leanchecker(module):
    with Lock("lake"):
        rc, out = sh(["lake", "env", "leanchecker", module], cwd=LEAN)
    return rc == 0, out


# --------------------------------------------------------------------------------------------
# running both sides

def run_proc(cmd, inp, timeout=120, env=None):
    e = dict(os.environ)
    e.setdefault("ASAN_OPTIONS", "detect_leaks=0:abort_on_error=0:exitcode=99")
    e.setdefault("UBSAN_OPTIONS", "print_stacktrace=1:halt_on_error=1:exitcode=98")
    if env:
        e.update(env)
    try:
        p = subprocess.run(cmd, input=inp, stdout=subprocess.PIPE, stderr=subprocess.PIPE, text=True,
                           errors="replace", timeout=timeout, env=e)
        return p.returncode, p.stdout, p.stderr
    except subprocess.TimeoutExpired as ex:
        so = ex.stdout.decode(errors="replace") if isinstance(ex.stdout, bytes) else (ex.stdout or "")
        return -999, so, "TIMEOUT"


def run_model(family, ops_text, timeout=300):
    try:
        return run_proc([driver_path(), family], ops_text, timeout)
    except (FileNotFoundError, PermissionError):
        # another check is relinking the driver at this moment (lake replaces the file): wait for its build, then retry
        with Lock("lake"):
            pass
        time.sleep(0.5)
        return run_proc([driver_path(), family], ops_text, timeout)


def first_diff(a, b):
    for i, (x, y) in enumerate(zip(a, b)):
        if x != y:
            return i
    if len(a) != len(b):
        return min(len(a), len(b))
    return None


# --------------------------------------------------------------------------------------------
# known findings

def known_findings():
    p = os.path.join(VERIF, "known_findings.json")
    try:
        return json.load(open(p))
    except OSError:
        return {"findings": [], "fixed": []}


# --------------------------------------------------------------------------------------------
# verdicts / evidence

class Check:
    def __init__(self, prop, tier, seed):
        self.prop, self.tier, self.seed = prop, tier, seed
        self.t0 = time.time()
        self.rng = random.Random((hash(prop) & 0xffff) * 1000003 + seed) if False else random.Random("%s-%d" % (prop, seed))
        self.violations = []       # (replay_path, suffix)
        self.known_hits = []
        self.cov = {"evaluations": 0, "distinct_nontrivial": 0, "rule": "", "samples": [],
                    "obligations": 0, "discharged": 0, "checker_cmd": "", "trusted_base": [],
                    "traces_validated_against_impl": 0}
        self.assumptions = []
        self.distinct = set()
        self.kf = [f for f in known_findings().get("findings", []) if f.get("property") == prop]
        # source text of this property's files differs from the text last validated at the thorough tier:
        # the quick tier runs the thorough campaign (tools/fingerprint.py); evidence keeps the requested tier
        self.requested_tier = tier
        try:
            import fingerprint
            ch = fingerprint.changed(prop)
            if ch:
                self.cov["source_text_changed_since_validation"] = ch
                if tier == "quick" and fingerprint.escalate(prop) and not os.environ.get("VERIF_NO_ESCALATION"):
                    self.tier = "thorough"
                    self.cov["escalated_to_thorough_campaign"] = True
                    log("[%s] source text changed since the last thorough validation (%s): the quick tier runs the thorough campaign" % (prop, ", ".join(ch)[:200]))
        except Exception as e:             # the fingerprint is an aid, never a reason to fail
            log("[%s] fingerprint unavailable: %r" % (prop, e))

    # -- bookkeeping
    def count(self, case_text, nontrivial=True):
        self.cov["evaluations"] += 1
        if nontrivial:
            self.distinct.add(hashlib.sha1(case_text.encode()).digest()[:8])

    def sample(self, s, cap=6):
        if len(self.cov["samples"]) < cap:
            self.cov["samples"].append(s)

    def bump(self, key, n=1):
        h = self.cov.setdefault("branch_hits", {})
        h[key] = h.get(key, 0) + n

    # -- reporting
    def replay_file(self, text, suffix="ops"):
        name = "%s-%s.%s" % (self.prop, hashlib.sha1(text.encode()).hexdigest()[:10], suffix)
        p = os.path.join(REPLAYS, name)
        with open(p, "w") as f:
            f.write(text)
        return p

    def violation(self, replay_text, what, signature=None, no_input=False, suffix="ops"):
        """report unless `signature` is a listed known finding"""
        if signature is not None:
            for f in self.kf:
                if f.get("signature") == signature:
                    if signature not in self.known_hits:
                        self.known_hits.append(signature)
                        print("KNOWN-FINDING: property=%s %s" % (self.prop, f.get("what", what)), flush=True)
                    return False
        path = self.replay_file("# %s\n%s" % (what.replace("\n", "\n# "), replay_text), suffix)
        if any(v[0] == path for v in self.violations):
            return True
        self.violations.append((path, no_input))
        print("VIOLATION property=%s replay=%s%s" % (self.prop, path, " no-failing-input-found" if no_input else ""), flush=True)
        log("  -> " + what.splitlines()[0][:300])
        return True

    def finish(self, level="proof"):
        self.cov["distinct_nontrivial"] = len(self.distinct)
        if self.cov.get("discharged", 0) < 1 or self.cov.get("obligations", 0) < 1:
            # the proof did not check on this run: do not present proof-level keys (schema: discharged >= 1)
            self.cov["proof_broken"] = {"obligations": self.cov.pop("obligations", 0), "discharged": self.cov.pop("discharged", 0)}
        ev = {"property_id": self.prop, "tier": self.requested_tier, "seed": self.seed, "level": level,
              "coverage": self.cov, "assumptions": self.assumptions,
              "wall_s": round(time.time() - self.t0, 2), "violations": len(self.violations),
              "known_findings_hit": self.known_hits}
        os.makedirs(EVIDENCE, exist_ok=True)
        with open(os.path.join(EVIDENCE, self.prop + ".json"), "w") as f:
            json.dump(ev, f, indent=1, sort_keys=True)
            f.write("\n")
        log("[%s] %s tier=%s seed=%d: %d evaluations, %d distinct, %d/%d obligations, %d violation(s), %.1fs" % (
            self.prop, "FAIL" if self.violations else "ok", self.tier, self.seed, self.cov["evaluations"],
            self.cov["distinct_nontrivial"], self.cov.get("discharged", 0), self.cov.get("obligations", self.cov.get("proof_broken", {}).get("obligations", 0)),
            len(self.violations), time.time() - self.t0))
        return 1 if self.violations else 0


def proof_stage(chk, prop_modules, extra_targets=("pvdriver",), thorough_leanchecker=True):
    """extract -> lake build -> audit.  Returns (proof_ok, driver_ok, detail)"""
    import extract
    tagged = extract.run_tagged()
    # a translator refusal concerns a property only when its theorems (transitively) import the Generated
    # module that generator is responsible for; refusals of unknown scope concern everybody
    mine = {m.split(".")[-1] for m in lean_files_for(list(prop_modules)) if m.startswith("PV.Generated.")}
    ext_problems = [p for p, outs in tagged if not outs or (outs & mine)]
    other = [p for p, outs in tagged if outs and not (outs & mine)]
    if other:
        chk.cov["translator_refusals_outside_this_property"] = other[:10]
    targets = list(prop_modules) + list(extra_targets)
    ok, out = lake_build(targets)
    driver_ok = True
    detail = []
    if ext_problems:
        # a fact could not be regenerated from the current source: the theorems no longer speak about this code
        detail += ["extractor: " + p for p in ext_problems]
    # the model then runs on placeholder or stale facts (also when a text pin turned a `…AsModelled` fact false and the
    # matching `…_as_modelled` theorem broke): what it predicts (ub / fault) is no longer a statement about this code
    chk.model_untrusted = bool(ext_problems) or (not ok and ("as_modelled" in out.lower() or "asmodelled" in out.lower()))
    if not ok:
        detail.append("lake build failed:\n" + "\n".join(l for l in out.splitlines() if "error" in l.lower())[:3000])
        # can the driver still be built (model intact, only theorems broken)?
        dok, dout = lake_build(list(extra_targets))
        driver_ok = dok
        if not dok:
            detail.append("driver does not build either")
    thms = []
    axioms_used = set()
    if ok and ext_problems:
        ok = False
        for m in prop_modules:
            thms += theorem_names(m)
    if ok:
        a = audit(list(prop_modules))
        thms = a["theorems"]
        for t in thms:
            axioms_used.update(a["axioms"].get(t, []))
        if a["problems"]:
            ok = False
            detail += a["problems"]
        if ok and chk.tier == "thorough" and thorough_leanchecker:
            for m in prop_modules:
                cok, cout = leanchecker(m)
                if not cok:
                    ok = False
                    detail.append("leanchecker rejected %s: %s" % (m, cout[-500:]))
    elif not thms:
        for m in prop_modules:
            try:
                thms += theorem_names(m)
            except OSError:
                pass
    chk.cov["obligations"] = len(thms)
    chk.cov["discharged"] = len(thms) if ok else 0
    chk.cov["checker_cmd"] = "cd /verif/lean && lake build %s && lake env lean <#print axioms of every theorem>%s" % (
        " ".join(targets), " && lake env leanchecker <module>" if chk.tier == "thorough" else "")
    chk.cov["theorems"] = thms
    chk.cov["trusted_base"] = ["Lean 4.33.0 kernel", "axioms used: " + (", ".join(sorted(axioms_used)) or "none"),
                               "tools/extract.py (translator of source facts into PV/Generated)",
                               "correspondence harness + generator for this property"]
    return ok, driver_ok, detail


def load_corpus(prop):
    d = os.path.join(VERIF, "corpus", prop)
    out = []
    if os.path.isdir(d):
        for f in sorted(os.listdir(d)):
            lines = [l.strip() for l in open(os.path.join(d, f)) if l.strip() and not l.startswith("#")]
            if lines:
                out.append(lines)
    return out

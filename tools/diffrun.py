"""Generic three-way comparison  implementation / model / spec  over op files (DESIGN §2.4)."""
import pv

SAN_RCS = (98, 99)


def is_crash(rc):
    return rc in SAN_RCS or rc < 0 or rc in (134, 139)


class Family:
    """one line-protocol family: how to run both sides and how to look at a line as the spec does"""

    def __init__(self, name, exe, spec_view=None, env=None, timeout=120, crash_is_violation=True, spec_match=None):
        self.name, self.exe, self.env, self.timeout = name, exe, env, timeout
        self.spec_view = spec_view or (lambda op, line: line)
        # spec_match(op, impl_line, spec_line): does the implementation's answer satisfy the spec's?  (default: equal views)
        self.spec_match = spec_match or (lambda op, c, sp: self.spec_view(op, c) == self.spec_view(op, sp))
        self.crash_is_violation = crash_is_violation

    def run_c(self, text):
        return pv.run_proc([self.exe], text, self.timeout, self.env)

    def run_m(self, text):
        return pv.run_model(self.name, text)


def split_model_line(l):
    if " SPECDIFF" in l:
        a, b = l.split(" SPECDIFF", 1)
        return a, b.strip()
    return l, None


def judge(fam, ops):
    """ops: list of op lines.  Returns dict(kind=..., at=index, detail=...) or None when all agree.
    kinds:  'spec'   implementation answer differs from the spec's  (property fails on this input)
            'crash'  implementation aborted (sanitizer / signal) where the model predicts no fault
            'model'  implementation differs from the model but not from the spec (correspondence)
            'thm'    model differs from spec while implementation follows the spec or model (theorem would be false)
    """
    text = "".join(o + "\n" for o in ops)
    crc, cout, cerr = fam.run_c(text)
    mrc, mout, merr = fam.run_m(text)
    cl, ml = cout.splitlines(), mout.splitlines()
    if mrc != 0:
        return {"kind": "driver", "at": len(ml), "detail": "model driver failed rc=%s %s" % (mrc, merr[-300:])}
    n = min(len(cl), len(ml))
    first_model = None
    first_thm = None
    for i in range(n):
        mm, sp = split_model_line(ml[i])
        op = ops[i] if i < len(ops) else ""
        c = cl[i]
        spec_line = sp if sp is not None else mm
        c_ok_spec = fam.spec_match(op, c, spec_line)
        if mm == "ub" or mm.startswith("fault"):
            # model predicts undefined behaviour / memory fault at this op: a property failure in itself — unless the
            # translator refused the current source (the model then runs on placeholder / stale facts): only a correspondence break
            if not getattr(fam, "model_trusted", True):
                return first_thm or first_model or {"kind": "model", "at": i, "detail": "op %r: the model (on facts the translator refused) predicts %s; implementation %r" % (op, mm, c)}
            return {"kind": "spec", "at": i, "detail": "model predicts %s at op %r; implementation printed %r" % (mm, op, c)}
        if not c_ok_spec:
            return {"kind": "spec", "at": i, "detail": "op %r: implementation %r, spec %r (model %r)" % (op, c, spec_line, mm)}
        if sp is not None:
            # the model leaves the spec here while the implementation follows the spec; keep scanning: a later line can
            # still show the implementation itself leaving the spec (the property failing on this input)
            if first_thm is None:
                first_thm = {"kind": "thm", "at": i, "detail": "op %r: model %r differs from spec %r; implementation %r" % (op, mm, sp, c)}
            continue
        if c != mm and first_model is None:
            # correspondence differs here; keep scanning: the spec column is a function of the op history alone,
            # so a later line can still show the property itself failing on this input
            first_model = {"kind": "model", "at": i, "detail": "op %r: implementation %r, model %r (spec view equal)" % (op, c, mm)}
    if is_crash(crc) or crc == -999:
        nxt = ml[len(cl)] if len(cl) < len(ml) else ""
        if (nxt == "ub" or nxt.startswith("fault")) and getattr(fam, "model_trusted", True):
            return {"kind": "spec", "at": len(cl), "detail": "implementation aborted (rc=%s) at op %r exactly where the model predicts %s:\n%s" % (
                crc, ops[len(cl)] if len(cl) < len(ops) else "?", nxt, cerr[-1500:])}
        return {"kind": "crash", "at": len(cl), "detail": "implementation aborted rc=%s after %d answers (op %r):\n%s" % (
            crc, len(cl), ops[len(cl)] if len(cl) < len(ops) else "<exit>", cerr[-2500:])}
    if crc != 0:
        return {"kind": "crash", "at": len(cl), "detail": "implementation exit status %s:\n%s" % (crc, cerr[-1500:])}
    if len(cl) != len(ml):
        if len(ml) < len(cl) and ml and (ml[-1] == "ub" or ml[-1].startswith("fault")) and getattr(fam, "model_trusted", True):
            return {"kind": "spec", "at": len(ml) - 1, "detail": "model predicts %s, implementation went on" % ml[-1]}
        return first_thm or first_model or {"kind": "model", "at": n, "detail": "answer counts differ: implementation %d, model %d" % (len(cl), len(ml))}
    return first_thm or first_model


def shrink(fam, ops, kind, budget=150, wall_s=60.0):
    """greedy delta debugging on op lines, keeping the same kind of failure.
    Bounded in tries AND wall-clock time (a mutant that makes every run hang until the watchdog must not
    turn the check into hours of shrinking)."""
    import time
    t_end = time.time() + wall_s
    keep = getattr(fam, "keep_prefix", 0)
    head, cur = list(ops[:keep]), list(ops[keep:])
    def jd(f, c):      # always re-attach the fixed prefix
        return judge(f, head + c)
    tries = 0
    chunk = max(1, len(cur) // 2)
    while chunk >= 1 and tries < budget and time.time() < t_end:
        i = 0
        progressed = False
        while i < len(cur) and tries < budget and time.time() < t_end:
            cand = cur[:i] + cur[i + chunk:]
            if not cand:
                i += chunk
                continue
            tries += 1
            r = jd(fam, cand)
            if r is not None and r["kind"] == kind:
                cur = cand
                progressed = True
            else:
                i += chunk
        if chunk == 1 and not progressed:
            break
        chunk = max(1, chunk // 2) if chunk > 1 else (1 if progressed else 0)
        if chunk == 0:
            break
    return head + cur


def batches(cases, n):
    cur = []
    for c in cases:
        cur.append(c)
        if len(cur) >= n:
            yield cur
            cur = []
    if cur:
        yield cur


def campaign(chk, fam, cases, proof_ok, proof_detail, signature_of=None, label="", batch=1, reset="reset", min_ops=2):
    """run all cases; classify; report.  cases: iterable of lists of op lines.
    With batch > 1 several cases are concatenated (separated by a `reset` op) into one run of
    both sides; a batch that shows any difference is re-run case by case."""
    st = {"corr": None, "thm": None, "found": False, "singles": 0}
    if getattr(chk, "model_untrusted", False):
        fam.model_trusted = False

    def handle(ops, counted):
        """judge one case; True when both sides and the spec agree on it"""
        if not counted:
            chk.count("\n".join(ops), nontrivial=len(ops) >= min_ops)
            chk.sample(list(ops)[:40], cap=3)
        ops = list(ops)
        r = judge(fam, ops)
        if r is None:
            chk.cov["traces_validated_against_impl"] += 1
            return True
        if r["kind"] in ("spec", "crash"):
            hung = "rc=-999" in r["detail"] or "TIMEOUT" in r["detail"]
            small = (ops[: r["at"] + 1] if r["at"] < len(ops) else ops) if hung else \
                shrink(fam, ops[: r["at"] + 1] if r["at"] < len(ops) else ops, r["kind"])
            r2 = r if hung else (judge(fam, small) or r)
            sig = signature_of(small, r2) if signature_of else None
            if chk.violation("\n".join(small) + "\n", "%s %s: %s" % (label or fam.name, r2["kind"], r2["detail"]), signature=sig):
                st["found"] = True
        elif r["kind"] == "thm":
            if st["thm"] is None:
                st["thm"] = (ops, r)
        else:
            if st["corr"] is None:
                st["corr"] = (ops, r)
        return False

    if batch > 1:
        for b in batches(cases, batch):
            joined = []
            for c in b:
                joined += list(c) + [reset]
            for c in b:
                chk.count("\n".join(c), nontrivial=len(c) >= min_ops)
                chk.sample(list(c)[:40], cap=3)
            if judge(fam, joined) is None:
                chk.cov["traces_validated_against_impl"] += len(b)
                continue
            if st["singles"] > 600 and st["corr"] is not None and not st["found"]:
                # the correspondence is known to be broken and hundreds of cases re-run one by one showed nothing but
                # model differences: keep searching for a failing input at batch granularity only (one run per batch)
                chk.bump("batch-granularity-search")
                handle(joined, True)
                if len(chk.violations) >= 3:
                    break
                continue
            alone = [handle(c, True) for c in b]
            st["singles"] += len(b)
            if all(alone) and len(chk.violations) < 3:
                # no case fails by itself: the difference needs the cases one after another in one process
                # (state that survives `reset`, e.g. a static object) — the joined run is the failing input
                chk.bump("batch-only-failure")
                handle(joined, True)
            if len(chk.violations) >= 3:
                break
    else:
        for ops in cases:
            handle(ops, False)
            if len(chk.violations) >= 3:
                break
    found_concrete, corr_break, thm_break = st["found"], st["corr"], st["thm"]
    return found_concrete, corr_break, thm_break


def conclude(chk, found_concrete, corr_break, thm_break, proof_ok, proof_detail, family_label):
    """the no-failing-input-found path"""
    if found_concrete:
        return
    if not proof_ok:
        chk.violation("theorems of this property no longer check against the current source:\n" + "\n".join(proof_detail)
                      + ("\nfirst diverging op file:\n" + "\n".join(corr_break[0]) if corr_break else ""),
                      "proof obligation broken (%s)" % family_label, no_input=True, suffix="txt")
    elif thm_break is not None:
        chk.violation("\n".join(thm_break[0]) + "\n", "model/spec disagreement (a theorem should exclude this): " + thm_break[1]["detail"],
                      no_input=True)
    elif corr_break is not None:
        small = corr_break[0][: corr_break[1]["at"] + 1]
        chk.violation("\n".join(small) + "\n", "correspondence %s implementation-vs-model no longer checks: %s" % (family_label, corr_break[1]["detail"]),
                      no_input=True)

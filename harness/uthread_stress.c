/* C05 supporting run: UNGATED stress of the PUThread API, built with clang-14 -fsanitize=thread.
 * A ThreadSanitizer report (exit 66), a wrong join code, a wrong notifier count or an allocator
 * imbalance (exit 1) is a concrete failing run.  Every thread uses only references it holds.
 *   - joinable and detached threads, exit codes and plain returns;
 *   - a plain (non-atomic) slot written by each thread and read by the joiner after p_uthread_join:
 *     TSan checks the "everything the thread wrote is visible afterwards" edge;
 *   - all threads of a round make the first use of fresh TLS keys at the same time (publication race);
 *   - set / replace / values left at exit with a counting notifier;
 *   - the creator drops detached handles immediately (possibly before the thread runs).
 * p_uthread_local_free releases the native key and its block with the wrapper: a round leaves no block behind.
 * Mode `keys` (argv[2]): a long history of publication races — 1600 fresh keys, each first used by 4 pooled threads at
 * once and released again; every key must hold each thread's own value (the platform has ~1024 native keys: a
 * library that keeps any per race runs out and stops holding values). */
#include <plibsys.h>
#include <pthread.h>
#include <stdio.h>
#include <stdlib.h>
#include <stdint.h>
#include <unistd.h>
#include <sched.h>

#ifdef __clang__
/* clang does not expand the size-suffixed __atomic_*_N library calls that patomic-c11.c / pspinlock-c11.c use;
 * give them bodies made of the generic builtins (instrumented by TSan, same memory order) */
#define MO(m) ((m) == __ATOMIC_RELAXED ? __ATOMIC_RELAXED : (m) == __ATOMIC_ACQUIRE ? __ATOMIC_ACQUIRE : (m) == __ATOMIC_RELEASE ? __ATOMIC_RELEASE : __ATOMIC_SEQ_CST)
unsigned int __atomic_load_4 (const volatile void *p, int m) {
	return m == __ATOMIC_RELAXED ? __atomic_load_n ((const volatile unsigned int *) p, __ATOMIC_RELAXED)
	     : m == __ATOMIC_ACQUIRE ? __atomic_load_n ((const volatile unsigned int *) p, __ATOMIC_ACQUIRE)
	     : __atomic_load_n ((const volatile unsigned int *) p, __ATOMIC_SEQ_CST);
}
unsigned long __atomic_load_8 (const volatile void *p, int m) {
	return m == __ATOMIC_RELAXED ? __atomic_load_n ((const volatile unsigned long *) p, __ATOMIC_RELAXED)
	     : m == __ATOMIC_ACQUIRE ? __atomic_load_n ((const volatile unsigned long *) p, __ATOMIC_ACQUIRE)
	     : __atomic_load_n ((const volatile unsigned long *) p, __ATOMIC_SEQ_CST);
}
void __atomic_store_4 (volatile void *p, unsigned int v, int m) {
	if (m == __ATOMIC_RELAXED) __atomic_store_n ((volatile unsigned int *) p, v, __ATOMIC_RELAXED);
	else if (m == __ATOMIC_RELEASE) __atomic_store_n ((volatile unsigned int *) p, v, __ATOMIC_RELEASE);
	else __atomic_store_n ((volatile unsigned int *) p, v, __ATOMIC_SEQ_CST);
}
void __atomic_store_8 (volatile void *p, unsigned long v, int m) {
	if (m == __ATOMIC_RELAXED) __atomic_store_n ((volatile unsigned long *) p, v, __ATOMIC_RELAXED);
	else if (m == __ATOMIC_RELEASE) __atomic_store_n ((volatile unsigned long *) p, v, __ATOMIC_RELEASE);
	else __atomic_store_n ((volatile unsigned long *) p, v, __ATOMIC_SEQ_CST);
}
#endif

static pthread_mutex_t amx = PTHREAD_MUTEX_INITIALIZER;
static long live_blocks;
static ppointer t_malloc (psize n) { pthread_mutex_lock (&amx); live_blocks++; pthread_mutex_unlock (&amx); return malloc (n ? n : 1); }
static ppointer t_realloc (ppointer p, psize n) { if (!p) { pthread_mutex_lock (&amx); live_blocks++; pthread_mutex_unlock (&amx); } return realloc (p, n); }
static void t_free (ppointer p) { if (!p) return; pthread_mutex_lock (&amx); live_blocks--; pthread_mutex_unlock (&amx); free (p); }
static long live (void) { pthread_mutex_lock (&amx); long r = live_blocks; pthread_mutex_unlock (&amx); return r; }

#define NT 8
#define NK 3
static PUThreadKey *keys[NK];
static volatile int notif_calls;           /* atomically updated */
static volatile int notif_expected;
static volatile int go, finished;
static long slot[NT];                      /* plain memory: written by thread i, read by the joiner */
static unsigned seeds[NT];
static int codes[NT], uses_exit[NT];

static void notif (void *v) { (void) v; __atomic_fetch_add (&notif_calls, 1, __ATOMIC_SEQ_CST); }
static unsigned rnd (unsigned *s) { *s = *s * 1103515245u + 12345u; return (*s >> 16) & 0x7fff; }

static void *worker (void *arg) {
	int i = (int) (intptr_t) arg;
	unsigned s = seeds[i];
	PUThread *me = p_uthread_current ();
	while (!__atomic_load_n (&go, __ATOMIC_ACQUIRE)) ;
	for (int k = 0; k < NK; k++) {                       /* first use of every key, all threads at once */
		if (p_uthread_get_local (keys[k]) != NULL) { fprintf (stderr, "fresh cell not NULL\n"); _exit (1); }
	}
	int expect = 0;
	uintptr_t cur[NK] = { 0 };
	for (int n = 0; n < 40; n++) {
		int k = rnd (&s) % NK;
		uintptr_t v = (rnd (&s) % 4 == 0) ? 0 : (uintptr_t) (i * 1000 + n + 1);
		switch (rnd (&s) % 5) {
		case 0: p_uthread_set_local (keys[k], (ppointer) v); cur[k] = v; break;
		case 1: if (cur[k] != 0 && k != NK - 1) expect++; p_uthread_replace_local (keys[k], (ppointer) v); cur[k] = v; break;
		case 2: if ((uintptr_t) p_uthread_get_local (keys[k]) != cur[k]) { fprintf (stderr, "TLS value of another thread seen\n"); _exit (1); } break;
		case 3: p_uthread_ref (me); p_uthread_yield (); p_uthread_unref (me); break;
		default: if (p_uthread_current () != me) { fprintf (stderr, "current changed\n"); _exit (1); } break;
		}
	}
	for (int k = 0; k < NK - 1; k++) if (cur[k] != 0) expect++;      /* left at exit; the last key has no notifier */
	__atomic_fetch_add (&notif_expected, expect, __ATOMIC_SEQ_CST);
	slot[i] = 7000 + i;                                  /* plain write, must be visible to the joiner */
	__atomic_fetch_add (&finished, 1, __ATOMIC_SEQ_CST);
	if (uses_exit[i]) p_uthread_exit (codes[i]);
	return NULL;
}

/* ---- mode `keys` ---- */
#define KT 4
static PUThreadKey *volatile race_key;
static volatile int k_round, k_done, k_stop, k_bad;

static void *key_racer (void *arg) {
	int i = (int) (intptr_t) arg, seen = 0;
	for (;;) {
		int r;
		while ((r = __atomic_load_n (&k_round, __ATOMIC_ACQUIRE)) == seen) { if (__atomic_load_n (&k_stop, __ATOMIC_ACQUIRE)) return NULL; }
		seen = r;
		PUThreadKey *k = race_key;
		uintptr_t v = (uintptr_t) (r * 16 + i + 1);
		if (p_uthread_get_local (k) != NULL) __atomic_store_n (&k_bad, 1, __ATOMIC_SEQ_CST);      /* first use of the key: publication race */
		p_uthread_set_local (k, (ppointer) v);
		p_uthread_yield ();
		if ((uintptr_t) p_uthread_get_local (k) != v) __atomic_store_n (&k_bad, 2, __ATOMIC_SEQ_CST);
		p_uthread_set_local (k, NULL);
		__atomic_fetch_add (&k_done, 1, __ATOMIC_SEQ_CST);
	}
}

static int keys_mode (void) {
	PUThread *th[KT];
	long base;
	for (int i = 0; i < KT; i++) if (!(th[i] = p_uthread_create (key_racer, (ppointer) (intptr_t) i, TRUE, NULL))) { fprintf (stderr, "create failed\n"); return 1; }
	base = live ();
	for (int r = 1; r <= 1600; r++) {
		race_key = p_uthread_local_new (NULL);
		__atomic_store_n (&k_done, 0, __ATOMIC_SEQ_CST);
		__atomic_store_n (&k_round, r, __ATOMIC_RELEASE);
		while (__atomic_load_n (&k_done, __ATOMIC_SEQ_CST) != KT) sched_yield ();
		p_uthread_local_free (race_key);
		if (k_bad) { fprintf (stderr, "keys: key %d of a history of publication races: %s\n", r,
			k_bad == 1 ? "a fresh cell is not NULL" : "a thread does not read back the value it stored (the key holds no per-thread value)"); _exit (1); }
		if (live () != base) { fprintf (stderr, "keys: key %d: allocator imbalance %ld vs %ld\n", r, live (), base); _exit (1); }
	}
	__atomic_store_n (&k_stop, 1, __ATOMIC_RELEASE);
	for (int i = 0; i < KT; i++) { p_uthread_join (th[i]); p_uthread_unref (th[i]); }
	printf ("ok\n");
	return 0;
}

/* `nokeys`: the process holds every native TLS key before the library needs its first one (the lazily created key of the
 * library's own per-thread slot can then not be created: nothing is stored, no destructor will run).  Threads whose
 * functions simply return must still be joined with code 0, their writes visible, and every handle (and name copy)
 * released exactly once: the allocator is back at its base line after the joins / after the detached ones ended. */
static volatile int nk_done;
static int nk_slot[16];
static void *nk_worker (void *arg) {
	int i = (int) (intptr_t) arg;
	nk_slot[i] = 9000 + i;
	__atomic_fetch_add (&nk_done, 1, __ATOMIC_SEQ_CST);
	return NULL;
}
static int nokeys_mode (void) {
	static pthread_key_t dummy[4096];
	int nd = 0;
	while (nd < 4096 && pthread_key_create (&dummy[nd], NULL) == 0) nd++;
	if (nd == 4096) { printf ("ok (no key limit reached)\n"); return 0; }
	long base = live ();
	for (int round = 0; round < 3; round++) {
		PUThread *th[12];
		__atomic_store_n (&nk_done, 0, __ATOMIC_SEQ_CST);
		for (int i = 0; i < 12; i++) {
			const pchar *nm = (i % 3 == 1) ? "st" : (i % 3 == 2) ? "a-thread-name-longer-than-the-platform-limit" : NULL;
			th[i] = p_uthread_create (nk_worker, (ppointer) (intptr_t) i, i < 6, nm);
			if (!th[i]) { fprintf (stderr, "nokeys: create failed\n"); return 1; }
			if (i >= 6) { p_uthread_unref (th[i]); th[i] = NULL; }
		}
		for (int i = 0; i < 6; i++) {
			int code = p_uthread_join (th[i]);
			if (code != 0) { fprintf (stderr, "nokeys: join code %d for a thread whose function returned\n", code); return 1; }
			if (nk_slot[i] != 9000 + i) { fprintf (stderr, "nokeys: write of thread %d not visible after join\n", i); return 1; }
			p_uthread_unref (th[i]);
		}
		for (int spin = 0; spin < 20000 && !(__atomic_load_n (&nk_done, __ATOMIC_SEQ_CST) == 12 && live () == base); spin++) usleep (500);
		if (live () != base) {
			fprintf (stderr, "nokeys: round %d: with every native TLS key taken before the library created its own, %ld block(s) of 12 finished threads (6 joined and released, 6 detached) stay allocated\n", round, live () - base);
			return 1;
		}
	}
	for (int i = 0; i < nd; i++) pthread_key_delete (dummy[i]);
	printf ("ok\n");
	return 0;
}

int main (int argc, char **argv) {
	unsigned seed = argc > 1 ? (unsigned) atoi (argv[1]) : 1;
	PMemVTable vt = { t_malloc, t_realloc, t_free };
	p_libsys_init_full (&vt);
	if (argc > 2 && argv[2][0] == 'n') return nokeys_mode ();
	if (argc > 2 && argv[2][0] == 'k') { p_uthread_current (); return keys_mode (); }
	p_uthread_current ();                                /* main's own handle + the library key's native key */
	long base = live ();
	int used_keys = 0;
	for (int round = 0; round < 150; round++) {
		PUThread *th[NT];
		int joinable[NT];
		for (int k = 0; k < NK; k++) keys[k] = p_uthread_local_new (k == NK - 1 ? NULL : notif);
		used_keys += NK;
		__atomic_store_n (&go, 0, __ATOMIC_RELEASE);
		__atomic_store_n (&finished, 0, __ATOMIC_SEQ_CST);
		for (int i = 0; i < NT; i++) {
			seeds[i] = seed * 7919u + round * 131u + i;
			unsigned s = seeds[i] ^ 0x5bd1e995u;
			joinable[i] = rnd (&s) % 3 != 0;
			uses_exit[i] = rnd (&s) % 2;
			codes[i] = (int) (rnd (&s) % 2 ? -(int) rnd (&s) : (int) rnd (&s) * 65537);
			slot[i] = 0;
			/* names: none, short, longer than the platform limit (truncated copy made and released inside the proxy);
			 * every fourth thread goes through p_uthread_create_full with an explicit priority */
			const pchar *nm = (i % 3 == 1) ? "st" : (i % 3 == 2) ? "a-thread-name-longer-than-the-platform-limit" : NULL;
			th[i] = (i % 4 == 3) ? p_uthread_create_full (worker, (ppointer) (intptr_t) i, joinable[i], P_UTHREAD_PRIORITY_NORMAL, 0, nm)
					     : p_uthread_create (worker, (ppointer) (intptr_t) i, joinable[i], nm);
			if (!th[i]) { fprintf (stderr, "create failed\n"); return 1; }
			if (!joinable[i]) { if (rnd (&s) % 2) { p_uthread_ref (th[i]); p_uthread_unref (th[i]); } p_uthread_unref (th[i]); th[i] = NULL; }
		}
		__atomic_store_n (&go, 1, __ATOMIC_RELEASE);
		for (int i = 0; i < NT; i++) {
			if (!joinable[i]) continue;
			unsigned s = seeds[i] ^ 0x1234567u;
			int extra = rnd (&s) % 2;
			if (extra) p_uthread_ref (th[i]);
			int code = p_uthread_join (th[i]);
			int want = uses_exit[i] ? codes[i] : 0;
			if (code != want) { fprintf (stderr, "round %d thread %d: join code %d, expected %d\n", round, i, code, want); return 1; }
			if (slot[i] != 7000 + i) { fprintf (stderr, "round %d thread %d: write not visible after join\n", round, i); return 1; }
			if (extra) p_uthread_unref (th[i]);
			p_uthread_unref (th[i]);
		}
		/* detached threads: wait until their functions are done and their handles are gone */
		for (int spin = 0; spin < 20000; spin++) {
			if (__atomic_load_n (&finished, __ATOMIC_SEQ_CST) == NT && live () == base + 2 * NK) break;   /* NK wrappers + NK native-key blocks */
			usleep (500);
		}
		/* a detached thread's handle can be gone (the library key's destructor ran) while the destructors of its other
		 * keys are still to run — POSIX leaves their order open: too few calls is only final after a grace period, and the keys
		 * must stay until then (deleting a native key cancels its pending destructors) */
		for (int spin = 0; spin < 10000 && __atomic_load_n (&notif_calls, __ATOMIC_SEQ_CST) < __atomic_load_n (&notif_expected, __ATOMIC_SEQ_CST); spin++)
			usleep (500);
		for (int k = 0; k < NK; k++) p_uthread_local_free (keys[k]);
		if (live () != base) {
			fprintf (stderr, "round %d: allocator imbalance: %ld live blocks, expected %ld (after %d keys)\n",
				 round, live (), base, used_keys);
			return 1;
		}
		if (__atomic_load_n (&notif_calls, __ATOMIC_SEQ_CST) != __atomic_load_n (&notif_expected, __ATOMIC_SEQ_CST)) {
			fprintf (stderr, "round %d: notifier ran %d times, expected %d\n", round, notif_calls, notif_expected);
			return 1;
		}
	}
	printf ("ok\n");
	return 0;
}

/* C05 harness: runs HISTORIES of the PUThread API on real threads whose progress is gated by
 * harness semaphores, so every op of the op file (stdin) is one deterministic step; one answer per op:
 *
 *   r=<result> L=<live handles> F=<handles freed by this op> D=<notifier calls of this op> ob=<other live blocks> N=<native TLS calls>
 *
 * - a tracking allocator (p_libsys_init_full) sees every block: PUThread blocks are identified by the
 *   pointer returned from p_uthread_create / p_uthread_current; built with ASan, so a use of a freed
 *   handle aborts the run.
 * - pthread_create is wrapped: a new native thread waits at a gate before it enters the library's proxy
 *   (`T start`), so "creator unrefs before the thread starts" etc. are forced.
 * - a harness TLS key created before any library key blocks the terminating thread in its destructor
 *   (first destructor round: `T exit`/`T return` are complete, no library destructor has run) until
 *   `T end`; its second-round call tells that every destructor of round one is done.
 * - pthread_key_create/delete/setspecific/getspecific are wrapped to log the native calls of the
 *   library; p_atomic_pointer_compare_and_exchange is wrapped so that `T kbegin …` parks thread T
 *   right before the publishing CAS of pp_uthread_get_tls_key and `T kcas` lets it go: the op file
 *   decides who loses the race.
 * - `A jbegin H` issues p_uthread_join in thread A while the target has NOT ended: the call must stay blocked
 *   (also across a handled signal sent to the joiner) until `T end`; `A jend` collects the result.  A join that
 *   came back before the target's `end` op is answered `early:<code>`.
 * - `create` options: `n<LEN>` name of LEN characters (the platform limit is 15), `J` joinable given as 2,
 *   `p<PRIO>` / `s<KB>` go through p_uthread_create_full, `x` lets the new thread run into the library's proxy
 *   while the creator is still inside p_uthread_create_full (p_spinlock_lock is wrapped: the creator returns from
 *   the native create only once the child has reached the creation spinlock), `eperm` makes the first native
 *   create fail with EPERM (the library retries), `eagain` makes it fail for good, `fail:attr` / `fail:detach` make
 *   pthread_attr_init / pthread_attr_setdetachstate fail (create returns NULL; the PUThread block the call allocated takes
 *   the next handle id and is reported in F= when the library released it inside the call, in L= from then on when not).
 * - `A set K V fail` / `A replace K V fail` / `A get K fail`: the call on a key that has no native key yet, with the lazy
 *   pthread_key_create failing (N= shows `kcfail`); `A current fail2` / `fail3`: p_uthread_current of a thread without a stored
 *   handle with the next 2 / 3 pthread_key_create calls failing (NULL; the PUThreadBase block takes a handle id as above).
 * - `A set K V ssfail` / `A replace K V ssfail`: the call with the native pthread_setspecific reporting an error (N= shows `ssfail`).
 * - `T start fail2`: the proxy of T runs with both of its lazy pthread_key_create calls failing (nothing stored in the library
 *   slot: puthread.c `is_stored == FALSE`); `T return` then includes the proxy's own p_uthread_unref; p_uthread_exit in T returns.
 * - `A join H fail`: p_uthread_join with the native pthread_join reporting an error (ESRCH, nothing is joined).
 * - `A misc` calls p_uthread_ideal_count / p_uthread_yield / p_uthread_current_id in thread A (answer `ok`).
 * - `A prio H P` calls p_uthread_set_priority on a library-created thread that has not ended (no effect on handles).
 * - every case (ops up to `reset`) runs in a forked child; a sanitizer abort ends the whole run with
 *   the child's status.
 * Ops that are not enabled, or that break the reference discipline (use of a handle without holding a
 * reference), are answered `bad-op` and not executed — exactly as the model driver does. */
#define _GNU_SOURCE
#include <plibsys.h>
#include <pthread.h>
#include <semaphore.h>
#include <stdio.h>
#include <stdlib.h>
#include <string.h>
#include <stdint.h>
#include <stdarg.h>
#include <unistd.h>
#include <errno.h>
#include <signal.h>
#include <sys/wait.h>
#include <time.h>

int __real_pthread_create (pthread_t *, const pthread_attr_t *, void *(*) (void *), void *);
int __real_pthread_key_create (pthread_key_t *, void (*) (void *));
int __real_pthread_attr_init (pthread_attr_t *);
int __real_pthread_attr_setdetachstate (pthread_attr_t *, int);
int __real_pthread_join (pthread_t, void **);
int __real_pthread_key_delete (pthread_key_t);
int __real_pthread_setspecific (pthread_key_t, const void *);
void *__real_pthread_getspecific (pthread_key_t);
pboolean __real_p_atomic_pointer_compare_and_exchange (volatile void *, ppointer, ppointer);
pboolean __real_p_spinlock_lock (PSpinLock *);
extern void p_uthread_shutdown (void);          /* puthread.c (called by p_libsys_shutdown) */

/* strings handed to intercepted libc calls (pthread_setname_np: the truncated thread name) must be terminated inside their block */
const char *__asan_default_options (void) { return "strict_string_checks=1"; }

static FILE *out;
#define DIE(...) do { fprintf (stderr, "uthread harness: " __VA_ARGS__); fprintf (stderr, "\n"); _exit (3); } while (0)

static void swait (sem_t *s) { while (sem_wait (s) != 0) if (errno != EINTR) DIE ("sem_wait"); }
/* 1 = posted within `ms` milliseconds */
static int timed_wait (sem_t *s, int ms) {
	struct timespec ts;
	clock_gettime (CLOCK_REALTIME, &ts);
	ts.tv_nsec += (long) ms * 1000000L;
	while (ts.tv_nsec >= 1000000000L) { ts.tv_sec++; ts.tv_nsec -= 1000000000L; }
	for (;;) {
		if (sem_timedwait (s, &ts) == 0) return 1;
		if (errno == ETIMEDOUT) return 0;
		if (errno != EINTR) DIE ("sem_timedwait");
	}
}
static void on_usr1 (int sig) { (void) sig; }

/* ------------------------------------------------------------------ tracking allocator */
#define MAXB 8192
typedef struct { void *p; int tag; int id; } Blk;      /* tag 0 other, 'H' handle, 'K' key wrapper */
static Blk blks[MAXB];
static int nblk, baseline, shut_comp;      /* shut_comp: init-time blocks that shutdown releases (key wrapper, spinlock) */
static pthread_mutex_t amx = PTHREAD_MUTEX_INITIALIZER;
static int freedH[256], nfreedH;

/* the first block of at least 32 bytes the calling thread allocates while `watch_big` is set (the PUThread block of a
 * p_uthread_create* call, the PUThreadBase block of p_uthread_current), and whether it has been freed again */
static __thread int watch_big, first_big_freed;
static __thread void *first_big;
/* blocks the calling thread allocated while `watch_all` is set and that are still allocated (a TLS call whose key creation
 * fails must leave none) */
static __thread int watch_all, nop_blk;
static __thread void *op_blk[16];

static ppointer t_malloc (psize n) {
	void *p = malloc (n ? n : 1);
	if (watch_big && first_big == NULL && n >= 32) first_big = p;
	if (watch_all && nop_blk < 16) op_blk[nop_blk++] = p;
	pthread_mutex_lock (&amx);
	if (nblk >= MAXB) DIE ("block table full");
	blks[nblk].p = p; blks[nblk].tag = 0; blks[nblk].id = -1; nblk++;
	pthread_mutex_unlock (&amx);
	return p;
}
static void t_free (ppointer p) {
	if (p == NULL) return;
	if (watch_big && p == first_big && !first_big_freed) first_big_freed = 1;
	if (watch_all) for (int i = 0; i < nop_blk; i++) if (op_blk[i] == p) { op_blk[i] = op_blk[--nop_blk]; break; }
	pthread_mutex_lock (&amx);
	int i;
	for (i = nblk - 1; i >= 0; i--) if (blks[i].p == p) break;
	if (i < 0) { pthread_mutex_unlock (&amx); fprintf (stderr, "uthread harness: free of a block that is not live: %p\n", p); abort (); }
	if (blks[i].tag == 'H') freedH[nfreedH++] = blks[i].id;
	blks[i] = blks[--nblk];
	pthread_mutex_unlock (&amx);
	free (p);
}
static ppointer t_realloc (ppointer p, psize n) {
	if (p == NULL) return t_malloc (n);
	void *q = realloc (p, n);
	pthread_mutex_lock (&amx);
	for (int i = 0; i < nblk; i++) if (blks[i].p == p) { blks[i].p = q; break; }
	pthread_mutex_unlock (&amx);
	return q;
}
static int blk_find (void *p) { for (int i = 0; i < nblk; i++) if (blks[i].p == p) return i; return -1; }

/* ------------------------------------------------------------------ logs */
static pthread_mutex_t lmx = PTHREAD_MUTEX_INITIALIZER;
typedef struct { int t, k; unsigned long v; } DEnt;
static DEnt dlog[256]; static int ndlog;
static char nlog[64][40]; static int nnlog;
static void nat (const char *fmt, ...) {
	va_list ap;
	pthread_mutex_lock (&lmx);
	if (nnlog < 64) { va_start (ap, fmt); vsnprintf (nlog[nnlog++], 40, fmt, ap); va_end (ap); }
	pthread_mutex_unlock (&lmx);
}

/* ------------------------------------------------------------------ threads */
enum { ABSENT, CREATED, RUNNING, FINISHED, ENDED };
enum { O_NONE, O_CREATE, O_SET, O_REPLACE, O_GET, O_CURRENT, O_EXIT, O_RETURN, O_REF, O_UNREF, O_JOIN, O_KEYNEW, O_KEYFREE, O_RACE, O_PRIO, O_MISC };
typedef struct {
	int kind, k, h, joinable, named, notif; long code; unsigned long v;
	int jv, namelen, full, prio, cmode; unsigned long stack;      /* create options */
	int jfail;                                                   /* join: the native pthread_join reports an error */
	char res[48];
} Op;
typedef struct {
	int state, foreign, round, pending, arm_cas, at_cas, cas_result;
	int unstored;                                   /* started by `start fail2`: the library slot is empty, the proxy holds the reference */
	int joining, join_h;                            /* inside the p_uthread_join of `jbegin` (2: it came back early) */
	volatile int early;                             /* `create … x`: 1 = runs into the proxy at once, 2 = reached the spinlock */
	pthread_t self;
	sem_t cmd, done, start_gate, end_gate, cas_gate, spin_sem;
	Op op;
	void *(*fn) (void *); void *arg;
	pthread_t raw;
	Op pend_op;
} Slot;
#define MAXT 64
static Slot slots[MAXT];
static int nextT = 1;
static __thread int my_slot = 0;
static pthread_key_t gate_key;
static volatile int race_go;

#define MAXH 256
static PUThread *hptr[MAXH]; static int nextH;
static int urefs[MAXH], hthread[MAXH], hjoinable[MAXH], hjoined[MAXH], hthreadref[MAXH], hours[MAXH];
static int create_mode;                                 /* 0 normal, 1 early child, 2 EAGAIN, 3 EPERM once */
#define MAXK 32
static PUThreadKey *kptr[MAXK]; static int nextK = 1, kfreed[MAXK];
static int last_created_slot;

/* native keys */
static int nat_of_key[4096], nat_islib[4096], nnative;
static int nat_owner[4096], nat_idx[4096], kcount[64], kraced[64], kpub[64];   /* PUThreadKey id of a native key, its index among that key's */
static __thread int cur_k;                                          /* PUThreadKey the calling thread is resolving (0 = the library's) */
static const char *show_n (int id, char *buf) {
	if (kraced[nat_owner[id]]) snprintf (buf, 24, "%d.?", nat_owner[id]); else snprintf (buf, 24, "%d.%d", nat_owner[id], nat_idx[id]);
	return buf;
}

static void notif_common (int fn, void *v);
#define NF(i) static void notif##i (void *v) { notif_common (i, v); }
NF(0) NF(1) NF(2) NF(3) NF(4) NF(5) NF(6) NF(7) NF(8) NF(9) NF(10) NF(11) NF(12) NF(13) NF(14) NF(15)
static PDestroyFunc notif_fn[16] = { notif0, notif1, notif2, notif3, notif4, notif5, notif6, notif7, notif8, notif9, notif10, notif11, notif12, notif13, notif14, notif15 };
static int notif_key[16], nnotif;
static void notif_common (int fn, void *v) {
	pthread_mutex_lock (&lmx);
	if (ndlog < 256) { dlog[ndlog].t = my_slot; dlog[ndlog].k = notif_key[fn]; dlog[ndlog].v = (unsigned long) (uintptr_t) v; ndlog++; }
	pthread_mutex_unlock (&lmx);
}
static int is_notif (void (*d) (void *)) { for (int i = 0; i < 16; i++) if (d == (void (*) (void *)) notif_fn[i]) return 1; return 0; }

/* ---- wrapped native calls (only the library's own calls come through here) */
static int fail_kc;                                     /* the next `fail_kc` calls of the library fail */
int __wrap_pthread_key_create (pthread_key_t *key, void (*d) (void *)) {
	if (fail_kc > 0) { fail_kc--; nat ("kcfail"); return EAGAIN; }
	int r = __real_pthread_key_create (key, d);
	char b[24];
	if (r == 0) {
		pthread_mutex_lock (&lmx);
		int id = nnative++;
		if (*key >= 4096 || id >= 4096) DIE ("native key value too large");
		nat_of_key[*key] = id; nat_islib[id] = (d != NULL && !is_notif (d));
		nat_owner[id] = cur_k; nat_idx[id] = kcount[cur_k]++;
		pthread_mutex_unlock (&lmx);
		nat ("kc%s", show_n (id, b));
	}
	return r;
}
int __wrap_pthread_key_delete (pthread_key_t key) { char b[24]; nat ("kd%s", show_n (nat_of_key[key], b)); return __real_pthread_key_delete (key); }
static int fail_ss;                                     /* the library's next store under a user key reports an error */
int __wrap_pthread_setspecific (pthread_key_t key, const void *v) {
	int id = nat_of_key[key];
	char b[24];
	show_n (id, b);
	if (fail_ss && !nat_islib[id]) { fail_ss = 0; nat ("ssfail%s", b); return ENOMEM; }
	if (nat_islib[id]) nat (v ? "ss%s:H" : "ss%s:0", b); else nat ("ss%s:%lu", b, (unsigned long) (uintptr_t) v);
	return __real_pthread_setspecific (key, v);
}
void *__wrap_pthread_getspecific (pthread_key_t key) { char b[24]; nat ("gs%s", show_n (nat_of_key[key], b)); return __real_pthread_getspecific (key); }

pboolean __wrap_p_atomic_pointer_compare_and_exchange (volatile void *a, ppointer o, ppointer n) {
	Slot *s = &slots[my_slot];
	if (s->arm_cas) { s->arm_cas = 0; s->at_cas = 1; sem_post (&s->done); swait (&s->cas_gate); }
	pboolean r = __real_p_atomic_pointer_compare_and_exchange (a, o, n);
	s->cas_result = r ? 1 : 2;
	return r;
}

/* the creation spinlock: a child made by `create … x` reports that it has reached it */
pboolean __wrap_p_spinlock_lock (PSpinLock *l) {
	Slot *s = &slots[my_slot];
	if (s->early == 1) { s->early = 2; sem_post (&s->spin_sem); }
	return __real_p_spinlock_lock (l);
}

/* ---- thread termination gate: first destructor of round one, and a second-round call */
static void gate_dtor (void *v) {
	Slot *s = v;
	if (s->round == 0) {
		s->round = 1;
		sem_post (&s->done);                    /* `exit` / `return` complete */
		swait (&s->end_gate);                   /* `T end` */
		__real_pthread_setspecific (gate_key, s);
	} else
		sem_post (&s->done);                    /* all destructors of round one have run */
}

static void exec_op (Slot *s);

static void *worker (void *unused) {
	Slot *s = &slots[my_slot];
	(void) unused;
	sem_post (&s->done);                            /* the thread function has started */
	for (;;) {
		swait (&s->cmd);
		/* what the thread function returns is not the exit code: join yields 0 for a plain return whatever it is */
		if (s->op.kind == O_RETURN) return (my_slot & 1) ? (void *) (intptr_t) (0x7A5A0000L + my_slot) : NULL;
		exec_op (s);
		sem_post (&s->done);
	}
}

typedef struct { int slot; void *(*fn) (void *); void *arg; } Box;
static void *tramp (void *b) {
	Box bx = *(Box *) b;
	free (b);
	my_slot = bx.slot;
	Slot *s = &slots[my_slot];
	s->self = pthread_self ();
	__real_pthread_setspecific (gate_key, s);
	if (!s->foreign) swait (&s->start_gate);         /* `T start`: only now the library's proxy runs */
	return bx.fn (bx.arg);
}
static int new_slot (int foreign) {
	if (nextT >= MAXT) DIE ("too many threads");
	int id = nextT++;
	Slot *s = &slots[id];
	memset (s, 0, sizeof *s);
	s->foreign = foreign; s->state = foreign ? RUNNING : CREATED;
	sem_init (&s->cmd, 0, 0); sem_init (&s->done, 0, 0); sem_init (&s->start_gate, 0, 0);
	sem_init (&s->end_gate, 0, 0); sem_init (&s->cas_gate, 0, 0); sem_init (&s->spin_sem, 0, 0);
	return id;
}
int __wrap_pthread_create (pthread_t *t, const pthread_attr_t *attr, void *(*fn) (void *), void *arg) {
	if (create_mode == 2) return EAGAIN;
	if (create_mode == 3) { create_mode = 0; return EPERM; }
	int id = new_slot (0);
	int early = create_mode == 1;
	Box *b = malloc (sizeof *b);
	b->slot = id; b->fn = fn; b->arg = arg;
	last_created_slot = id;
	slots[id].early = early;
	int r = __real_pthread_create (t, attr, tramp, b);
	if (r == 0 && early) {
		/* the caller is inside p_uthread_create_full and holds the creation spinlock: nothing but pthread_t is
		 * written yet.  Let the child run the proxy up to the spinlock, give it time to spin, then go on. */
		sem_post (&slots[id].start_gate);
		swait (&slots[id].spin_sem);
		usleep (300);
	}
	return r;
}

/* scripted failures of native calls (each consumed by the next call of the library) */
static int fail_attr_init, fail_detach, fail_join;
int __wrap_pthread_attr_init (pthread_attr_t *a) {
	if (fail_attr_init) { fail_attr_init = 0; return ENOMEM; }
	return __real_pthread_attr_init (a);
}
int __wrap_pthread_attr_setdetachstate (pthread_attr_t *a, int st) {
	if (fail_detach) { fail_detach = 0; return EINVAL; }
	return __real_pthread_attr_setdetachstate (a, st);
}
int __wrap_pthread_join (pthread_t t, void **r) {
	if (fail_join) { fail_join = 0; return ESRCH; }      /* the thread is NOT joined */
	return __real_pthread_join (t, r);
}

/* ---- handle bookkeeping */
static int tag_handle (PUThread *p, int thread, int joinable, int ur, int ours) {
	pthread_mutex_lock (&amx);
	int i = blk_find (p);
	if (i < 0) DIE ("handle pointer is not a live block");
	if (blks[i].tag == 'H') { int id = blks[i].id; pthread_mutex_unlock (&amx); return id; }
	if (nextH >= MAXH) DIE ("too many handles");
	int id = nextH++;
	blks[i].tag = 'H'; blks[i].id = id;
	pthread_mutex_unlock (&amx);
	hptr[id] = p; urefs[id] = ur; hthread[id] = thread; hjoinable[id] = joinable; hjoined[id] = 0; hthreadref[id] = 1; hours[id] = ours;
	return id;
}

static void tls_call (int kind, PUThreadKey *key, unsigned long v, char *res) {
	if (kind == O_SET) p_uthread_set_local (key, (ppointer) (uintptr_t) v);
	else if (kind == O_REPLACE) p_uthread_replace_local (key, (ppointer) (uintptr_t) v);
	else snprintf (res, 48, "%lu", (unsigned long) (uintptr_t) p_uthread_get_local (key));
}

/* runs in the actor's thread */
static void exec_op (Slot *s) {
	Op *o = &s->op;
	strcpy (o->res, "-");
	cur_k = (o->kind == O_SET || o->kind == O_REPLACE || o->kind == O_GET || o->kind == O_RACE) ? o->k : 0;
	switch (o->kind) {
	case O_CREATE: {
		char nbuf[1024], *name = NULL;
		if (o->named) {
			if (o->namelen < 0) name = "w";
			else { for (int i = 0; i < o->namelen; i++) nbuf[i] = (char) ('a' + i % 26); nbuf[o->namelen] = 0; name = nbuf; }
		}
		create_mode = o->cmode == 2 ? 2 : o->cmode == 3 ? 3 : o->cmode == 1 ? 1 : 0;
		fail_attr_init = o->cmode == 4; fail_detach = o->cmode == 5;
		watch_big = 1; first_big = NULL; first_big_freed = 0;
		PUThread *p = o->full ? p_uthread_create_full (worker, NULL, o->jv, (PUThreadPriority) o->prio, (psize) o->stack, name)
				      : p_uthread_create (worker, NULL, o->jv, name);
		watch_big = 0;
		create_mode = 0;
		if (fail_attr_init || fail_detach) DIE ("scripted native failure was not consumed");
		if (p == NULL) {
			if (o->cmode == 2 || o->cmode == 4 || o->cmode == 5) {
				/* the block the failed call allocated takes the next handle id: released inside the call (F=), or - if the
				 * library kept it - alive from now on (L=) */
				pthread_mutex_lock (&amx);
				if (nextH >= MAXH) DIE ("too many handles");
				int id = nextH++;
				hptr[id] = NULL; urefs[id] = 0; hthread[id] = -1; hjoinable[id] = 0; hjoined[id] = 0; hthreadref[id] = 0; hours[id] = 0;
				if (first_big != NULL && first_big_freed) freedH[nfreedH++] = id;
				else if (first_big != NULL) { int i = blk_find (first_big); if (i >= 0) { blks[i].tag = 'H'; blks[i].id = id; } }
				pthread_mutex_unlock (&amx);
				strcpy (o->res, "NULL");
				break;
			}
			DIE ("p_uthread_create failed");
		}
		if (o->cmode == 2 || o->cmode == 4 || o->cmode == 5) {
			/* the native layer failed and the library still handed out a handle */
			snprintf (o->res, 48, "nonnull-after-native-failure");
			break;
		}
		int t = last_created_slot;
		int h = tag_handle (p, t, o->joinable, 1, 1);
		snprintf (o->res, 48, "T%d,H%d", t, h);
		break; }
	case O_SET: case O_REPLACE: case O_GET:
		fail_kc = o->jfail == 1;                        /* `… fail`: the lazy pthread_key_create of this call fails */
		fail_ss = o->jfail == 2;                        /* `… ssfail`: its pthread_setspecific fails */
		watch_all = o->jfail == 1; nop_blk = 0;
		tls_call (o->kind, kptr[o->k], o->v, o->res);
		watch_all = 0;
		if (fail_kc || fail_ss) DIE ("scripted native failure was not consumed");
		if (o->jfail == 1 && nop_blk > 0) snprintf (o->res, 48, "leak:%d", nop_blk);   /* the failed call kept a block */
		break;
	case O_RACE:
		while (!race_go) ;
		p_uthread_set_local (kptr[o->k], (ppointer) (uintptr_t) o->v);
		break;
	case O_CURRENT: {
		if (o->jfail) {
			/* the next 2 / 3 pthread_key_create calls fail: the fresh handle cannot be stored */
			fail_kc = o->jfail;
			watch_big = 1; first_big = NULL; first_big_freed = 0;
			PUThread *q = p_uthread_current ();
			watch_big = 0;
			if (fail_kc) DIE ("scripted pthread_key_create failures were not consumed");
			if (q != NULL) { strcpy (o->res, "nonnull-after-native-failure"); break; }
			pthread_mutex_lock (&amx);
			if (nextH >= MAXH) DIE ("too many handles");
			int id = nextH++;
			hptr[id] = NULL; urefs[id] = 0; hthread[id] = -1; hjoinable[id] = 0; hjoined[id] = 0; hthreadref[id] = 0; hours[id] = 0;
			if (first_big != NULL && first_big_freed) freedH[nfreedH++] = id;
			else if (first_big != NULL) { int i = blk_find (first_big); if (i >= 0) { blks[i].tag = 'H'; blks[i].id = id; } }
			pthread_mutex_unlock (&amx);
			strcpy (o->res, "NULL");
			break;
		}
		PUThread *p = p_uthread_current ();
		if (p == NULL) DIE ("p_uthread_current failed");
		snprintf (o->res, 48, "H%d", tag_handle (p, my_slot, 0, 0, 0));
		break; }
	case O_EXIT:
		if (s->foreign || my_slot == 0 || s->unstored) {
			PUThread *p = p_uthread_current ();
			tag_handle (p, my_slot, 0, 0, 0);
			p_uthread_exit ((pint) o->code);        /* returns: not one of ours */
			strcpy (o->res, "noexit");
		} else {
			p_uthread_exit ((pint) o->code);
			DIE ("p_uthread_exit returned in a library thread");
		}
		break;
	case O_REF: p_uthread_ref (hptr[o->h]); break;
	case O_UNREF: p_uthread_unref (hptr[o->h]); break;
	case O_JOIN:
		fail_join = o->jfail;
		snprintf (o->res, 48, "%d", (int) p_uthread_join (hptr[o->h]));
		if (fail_join) DIE ("scripted pthread_join failure was not consumed");
		break;
	case O_MISC: {
		/* the entry points without any handle / TLS state: processor count (>= 1, what sysconf says), yield, native id of the caller */
		pint n = p_uthread_ideal_count ();
		long sc = sysconf (_SC_NPROCESSORS_ONLN);
		p_uthread_yield ();
		P_HANDLE id = p_uthread_current_id ();
		if (n < 1 || (sc > 0 && n != (pint) sc)) snprintf (o->res, 48, "misc:ideal_count=%d", (int) n);
		else if (id != (P_HANDLE) ((psize) pthread_self ())) strcpy (o->res, "misc:current_id");
		else strcpy (o->res, "ok");
		break; }
	case O_PRIO: (void) p_uthread_set_priority (hptr[o->h], (PUThreadPriority) o->prio); break;
	case O_KEYNEW: {
		PDestroyFunc f = NULL;
		if (o->notif) { if (nnotif >= 16) DIE ("too many notifier keys"); notif_key[nnotif] = nextK; f = notif_fn[nnotif++]; }
		PUThreadKey *k = p_uthread_local_new (f);
		pthread_mutex_lock (&amx);
		int i = blk_find (k); if (i >= 0) blks[i].tag = 'K';
		pthread_mutex_unlock (&amx);
		kptr[nextK] = k; kfreed[nextK] = 0;
		snprintf (o->res, 48, "K%d", nextK++);
		break; }
	case O_KEYFREE: p_uthread_local_free (kptr[o->k]); kfreed[o->k] = 1; break;
	default: DIE ("exec_op: bad kind");
	}
}

/* ------------------------------------------------------------------ answers */
static int cmp_int (const void *a, const void *b) { return *(const int *) a - *(const int *) b; }
static int cmp_dent (const void *a, const void *b) {
	const DEnt *x = a, *y = b;
	if (x->t != y->t) return x->t - y->t;
	if (x->k != y->k) return x->k - y->k;
	return x->v < y->v ? -1 : x->v > y->v;
}
static void begin_op (void) {
	pthread_mutex_lock (&amx); nfreedH = 0; pthread_mutex_unlock (&amx);
	pthread_mutex_lock (&lmx); ndlog = 0; nnlog = 0; pthread_mutex_unlock (&lmx);
}
static void answer (const char *res, const char *status, int show_native) {
	int live[MAXH], nl = 0, other = 0;
	pthread_mutex_lock (&amx);
	for (int i = 0; i < nblk; i++) { if (blks[i].tag == 'H') live[nl++] = blks[i].id; else if (blks[i].tag == 0) other++; }
	int fr[256], nf = nfreedH; memcpy (fr, freedH, sizeof (int) * nf);
	pthread_mutex_unlock (&amx);
	qsort (live, nl, sizeof (int), cmp_int);
	pthread_mutex_lock (&lmx);
	qsort (dlog, ndlog, sizeof (DEnt), cmp_dent);
	fprintf (out, "r=%s L=", res);
	for (int i = 0; i < nl; i++) fprintf (out, "%s%d", i ? "," : "", live[i]);
	fprintf (out, " F=");
	for (int i = 0; i < nf; i++) fprintf (out, "%s%d", i ? "," : "", fr[i]);
	fprintf (out, " D=");
	for (int i = 0; i < ndlog; i++) fprintf (out, "%s%d:%d:%lu", i ? ";" : "", dlog[i].t, dlog[i].k, dlog[i].v);
	fprintf (out, " ob=%d N=", other - baseline + shut_comp);
	if (!show_native) fprintf (out, "~");
	else {
		int first = 1;
		if (status && *status) { fprintf (out, "%s", status); first = 0; }
		for (int i = 0; i < nnlog; i++) { fprintf (out, "%s%s", first ? "" : ",", nlog[i]); first = 0; }
	}
	pthread_mutex_unlock (&lmx);
	fprintf (out, "\n");
	fflush (out);
}
static void bad (void) { fprintf (out, "bad-op\n"); fflush (out); }

/* dispatch an op to its actor and wait until it is complete */
static void dispatch (int a, Op *o) {
	Slot *s = &slots[a];
	s->op = *o;
	if (a == 0) exec_op (s);
	else { sem_post (&s->cmd); swait (&s->done); }
	*o = s->op;
}

static int permitted_use (int a, int h) { return urefs[h] > 0 || (hthread[h] == a && hthreadref[h]); }
static int key_ok (int k) { return k >= 1 && k < nextK && !kfreed[k]; }

static void run_case (char **lines, int n) {
	PMemVTable vt = { t_malloc, t_realloc, t_free };
	if (__real_pthread_key_create (&gate_key, gate_dtor) != 0) DIE ("gate key");
	memset (slots, 0, sizeof slots);
	slots[0].state = RUNNING; slots[0].foreign = 1; slots[0].self = pthread_self ();
	{ struct sigaction sa; memset (&sa, 0, sizeof sa); sa.sa_handler = on_usr1; sigemptyset (&sa.sa_mask); sigaction (SIGUSR1, &sa, NULL); }
	p_libsys_init_full (&vt);
	for (int i = 0; i < nblk; i++) if (blks[i].tag == 0) baseline++;
	alarm (30);                                     /* a history takes milliseconds; a hang (a lock kept, a lost hand-off) ends the case */
	for (int li = 0; li < n; li++) {
		char w[9][32]; int nw;
		memset (w, 0, sizeof w);
		nw = sscanf (lines[li], "%31s %31s %31s %31s %31s %31s %31s %31s", w[0], w[1], w[2], w[3], w[4], w[5], w[6], w[7]);
		if (nw < 1) continue;
		begin_op ();
		if (shut_comp) { bad (); continue; }            /* nothing of the thread API may be used after shutdown */
		Op o; memset (&o, 0, sizeof o);
		if (!strcmp (w[0], "spawn") && nw == 1) {
			int id = new_slot (1);
			Box *b = malloc (sizeof *b); b->slot = id; b->fn = worker; b->arg = NULL;
			if (__real_pthread_create (&slots[id].raw, NULL, tramp, b) != 0) DIE ("pthread_create");
			swait (&slots[id].done);
			char r[16]; snprintf (r, 16, "T%d", id);
			answer (r, "", 1);
			continue;
		}
		if (!strcmp (w[0], "race") && nw == 6) {
			int k = atoi (w[1]), t1 = atoi (w[2]), t2 = atoi (w[4]);
			if (t1 == t2 || t1 <= 0 || t2 <= 0 || t1 >= nextT || t2 >= nextT || slots[t1].state != RUNNING || slots[t2].state != RUNNING
			    || slots[t1].pending || slots[t2].pending || slots[t1].joining || slots[t2].joining || !key_ok (k)) { bad (); continue; }
			race_go = 0;
			if (!kpub[k]) kraced[k] = 1;          /* how many native keys this first use creates is up to the scheduler */
			slots[t1].op.kind = O_RACE; slots[t1].op.k = k; slots[t1].op.v = strtoul (w[3], NULL, 10);
			slots[t2].op.kind = O_RACE; slots[t2].op.k = k; slots[t2].op.v = strtoul (w[5], NULL, 10);
			sem_post (&slots[t1].cmd); sem_post (&slots[t2].cmd);
			usleep (200);
			race_go = 1;
			swait (&slots[t1].done); swait (&slots[t2].done);
			kpub[k] = 1;
			answer ("-", "", 0);
			continue;
		}
		if (nw == 2 && !strcmp (w[1], "shutdown")) {
			int pend = 0;
			for (int t = 1; t < nextT; t++) if (slots[t].pending || slots[t].joining) pend = 1;
			if (strcmp (w[0], "0") || pend) { bad (); continue; }
			cur_k = 0;
			p_uthread_shutdown ();                  /* unref of the caller's handle, local_free of the library key, spinlock */
			shut_comp = 2;
			answer ("-", "", 1);
			continue;
		}
		char *endp;
		long a = strtol (w[0], &endp, 10);
		if (*endp || a < 0 || a >= nextT || nw < 2) { bad (); continue; }
		Slot *s = &slots[a];
		const char *op = w[1];
		if (s->pending && strcmp (op, "kcas")) { bad (); continue; }
		if (s->joining && strcmp (op, "jend")) { bad (); continue; }
		int running = s->state == RUNNING;
		if (!strcmp (op, "create") && nw >= 3) {
			int okc = running && (!strcmp (w[2], "j") || !strcmp (w[2], "d") || !strcmp (w[2], "J"));
			o.kind = O_CREATE; o.joinable = strcmp (w[2], "d") != 0; o.jv = !strcmp (w[2], "J") ? 2 : o.joinable;
			o.namelen = -1;
			for (int i = 3; i < nw && okc; i++) {
				const char *x = w[i];
				int digits = x[1] != 0 && strspn (x + 1, "0123456789") == strlen (x + 1) && strlen (x + 1) <= 4;
				if (!strcmp (x, "n")) o.named = 1;
				else if (x[0] == 'n' && digits && atoi (x + 1) <= 1000) { o.named = 1; o.namelen = atoi (x + 1); }
				else if (!strcmp (x, "x")) o.cmode = o.cmode ? 99 : 1;
				else if (!strcmp (x, "eagain")) o.cmode = o.cmode ? 99 : 2;
				else if (!strcmp (x, "eperm")) o.cmode = o.cmode ? 99 : 3;
				else if (!strcmp (x, "fail:attr")) o.cmode = o.cmode ? 99 : 4;
				else if (!strcmp (x, "fail:detach")) o.cmode = o.cmode ? 99 : 5;
				else if (x[0] == 'p' && digits && atoi (x + 1) <= 7) { o.full = 1; o.prio = atoi (x + 1); }
				else if (x[0] == 's' && digits) { o.full = 1; o.stack = (unsigned long) atoi (x + 1) * 1024UL; }
				else okc = 0;
			}
			if (!okc || o.cmode == 99) { bad (); continue; }
			dispatch (a, &o);
			if (o.cmode == 1) { Slot *c = &slots[last_created_slot]; swait (&c->done); c->state = RUNNING; kpub[0] = 1; }
			answer (o.res, "", 1);
		} else if (!strcmp (op, "start") && nw == 3 && !strcmp (w[2], "fail2")) {
			/* the proxy's p_uthread_set_local and its read-back both fail to make the library key's native key */
			int pend0 = 0;
			for (int t = 1; t < nextT; t++) if (slots[t].pending && (slots[t].pend_op.named || slots[t].pend_op.kind == O_CURRENT)) pend0 = 1;
			if (s->state != CREATED || kpub[0] || pend0) { bad (); continue; }
			fail_kc = 2;
			sem_post (&s->start_gate); swait (&s->done); s->state = RUNNING; s->unstored = 1;
			if (fail_kc) DIE ("scripted pthread_key_create failures were not consumed by the proxy");
			answer ("-", "", 1);
		} else if (!strcmp (op, "start") && nw == 2) {
			if (s->state != CREATED) { bad (); continue; }
			sem_post (&s->start_gate); swait (&s->done); s->state = RUNNING; kpub[0] = 1;
			answer ("-", "", 1);
		} else if ((!strcmp (op, "set") || !strcmp (op, "replace")) && nw == 4) {
			int k = atoi (w[2]);
			if (!running || !key_ok (k)) { bad (); continue; }
			o.kind = !strcmp (op, "set") ? O_SET : O_REPLACE; o.k = k; o.v = strtoul (w[3], NULL, 10);
			dispatch (a, &o); kpub[k] = 1; answer ("-", "", 1);
		} else if ((!strcmp (op, "set") || !strcmp (op, "replace")) && nw == 5 && !strcmp (w[4], "ssfail")) {
			int k = atoi (w[2]);
			if (!running || !key_ok (k)) { bad (); continue; }
			o.kind = !strcmp (op, "set") ? O_SET : O_REPLACE; o.k = k; o.v = strtoul (w[3], NULL, 10); o.jfail = 2;
			dispatch (a, &o); kpub[k] = 1; answer ("-", "", 1);
		} else if ((!strcmp (op, "set") || !strcmp (op, "replace")) && nw == 5 && !strcmp (w[4], "fail")) {
			int k = atoi (w[2]);
			if (!running || !key_ok (k) || kpub[k]) { bad (); continue; }
			o.kind = !strcmp (op, "set") ? O_SET : O_REPLACE; o.k = k; o.v = strtoul (w[3], NULL, 10); o.jfail = 1;
			dispatch (a, &o); answer ("-", "", 1);
		} else if (!strcmp (op, "get") && nw == 4 && !strcmp (w[3], "fail")) {
			int k = atoi (w[2]);
			if (!running || !key_ok (k) || kpub[k]) { bad (); continue; }
			o.kind = O_GET; o.k = k; o.jfail = 1;
			dispatch (a, &o); answer (o.res, "", 1);
		} else if (!strcmp (op, "current") && nw == 3 && (!strcmp (w[2], "fail2") || !strcmp (w[2], "fail3"))) {
			int pend0 = 0;
			for (int t = 1; t < nextT; t++) if (slots[t].pending && (slots[t].pend_op.named || slots[t].pend_op.kind == O_CURRENT)) pend0 = 1;
			if (!running || kpub[0] || pend0) { bad (); continue; }
			o.kind = O_CURRENT; o.jfail = w[2][4] - '0';
			dispatch (a, &o);
			if (o.jfail == 2) kpub[0] = 1;
			answer (o.res, "", 1);
		} else if (!strcmp (op, "get") && nw == 3) {
			int k = atoi (w[2]);
			if (!running || !key_ok (k)) { bad (); continue; }
			o.kind = O_GET; o.k = k;
			dispatch (a, &o); kpub[k] = 1; answer (o.res, "", 1);
		} else if (!strcmp (op, "current") && nw == 2) {
			if (!running) { bad (); continue; }
			o.kind = O_CURRENT; dispatch (a, &o); kpub[0] = 1; answer (o.res, "", 1);
		} else if (!strcmp (op, "exit") && nw == 3) {
			if (!running) { bad (); continue; }
			o.kind = O_EXIT; o.code = strtol (w[2], NULL, 10);
			dispatch (a, &o); kpub[0] = 1;                       /* library thread: `done` comes from the gate destructor */
			if (!(s->foreign || a == 0 || s->unstored)) { s->state = FINISHED; strcpy (o.res, "-"); }
			answer (o.res, "", 1);
		} else if (!strcmp (op, "return") && nw == 2) {
			if (!running || a == 0) { bad (); continue; }
			o.kind = O_RETURN; s->op = o; sem_post (&s->cmd); swait (&s->done); s->state = FINISHED;
			if (s->unstored) for (int h = 0; h < nextH; h++) if (hthread[h] == a && hours[h]) hthreadref[h] = 0;   /* the proxy's unref */
			answer ("-", "", 1);
		} else if (!strcmp (op, "end") && nw == 2) {
			if (s->state != FINISHED) { bad (); continue; }
			for (int t = 1; t < nextT; t++)         /* a join of this thread that is already back returned before the thread finished */
				if (slots[t].joining == 1 && hthread[slots[t].join_h] == (int) a && sem_trywait (&slots[t].done) == 0) slots[t].joining = 2;
			sem_post (&s->end_gate); swait (&s->done); s->state = ENDED;
			for (int h = 0; h < nextH; h++) if (hthread[h] == a) hthreadref[h] = 0;
			answer ("-", "", 1);
		} else if ((!strcmp (op, "ref") || !strcmp (op, "unref") || !strcmp (op, "join")) && nw == 3) {
			int h = atoi (w[2]);
			if (!running || h < 0 || h >= nextH) { bad (); continue; }
			if (!strcmp (op, "ref")) {
				if (!permitted_use (a, h)) { bad (); continue; }
				o.kind = O_REF; o.h = h; dispatch (a, &o); urefs[h]++; answer ("-", "", 1);
			} else if (!strcmp (op, "unref")) {
				int needed = 0;                 /* the reference a blocked joiner relies on may not go */
				for (int t = 1; t < nextT; t++) if (slots[t].joining && slots[t].join_h == h) needed = 1;
				if (urefs[h] <= 0 || (needed && urefs[h] == 1)) { bad (); continue; }
				o.kind = O_UNREF; o.h = h; urefs[h]--; dispatch (a, &o); answer ("-", "", 1);
			} else {
				if (!permitted_use (a, h) || hjoined[h]) { bad (); continue; }
				if (hjoinable[h] && slots[hthread[h]].state != ENDED) { bad (); continue; }   /* would block */
				o.kind = O_JOIN; o.h = h; dispatch (a, &o);
				if (hjoinable[h]) hjoined[h] = 1;
				answer (o.res, "", 1);
			}
		} else if (!strcmp (op, "join") && nw == 4 && !strcmp (w[3], "fail")) {
			/* p_uthread_join whose native pthread_join reports an error: comes back at once whatever the target is doing */
			int h = atoi (w[2]), busy = 0;
			for (int t = 1; t < nextT; t++) if (slots[t].joining && slots[t].join_h == h) busy = 1;
			if (!running || h < 0 || h >= nextH || !permitted_use (a, h) || hjoined[h] || !hjoinable[h] || busy) { bad (); continue; }
			o.kind = O_JOIN; o.h = h; o.jfail = 1; dispatch (a, &o);
			answer (o.res, "", 1);
		} else if (!strcmp (op, "jbegin") && nw == 3) {
			int h = atoi (w[2]);
			if (!running || a == 0 || h < 0 || h >= nextH || !permitted_use (a, h) || hjoined[h] || !hjoinable[h]) { bad (); continue; }
			int tt = hthread[h];
			if (tt == a || slots[tt].state == ENDED || slots[tt].joining) { bad (); continue; }
			o.kind = O_JOIN; o.h = h; s->op = o; s->joining = 1; s->join_h = h; hjoined[h] = 1;
			sem_post (&s->cmd);
			int early = timed_wait (&s->done, 3);
			if (!early) { pthread_kill (s->self, SIGUSR1); early = timed_wait (&s->done, 2); }   /* a handled signal must not end the wait */
			if (early) { char r[64]; s->joining = 2; snprintf (r, 64, "early:%s", s->op.res); answer (r, "", 1); }
			else answer ("blocked", "", 1);
		} else if (!strcmp (op, "jend") && nw == 2) {
			if (!s->joining || slots[hthread[s->join_h]].state != ENDED) { bad (); continue; }
			if (s->joining == 1) swait (&s->done);
			char r[64];
			if (s->joining == 2) snprintf (r, 64, "early:%s", s->op.res); else snprintf (r, 64, "%s", s->op.res);
			s->joining = 0;
			answer (r, "", 1);
		} else if (!strcmp (op, "prio") && nw == 4) {
			int h = atoi (w[2]), pr = atoi (w[3]);
			if (!running || h < 0 || h >= nextH || !permitted_use (a, h) || !hours[h] || slots[hthread[h]].state == ENDED
			    || strlen (w[3]) != 1 || w[3][0] < '0' || w[3][0] > '7') { bad (); continue; }
			o.kind = O_PRIO; o.h = h; o.prio = pr; dispatch (a, &o); answer ("-", "", 1);
		} else if (!strcmp (op, "misc") && nw == 2) {
			if (!running) { bad (); continue; }
			o.kind = O_MISC; dispatch (a, &o); answer (o.res, "", 1);
		} else if (!strcmp (op, "keynew") && nw == 3) {
			if (!running || (strcmp (w[2], "n") && strcmp (w[2], "x")) || nextK >= MAXK) { bad (); continue; }
			o.kind = O_KEYNEW; o.notif = !strcmp (w[2], "n"); dispatch (a, &o); answer (o.res, "", 1);
		} else if (!strcmp (op, "keyfree") && nw == 3) {
			int k = atoi (w[2]);
			if (!running || !key_ok (k)) { bad (); continue; }
			int busy = 0;                           /* a thread parked inside a call on this key */
			for (int t = 1; t < nextT; t++)
				if (slots[t].pending && !slots[t].pend_op.named && slots[t].pend_op.kind != O_CURRENT && slots[t].pend_op.k == k) busy = 1;
			if (busy) { bad (); continue; }
			o.kind = O_KEYFREE; o.k = k; dispatch (a, &o); answer ("-", "", 1);
		} else if (!strcmp (op, "kbegin") && nw == 5) {
			const char *what = w[2];
			int k = atoi (w[3]);
			int is_start = !strcmp (what, "start"), is_cur = !strcmp (what, "current");
			int kind = !strcmp (what, "set") ? O_SET : !strcmp (what, "replace") ? O_REPLACE : !strcmp (what, "get") ? O_GET : is_cur ? O_CURRENT : 0;
			if (a == 0 || (!kind && !is_start)) { bad (); continue; }
			if (is_start ? s->state != CREATED : !running) { bad (); continue; }
			if (!is_start && !is_cur && !key_ok (k)) { bad (); continue; }
			o.kind = kind; o.k = k; o.v = strtoul (w[4], NULL, 10);
			s->arm_cas = 1; s->at_cas = 0; s->op = o;
			if (is_start) sem_post (&s->start_gate); else sem_post (&s->cmd);
			swait (&s->done);
			if (s->at_cas) { s->pending = 1; s->pend_op = o; s->pend_op.named = is_start; answer ("-", "atcas", 1); }
			else { s->arm_cas = 0; if (is_start) s->state = RUNNING; if (is_start || is_cur) kpub[0] = 1; answer (s->op.res[0] && !is_start ? s->op.res : "-", "done", 1); }
		} else if (!strcmp (op, "kcas") && nw == 2) {
			if (!s->pending) { bad (); continue; }
			s->pending = 0; s->at_cas = 0; s->cas_result = 0;
			sem_post (&s->cas_gate); swait (&s->done);
			if (s->pend_op.named) s->state = RUNNING;
			if (!s->pend_op.named && s->pend_op.kind != O_CURRENT) kpub[s->pend_op.k] = 1; else kpub[0] = 1;
			answer (s->pend_op.named ? "-" : s->op.res, s->cas_result == 1 ? "won" : "lost", 1);
		} else bad ();
	}
	fflush (out);
	_exit (0);
}

int main (void) {
	static char *lines[200000];
	int n = 0;
	char buf[256];
	out = fdopen (dup (1), "w");
	dup2 (2, 1);                                    /* the library prints warnings with printf */
	while (fgets (buf, sizeof buf, stdin)) { if (n >= 200000) DIE ("too many lines"); lines[n++] = strdup (buf); }
	int i = 0;
	while (i < n) {
		int j = i;
		while (j < n && strncmp (lines[j], "reset", 5) != 0) j++;
		if (j > i) {
			fflush (out);
			pid_t pid = fork ();
			if (pid < 0) DIE ("fork");
			if (pid == 0) run_case (lines + i, j - i);
			int st;
			while (waitpid (pid, &st, 0) < 0) if (errno != EINTR) DIE ("waitpid");
			if (WIFSIGNALED (st)) { fflush (out); signal (WTERMSIG (st), SIG_DFL); raise (WTERMSIG (st)); _exit (134); }
			if (WEXITSTATUS (st) != 0) { fflush (out); _exit (WEXITSTATUS (st)); }
		}
		if (j < n) { fprintf (out, "ok\n"); fflush (out); }
		i = j + 1;
	}
	return 0;
}

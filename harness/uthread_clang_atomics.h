/* clang has no builtins named __atomic_load_4/_8, __atomic_store_4/_8 (gcc expands them inline): without a
 * prototype patomic-c11.c would call them as implicit-int functions and truncate pointers.  The TSan stress
 * build (clang-14) force-includes these prototypes; harness/uthread_stress.c defines the functions with the
 * generic builtins of the same memory order, which ThreadSanitizer instruments. */
#ifndef PV_UTHREAD_CLANG_ATOMICS_H
#define PV_UTHREAD_CLANG_ATOMICS_H
#ifdef __clang__
unsigned int __atomic_load_4 (const volatile void *p, int m);
unsigned long __atomic_load_8 (const volatile void *p, int m);
void __atomic_store_4 (volatile void *p, unsigned int v, int m);
void __atomic_store_8 (volatile void *p, unsigned long v, int m);
#endif
#endif

/* bodies of the size-suffixed __atomic_* calls for clang builds that pull patomic-c11.c / pspinlock-c11.c from the
 * library archive (pv.build_harness fallback); same text as in uthread_stress.c */
#include "uthread_clang_atomics.h"
#ifdef __clang__
/* clang does not expand the size-suffixed __atomic_*_N library calls that patomic-c11.c / pspinlock-c11.c use;
 * give them bodies made of the generic builtins (instrumented by TSan, same memory order) */
#define MO(m) ((m) == __ATOMIC_RELAXED ? __ATOMIC_RELAXED : (m) == __ATOMIC_ACQUIRE ? __ATOMIC_ACQUIRE : (m) == __ATOMIC_RELEASE ? __ATOMIC_RELEASE : __ATOMIC_SEQ_CST)
unsigned int __atomic_load_4 (const volatile void *p, int m) {
	return m == __ATOMIC_RELAXED ? __atomic_load_n ((const volatile unsigned int *) p, __ATOMIC_RELAXED)
	     : m == __ATOMIC_ACQUIRE ? __atomic_load_n ((const volatile unsigned int *) p, __ATOMIC_ACQUIRE)
	     : __atomic_load_n ((const volatile unsigned int *) p, __ATOMIC_SEQ_CST);
}
unsigned long __atomic_load_8 (const volatile void *p, int m) {
	return m == __ATOMIC_RELAXED ? __atomic_load_n ((const volatile unsigned long *) p, __ATOMIC_RELAXED)
	     : m == __ATOMIC_ACQUIRE ? __atomic_load_n ((const volatile unsigned long *) p, __ATOMIC_ACQUIRE)
	     : __atomic_load_n ((const volatile unsigned long *) p, __ATOMIC_SEQ_CST);
}
void __atomic_store_4 (volatile void *p, unsigned int v, int m) {
	if (m == __ATOMIC_RELAXED) __atomic_store_n ((volatile unsigned int *) p, v, __ATOMIC_RELAXED);
	else if (m == __ATOMIC_RELEASE) __atomic_store_n ((volatile unsigned int *) p, v, __ATOMIC_RELEASE);
	else __atomic_store_n ((volatile unsigned int *) p, v, __ATOMIC_SEQ_CST);
}
void __atomic_store_8 (volatile void *p, unsigned long v, int m) {
	if (m == __ATOMIC_RELAXED) __atomic_store_n ((volatile unsigned long *) p, v, __ATOMIC_RELAXED);
	else if (m == __ATOMIC_RELEASE) __atomic_store_n ((volatile unsigned long *) p, v, __ATOMIC_RELEASE);
	else __atomic_store_n ((volatile unsigned long *) p, v, __ATOMIC_SEQ_CST);
}
#endif

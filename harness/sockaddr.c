/* C17 harness: drives the real psocketaddress.c from an op file (stdin), one answer line per op.
 * Built from /repo/src of the working tree with ASan+UBSan (abort on first report).
 *
 * Every native buffer handed to the library is a heap block of EXACTLY the stated length, so any
 * access beyond it is an ASan report.  Destination buffers are pre-filled with 0xA5; a failing
 * conversion that changed the buffer prints PARTIAL-WRITE.
 *
 * Canonical address:   v4 HEX8 PORT   |   v6 HEX32 PORT FLOW SCOPE     (FLOW = raw value of the
 * sin6_flowinfo object as the library's getter returns it; SCOPE = sin6_scope_id)
 * Strings are hex encoded ("-" = empty).  Everything after a " |" on an input line is an annotation
 * for the model (platform answers) and is ignored here.
 *
 * ops:  fromnative HEX            -> DUMP | none
 *       nrt HEX DESTLEN           -> none | ok HEX | fail            (from native, then to native)
 *       tonative ADDR DESTLEN     -> ok HEX | fail | PARTIAL-WRITE HEX
 *       setfs ADDR FLOW SCOPE     -> DUMP
 *       new STRHEX PORT           -> DUMP | none      followed by  " | " PLATFORM(string)
 *       text ADDR                 -> t=HEX back=DUMP  followed by  " | ntop=HEX " PLATFORM(that text)
 *       any FAM PORT, loop FAM PORT -> DUMP | none
 *       sup                       -> flow=0|1 scope=0|1 ipv6=0|1
 *       NULL pointer arguments:
 *       fromnative null LEN       -> none                 (native == NULL, stated length LEN)
 *       new null PORT             -> none                 (address == NULL)
 *       tonative null DESTLEN     -> fail | …             (addr == NULL, a real destination of DESTLEN bytes)
 *       tonative nulldest ADDR DESTLEN -> fail | ok-or-write   (dest == NULL)
 *       getnull                   -> size=0 fam=0 text=NULL port=0 flow=0 scope=0 any=0 loop=0 set=1   (every getter, both setters and free on NULL)
 *       lengths up to 2^33 (the buffer is ONE anonymous MAP_NORESERVE mapping of 2^33 + 64 KiB bytes: address space only,
 *       but every byte of the stated length is really there, so every length passed is honest; 64 <= LEN <= 2^33):
 *       tonativebig ADDR LEN      -> ok HEX64 rest=clean|DIRTY | fail | PARTIAL-WRITE HEX64     (first 64 bytes pre-filled
 *                                    with 0xA5 and printed; the rest of the first page and a sample of later pages must
 *                                    still be zero: to_native writes exactly the structure)
 *       fromnativebig HEX LEN     -> DUMP | none          (HEX, at most 64 bytes, at the start of the mapping, zeros behind)
 *       platform text functions against their Lean model (PV.Model.Inet6Text; the library is not called, a
 *       difference is a correspondence break of that model, not a finding about the library):
 *       ntop6 HEX32               -> t=HEX back=HEX32|-   (inet_ntop (AF_INET6) into 46 bytes; inet_pton (AF_INET6) of that text)
 *       ntop4 HEX8                -> t=HEX back=HEX8|-    (the same with AF_INET, 16 bytes)
 *       pton STRHEX               -> p4=HEX8|- p6=HEX32|- gai=FAMILY:HEX|-|n/a   (inet_pton both families; getaddrinfo
 *                                    (AI_NUMERICHOST) only for strings with ':' and without '%', else n/a)
 *       reset                     -> ok
 * DUMP = fam=F port=P flow=FL scope=SC size=N any=A loop=L plat=AL nat=HEX
 *        (getters; `nat` = to_native into a buffer of exactly `size` bytes; `plat` = the platform's own
 *        view of the address bytes: INADDR_ANY / IN_LOOPBACKNET / in6addr_any / in6addr_loopback)
 * PLATFORM(s) = p4=HEX8|- p6=HEX32|- gai=FAMILY:HEX|-     (this program's own inet_pton / getaddrinfo calls)
 *
 * `sockaddr platform` (argv[1]) = annotate mode: echoes every op line, adding the annotation the model
 * needs (`new`: PLATFORM(string); `text`: ntop=HEX PLATFORM(text)); the library is not called.
 */
#define _GNU_SOURCE
#include <plibsys.h>
#include <stdio.h>
#include <stdlib.h>
#include <string.h>
#include <stdint.h>
#include <sys/types.h>
#include <sys/socket.h>
#include <netinet/in.h>
#include <arpa/inet.h>
#include <netdb.h>
#include <unistd.h>
#include <sys/mman.h>

#define PAT 0xA5

/* protocol stream: the library prints its P_WARNING / P_ERROR messages on stdout, so the original stdout is kept
 * for the protocol and fd 1 is pointed at stderr */
static FILE *out;

static int hexval (int c) {
	if (c >= '0' && c <= '9') return c - '0';
	if (c >= 'a' && c <= 'f') return c - 'a' + 10;
	if (c >= 'A' && c <= 'F') return c - 'A' + 10;
	return -1;
}

/* exact-size heap copy of the bytes; *len < 0 on syntax error */
static unsigned char *unhex (const char *s, long *len) {
	size_t n = strlen (s), i;
	unsigned char *b;
	if (!strcmp (s, "-")) { *len = 0; return malloc (0); }
	if (n % 2) { *len = -1; return NULL; }
	for (i = 0; i < n; i++) if (hexval (s[i]) < 0) { *len = -1; return NULL; }
	b = malloc (n / 2);
	for (i = 0; i < n / 2; i++) b[i] = (unsigned char) (hexval (s[2 * i]) * 16 + hexval (s[2 * i + 1]));
	*len = (long) (n / 2);
	return b;
}

static void hex (const void *p, size_t n) {
	size_t i;
	if (n == 0) fprintf (out, "-");
	for (i = 0; i < n; i++) fprintf (out, "%02x", ((const unsigned char *) p)[i]);
}

/* NUL-terminated copy of hex-encoded bytes (C string semantics: an embedded NUL ends it) */
static char *unhex_str (const char *s) {
	long n;
	unsigned char *b = unhex (s, &n);
	char *r;
	if (n < 0) return NULL;
	r = malloc ((size_t) n + 1);
	memcpy (r, b, (size_t) n);
	r[n] = 0;
	free (b);
	return r;
}

static int parse_u (const char *s, unsigned long max, unsigned long *out) {
	char *e;
	unsigned long long v;
	if (!*s || *s < '0' || *s > '9') return 0;
	v = strtoull (s, &e, 10);
	if (*e || v > max) return 0;
	*out = (unsigned long) v;
	return 1;
}

static void platform_str (const char *s) {
	unsigned char a4[4], a6[16];
	struct addrinfo hints, *res = NULL;
	fprintf (out, "p4=");
	if (inet_pton (AF_INET, s, a4) > 0) hex (a4, 4); else fprintf (out, "-");
	fprintf (out, " p6=");
	if (inet_pton (AF_INET6, s, a6) > 0) hex (a6, 16); else fprintf (out, "-");
	memset (&hints, 0, sizeof hints);
	hints.ai_family = AF_UNSPEC;
	hints.ai_socktype = SOCK_STREAM;
	hints.ai_flags = AI_NUMERICHOST;
	fprintf (out, " gai=");
	if (getaddrinfo (s, NULL, &hints, &res) == 0) {
		fprintf (out, "%d:", res->ai_family);
		hex (res->ai_addr, res->ai_addrlen);
		freeaddrinfo (res);
	} else
		fprintf (out, "-");
}

/* ---- one large, honest buffer (ops tonativebig / fromnativebig) ---- */
#define BIG_MAX ((unsigned long long) 1 << 33)
#define BIG_MAP (BIG_MAX + 65536)
static unsigned char *bigmap;

static unsigned char *big (void) {
	if (bigmap == NULL) {
		void *p = mmap (NULL, BIG_MAP, PROT_READ | PROT_WRITE, MAP_PRIVATE | MAP_ANONYMOUS | MAP_NORESERVE, -1, 0);
		if (p != MAP_FAILED) bigmap = p;
	}
	return bigmap;
}

/* bytes 64..4095 and 64-byte windows on later pages (around 2^31, 2^32, the end of the stated length, 2^33) are zero */
static int big_rest_clean (unsigned long long len) {
	static const unsigned long long at[] = { 4096, 65536, 1 << 20, (1ULL << 31) - 4096, (1ULL << 31) - 64, 1ULL << 31, (1ULL << 31) + 4096,
		(1ULL << 32) - 4096, (1ULL << 32) - 64, 1ULL << 32, (1ULL << 32) + 4096, (1ULL << 33) - 64, 1ULL << 33, BIG_MAP - 64 };
	size_t i, j;
	for (j = 64; j < 4096; j++) if (bigmap[j]) return 0;
	for (i = 0; i < sizeof at / sizeof at[0]; i++)
		for (j = 0; j < 64; j++) if (bigmap[at[i] + j]) return 0;
	if (len >= 128) for (j = 0; j < 64; j++) if (bigmap[len - 64 + j]) return 0;
	for (j = 0; j < 64; j++) if (bigmap[len + j]) return 0;
	return 1;
}

static int parse_big (const char *s, unsigned long long *out) {
	char *e;
	if (!*s || *s < '0' || *s > '9') return 0;
	*out = strtoull (s, &e, 10);
	return !*e && *out >= 64 && *out <= BIG_MAX;
}

/* the platform's text functions alone (ops ntop6 / ntop4 / pton) */
static void platform_ntop (int af, const unsigned char *addr, size_t alen) {
	char buf[INET6_ADDRSTRLEN];
	unsigned char back[16];
	if (inet_ntop (af, addr, buf, af == AF_INET ? INET_ADDRSTRLEN : INET6_ADDRSTRLEN) == NULL) { fprintf (out, "t=NULL back=-"); return; }
	fprintf (out, "t="); hex (buf, strlen (buf));
	fprintf (out, " back=");
	if (inet_pton (af, buf, back) > 0) hex (back, alen); else fprintf (out, "-");
}

static void platform_pton (const char *s) {
	unsigned char a4[4], a6[16];
	fprintf (out, "p4=");
	if (inet_pton (AF_INET, s, a4) > 0) hex (a4, 4); else fprintf (out, "-");
	fprintf (out, " p6=");
	if (inet_pton (AF_INET6, s, a6) > 0) hex (a6, 16); else fprintf (out, "-");
	fprintf (out, " gai=");
	if (strchr (s, ':') != NULL && strchr (s, '%') == NULL) {
		struct addrinfo hints, *res = NULL;
		memset (&hints, 0, sizeof hints);
		hints.ai_family = AF_UNSPEC;
		hints.ai_socktype = SOCK_STREAM;
		hints.ai_flags = AI_NUMERICHOST;
		if (getaddrinfo (s, NULL, &hints, &res) == 0) {
			fprintf (out, "%d:", res->ai_family);
			hex (res->ai_addr, res->ai_addrlen);
			freeaddrinfo (res);
		} else
			fprintf (out, "-");
	} else
		fprintf (out, "n/a");
}

static void dump (PSocketAddress *a) {
	size_t sz;
	unsigned char *nat;
	int fam, pany = 0, ploop = 0;
	if (a == NULL) { fprintf (out, "none"); return; }
	fam = (int) p_socket_address_get_family (a);
	sz = p_socket_address_get_native_size (a);
	nat = malloc (sz);
	memset (nat, PAT, sz);
	fprintf (out, "fam=%d port=%u flow=%lu scope=%lu size=%lu any=%d loop=%d", fam, (unsigned) p_socket_address_get_port (a),
		(unsigned long) p_socket_address_get_flow_info (a), (unsigned long) p_socket_address_get_scope_id (a), (unsigned long) sz,
		p_socket_address_is_any (a) ? 1 : 0, p_socket_address_is_loopback (a) ? 1 : 0);
	if (!p_socket_address_to_native (a, nat, sz)) { fprintf (out, " plat=-- nat=fail"); free (nat); return; }
	if (fam == AF_INET && sz >= sizeof (struct sockaddr_in)) {
		struct sockaddr_in s;
		uint32_t h;
		memcpy (&s, nat, sizeof s);
		h = ntohl (s.sin_addr.s_addr);
		pany = h == INADDR_ANY;
		ploop = (h >> IN_CLASSA_NSHIFT) == IN_LOOPBACKNET;	/* the platform's loopback network: 127/8 */
	} else if (fam == AF_INET6 && sz >= sizeof (struct sockaddr_in6)) {
		struct sockaddr_in6 s;
		memcpy (&s, nat, sizeof s);
		pany = memcmp (&s.sin6_addr, &in6addr_any, sizeof (struct in6_addr)) == 0;
		ploop = memcmp (&s.sin6_addr, &in6addr_loopback, sizeof (struct in6_addr)) == 0;
	}
	fprintf (out, " plat=%d%d nat=", pany, ploop);
	hex (nat, sz);
	free (nat);
}

/* canonical address in t[0..]; returns the number of tokens used, 0 on syntax error.
 * The native structure is filled through the platform's own struct types. */
static int parse_addr (char **t, int n, unsigned char **nat, size_t *natlen, unsigned long *port) {
	long len;
	unsigned char *b;
	unsigned long flow, scope;
	if (n >= 3 && !strcmp (t[0], "v4")) {
		struct sockaddr_in s;
		b = unhex (t[1], &len);
		if (len != 4 || !parse_u (t[2], 65535, port)) { free (b); return 0; }
		memset (&s, 0, sizeof s);
		s.sin_family = AF_INET;
		memcpy (&s.sin_addr, b, 4);
		s.sin_port = htons ((uint16_t) *port);
		free (b);
		*natlen = sizeof s;
		*nat = malloc (sizeof s);
		memcpy (*nat, &s, sizeof s);
		return 3;
	}
	if (n >= 5 && !strcmp (t[0], "v6")) {
		struct sockaddr_in6 s;
		b = unhex (t[1], &len);
		if (len != 16 || !parse_u (t[2], 65535, port) || !parse_u (t[3], 0xffffffffUL, &flow) || !parse_u (t[4], 0xffffffffUL, &scope)) { free (b); return 0; }
		memset (&s, 0, sizeof s);
		s.sin6_family = AF_INET6;
		memcpy (&s.sin6_addr, b, 16);
		s.sin6_port = htons ((uint16_t) *port);
		s.sin6_flowinfo = (uint32_t) flow;
		s.sin6_scope_id = (uint32_t) scope;
		free (b);
		*natlen = sizeof s;
		*nat = malloc (sizeof s);
		memcpy (*nat, &s, sizeof s);
		return 5;
	}
	return 0;
}

static PSocketAddress *mk_addr (char **t, int n, int *used, unsigned long *port) {
	unsigned char *nat;
	size_t natlen;
	PSocketAddress *a;
	*used = parse_addr (t, n, &nat, &natlen, port);
	if (*used == 0) return NULL;
	a = p_socket_address_new_from_native (nat, natlen);
	free (nat);
	return a;
}

static void to_native_op (PSocketAddress *a, unsigned long destlen) {
	unsigned char *dest = malloc (destlen), *ref = malloc (destlen);
	memset (dest, PAT, destlen);
	memset (ref, PAT, destlen);
	if (p_socket_address_to_native (a, dest, destlen)) { fprintf (out, "ok "); hex (dest, destlen); }
	else if (memcmp (dest, ref, destlen) == 0) fprintf (out, "fail");
	else { fprintf (out, "PARTIAL-WRITE "); hex (dest, destlen); }
	free (dest);
	free (ref);
}

#define MAXTOK 16

int main (int argc, char **argv) {
	char *line = NULL, *t[MAXTOK];
	size_t cap = 0;
	int annotate = argc > 1 && !strcmp (argv[1], "platform");
	out = fdopen (dup (1), "w");
	dup2 (2, 1);
	if (!annotate) p_libsys_init ();
	while (getline (&line, &cap, stdin) > 0) {
		int n = 0, used;
		unsigned long port, u1, u2;
		char *bar, *p, *save;
		PSocketAddress *a;
		line[strcspn (line, "\r\n")] = 0;
		bar = strstr (line, " |");
		if (bar) *bar = 0;
		if (annotate) fprintf (out, "%s", line);
		for (p = strtok_r (line, " ", &save); p && n < MAXTOK; p = strtok_r (NULL, " ", &save)) t[n++] = p;
		if (n == 0) { if (annotate) fprintf (out, "\n"); continue; }
		if (annotate) {
			if (!strcmp (t[0], "new") && n == 3) {
				char *s = unhex_str (t[1]);
				if (s) { fprintf (out, " | "); platform_str (s); free (s); }
			} else if (!strcmp (t[0], "text")) {
				unsigned char *nat; size_t natlen; char buf[INET6_ADDRSTRLEN + 8];
				used = parse_addr (t + 1, n - 1, &nat, &natlen, &port);
				if (used && used == n - 1) {
					if (used == 3) inet_ntop (AF_INET, &((struct sockaddr_in *) nat)->sin_addr, buf, sizeof buf);
					else inet_ntop (AF_INET6, &((struct sockaddr_in6 *) nat)->sin6_addr, buf, sizeof buf);
					fprintf (out, " | ntop="); hex (buf, strlen (buf)); fprintf (out, " "); platform_str (buf);
					free (nat);
				}
			}
			fprintf (out, "\n");
			fflush (out);
			continue;
		}
		if (!strcmp (t[0], "fromnative") && n == 3 && !strcmp (t[1], "null") && parse_u (t[2], 1 << 20, &u1)) {
			a = p_socket_address_new_from_native (NULL, (psize) u1); dump (a); fprintf (out, "\n"); p_socket_address_free (a);
		} else if (!strcmp (t[0], "new") && n == 3 && !strcmp (t[1], "null") && parse_u (t[2], 65535, &port)) {
			a = p_socket_address_new (NULL, (puint16) port); dump (a); fprintf (out, "\n"); p_socket_address_free (a);
		} else if (!strcmp (t[0], "tonative") && n == 3 && !strcmp (t[1], "null") && parse_u (t[2], 1 << 20, &u1)) {
			to_native_op (NULL, u1); fprintf (out, "\n");
		} else if (!strcmp (t[0], "tonative") && n >= 3 && !strcmp (t[1], "nulldest") && (a = mk_addr (t + 2, n - 2, &used, &port), used) && n == used + 3 && parse_u (t[used + 2], 1 << 20, &u1)) {
			if (a == NULL) fputs ("bad-addr\n", out);
			else { fprintf (out, p_socket_address_to_native (a, NULL, u1) ? "ok-or-write\n" : "fail\n"); p_socket_address_free (a); }
		} else if (!strcmp (t[0], "getnull") && n == 1) {
			pchar *txt = p_socket_address_get_address (NULL);
			fprintf (out, "size=%lu fam=%d text=", (unsigned long) p_socket_address_get_native_size (NULL), (int) p_socket_address_get_family (NULL));
			if (txt) hex (txt, strlen (txt)); else fprintf (out, "NULL");
			fprintf (out, " port=%u flow=%lu scope=%lu any=%d loop=%d", (unsigned) p_socket_address_get_port (NULL),
				(unsigned long) p_socket_address_get_flow_info (NULL), (unsigned long) p_socket_address_get_scope_id (NULL),
				p_socket_address_is_any (NULL) ? 1 : 0, p_socket_address_is_loopback (NULL) ? 1 : 0);
			p_socket_address_set_flow_info (NULL, 7); p_socket_address_set_scope_id (NULL, 9); p_socket_address_free (NULL);
			fprintf (out, " set=1\n"); p_free (txt);
		} else if (!strcmp (t[0], "fromnative") && n == 2) {
			long len; unsigned char *b = unhex (t[1], &len);
			if (len < 0) fputs ("bad-op\n", out);
			else { a = p_socket_address_new_from_native (b, (psize) len); dump (a); fprintf (out, "\n"); p_socket_address_free (a); }
			free (b);
		} else if (!strcmp (t[0], "nrt") && n == 3 && parse_u (t[2], 1 << 20, &u1)) {
			long len; unsigned char *b = unhex (t[1], &len);
			if (len < 0) fputs ("bad-op\n", out);
			else {
				a = p_socket_address_new_from_native (b, (psize) len);
				if (a == NULL) fputs ("none\n", out); else { to_native_op (a, u1); fprintf (out, "\n"); p_socket_address_free (a); }
			}
			free (b);
		} else if (!strcmp (t[0], "tonative") && n >= 2 && (a = mk_addr (t + 1, n - 1, &used, &port), used) && n == used + 2 && parse_u (t[used + 1], 1 << 20, &u1)) {
			if (a == NULL) fputs ("bad-addr\n", out); else { to_native_op (a, u1); fprintf (out, "\n"); p_socket_address_free (a); }
		} else if (!strcmp (t[0], "setfs") && n >= 2 && (a = mk_addr (t + 1, n - 1, &used, &port), used) && n == used + 3 &&
			   parse_u (t[used + 1], 0xffffffffUL, &u1) && parse_u (t[used + 2], 0xffffffffUL, &u2)) {
			if (a == NULL) fputs ("bad-addr\n", out);
			else {
				p_socket_address_set_flow_info (a, (puint32) u1);
				p_socket_address_set_scope_id (a, (puint32) u2);
				dump (a); fprintf (out, "\n"); p_socket_address_free (a);
			}
		} else if (!strcmp (t[0], "new") && n == 3 && parse_u (t[2], 65535, &port)) {
			char *s = unhex_str (t[1]);
			if (s == NULL) fputs ("bad-op\n", out);
			else {
				a = p_socket_address_new (s, (puint16) port);
				dump (a); fprintf (out, " | "); platform_str (s); fprintf (out, "\n");
				p_socket_address_free (a); free (s);
			}
		} else if (!strcmp (t[0], "text") && n >= 2 && (a = mk_addr (t + 1, n - 1, &used, &port), used) && n == used + 1) {
			if (a == NULL) fputs ("bad-addr\n", out);
			else {
				unsigned char *nat; size_t natlen; char buf[INET6_ADDRSTRLEN + 8];
				pchar *txt = p_socket_address_get_address (a);
				PSocketAddress *b = txt ? p_socket_address_new (txt, (puint16) port) : NULL;
				fprintf (out, "t="); if (txt) hex (txt, strlen (txt)); else fprintf (out, "NULL");
				fprintf (out, " back="); dump (b);
				parse_addr (t + 1, n - 1, &nat, &natlen, &port);
				if (used == 3) inet_ntop (AF_INET, &((struct sockaddr_in *) nat)->sin_addr, buf, sizeof buf);
				else inet_ntop (AF_INET6, &((struct sockaddr_in6 *) nat)->sin6_addr, buf, sizeof buf);
				fprintf (out, " | ntop="); hex (buf, strlen (buf)); fprintf (out, " "); platform_str (buf); fprintf (out, "\n");
				free (nat); p_free (txt); p_socket_address_free (b); p_socket_address_free (a);
			}
		} else if ((!strcmp (t[0], "any") || !strcmp (t[0], "loop")) && n == 3 && parse_u (t[1], 1 << 16, &u1) && parse_u (t[2], 65535, &port)) {
			a = t[0][0] == 'a' ? p_socket_address_new_any ((PSocketFamily) u1, (puint16) port)
					   : p_socket_address_new_loopback ((PSocketFamily) u1, (puint16) port);
			dump (a); fprintf (out, "\n"); p_socket_address_free (a);
		} else if (!strcmp (t[0], "sup") && n == 1) {
			fprintf (out, "flow=%d scope=%d ipv6=%d\n", p_socket_address_is_flow_info_supported () ? 1 : 0,
				p_socket_address_is_scope_id_supported () ? 1 : 0, p_socket_address_is_ipv6_supported () ? 1 : 0);
		} else if (!strcmp (t[0], "tonativebig") && n >= 2 && (a = mk_addr (t + 1, n - 1, &used, &port), used) && n == used + 2) {
			unsigned long long len; unsigned char ref[64];
			if (a == NULL) fputs ("bad-addr\n", out);
			else if (!parse_big (t[used + 1], &len)) { fputs ("bad-op\n", out); p_socket_address_free (a); }
			else if (big () == NULL) { fputs ("no-map\n", out); p_socket_address_free (a); }
			else {
				int ok, clean;
				memset (bigmap, PAT, 64); memset (ref, PAT, 64);
				ok = p_socket_address_to_native (a, bigmap, (psize) len) ? 1 : 0;
				clean = big_rest_clean (len);
				if (ok) { fprintf (out, "ok "); hex (bigmap, 64); fprintf (out, clean ? " rest=clean\n" : " rest=DIRTY\n"); }
				else if (memcmp (bigmap, ref, 64) == 0 && clean) fputs ("fail\n", out);
				else { fprintf (out, "PARTIAL-WRITE "); hex (bigmap, 64); fprintf (out, "\n"); }
				memset (bigmap, 0, 64);
				p_socket_address_free (a);
			}
		} else if (!strcmp (t[0], "fromnativebig") && n == 3) {
			long len; unsigned long long blen; unsigned char *b = unhex (t[1], &len);
			if (len < 0 || len > 64 || !parse_big (t[2], &blen)) fputs ("bad-op\n", out);
			else if (big () == NULL) fputs ("no-map\n", out);
			else {
				memcpy (bigmap, b, (size_t) len);
				a = p_socket_address_new_from_native (bigmap, (psize) blen); dump (a); fprintf (out, "\n"); p_socket_address_free (a);
				memset (bigmap, 0, 64);
			}
			free (b);
		} else if ((!strcmp (t[0], "ntop6") || !strcmp (t[0], "ntop4")) && n == 2) {
			long len; unsigned char *b = unhex (t[1], &len);
			long want = t[0][4] == '6' ? 16 : 4;
			if (len != want) fputs ("bad-op\n", out);
			else { platform_ntop (want == 16 ? AF_INET6 : AF_INET, b, (size_t) want); fprintf (out, "\n"); }
			free (b);
		} else if (!strcmp (t[0], "pton") && n == 2) {
			char *s = unhex_str (t[1]);
			if (s == NULL) fputs ("bad-op\n", out);
			else { platform_pton (s); fprintf (out, "\n"); free (s); }
		} else if (!strcmp (t[0], "reset") && n == 1) fputs ("ok\n", out);
		else fputs ("bad-op\n", out);
		fflush (out);
	}
	free (line);
	if (!annotate) p_libsys_shutdown ();
	return 0;
}

/* C11 harness: the real PCryptoHash. ops:
 *   new ALG | upd HEX | updz N (N zero bytes, one update call, read-only sparse mapping) |
 *   str | dig [BUFLEN] | len | reset
 * update input is an exact-size heap copy (ASan sees over-reads). */
#include <plibsys.h>
#include <stdio.h>
#include <stdlib.h>
#include <string.h>
#include <sys/mman.h>

static int hexv (int c) { return c <= '9' ? c - '0' : (c | 32) - 'a' + 10; }

static int alg_of (const char *s) {
	static const struct { const char *n; int t; } tab[] = {
		{ "md5", P_CRYPTO_HASH_TYPE_MD5 }, { "sha1", P_CRYPTO_HASH_TYPE_SHA1 },
		{ "sha224", P_CRYPTO_HASH_TYPE_SHA2_224 }, { "sha256", P_CRYPTO_HASH_TYPE_SHA2_256 },
		{ "sha384", P_CRYPTO_HASH_TYPE_SHA2_384 }, { "sha512", P_CRYPTO_HASH_TYPE_SHA2_512 },
		{ "sha3-224", P_CRYPTO_HASH_TYPE_SHA3_224 }, { "sha3-256", P_CRYPTO_HASH_TYPE_SHA3_256 },
		{ "sha3-384", P_CRYPTO_HASH_TYPE_SHA3_384 }, { "sha3-512", P_CRYPTO_HASH_TYPE_SHA3_512 },
		{ "gost", P_CRYPTO_HASH_TYPE_GOST } };
	for (size_t i = 0; i < sizeof tab / sizeof tab[0]; ++i) if (!strcmp (s, tab[i].n)) return tab[i].t;
	return -1;
}

int main (void) {
	static char line[(1 << 22) + 64], op[16], arg[1 << 22];
	PCryptoHash *h = NULL;
	p_libsys_init ();
	while (fgets (line, sizeof line, stdin)) {
		arg[0] = 0;
		int n = sscanf (line, "%15s %s", op, arg);
		if (n < 1) continue;
		if (!strcmp (op, "new") && n == 2) {
			if (h) p_crypto_hash_free (h);
			int t = alg_of (arg);
			h = t < 0 ? NULL : p_crypto_hash_new ((PCryptoHashType) t);
			puts (h ? "ok" : "fail");
		} else if (!h) puts ("bad-op");
		else if (!strcmp (op, "upd") && n == 2) {
			size_t len = (arg[0] == '-') ? 0 : strlen (arg) / 2;
			unsigned char *b = malloc (len ? len : 1);
			for (size_t i = 0; i < len; ++i) b[i] = (unsigned char) (hexv (arg[2 * i]) * 16 + hexv (arg[2 * i + 1]));
			p_crypto_hash_update (h, b, len);
			free (b);
			puts ("ok");
		} else if (!strcmp (op, "updz") && n == 2) {
			size_t len = strtoull (arg, NULL, 10);
			void *m = mmap (NULL, len ? len : 1, PROT_READ, MAP_PRIVATE | MAP_ANONYMOUS | MAP_NORESERVE, -1, 0);
			if (m == MAP_FAILED) { puts ("nomem"); fflush (stdout); continue; }
			p_crypto_hash_update (h, m, len);
			munmap (m, len ? len : 1);
			puts ("ok");
		} else if (!strcmp (op, "str") && n == 1) {
			pchar *s = p_crypto_hash_get_string (h);
			puts (s ? s : "null");
			p_free (s);
		} else if (!strcmp (op, "dig")) {
			psize cap = n == 2 ? strtoull (arg, NULL, 10) : 64, len = cap;
			unsigned char *b = malloc (cap ? cap : 1);
			p_crypto_hash_get_digest (h, b, &len);
			printf ("%zu ", (size_t) len);
			for (size_t i = 0; i < len; ++i) printf ("%02x", b[i]);
			printf ("\n");
			free (b);
		} else if (!strcmp (op, "len") && n == 1) printf ("%zd\n", (ssize_t) p_crypto_hash_get_length (h));
		else if (!strcmp (op, "reset") && n == 1) { p_crypto_hash_reset (h); puts ("ok"); }
		else puts ("bad-op");
		fflush (stdout);
	}
	if (h) p_crypto_hash_free (h);
	p_libsys_shutdown ();
	return 0;
}

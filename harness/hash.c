/* C11 harness: the real PCryptoHash. ops (one answer line each):
 *   use K            select handle slot K (0..3); every slot holds its own PCryptoHash (or none)
 *   new ALG          (frees the slot's previous object) | newt N: p_crypto_hash_new ((PCryptoHashType) N), any integer
 *   free             p_crypto_hash_free of the slot's object; the slot is empty afterwards
 *   upd HEX          one update; the input is an exact-size heap copy (ASan sees over-reads)
 *   updoK HEX        (K = 1..7) the same with the data starting K bytes into the allocation (unaligned input)
 *   updz N           N zero bytes, one update call, read-only sparse mapping
 *   updn N           update (hash, NULL, N): documented to be ignored
 *   str | dig [BUFLEN] | len | type | reset
 *   dign CAP         get_digest (hash, NULL, &len) with len = CAP   -> "0 ", not a read
 *   dignl            get_digest (hash, buf, NULL)                   -> "ok", not a read
 *   nullh            every entry point with hash == NULL            -> "null 0 0 -1"
 *   par T:R:HEX      T threads, each with its own object of the slot's type, update HEX R times and read the
 *                    string; prints the string when all threads agree, "race A B" otherwise
 * `dig` fills the exact-size output buffer with 0xA5 first; bytes beyond the reported length that changed are
 * reported as " smash@I" after the answer. */
#include <plibsys.h>
#include <pthread.h>
#include <stdio.h>
#include <stdlib.h>
#include <string.h>
#include <sys/mman.h>

#define NSLOT 4

static int hexv (int c) { return c <= '9' ? c - '0' : (c | 32) - 'a' + 10; }

static int alg_of (const char *s) {
	static const struct { const char *n; int t; } tab[] = {
		{ "md5", P_CRYPTO_HASH_TYPE_MD5 }, { "sha1", P_CRYPTO_HASH_TYPE_SHA1 },
		{ "sha224", P_CRYPTO_HASH_TYPE_SHA2_224 }, { "sha256", P_CRYPTO_HASH_TYPE_SHA2_256 },
		{ "sha384", P_CRYPTO_HASH_TYPE_SHA2_384 }, { "sha512", P_CRYPTO_HASH_TYPE_SHA2_512 },
		{ "sha3-224", P_CRYPTO_HASH_TYPE_SHA3_224 }, { "sha3-256", P_CRYPTO_HASH_TYPE_SHA3_256 },
		{ "sha3-384", P_CRYPTO_HASH_TYPE_SHA3_384 }, { "sha3-512", P_CRYPTO_HASH_TYPE_SHA3_512 },
		{ "gost", P_CRYPTO_HASH_TYPE_GOST } };
	for (size_t i = 0; i < sizeof tab / sizeof tab[0]; ++i) if (!strcmp (s, tab[i].n)) return tab[i].t;
	return -1;
}

static size_t unhex (const char *arg, unsigned char *b) {
	size_t len = (arg[0] == '-') ? 0 : strlen (arg) / 2;
	for (size_t i = 0; i < len; ++i) b[i] = (unsigned char) (hexv (arg[2 * i]) * 16 + hexv (arg[2 * i + 1]));
	return len;
}

struct par_job { int type; const unsigned char *data; size_t len; long reps; char out[160]; };

static void *par_run (void *p) {
	struct par_job *j = p;
	PCryptoHash *h = p_crypto_hash_new ((PCryptoHashType) j->type);
	if (!h) { strcpy (j->out, "fail"); return NULL; }
	for (long r = 0; r < j->reps; ++r) p_crypto_hash_update (h, j->data, j->len);
	pchar *s = p_crypto_hash_get_string (h);
	snprintf (j->out, sizeof j->out, "%s", s ? s : "null");
	p_free (s);
	p_crypto_hash_free (h);
	return NULL;
}

/* allocator of the library: malloc, except that every request fails while hm_fail is set (op strf) */
static volatile int hm_fail;
static ppointer hm_malloc (psize n) { return hm_fail ? NULL : malloc (n ? n : 1); }
static ppointer hm_realloc (ppointer p, psize n) { return hm_fail ? NULL : realloc (p, n ? n : 1); }
static void hm_free (ppointer p) { free (p); }

int main (void) {
	static char line[(1 << 22) + 64], op[16], arg[1 << 22];
	PCryptoHash *slot[NSLOT] = { NULL, NULL, NULL, NULL };
	int stype[NSLOT] = { 0, 0, 0, 0 };      /* the type each slot's object was created with */
	int cur = 0;
	{ PMemVTable vt = { hm_malloc, hm_realloc, hm_free }; p_libsys_init_full (&vt); }
	while (fgets (line, sizeof line, stdin)) {
		arg[0] = 0;
		int n = sscanf (line, "%15s %s", op, arg);
		if (n < 1) continue;
		PCryptoHash *h = slot[cur];
		if (!strcmp (op, "use") && n == 2 && arg[0] >= '0' && arg[0] < '0' + NSLOT && !arg[1]) {
			cur = arg[0] - '0';
			puts ("ok");
		} else if (!strcmp (op, "new") && n == 2) {
			if (h) p_crypto_hash_free (h);
			int t = alg_of (arg);
			h = slot[cur] = t < 0 ? NULL : p_crypto_hash_new ((PCryptoHashType) t);
			stype[cur] = t;
			puts (h ? "ok" : "fail");
		} else if (!strcmp (op, "newt") && n == 2) {
			if (h) p_crypto_hash_free (h);
			stype[cur] = (int) strtol (arg, NULL, 10);
			h = slot[cur] = p_crypto_hash_new ((PCryptoHashType) stype[cur]);
			puts (h ? "ok" : "fail");
		} else if (!strcmp (op, "nullh") && n == 1) {
			psize l = 64; unsigned char b[64];
			p_crypto_hash_update (NULL, b, 1);
			p_crypto_hash_reset (NULL);
			pchar *s = p_crypto_hash_get_string (NULL);
			p_crypto_hash_get_digest (NULL, b, &l);
			printf ("%s %zu %zd %d\n", s ? s : "null", (size_t) l, (ssize_t) p_crypto_hash_get_length (NULL),
				(int) p_crypto_hash_get_type (NULL));
			p_free (s);
			p_crypto_hash_free (NULL);
		} else if (!h) puts ("bad-op");
		else if (!strcmp (op, "free") && n == 1) {
			p_crypto_hash_free (h);
			slot[cur] = NULL;
			puts ("ok");
		} else if (!strcmp (op, "upd") && n == 2) {
			size_t len = (arg[0] == '-') ? 0 : strlen (arg) / 2;
			unsigned char *b = malloc (len ? len : 1);
			unhex (arg, b);
			p_crypto_hash_update (h, b, len);
			free (b);
			puts ("ok");
		} else if (!strncmp (op, "updo", 4) && op[4] >= '1' && op[4] <= '7' && !op[5] && n == 2) {
			size_t off = (size_t) (op[4] - '0'), len = (arg[0] == '-') ? 0 : strlen (arg) / 2;
			unsigned char *b = malloc (off + (len ? len : 1));
			unhex (arg, b + off);
			p_crypto_hash_update (h, b + off, len);
			free (b);
			puts ("ok");
		} else if (!strcmp (op, "updz") && n == 2) {
			size_t len = strtoull (arg, NULL, 10);
			void *m = mmap (NULL, len ? len : 1, PROT_READ, MAP_PRIVATE | MAP_ANONYMOUS | MAP_NORESERVE, -1, 0);
			if (m == MAP_FAILED) { puts ("nomem"); fflush (stdout); continue; }
			p_crypto_hash_update (h, m, len);
			munmap (m, len ? len : 1);
			puts ("ok");
		} else if (!strcmp (op, "updn") && n == 2) {
			p_crypto_hash_update (h, NULL, strtoull (arg, NULL, 10));
			puts ("ok");
		} else if (!strcmp (op, "strf") && n == 1) {
			/* get_string while the allocator refuses the result string: NULL; "reading the digest is repeatable" — the reads
			 * that follow must still give the digest */
			hm_fail = 1;
			pchar *s = p_crypto_hash_get_string (h);
			hm_fail = 0;
			puts (s ? "not-null" : "null");
			p_free (s);
		} else if (!strcmp (op, "str") && n == 1) {
			pchar *s = p_crypto_hash_get_string (h);
			puts (s ? s : "null");
			p_free (s);
		} else if (!strcmp (op, "dig")) {
			psize cap = n == 2 ? strtoull (arg, NULL, 10) : 64, len = cap;
			unsigned char *b = malloc (cap ? cap : 1);
			memset (b, 0xA5, cap ? cap : 1);
			p_crypto_hash_get_digest (h, b, &len);
			printf ("%zu ", (size_t) len);
			for (size_t i = 0; i < len && i < cap; ++i) printf ("%02x", b[i]);
			for (size_t i = len; i < cap; ++i) if (b[i] != 0xA5) { printf (" smash@%zu", i); break; }
			printf ("\n");
			free (b);
		} else if (!strcmp (op, "dign") && n == 2) {
			psize len = strtoull (arg, NULL, 10);
			p_crypto_hash_get_digest (h, NULL, &len);
			printf ("%zu \n", (size_t) len);
		} else if (!strcmp (op, "dignl") && n == 1) {
			unsigned char b[64];
			p_crypto_hash_get_digest (h, b, NULL);
			puts ("ok");
		} else if (!strcmp (op, "len") && n == 1) printf ("%zd\n", (ssize_t) p_crypto_hash_get_length (h));
		else if (!strcmp (op, "type") && n == 1) printf ("%d\n", (int) p_crypto_hash_get_type (h));
		else if (!strcmp (op, "reset") && n == 1) { p_crypto_hash_reset (h); puts ("ok"); }
		else if (!strcmp (op, "par") && n == 2) {
			long T = 0, R = 0; int used = 0;
			if (sscanf (arg, "%ld:%ld:%n", &T, &R, &used) < 2 || T < 1 || T > 16 || R < 0 || !used) { puts ("bad-op"); fflush (stdout); continue; }
			const char *hx = arg + used;
			size_t len = (hx[0] == '-') ? 0 : strlen (hx) / 2;
			unsigned char *b = malloc (len ? len : 1);
			unhex (hx, b);
			struct par_job job[16]; pthread_t th[16];
			for (long i = 0; i < T; ++i) {
				job[i].type = stype[cur]; job[i].data = b; job[i].len = len; job[i].reps = R;
				job[i].out[0] = 0;
			}
			for (long i = 0; i < T; ++i) pthread_create (&th[i], NULL, par_run, &job[i]);
			for (long i = 0; i < T; ++i) pthread_join (th[i], NULL);
			long bad = 0;
			for (long i = 1; i < T; ++i) if (strcmp (job[i].out, job[0].out)) bad = i;
			if (bad) printf ("race %s %s\n", job[0].out, job[bad].out); else puts (job[0].out);
			free (b);
		} else puts ("bad-op");
		fflush (stdout);
	}
	for (int i = 0; i < NSLOT; ++i) if (slot[i]) p_crypto_hash_free (slot[i]);
	p_libsys_shutdown ();
	return 0;
}

/* only linked by coverage builds (tools/covaudit.py, VERIF_COV=1): harness processes that leave through _exit ()
 * would lose their gcov counters */
extern void __gcov_dump (void);
extern void __real__exit (int) __attribute__ ((noreturn));
void __wrap__exit (int code) __attribute__ ((noreturn));
void
__wrap__exit (int code)
{
	__gcov_dump ();
	__real__exit (code);
}

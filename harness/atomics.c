/* C04 harness: drives the real p_atomic_* functions of ONE back-end (the one this binary was linked with:
 * patomic-c11.c | patomic-sync.c | patomic-sim.c + pmutex-posix.c) from an op file on stdin.
 * -DPV_VARIANT="c11" names the back-end; the `variant X` op answers ok only for that name.
 * Answer per op: "<returned value | -> <word afterwards>" (unsigned decimal, booleans 1 / 0).
 * The word afterwards is read directly from memory (single-threaded), not through the API.
 *   T <op …>   the same op executed by a second thread (created and joined for this one op)
 *   natives    native pthread_mutex_lock / _unlock calls and distinct mutex addresses seen since the last
 *              `natives` (counted by link-time wrappers that pass the call on)   -> "<locks> <unlocks> <mutexes>"
 *   init | shutdown   p_atomic_thread_init () / p_atomic_thread_shutdown ()      -> "ok"
 *   lockfree   p_atomic_is_lock_free ()                                           -> "1" | "0" */
#include <patomic.h>
#include <pmem.h>
#include <stdio.h>
#include <stdlib.h>
#include <string.h>
#include <stdint.h>
#include <inttypes.h>
#include <pthread.h>

/* pass-through wrappers (-Wl,--wrap=pthread_mutex_lock,--wrap=pthread_mutex_unlock): only counting */
extern int __real_pthread_mutex_lock (pthread_mutex_t *m);
extern int __real_pthread_mutex_unlock (pthread_mutex_t *m);
static int n_lock, n_unlock, n_mx;
static pthread_mutex_t *mx_seen[16];
static void note_mx (pthread_mutex_t *m) {
	int i;
	for (i = 0; i < n_mx; i++) if (mx_seen[i] == m) return;
	if (n_mx < 16) mx_seen[n_mx++] = m;
}
int __wrap_pthread_mutex_lock (pthread_mutex_t *m) { __atomic_add_fetch (&n_lock, 1, __ATOMIC_SEQ_CST); note_mx (m); return __real_pthread_mutex_lock (m); }
int __wrap_pthread_mutex_unlock (pthread_mutex_t *m) { __atomic_add_fetch (&n_unlock, 1, __ATOMIC_SEQ_CST); note_mx (m); return __real_pthread_mutex_unlock (m); }

extern void p_mem_init (void);
extern void p_mem_shutdown (void);
extern void p_atomic_thread_init (void);
extern void p_atomic_thread_shutdown (void);

#ifndef PV_VARIANT
#  error "PV_VARIANT not defined"
#endif

static volatile pint w32;
static volatile psize w64;	/* pointer-sized word */

static void out32 (int has_ret, uint32_t r) {
	if (has_ret) printf ("%" PRIu32 " %" PRIu32 "\n", r, (uint32_t) w32);
	else printf ("- %" PRIu32 "\n", (uint32_t) w32);
}

static void out64 (int has_ret, uint64_t r) {
	if (has_ret) printf ("%" PRIu64 " %" PRIu64 "\n", r, (uint64_t) w64);
	else printf ("- %" PRIu64 "\n", (uint64_t) w64);
}

static void do_line (const char *line);

static void *on_thread (void *arg) { do_line ((const char *) arg); return NULL; }

static void do_line (const char *line) {
	char op[32], arg[32];
	unsigned long long a = 0, b = 0;
	int n = sscanf (line, "%31s %llu %llu", op, &a, &b);
	if (n < 1) return;
	if (!strcmp (op, "variant")) {
		if (sscanf (line, "%*s %31s", arg) == 1 && !strcmp (arg, PV_VARIANT)) puts ("ok"); else puts ("bad-op");
	}
	else if (!strcmp (op, "T") && line[0] == 'T' && line[1] == ' ' && strncmp (line + 2, "T ", 2) != 0) {
		pthread_t th;
		if (pthread_create (&th, NULL, on_thread, (void *) (line + 2)) != 0) puts ("thread-failed");
		else pthread_join (th, NULL);
	}
	else if (!strcmp (op, "reset") && n == 1) { w32 = 0; w64 = 0; puts ("ok"); }
	else if (!strcmp (op, "natives") && n == 1) { printf ("%d %d %d\n", n_lock, n_unlock, n_mx); n_lock = n_unlock = n_mx = 0; }
	else if (!strcmp (op, "init") && n == 1) { p_atomic_thread_init (); puts ("ok"); }
	else if (!strcmp (op, "shutdown") && n == 1) { p_atomic_thread_shutdown (); puts ("ok"); }
	else if (!strcmp (op, "lockfree") && n == 1) printf ("%d\n", p_atomic_is_lock_free () ? 1 : 0);
	/* int-sized word */
	else if (!strcmp (op, "get32") && n == 1) out32 (1, (uint32_t) p_atomic_int_get (&w32));
	else if (!strcmp (op, "set32") && n == 2) { p_atomic_int_set (&w32, (pint) (uint32_t) a); out32 (0, 0); }
	else if (!strcmp (op, "inc32") && n == 1) { p_atomic_int_inc (&w32); out32 (0, 0); }
	else if (!strcmp (op, "dec32") && n == 1) out32 (1, (uint32_t) p_atomic_int_dec_and_test (&w32));
	else if (!strcmp (op, "cas32") && n == 3) out32 (1, (uint32_t) p_atomic_int_compare_and_exchange (&w32, (pint) (uint32_t) a, (pint) (uint32_t) b));
	else if (!strcmp (op, "add32") && n == 2) out32 (1, (uint32_t) p_atomic_int_add (&w32, (pint) (uint32_t) a));
	else if (!strcmp (op, "and32") && n == 2) out32 (1, (uint32_t) p_atomic_int_and ((volatile puint *) &w32, (puint) a));
	else if (!strcmp (op, "or32") && n == 2) out32 (1, (uint32_t) p_atomic_int_or ((volatile puint *) &w32, (puint) a));
	else if (!strcmp (op, "xor32") && n == 2) out32 (1, (uint32_t) p_atomic_int_xor ((volatile puint *) &w32, (puint) a));
	/* pointer-sized word */
	else if (!strcmp (op, "get64") && n == 1) out64 (1, (uint64_t) (uintptr_t) p_atomic_pointer_get (&w64));
	else if (!strcmp (op, "set64") && n == 2) { p_atomic_pointer_set (&w64, (ppointer) (uintptr_t) a); out64 (0, 0); }
	else if (!strcmp (op, "cas64") && n == 3) out64 (1, (uint64_t) (uint32_t) p_atomic_pointer_compare_and_exchange (&w64, (ppointer) (uintptr_t) a, (ppointer) (uintptr_t) b));
	else if (!strcmp (op, "add64") && n == 2) out64 (1, (uint64_t) p_atomic_pointer_add (&w64, (pssize) a));
	else if (!strcmp (op, "and64") && n == 2) out64 (1, (uint64_t) p_atomic_pointer_and (&w64, (psize) a));
	else if (!strcmp (op, "or64") && n == 2) out64 (1, (uint64_t) p_atomic_pointer_or (&w64, (psize) a));
	else if (!strcmp (op, "xor64") && n == 2) out64 (1, (uint64_t) p_atomic_pointer_xor (&w64, (psize) a));
	else puts ("bad-op");
}

int main (void) {
	char line[256];
	p_mem_init ();
	p_atomic_thread_init ();
	n_lock = n_unlock = n_mx = 0;		/* p_mem_init / init may use mutexes of their own */
	while (fgets (line, sizeof line, stdin)) {
		do_line (line);
		fflush (stdout);
	}
	p_atomic_thread_shutdown ();
	p_mem_shutdown ();
	return 0;
}

/* C04 harness: drives the real p_atomic_* functions of ONE back-end (the one this binary was linked with:
 * patomic-c11.c | patomic-sync.c | patomic-sim.c + pmutex-posix.c) from an op file on stdin.
 * -DPV_VARIANT="c11" names the back-end; the `variant X` op answers ok only for that name.
 * Answer per op: "<returned value | -> <word afterwards>" (unsigned decimal, booleans 1 / 0).
 * The word afterwards is read directly from memory (single-threaded), not through the API. */
#include <patomic.h>
#include <pmem.h>
#include <stdio.h>
#include <stdlib.h>
#include <string.h>
#include <stdint.h>
#include <inttypes.h>

extern void p_mem_init (void);
extern void p_mem_shutdown (void);
extern void p_atomic_thread_init (void);
extern void p_atomic_thread_shutdown (void);

#ifndef PV_VARIANT
#  error "PV_VARIANT not defined"
#endif

static volatile pint w32;
static volatile psize w64;	/* pointer-sized word */

static void out32 (int has_ret, uint32_t r) {
	if (has_ret) printf ("%" PRIu32 " %" PRIu32 "\n", r, (uint32_t) w32);
	else printf ("- %" PRIu32 "\n", (uint32_t) w32);
}

static void out64 (int has_ret, uint64_t r) {
	if (has_ret) printf ("%" PRIu64 " %" PRIu64 "\n", r, (uint64_t) w64);
	else printf ("- %" PRIu64 "\n", (uint64_t) w64);
}

int main (void) {
	char line[256], op[32];
	unsigned long long a, b;
	p_mem_init ();
	p_atomic_thread_init ();
	while (fgets (line, sizeof line, stdin)) {
		char arg[32];
		a = b = 0;
		int n = sscanf (line, "%31s %llu %llu", op, &a, &b);
		if (n < 1) continue;
		if (!strcmp (op, "variant")) {
			if (sscanf (line, "%*s %31s", arg) == 1 && !strcmp (arg, PV_VARIANT)) puts ("ok"); else puts ("bad-op");
		}
		else if (!strcmp (op, "reset") && n == 1) { w32 = 0; w64 = 0; puts ("ok"); }
		/* int-sized word */
		else if (!strcmp (op, "get32") && n == 1) out32 (1, (uint32_t) p_atomic_int_get (&w32));
		else if (!strcmp (op, "set32") && n == 2) { p_atomic_int_set (&w32, (pint) (uint32_t) a); out32 (0, 0); }
		else if (!strcmp (op, "inc32") && n == 1) { p_atomic_int_inc (&w32); out32 (0, 0); }
		else if (!strcmp (op, "dec32") && n == 1) out32 (1, (uint32_t) p_atomic_int_dec_and_test (&w32));
		else if (!strcmp (op, "cas32") && n == 3) out32 (1, (uint32_t) p_atomic_int_compare_and_exchange (&w32, (pint) (uint32_t) a, (pint) (uint32_t) b));
		else if (!strcmp (op, "add32") && n == 2) out32 (1, (uint32_t) p_atomic_int_add (&w32, (pint) (uint32_t) a));
		else if (!strcmp (op, "and32") && n == 2) out32 (1, (uint32_t) p_atomic_int_and ((volatile puint *) &w32, (puint) a));
		else if (!strcmp (op, "or32") && n == 2) out32 (1, (uint32_t) p_atomic_int_or ((volatile puint *) &w32, (puint) a));
		else if (!strcmp (op, "xor32") && n == 2) out32 (1, (uint32_t) p_atomic_int_xor ((volatile puint *) &w32, (puint) a));
		/* pointer-sized word */
		else if (!strcmp (op, "get64") && n == 1) out64 (1, (uint64_t) (uintptr_t) p_atomic_pointer_get (&w64));
		else if (!strcmp (op, "set64") && n == 2) { p_atomic_pointer_set (&w64, (ppointer) (uintptr_t) a); out64 (0, 0); }
		else if (!strcmp (op, "cas64") && n == 3) out64 (1, (uint64_t) (uint32_t) p_atomic_pointer_compare_and_exchange (&w64, (ppointer) (uintptr_t) a, (ppointer) (uintptr_t) b));
		else if (!strcmp (op, "add64") && n == 2) out64 (1, (uint64_t) p_atomic_pointer_add (&w64, (pssize) a));
		else if (!strcmp (op, "and64") && n == 2) out64 (1, (uint64_t) p_atomic_pointer_and (&w64, (psize) a));
		else if (!strcmp (op, "or64") && n == 2) out64 (1, (uint64_t) p_atomic_pointer_or (&w64, (psize) a));
		else if (!strcmp (op, "xor64") && n == 2) out64 (1, (uint64_t) p_atomic_pointer_xor (&w64, (psize) a));
		else puts ("bad-op");
		fflush (stdout);
	}
	p_atomic_thread_shutdown ();
	p_mem_shutdown ();
	return 0;
}

/* C06 / C07 / C19(IPC) harness: the real PSemaphore / PShm in several processes.
 *
 * A small SERVER reads the op file, forks NW worker processes (+ one observer) and forwards every
 * op to the worker named on the line, so sharing between processes is exercised deterministically.
 * Every IPC system call the library makes goes through link-time wrappers (-Wl,--wrap=…):
 *   - while a library call runs in a worker the wrapper reports the call (name, flags, result),
 *   - `crash K`  : raise(SIGKILL) when K system calls of the op have completed (at the entry of the
 *                  next one, or when the op returns);  `crashA K`: right after the K-th returns,
 *   - `eintr …`  : return -1/EINTR n_i times before the i-th real call (sem_open, sem_wait, shm_open),
 *   - `fail K:ERR,…` : the K-th system call of the op is not made and returns -1 / errno = ERR (a scripted failure of the environment),
 *   - `W null`   : every public call with a NULL handle / name in worker W,
 *   - `par …`    : gated mode, the server decides which worker makes its next system call.
 * `obs` prints, for every name: the semaphore value (API only: an observer process drains it through
 * a fresh OPEN handle and posts the units back; PVIPC_GETVALUE=1 also cross-checks sem_getvalue),
 * presence of /dev/shm/sem.<key>, /dev/shm/<key> and its size, what every live PShm handle reports
 * and reads, and the /proc/<pid>/maps entries of every worker for the segment.
 * Protocol and answers: see lean/PV/Driver/IPC.lean.   No source hooks in the library. */
#include <plibsys.h>
#include <pipc-private.h>
#include <stdio.h>
#include <stdlib.h>
#include <string.h>
#include <stdarg.h>
#include <unistd.h>
#include <time.h>
#include <errno.h>
#include <fcntl.h>
#include <signal.h>
#include <poll.h>
#include <semaphore.h>
#include <stdatomic.h>
#include <sys/mman.h>
#include <sys/stat.h>
#include <sys/wait.h>
#include <sys/prctl.h>

#define NW 3
#define NN 4
#define NH 16
#define LINE 4096

/* ---------------------------------------------------------------- names and keys */
static char sem_name[NN][512], shm_name[NN][512];   /* names 2, 3, … are LONG and share a 280-byte prefix: only their tails differ */
static char sem_key[NN][32], shm_key[NN][32], lock_key[NN][32];   /* platform keys ("/0123…") */
static int generation;

static void key_of (char *out, const char *name, const char *suffix) {
	char buf[1024];
	snprintf (buf, sizeof buf, "%s%s", name, suffix);
	pchar *k = p_ipc_get_platform_key (buf, TRUE);
	snprintf (out, 32, "%s", k ? k : "/?");
	p_free (k);
}

/* unique per run, not only per pid: pids are recycled quickly on a busy machine */
static long long run_tag (void) {
	static long long t;
	if (!t) { struct timespec ts; clock_gettime (CLOCK_REALTIME, &ts); t = (long long) ts.tv_sec * 1000000000LL + ts.tv_nsec; }
	return t;
}

static void make_names (void) {
	/* names 0 and 1 differ ONLY in their first byte and contain '%' and non-ASCII bytes; names 2 and 3 are
	 * about 300 bytes long and differ ONLY in their last byte (280-byte common prefix and more) */
	for (int i = 0; i < NN; ++i) {
		char fill[300]; memset (fill, 'x', sizeof fill); fill[i >= 2 ? 280 : 0] = 0;
		if (i < 2) {
			snprintf (sem_name[i], sizeof sem_name[i], "%cvipc-%%s%%n\xc3\xa9\xff-%d-%llx-%d-sem", i ? 'q' : 'p', (int) getpid (), run_tag (), generation);
			snprintf (shm_name[i], sizeof shm_name[i], "%cvipc-%%s%%n\xc3\xa9\xff-%d-%llx-%d-shm", i ? 'q' : 'p', (int) getpid (), run_tag (), generation);
		} else {
			snprintf (sem_name[i], sizeof sem_name[i], "pvipc-%d-%llx-%d-%ss%d", (int) getpid (), run_tag (), generation, fill, i);
			snprintf (shm_name[i], sizeof shm_name[i], "pvipc-%d-%llx-%d-%sm%d", (int) getpid (), run_tag (), generation, fill, i);
		}
		key_of (sem_key[i], sem_name[i], "_p_sem_object");
		key_of (shm_key[i], shm_name[i], "_p_shm_object");
		key_of (lock_key[i], shm_key[i], "_p_sem_object");
	}
	++generation;
	const char *kl = getenv ("PVIPC_KEYLOG");
	if (kl) {
		FILE *f = fopen (kl, "a");
		if (f) {
			for (int i = 0; i < NN; ++i)
				fprintf (f, "sem.%s\n%s\nsem.%s\n", sem_key[i] + 1, shm_key[i] + 1, lock_key[i] + 1);
			fclose (f);
		}
	}
}

static const char *sym_of_key (const char *key, char *buf) {
	for (int i = 0; i < NN; ++i) {
		if (!strcmp (key, sem_key[i])) { sprintf (buf, "s%d", i); return buf; }
		if (!strcmp (key, shm_key[i])) { sprintf (buf, "m%d", i); return buf; }
		if (!strcmp (key, lock_key[i])) { sprintf (buf, "m%d.l", i); return buf; }
	}
	return "?";
}

static int exists_file (const char *pfx, const char *key, long *size) {
	char p[96]; struct stat st;
	snprintf (p, sizeof p, "/dev/shm/%s%s", pfx, key + 1);
	if (stat (p, &st) != 0) return 0;
	if (size) *size = (long) st.st_size;
	return 1;
}

/* ---------------------------------------------------------------- wrappers */
sem_t *__real_sem_open (const char *, int, ...);
int __real_sem_close (sem_t *);
int __real_sem_unlink (const char *);
int __real_sem_wait (sem_t *);
int __real_sem_post (sem_t *);
int __real_shm_open (const char *, int, mode_t);
int __real_shm_unlink (const char *);
int __real_ftruncate (int, off_t);
void *__real_mmap (void *, size_t, int, int, int, off_t);
int __real_munmap (void *, size_t);
int __real_close (int);
int __real_fstat (int, struct stat *);

static int armed;              /* a library call of an op is running in this worker */
static int ncalls;             /* real IPC system calls completed by this op */
static int crash_at = -1;      /* crash K: die when ncalls == K at the next entry / at return */
static int crash_after = -1;   /* crashA K: die right after the K-th real call */
static int gated;
static int eintr_script[32], eintr_n;
static int fail_idx[8], fail_err[8], fail_n;   /* fail K:ERR,…: the K-th system call of the op (failed ones included) is not made and returns -1 / errno = ERR */
static int inj_errno;
static int resp_fd = -1, cmd_fd = -1;

static int wr_all (int fd, const char *s, size_t n) {
	while (n) {
		ssize_t r = write (fd, s, n);
		if (r < 0) { if (errno == EINTR) continue; return -1; }
		s += r; n -= (size_t) r;
	}
	return 0;
}

static void emit (const char *fmt, ...) {
	char b[512]; va_list ap;
	va_start (ap, fmt); int n = vsnprintf (b, sizeof b, fmt, ap); va_end (ap);
	if (wr_all (resp_fd, b, (size_t) n) != 0) _exit (7);
}

static const char *ename (int e) {
	static char b[16];
	switch (e) {
	case EINTR: return "EINTR"; case EEXIST: return "EEXIST"; case ENOENT: return "ENOENT";
	case EINVAL: return "EINVAL"; case EBADF: return "EBADF";
	case ENOMEM: return "ENOMEM"; case EACCES: return "EACCES"; case EMFILE: return "EMFILE";
	default: snprintf (b, sizeof b, "E%d", e); return b;
	}
}

static int errno_of (const char *n) {
	static const struct { const char *n; int e; } tab[] = { {"EINTR", EINTR}, {"EEXIST", EEXIST}, {"ENOENT", ENOENT}, {"EINVAL", EINVAL},
		{"EBADF", EBADF}, {"ENOMEM", ENOMEM}, {"EACCES", EACCES}, {"EMFILE", EMFILE} };
	for (size_t i = 0; i < sizeof tab / sizeof tab[0]; ++i) if (!strcmp (n, tab[i].n)) return tab[i].e;
	return 0;
}

/* entry of a wrapped call: returns 1 when an EINTR has to be injected instead of the real call, 2 when the call
 * has to fail with inj_errno (scripted failure: the real call is not made) */
static int pre (int interruptible, const char *desc) {
	if (!armed) return 0;
	if (crash_at >= 0 && ncalls == crash_at) raise (SIGKILL);
	for (int i = 0; i < fail_n; ++i) if (fail_idx[i] == ncalls) {
		inj_errno = fail_err[i];
		++ncalls;
		emit ("T %s=%s\n", desc, ename (inj_errno));
		return 2;
	}
	if (interruptible && ncalls < eintr_n && eintr_script[ncalls] > 0) {
		eintr_script[ncalls]--;
		emit ("T %s=EINTR\n", desc);
		return 1;
	}
	if (gated) {
		char c;
		emit ("G\n");
		if (read (cmd_fd, &c, 1) != 1) _exit (8);
	}
	return 0;
}

static void post (const char *desc, int failed, int err, long val, int has_val) {
	if (!armed) return;
	++ncalls;
	if (failed) emit ("T %s=%s\n", desc, ename (err));
	else if (has_val) emit ("T %s=%ld\n", desc, val);
	else emit ("T %s=ok\n", desc);
	if (crash_after >= 0 && ncalls == crash_after) raise (SIGKILL);
	errno = err;
}

sem_t *__wrap_sem_open (const char *name, int oflag, ...) {
	va_list ap; va_start (ap, oflag);
	mode_t mode = va_arg (ap, mode_t); unsigned v = va_arg (ap, unsigned);
	va_end (ap);
	if (!armed) return __real_sem_open (name, oflag, mode, v);
	char d[128], sb[16];
	snprintf (d, sizeof d, "sem_open(%s)/%d/%d/%u", sym_of_key (name, sb), oflag, (int) mode, v);
	int a = pre (1, d);
	if (a) { errno = a == 1 ? EINTR : inj_errno; return SEM_FAILED; }
	sem_t *r = __real_sem_open (name, oflag, mode, v);
	int e = errno;
	post (d, r == SEM_FAILED, e, 0, 0);
	return r;
}
int __wrap_sem_close (sem_t *s) {
	if (!armed) return __real_sem_close (s);
	if (pre (0, "sem_close")) { errno = inj_errno; return -1; }
	int r = __real_sem_close (s), e = errno;
	post ("sem_close", r != 0, e, 0, 0);
	return r;
}
int __wrap_sem_unlink (const char *name) {
	if (!armed) return __real_sem_unlink (name);
	char d[64], sb[16];
	snprintf (d, sizeof d, "sem_unlink(%s)", sym_of_key (name, sb));
	if (pre (0, d)) { errno = inj_errno; return -1; }
	int r = __real_sem_unlink (name), e = errno;
	post (d, r != 0, e, 0, 0);
	return r;
}
int __wrap_sem_wait (sem_t *s) {
	if (!armed) return __real_sem_wait (s);
	int a = pre (1, "sem_wait");
	if (a) { errno = a == 1 ? EINTR : inj_errno; return -1; }
	int r = __real_sem_wait (s), e = errno;
	post ("sem_wait", r != 0, e, 0, 0);
	return r;
}
int __wrap_sem_post (sem_t *s) {
	if (!armed) return __real_sem_post (s);
	if (pre (0, "sem_post")) { errno = inj_errno; return -1; }
	int r = __real_sem_post (s), e = errno;
	post ("sem_post", r != 0, e, 0, 0);
	return r;
}
int __wrap_shm_open (const char *name, int oflag, mode_t mode) {
	if (!armed) return __real_shm_open (name, oflag, mode);
	char d[128], sb[16];
	snprintf (d, sizeof d, "shm_open(%s)/%d/%d", sym_of_key (name, sb), oflag, (int) mode);
	int a = pre (1, d);
	if (a) { errno = a == 1 ? EINTR : inj_errno; return -1; }
	int r = __real_shm_open (name, oflag, mode), e = errno;
	post (d, r < 0, e, 0, 0);
	return r;
}
int __wrap_shm_unlink (const char *name) {
	if (!armed) return __real_shm_unlink (name);
	char d[64], sb[16];
	snprintf (d, sizeof d, "shm_unlink(%s)", sym_of_key (name, sb));
	if (pre (0, d)) { errno = inj_errno; return -1; }
	int r = __real_shm_unlink (name), e = errno;
	post (d, r != 0, e, 0, 0);
	return r;
}
int __wrap_ftruncate (int fd, off_t len) {
	if (!armed) return __real_ftruncate (fd, len);
	char d[64]; snprintf (d, sizeof d, "ftruncate/%lld", (long long) len);
	if (pre (0, d)) { errno = inj_errno; return -1; }
	int r = __real_ftruncate (fd, len), e = errno;
	post (d, r != 0, e, 0, 0);
	return r;
}
void *__wrap_mmap (void *a, size_t len, int prot, int flags, int fd, off_t off) {
	if (!armed) return __real_mmap (a, len, prot, flags, fd, off);
	char d[96]; snprintf (d, sizeof d, "mmap/%zu/%d/%d", len, prot, flags);
	if (pre (0, d)) { errno = inj_errno; return MAP_FAILED; }
	void *r = __real_mmap (a, len, prot, flags, fd, off);
	int e = errno;
	post (d, r == MAP_FAILED, e, 0, 0);
	return r;
}
int __wrap_munmap (void *a, size_t len) {
	if (!armed) return __real_munmap (a, len);
	char d[64]; snprintf (d, sizeof d, "munmap/%zu", len);
	if (pre (0, d)) { errno = inj_errno; return -1; }
	int r = __real_munmap (a, len), e = errno;
	post (d, r != 0, e, 0, 0);
	return r;
}
int __wrap_close (int fd) {
	if (!armed) return __real_close (fd);
	if (pre (0, "close")) { errno = inj_errno; return -1; }
	int r = __real_close (fd), e = errno;
	post ("close", r != 0, e, 0, 0);
	return r;
}
int __wrap_fstat (int fd, struct stat *st) {
	if (!armed) return __real_fstat (fd, st);
	if (pre (0, "fstat")) { errno = inj_errno; return -1; }
	int r = __real_fstat (fd, st), e = errno;
	post ("fstat", r != 0, e, r == 0 ? (long) st->st_size : 0, 1);
	return r;
}

/* ---------------------------------------------------------------- worker */
static void *hs[NH];
static int htype[NH];    /* 0 none, 1 semaphore, 2 shm */

static void fail_str (char *out, size_t n, PError *err) {
	snprintf (out, n, "fail %d/%d", err ? p_error_get_code (err) : 0, err ? p_error_get_native_code (err) : 0);
	if (err) p_error_free (err);
}

static unsigned cksum (const unsigned char *p, size_t n) {
	unsigned long long acc = 0;
	for (size_t i = 0; i < n; ++i) acc = (acc + (unsigned long long) (i + 1) * p[i]) % 65521ULL;
	return (unsigned) acc;
}

/* executes one API op; writes the answer into res ("bad-op" when it is not applicable) */
static void do_op (char **t, int n, char *res, size_t rn) {
	PError *err = NULL;
	long h = n > 1 ? strtol (t[1], NULL, 10) : -1;
	snprintf (res, rn, "bad-op");
	if (n < 2 || h < 0 || h >= NH) return;
	if (!strcmp (t[0], "new-sem") && n == 5 && !htype[h] && t[2][0] == 's') {
		int i = atoi (t[2] + 1); if (i < 0 || i >= NN) return;
		int mode = !strcmp (t[4], "CREATE") ? P_SEM_ACCESS_CREATE : P_SEM_ACCESS_OPEN;
		armed = 1;
		PSemaphore *s = p_semaphore_new (sem_name[i], atoi (t[3]), mode, &err);
		armed = 0;
		if (s) { hs[h] = s; htype[h] = 1; snprintf (res, rn, "ok"); } else fail_str (res, rn, err);
	} else if (!strcmp (t[0], "new-shm") && (n == 4 || n == 5) && !htype[h] && t[2][0] == 'm') {
		int i = atoi (t[2] + 1); if (i < 0 || i >= NN) return;
		armed = 1;
		PShm *s = p_shm_new (shm_name[i], (psize) strtoull (t[3], NULL, 10),
				     n == 5 ? P_SHM_ACCESS_READONLY : P_SHM_ACCESS_READWRITE, &err);
		armed = 0;
		if (s) { hs[h] = s; htype[h] = 2; snprintf (res, rn, "ok %zu", (size_t) p_shm_get_size (s)); } else fail_str (res, rn, err);
	} else if ((!strcmp (t[0], "acq") || !strcmp (t[0], "rel")) && n == 2 && htype[h] == 1) {
		armed = 1;
		pboolean r = t[0][0] == 'a' ? p_semaphore_acquire (hs[h], &err) : p_semaphore_release (hs[h], &err);
		armed = 0;
		if (r) snprintf (res, rn, "ok"); else fail_str (res, rn, err);
	} else if ((!strcmp (t[0], "lock") || !strcmp (t[0], "unlock")) && n == 2 && htype[h] == 2) {
		armed = 1;
		pboolean r = t[0][0] == 'l' ? p_shm_lock (hs[h], &err) : p_shm_unlock (hs[h], &err);
		armed = 0;
		if (r) snprintf (res, rn, "ok"); else fail_str (res, rn, err);
	} else if (!strcmp (t[0], "own") && n == 2 && htype[h]) {
		armed = 1;
		if (htype[h] == 1) p_semaphore_take_ownership (hs[h]); else p_shm_take_ownership (hs[h]);
		armed = 0;
		snprintf (res, rn, "ok");
	} else if (!strcmp (t[0], "free") && n == 2 && htype[h]) {
		int ty = htype[h]; void *p = hs[h];
		hs[h] = NULL; htype[h] = 0;
		armed = 1;
		if (ty == 1) p_semaphore_free (p); else p_shm_free (p);
		armed = 0;
		snprintf (res, rn, "ok");
	} else if (!strcmp (t[0], "size") && n == 2 && htype[h] == 2) {
		snprintf (res, rn, "%zu", (size_t) p_shm_get_size (hs[h]));
	} else if (!strcmp (t[0], "rd") && n == 3 && htype[h] == 2) {
		volatile unsigned char *a = p_shm_get_address (hs[h]);
		snprintf (res, rn, "%02x", a[strtoull (t[2], NULL, 10)]);
	} else if (!strcmp (t[0], "wr") && n == 4 && htype[h] == 2) {
		volatile unsigned char *a = p_shm_get_address (hs[h]);
		a[strtoull (t[2], NULL, 10)] = (unsigned char) atoi (t[3]);
		snprintf (res, rn, "ok");
	}
}

static int split (char *line, char **t, int max) {
	int n = 0;
	for (char *p = strtok (line, " \t\r\n"); p && n < max; p = strtok (NULL, " \t\r\n")) t[n++] = p;
	return n;
}

/* blocking line read from a pipe, byte by byte (the gate token shares the pipe) */
static int read_line (int fd, char *buf, size_t n) {
	size_t i = 0;
	while (i + 1 < n) {
		char c; ssize_t r = read (fd, &c, 1);
		if (r == 0) return -1;
		if (r < 0) { if (errno == EINTR) continue; return -1; }
		if (c == '\n') break;
		buf[i++] = c;
	}
	buf[i] = 0;
	return (int) i;
}

static void views (void) {
	char out[LINE]; size_t o = 0;
	out[0] = 0;
	for (int h = 0; h < NH; ++h) if (htype[h] == 2) {
		size_t sz = p_shm_get_size (hs[h]);
		const unsigned char *a = p_shm_get_address (hs[h]);
		o += (size_t) snprintf (out + o, sizeof out - o, " H%d=%zu:", h, sz);
		for (size_t i = 0; i < sz && i < 8; ++i) o += (size_t) snprintf (out + o, sizeof out - o, "%02x", a[i]);
		o += (size_t) snprintf (out + o, sizeof out - o, ":%u", cksum (a, sz));
	}
	emit ("R%s\n", out);
}

static int cmp_long (const void *a, const void *b) { long x = *(const long *) a, y = *(const long *) b; return x < y ? -1 : x > y; }

static void maps (void) {
	long lens[NN][32]; int cnt[NN] = {0};
	FILE *f = fopen ("/proc/self/maps", "r");
	char l[512];
	while (f && fgets (l, sizeof l, f)) {
		unsigned long a, b; char path[256] = "";
		if (sscanf (l, "%lx-%lx %*s %*s %*s %*s %255s", &a, &b, path) < 3) continue;
		for (int i = 0; i < NN; ++i) {
			char want[64]; snprintf (want, sizeof want, "/dev/shm/%s", shm_key[i] + 1);
			if (!strcmp (path, want) && cnt[i] < 32) lens[i][cnt[i]++] = (long) (b - a);
		}
	}
	if (f) fclose (f);
	char out[LINE]; size_t o = 0; out[0] = 0;
	for (int i = 0; i < NN; ++i) if (cnt[i]) {
		qsort (lens[i], (size_t) cnt[i], sizeof (long), cmp_long);
		o += (size_t) snprintf (out + o, sizeof out - o, " m%d[", i);
		for (int j = 0; j < cnt[i]; ++j) o += (size_t) snprintf (out + o, sizeof out - o, "%s%ld", j ? "," : "", lens[i][j]);
		o += (size_t) snprintf (out + o, sizeof out - o, "]");
	}
	emit ("R%s\n", out);
}

/* observer: drain a semaphore through a fresh OPEN handle, report every unit, put them back */
static void drain (const char *name) {
	PSemaphore *s = p_semaphore_new (name, 0, P_SEM_ACCESS_OPEN, NULL);
	if (!s) { emit ("R fail\n"); return; }
	int n = 0;
	for (;;) {
		if (!p_semaphore_acquire (s, NULL)) { emit ("R fail\n"); p_semaphore_free (s); return; }
		struct pollfd pf = { cmd_fd, POLLIN, 0 };
		if (poll (&pf, 1, 0) == 1) { char c; if (read (cmd_fd, &c, 1) == 1) break; }   /* the unit just taken is the server's sentinel */
		++n;
		emit ("U\n");
	}
	for (int i = 0; i < n; ++i) p_semaphore_release (s, NULL);
	p_semaphore_free (s);
	emit ("R %d\n", n);
}

/* every public call with a NULL handle / name (and a negative initial value): no system call, nothing changes */
static void null_guards (void) {
	char out[LINE], r[64]; size_t o = 0; PError *err;
#define GUARD(expr_ok, call) do { err = NULL; armed = 1; int ok_ = (call); armed = 0; \
		if (ok_ && (expr_ok)) snprintf (r, sizeof r, "ok"); else fail_str (r, sizeof r, err); \
		o += (size_t) snprintf (out + o, sizeof out - o, "%s%s", o ? " ; " : "", r); } while (0)
	GUARD (1, p_semaphore_new (NULL, 1, P_SEM_ACCESS_CREATE, &err) != NULL);
	GUARD (1, p_semaphore_new (sem_name[0], -1, P_SEM_ACCESS_CREATE, &err) != NULL);
	GUARD (1, (p_semaphore_take_ownership (NULL), 1));
	GUARD (1, p_semaphore_acquire (NULL, &err));
	GUARD (1, p_semaphore_release (NULL, &err));
	GUARD (1, (p_semaphore_free (NULL), 1));
	GUARD (1, p_shm_new (NULL, 100, P_SHM_ACCESS_READWRITE, &err) != NULL);
	GUARD (1, (p_shm_take_ownership (NULL), 1));
	GUARD (1, (p_shm_free (NULL), 1));
	GUARD (1, p_shm_lock (NULL, &err));
	GUARD (1, p_shm_unlock (NULL, &err));
#undef GUARD
	o += (size_t) snprintf (out + o, sizeof out - o, " ; %s ; %zu", p_shm_get_address (NULL) ? "non-null" : "null", (size_t) p_shm_get_size (NULL));
	if (ncalls) o += (size_t) snprintf (out + o, sizeof out - o, " ; SYSTEM-CALLS=%d", ncalls);
	emit ("R %s\n", out);
}

static void worker_loop (void) {
	char line[LINE], res[256], *t[16];
	while (read_line (cmd_fd, line, sizeof line) >= 0) {
		int n = split (line, t, 16);
		if (n == 0) continue;
		crash_at = crash_after = -1; gated = 0; eintr_n = 0; ncalls = 0; fail_n = 0;
		char **op = t; int on = n;
		if (!strcmp (t[0], "views")) { views (); continue; }
		if (!strcmp (t[0], "maps")) { maps (); continue; }
		if (!strcmp (t[0], "drain") && n == 2) { drain (t[1]); continue; }
		if (!strcmp (t[0], "null") && n == 1) { null_guards (); continue; }
		if (!strcmp (t[0], "close0") && n == 1) { close (0); emit ("R ok\n"); continue; }   /* a daemon-like process: descriptor 0 is free, the next open gets it */
		if (!strcmp (t[0], "crash") && n > 2) { crash_at = atoi (t[1]); op += 2; on -= 2; }
		else if (!strcmp (t[0], "crashA") && n > 2) { crash_after = atoi (t[1]); op += 2; on -= 2; }
		else if (!strcmp (t[0], "gated") && n > 1) { gated = 1; op += 1; on -= 1; }
		else if (!strcmp (t[0], "eintr") && n > 2) {
			for (char *p = strtok (t[1], ","); p && eintr_n < 32; p = strtok (NULL, ",")) eintr_script[eintr_n++] = atoi (p);
			op += 2; on -= 2;
		} else if (!strcmp (t[0], "fail") && n > 2) {
			for (char *p = strtok (t[1], ","); p && fail_n < 8; p = strtok (NULL, ",")) {
				char *c = strchr (p, ':');
				if (!c) continue;
				fail_idx[fail_n] = atoi (p); fail_err[fail_n] = errno_of (c + 1);
				if (fail_err[fail_n]) ++fail_n;
			}
			op += 2; on -= 2;
		}
		do_op (op, on, res, sizeof res);
		if (crash_at >= 0 && ncalls == crash_at && ncalls > 0) raise (SIGKILL);
		emit ("R %s\n", res);
	}
	_exit (0);
}

/* ---------------------------------------------------------------- server */
struct child { pid_t pid; int cmd, resp; };
static struct child W[NW], OBS;
static int owner[NH];    /* server: which worker holds handle id h (-1: free); handle ids are global */

/* position of the API op name in a worker command (after crash K / crashA K / eintr S prefixes) */
static int op_pos (char **t, int n, int from) {
	if (from < n && (!strcmp (t[from], "crash") || !strcmp (t[from], "crashA") || !strcmp (t[from], "eintr") || !strcmp (t[from], "fail"))) return from + 2;
	return from;
}

/* is the op acceptable w.r.t. the global handle table?  (the model rejects the others as bad-op) */
static int op_allowed (char **t, int n, int from, int w) {
	int p = op_pos (t, n, from);
	if (p + 1 >= n) return 0;
	int h = atoi (t[p + 1]);
	if (t[p + 1][0] < '0' || t[p + 1][0] > '9' || h >= NH) return 0;
	if (!strncmp (t[p], "new-", 4)) return owner[h] == -1;
	return owner[h] == w;
}

static void op_done (char **t, int n, int from, int w, const char *res) {
	int p = op_pos (t, n, from);
	if (p + 1 >= n) return;
	int h = atoi (t[p + 1]);
	if (h < 0 || h >= NH) return;
	if (!strncmp (t[p], "new-", 4) && !strncmp (res, "ok", 2)) owner[h] = w;
	if (!strcmp (t[p], "free") && !strncmp (res, "ok", 2)) owner[h] = -1;
}

static void spawn (struct child *c) {
	int a[2], b[2];
	if (pipe (a) || pipe (b)) { perror ("pipe"); exit (2); }
	fflush (stdout);
	pid_t p = fork ();
	if (p < 0) { perror ("fork"); exit (2); }
	if (p == 0) {
		prctl (PR_SET_PDEATHSIG, SIGKILL);     /* no orphans when the server is killed (watchdog) */
		if (getppid () == 1) _exit (0);
		close (a[1]); close (b[0]);
		for (int i = 0; i < NW; ++i) if (W[i].pid > 0 && &W[i] != c) { close (W[i].cmd); close (W[i].resp); }
		if (OBS.pid > 0 && &OBS != c) { close (OBS.cmd); close (OBS.resp); }
		cmd_fd = a[0]; resp_fd = b[1];
		{ int nul = open ("/dev/null", O_WRONLY); if (nul >= 0) { dup2 (nul, 1); close (nul); } }   /* P_ERROR / P_WARNING of the library go to stdout: not into the answer stream */
		worker_loop ();
	}
	close (a[0]); close (b[1]);
	c->pid = p; c->cmd = a[1]; c->resp = b[0];
}

static void reap (struct child *c, int kill_it) {
	if (c->pid <= 0) return;
	if (kill_it) kill (c->pid, SIGKILL);
	close (c->cmd); close (c->resp);
	waitpid (c->pid, NULL, 0);
	c->pid = 0;
}

/* end of a run / reset: an idle child sees EOF on its command pipe and leaves through _exit (coverage builds flush their
 * counters there); a child that does not leave within two seconds (it sleeps inside sem_wait) is killed */
static void retire (struct child *c) {
	if (c->pid <= 0) return;
	close (c->cmd);
	for (int i = 0; i < 400; ++i) {
		if (waitpid (c->pid, NULL, WNOHANG) == c->pid) { close (c->resp); c->pid = 0; return; }
		struct timespec ts = { 0, 5000000 }; nanosleep (&ts, NULL);
	}
	kill (c->pid, SIGKILL);
	close (c->resp);
	waitpid (c->pid, NULL, 0);
	c->pid = 0;
}

static void send_cmd (struct child *c, const char *s) {
	size_t n = strlen (s);
	wr_all (c->cmd, s, n);
	wr_all (c->cmd, "\n", 1);
}

/* one message line from a child with a timeout; returns -1 on EOF (child died), -2 on timeout */
static int recv_line (struct child *c, char *buf, size_t n, int timeout_ms) {
	size_t i = 0;
	for (;;) {
		struct pollfd pf = { c->resp, POLLIN, 0 };
		int r = poll (&pf, 1, timeout_ms);
		if (r == 0) return -2;
		if (r < 0) { if (errno == EINTR) continue; return -1; }
		char ch; ssize_t k = read (c->resp, &ch, 1);
		if (k == 0) return -1;
		if (k < 0) { if (errno == EINTR) continue; return -1; }
		if (ch == '\n') break;
		if (i + 1 < n) buf[i++] = ch;
	}
	buf[i] = 0;
	return (int) i;
}

#define OP_TIMEOUT 5000

/* collect trace tokens until the result (R), a gate request (G), death or timeout.
 * returns 'R', 'G', 'D' (died), 'T' (timeout); result text in res */
static int collect (struct child *c, const char *tag, char *trace, size_t tn, char *res, size_t rn) {
	char l[LINE];
	for (;;) {
		int k = recv_line (c, l, sizeof l, OP_TIMEOUT);
		if (k == -1) return 'D';
		if (k == -2) return 'T';
		if (l[0] == 'T' && l[1] == ' ') {
			size_t o = strlen (trace);
			snprintf (trace + o, tn - o, "%s%s%s", o ? " " : "", tag, l + 2);
		} else if (l[0] == 'G') return 'G';
		else if (l[0] == 'R') { snprintf (res, rn, "%s", l[1] == ' ' ? l + 2 : l + 1); return 'R'; }
	}
}

static void respawn (int w) {
	reap (&W[w], 1); spawn (&W[w]);
	for (int h = 0; h < NH; ++h) if (owner[h] == w) owner[h] = -1;
}

static int blocked_in_futex (pid_t p) {
	char path[64], b[64] = "";
	snprintf (path, sizeof path, "/proc/%d/syscall", (int) p);
	int fd = open (path, O_RDONLY);
	if (fd < 0) return 0;
	ssize_t n = read (fd, b, sizeof b - 1);
	close (fd);
	if (n <= 0) return 0;
	b[n] = 0;
	return !strncmp (b, "202 ", 4);
}

static void respawn_obs (void) { reap (&OBS, 1); spawn (&OBS); }

/* value of the semaphore `name` (which exists), observed through the API only; -1 on failure */
static int drain_value (const char *name, const char *key) {
	char l[LINE];
	snprintf (l, sizeof l, "drain %s", name);
	send_cmd (&OBS, l);
	int n = 0, idle = 0;
	for (;;) {
		int k = recv_line (&OBS, l, sizeof l, 1);
		if (k == -1) { respawn_obs (); return -1; }
		if (k == -2) {
			if (blocked_in_futex (OBS.pid)) break;
			if (++idle > 3000) { respawn_obs (); return -1; }
			continue;
		}
		if (l[0] == 'U') { ++n; idle = 0; if (n > 100000) { respawn_obs (); return -1; } }
		else if (l[0] == 'R') return -1;
	}
	/* the observer sleeps inside p_semaphore_acquire: tell it to stop, then wake it with one unit */
	wr_all (OBS.cmd, "x", 1);
	PSemaphore *s = p_semaphore_new (name, 0, P_SEM_ACCESS_OPEN, NULL);
	if (!s) { respawn_obs (); return -1; }
	p_semaphore_release (s, NULL);
	p_semaphore_free (s);
	for (;;) {
		int k = recv_line (&OBS, l, sizeof l, 2000);
		if (k < 0) { respawn_obs (); return -1; }     /* the unit did not reach the observer: not one counter */
		if (l[0] == 'U') ++n;      /* cannot happen: the stop byte is already there */
		if (l[0] == 'R') break;
	}
	if (atoi (l + 2) != n) return -1;
	if (getenv ("PVIPC_GETVALUE")) {
		sem_t *r = __real_sem_open (key, 0, 0, 0);
		int v = -1;
		if (r != SEM_FAILED) { sem_getvalue (r, &v); __real_sem_close (r); }
		if (v != n) return -2;
	}
	return n;
}

static void obs (void) {
	char api[LINE * 2], in[LINE]; size_t a = 0, b = 0;
	api[0] = in[0] = 0;
	for (int i = 0; i < NN; ++i) {
		if (exists_file ("sem.", sem_key[i], NULL)) {
			int v = drain_value (sem_name[i], sem_key[i]);
			if (v == -2) a += (size_t) snprintf (api + a, sizeof api - a, "s%d=GETVALUE-MISMATCH ", i);
			else a += (size_t) snprintf (api + a, sizeof api - a, "s%d=%d ", i, v);
		} else a += (size_t) snprintf (api + a, sizeof api - a, "s%d=- ", i);
	}
	for (int i = 0; i < NN; ++i) {
		long sz = 0;
		int lk = exists_file ("sem.", lock_key[i], NULL);
		if (exists_file ("", shm_key[i], &sz)) {
			if (lk) {
				int v = drain_value (shm_key[i], lock_key[i]);
				if (v == -2) a += (size_t) snprintf (api + a, sizeof api - a, "m%d=%ld/GETVALUE-MISMATCH ", i, sz);
				else a += (size_t) snprintf (api + a, sizeof api - a, "m%d=%ld/%d ", i, sz, v);
			} else a += (size_t) snprintf (api + a, sizeof api - a, "m%d=%ld/1 ", i, sz);   /* no lock object: the next opener makes one of value 1 (presence: internal part) */
		} else a += (size_t) snprintf (api + a, sizeof api - a, "m%d=- ", i);
		b += (size_t) snprintf (in + b, sizeof in - b, "m%d.l=%s ", i, lk ? "+" : "-");
	}
	/* views of all live shm handles, ordered by handle id */
	char view[NH][256]; memset (view, 0, sizeof view);
	char mp[NW][LINE];
	for (int w = 0; w < NW; ++w) {
		char l[LINE], tr[8] = "";
		send_cmd (&W[w], "views");
		l[0] = 0;
		if (collect (&W[w], "", tr, sizeof tr, l, sizeof l) == 'R') {
			for (char *p = strtok (l, " "); p; p = strtok (NULL, " ")) {
				int h = atoi (p + 1); char *eq = strchr (p, '=');
				if (h >= 0 && h < NH && eq) snprintf (view[h], sizeof view[h], "H%d@%d=%s ", h, w, eq + 1);
			}
		}
		send_cmd (&W[w], "maps");
		mp[w][0] = 0;
		collect (&W[w], "", tr, sizeof tr, mp[w], sizeof mp[w]);
	}
	for (int h = 0; h < NH; ++h) if (view[h][0]) a += (size_t) snprintf (api + a, sizeof api - a, "%s", view[h]);
	for (int w = 0; w < NW; ++w) {
		char tmp[LINE]; snprintf (tmp, sizeof tmp, "%s", mp[w]);
		for (char *p = strtok (tmp, " "); p; p = strtok (NULL, " ")) {
			int cnt = 1; for (char *q = p; *q; ++q) if (*q == ',') ++cnt;
			char nm[16]; size_t k = strcspn (p, "["); snprintf (nm, sizeof nm, "%.*s", (int) k, p);
			a += (size_t) snprintf (api + a, sizeof api - a, "w%d:%s#%d ", w, nm, cnt);
			b += (size_t) snprintf (in + b, sizeof in - b, "w%d:%s ", w, p);
		}
	}
	while (a && api[a - 1] == ' ') api[--a] = 0;
	while (b && in[b - 1] == ' ') in[--b] = 0;
	printf ("%s || %s\n", api, in);
}

static void unlink_all (void) {
	for (int i = 0; i < NN; ++i) {
		__real_sem_unlink (sem_key[i]); __real_shm_unlink (shm_key[i]); __real_sem_unlink (lock_key[i]);
	}
}

static void join_toks (char *out, size_t n, char **t, int from, int to) {
	size_t o = 0; out[0] = 0;
	for (int i = from; i < to; ++i) o += (size_t) snprintf (out + o, n - o, "%s%s", i > from ? " " : "", t[i]);
}

static void run_par (char **t, int n) {
	/* par SCHED W1 op… ; W2 op… */
	int semi = -1;
	for (int i = 2; i < n; ++i) if (!strcmp (t[i], ";")) semi = i;
	if (n < 6 || semi < 4 || semi + 2 >= n) { puts ("bad-op"); return; }
	int wa = atoi (t[2]), wb = atoi (t[semi + 1]);
	if (wa < 0 || wa >= NW || wb < 0 || wb >= NW || wa == wb) { puts ("bad-op"); return; }
	if (!op_allowed (t, semi, 3, wa) || !op_allowed (t, n, semi + 2, wb) ||
	    (!strncmp (t[3], "new-", 4) && !strncmp (t[semi + 2], "new-", 4) && atoi (t[4]) == atoi (t[semi + 3]))) { puts ("bad-op"); return; }
	char ca[LINE] = "gated ", cb[LINE] = "gated ";
	join_toks (ca + 6, sizeof ca - 6, t, 3, semi);
	join_toks (cb + 6, sizeof cb - 6, t, semi + 2, n);
	char trace[LINE * 2] = "", ra[256] = "?", rb[256] = "?";
	struct child *c[2] = { &W[wa], &W[wb] };
	char *res[2] = { ra, rb };
	const char *tag[2] = { "a:", "b:" };
	int st[2];
	send_cmd (c[0], ca);
	st[0] = collect (c[0], tag[0], trace, sizeof trace, res[0], 256);
	send_cmd (c[1], cb);
	st[1] = collect (c[1], tag[1], trace, sizeof trace, res[1], 256);
	for (const char *s = t[1]; ; ++s) {
		int who;
		if (*s == 'a') who = 0; else if (*s == 'b') who = 1; else if (*s) continue; else break;
		if (st[who] != 'G') continue;
		wr_all (c[who]->cmd, "g", 1);
		st[who] = collect (c[who], tag[who], trace, sizeof trace, res[who], 256);
	}
	for (int who = 0; who < 2; ++who)
		while (st[who] == 'G') {
			wr_all (c[who]->cmd, "g", 1);
			st[who] = collect (c[who], tag[who], trace, sizeof trace, res[who], 256);
		}
	for (int who = 0; who < 2; ++who) if (st[who] != 'R') {
		snprintf (res[who], 256, st[who] == 'T' ? "TIMEOUT" : "died");
		respawn (who ? wb : wa);
	}
	if (st[0] == 'R') op_done (t, semi, 3, wa, ra);
	if (st[1] == 'R') op_done (t, n, semi + 2, wb, rb);
	printf ("%s => %s ; %s\n", trace, ra, rb);
}

/* ---------------------------------------------------------------- supporting stress runs */
static int stress_sem (int nproc, int v, int iters) {
	struct sh { atomic_int inside, maxin, bad; } *sh = __real_mmap (NULL, 4096, PROT_READ | PROT_WRITE, MAP_SHARED | MAP_ANONYMOUS, -1, 0);
	char name[96]; snprintf (name, sizeof name, "pvipc-%d-%llx-stress-s", (int) getpid (), run_tag ());
	PSemaphore *s0 = p_semaphore_new (name, v, P_SEM_ACCESS_CREATE, NULL);
	if (!s0) { puts ("stress-sem: cannot create"); return 2; }
	pid_t ps[64];
	for (int p = 0; p < nproc && p < 64; ++p) {
		fflush (stdout);
		if ((ps[p] = fork ()) == 0) {
			PSemaphore *s = p_semaphore_new (name, 99, P_SEM_ACCESS_OPEN, NULL);
			if (!s) _exit (3);
			for (int i = 0; i < iters; ++i) {
				if (!p_semaphore_acquire (s, NULL)) _exit (4);
				int x = atomic_fetch_add (&sh->inside, 1) + 1;
				int m = atomic_load (&sh->maxin);
				while (x > m && !atomic_compare_exchange_weak (&sh->maxin, &m, x)) ;
				if (x > v) atomic_store (&sh->bad, 1);
				for (volatile int k = 0; k < 50; ++k) ;
				atomic_fetch_sub (&sh->inside, 1);
				if (!p_semaphore_release (s, NULL)) _exit (5);
			}
			p_semaphore_free (s);
			_exit (0);
		}
	}
	int bad_exit = 0;
	for (int p = 0; p < nproc && p < 64; ++p) { int stt; waitpid (ps[p], &stt, 0); if (!WIFEXITED (stt) || WEXITSTATUS (stt)) bad_exit = 1; }
	p_semaphore_free (s0);     /* the creator is an owner: removes the name */
	printf ("stress-sem procs=%d v=%d iters=%d max_inside=%d %s\n", nproc, v, iters, atomic_load (&sh->maxin),
		(atomic_load (&sh->bad) || bad_exit) ? "VIOLATION" : "ok");
	return (atomic_load (&sh->bad) || bad_exit) ? 1 : 0;
}

static int stress_shm (int nproc, int iters) {
	char name[96]; snprintf (name, sizeof name, "pvipc-%d-%llx-stress-m", (int) getpid (), run_tag ());
	PShm *m0 = p_shm_new (name, 4096, P_SHM_ACCESS_READWRITE, NULL);
	if (!m0) { puts ("stress-shm: cannot create"); return 2; }
	pid_t ps[64];
	for (int p = 0; p < nproc && p < 64; ++p) {
		fflush (stdout);
		if ((ps[p] = fork ()) == 0) {
			PShm *m = p_shm_new (name, 4096, P_SHM_ACCESS_READWRITE, NULL);
			if (!m) _exit (3);
			volatile long *c = p_shm_get_address (m);
			for (int i = 0; i < iters; ++i) {
				if (!p_shm_lock (m, NULL)) _exit (4);
				long x = *c;
				for (volatile int k = 0; k < 20; ++k) ;
				*c = x + 1;
				if (!p_shm_unlock (m, NULL)) _exit (5);
			}
			p_shm_free (m);
			_exit (0);
		}
	}
	int bad_exit = 0;
	for (int p = 0; p < nproc && p < 64; ++p) { int stt; waitpid (ps[p], &stt, 0); if (!WIFEXITED (stt) || WEXITSTATUS (stt)) bad_exit = 1; }
	long got = *(volatile long *) p_shm_get_address (m0), want = (long) nproc * iters;
	p_shm_free (m0);
	printf ("stress-shm procs=%d iters=%d counter=%ld expected=%ld %s\n", nproc, iters, got, want, (got != want || bad_exit) ? "VIOLATION" : "ok");
	return (got != want || bad_exit) ? 1 : 0;
}

int main (int argc, char **argv) {
	static char line[LINE], copy[LINE], *t[24];
	signal (SIGPIPE, SIG_IGN);
	p_libsys_init ();
	if (argc >= 5 && !strcmp (argv[1], "stress-sem")) return stress_sem (atoi (argv[2]), atoi (argv[3]), atoi (argv[4]));
	if (argc >= 4 && !strcmp (argv[1], "stress-shm")) return stress_shm (atoi (argv[2]), atoi (argv[3]));
	make_names ();
	for (int h = 0; h < NH; ++h) owner[h] = -1;
	for (int w = 0; w < NW; ++w) spawn (&W[w]);
	spawn (&OBS);
	while (fgets (line, sizeof line, stdin)) {
		snprintf (copy, sizeof copy, "%s", line);
		int n = split (copy, t, 24);
		if (n == 0) continue;
		if (!strcmp (t[0], "obs") && n == 1) obs ();
		else if (!strcmp (t[0], "reset") && n == 1) {
			for (int w = 0; w < NW; ++w) retire (&W[w]);
			retire (&OBS);
			unlink_all ();
			make_names ();
			for (int w = 0; w < NW; ++w) spawn (&W[w]);
			spawn (&OBS);
			for (int h = 0; h < NH; ++h) owner[h] = -1;
			puts ("ok");
		} else if (!strcmp (t[0], "par")) run_par (t, n);
		else {
			int w = atoi (t[0]);
			if (t[0][0] < '0' || t[0][0] > '9' || w >= NW || n < 2) puts ("bad-op");
			else if (!strcmp (t[1], "kill") && n == 2) { respawn (w); puts ("ok"); }
			else if (!strcmp (t[1], "close0") && n == 2) {
				char trace[64] = "", res[LINE] = "";
				send_cmd (&W[w], "close0");
				if (collect (&W[w], "", trace, sizeof trace, res, sizeof res) == 'R') puts ("ok");
				else { puts ("died"); respawn (w); }
			}
			else if (!strcmp (t[1], "null") && n == 2) {
				char trace[64] = "", res[LINE] = "";
				send_cmd (&W[w], "null");
				if (collect (&W[w], "", trace, sizeof trace, res, sizeof res) == 'R') printf ("%s => %s\n", trace, res);
				else { puts (" => died"); respawn (w); }
			}
			else if (!op_allowed (t, n, 1, w)) puts ("bad-op");
			else {
				static char trace[LINE * 16];      /* 1000 EINTR tokens of ~30 bytes each must fit (thorough tier) */
				char cmd[LINE], res[256] = "";
				trace[0] = 0;
				join_toks (cmd, sizeof cmd, t, 1, n);
				send_cmd (&W[w], cmd);
				int st = collect (&W[w], "", trace, sizeof trace, res, sizeof res);
				if (st == 'R' && !strcmp (res, "bad-op")) puts ("bad-op");
				else if (st == 'R') { op_done (t, n, 1, w, res); printf ("%s => %s\n", trace, res); }
				else if (st == 'D') {
					int crash = !strncmp (t[1], "crash", 5);
					printf ("%s => %s\n", trace, crash ? "crashed" : "died");
					respawn (w);
				} else { printf ("%s => TIMEOUT\n", trace); respawn (w); }
			}
		}
		fflush (stdout);
	}
	for (int w = 0; w < NW; ++w) retire (&W[w]);
	retire (&OBS);
	unlink_all ();
	p_libsys_shutdown ();
	return 0;
}

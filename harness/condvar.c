/* C03 harness (wrapper mapping): the real pcondvariable-posix.c / pmutex-posix.c from the working
 * tree, with every pthread_cond_* / pthread_mutex_* entry point they use wrapped at link time
 * (-Wl,--wrap=...).  While `armed`, a wrapper RECORDS its pointer arguments and returns the code
 * scripted by the op; otherwise it passes through.  Pointers are printed
 * relative to the object they point into (C+off = the PCondVariable block, M+off = the PMutex
 * block), so "the mutex pointer handed to pthread_cond_wait is the address p_mutex_lock handed to
 * pthread_mutex_lock" is visible in the answers and checked directly by `ident`.
 * There are TWO live objects of each kind (selectors `obj` and `obj2`, printed C+off / C2+off and
 * M+off / M2+off): a wrapper that remembers an object from an earlier call, or keeps state outside
 * the object it is given, shows up as a pointer into the wrong object (`ident2` checks it directly).
 * The library prints its P_ERROR texts on stdout: stdout is redirected to stderr, the protocol
 * goes to a private copy of the original descriptor. */
#include <plibsys.h>
#include <pthread.h>
#include <stdio.h>
#include <stdlib.h>
#include <string.h>
#include <unistd.h>

static FILE *out;
static int armed;
static int next_rc;

#define MAXCALLS 8
static struct { const char *fn; const void *a[2]; int n; } calls[MAXCALLS];
static int ncalls;

static int record (const char *fn, int n, const void *a0, const void *a1) {
	if (ncalls < MAXCALLS) { calls[ncalls].fn = fn; calls[ncalls].n = n; calls[ncalls].a[0] = a0; calls[ncalls].a[1] = a1; ncalls++; }
	return next_rc;
}

#define WRAP1(name, T0) \
	int __real_##name (T0); \
	int __wrap_##name (T0 a) { if (!armed) return __real_##name (a); return record (#name + 8, 1, a, NULL); }
#define WRAP2(name, T0, T1) \
	int __real_##name (T0, T1); \
	int __wrap_##name (T0 a, T1 b) { if (!armed) return __real_##name (a, b); return record (#name + 8, 2, a, b); }

WRAP2 (pthread_cond_init, pthread_cond_t *, const pthread_condattr_t *)
WRAP1 (pthread_cond_destroy, pthread_cond_t *)
WRAP2 (pthread_cond_wait, pthread_cond_t *, pthread_mutex_t *)
WRAP1 (pthread_cond_signal, pthread_cond_t *)
WRAP1 (pthread_cond_broadcast, pthread_cond_t *)
WRAP2 (pthread_mutex_init, pthread_mutex_t *, const pthread_mutexattr_t *)
WRAP1 (pthread_mutex_destroy, pthread_mutex_t *)
WRAP1 (pthread_mutex_lock, pthread_mutex_t *)
WRAP1 (pthread_mutex_trylock, pthread_mutex_t *)
WRAP1 (pthread_mutex_unlock, pthread_mutex_t *)

/* allocator: scripted failure, remembers the last block and whether it was released */
static int alloc_fail;
static void *last_blk; static size_t last_size; static int last_freed;
static ppointer my_malloc (psize n) {
	if (alloc_fail) return NULL;
	void *p = malloc (n);
	if (armed) { last_blk = p; last_size = n; last_freed = 0; }
	return p;
}
static ppointer my_realloc (ppointer p, psize n) { return realloc (p, n); }
static void my_free (ppointer p) { if (armed && p == last_blk) last_freed = 1; free (p); }

static PCondVariable *C, *C2; static size_t Csize;
static PMutex *M, *M2; static size_t Msize;
/* blocks the pointers are printed relative to (the live objects, or the block `new` just made) */
static const char *cbase, *mbase; static size_t cbsize, mbsize;

static void pr_ptr (const void *p) {
	const char *q = p;
	if (p == NULL) fprintf (out, "NULL");
	else if (cbase && q >= cbase && q < cbase + cbsize) fprintf (out, "C+%ld", (long) (q - cbase));
	else if (mbase && q >= mbase && q < mbase + mbsize) fprintf (out, "M+%ld", (long) (q - mbase));
	else if (C2 && q >= (const char *) C2 && q < (const char *) C2 + Csize) fprintf (out, "C2+%ld", (long) (q - (const char *) C2));
	else if (M2 && q >= (const char *) M2 && q < (const char *) M2 + Msize) fprintf (out, "M2+%ld", (long) (q - (const char *) M2));
	else fprintf (out, "?");
}

static void pr_calls (void) {
	fprintf (out, "calls=[");
	for (int i = 0; i < ncalls; ++i) {
		fprintf (out, "%s%s(", i ? " " : "", calls[i].fn);
		for (int k = 0; k < calls[i].n; ++k) { if (k) fprintf (out, ","); pr_ptr (calls[i].a[k]); }
		fprintf (out, ")");
	}
	fprintf (out, "]");
}

static void begin (int rc) { ncalls = 0; next_rc = rc; armed = 1; }
static void end (void) { armed = 0; alloc_fail = 0; }

static void pr_bool (pboolean r) { fprintf (out, "ret=%s ", r == TRUE ? "TRUE" : r == FALSE ? "FALSE" : "?"); pr_calls (); fprintf (out, "\n"); }

/* selector: 0 = first object, 1 = NULL, 2 = second object */
static int selp (const char *s, int *isnull) {
	if (!strcmp (s, "obj")) { *isnull = 0; return 1; }
	if (!strcmp (s, "null")) { *isnull = 1; return 1; }
	if (!strcmp (s, "obj2")) { *isnull = 2; return 1; }
	return 0;
}
static PCondVariable *pc_ (int k) { return k == 1 ? NULL : k == 2 ? C2 : C; }
static PMutex *pm_ (int k) { return k == 1 ? NULL : k == 2 ? M2 : M; }
static const void *arg_of (int i) { return ncalls ? calls[0].a[i] : NULL; }
static int inside (const void *p, const void *b, size_t n) { return p != NULL && (const char *) p >= (const char *) b && (const char *) p < (const char *) b + n; }

static void use_live (void) { cbase = (const char *) C; cbsize = Csize; mbase = (const char *) M; mbsize = Msize; }

int main (void) {
	char line[256], op[32], a1[32], a2[32], a3[32];
	out = fdopen (dup (1), "w");
	dup2 (2, 1);
	PMemVTable vt = { my_malloc, my_realloc, my_free };
	p_mem_set_vtable (&vt);
	/* the two live objects; their native handles are never really initialised: every native
	 * entry point that could touch them is wrapped */
	begin (0); C = p_cond_variable_new (); Csize = last_size; M = p_mutex_new (); Msize = last_size;
	C2 = p_cond_variable_new (); M2 = p_mutex_new (); end ();
	if (!C || !M || !C2 || !M2) { fprintf (out, "setup-failed\n"); return 1; }
	while (fgets (line, sizeof line, stdin)) {
		a1[0] = a2[0] = a3[0] = 0;
		int n = sscanf (line, "%31s %31s %31s %31s", op, a1, a2, a3);
		int cn = 0, mn = 0;
		if (n < 1) continue;
		use_live ();
		if (!strcmp (op, "wait") && n == 4 && selp (a1, &cn) && selp (a2, &mn)) {
			begin (atoi (a3)); pboolean r = p_cond_variable_wait (pc_ (cn), pm_ (mn)); end (); pr_bool (r);
		} else if (!strcmp (op, "signal") && n == 3 && selp (a1, &cn)) {
			begin (atoi (a2)); pboolean r = p_cond_variable_signal (pc_ (cn)); end (); pr_bool (r);
		} else if (!strcmp (op, "bcast") && n == 3 && selp (a1, &cn)) {
			begin (atoi (a2)); pboolean r = p_cond_variable_broadcast (pc_ (cn)); end (); pr_bool (r);
		} else if (!strcmp (op, "lock") && n == 3 && selp (a1, &mn)) {
			begin (atoi (a2)); pboolean r = p_mutex_lock (pm_ (mn)); end (); pr_bool (r);
		} else if (!strcmp (op, "trylock") && n == 3 && selp (a1, &mn)) {
			begin (atoi (a2)); pboolean r = p_mutex_trylock (pm_ (mn)); end (); pr_bool (r);
		} else if (!strcmp (op, "unlock") && n == 3 && selp (a1, &mn)) {
			begin (atoi (a2)); pboolean r = p_mutex_unlock (pm_ (mn)); end (); pr_bool (r);
		} else if ((!strcmp (op, "newc") || !strcmp (op, "newm")) && n == 3) {
			int isc = op[3] == 'c';
			last_blk = NULL; last_size = 0; last_freed = 0;
			begin (atoi (a2)); alloc_fail = atoi (a1) != 0;
			void *o = isc ? (void *) p_cond_variable_new () : (void *) p_mutex_new ();
			end ();
			if (isc) { cbase = last_blk; cbsize = last_size; } else { mbase = last_blk; mbsize = last_size; }
			fprintf (out, "obj=%d ", o != NULL); pr_calls (); fprintf (out, " freed=%d\n", last_freed);
			if (o != NULL && o != last_blk) fprintf (out, "returned-object-is-not-the-allocated-block\n");
			/* dispose of the temporary object without going through the wrappers' log */
			if (o != NULL) free (o);
		} else if ((!strcmp (op, "freec") || !strcmp (op, "freem")) && n == 3 && selp (a1, &cn) && cn != 2) {
			int isc = op[4] == 'c';
			void *o = NULL;
			if (cn != 1) {      /* a fresh object to free */
				begin (0); o = isc ? (void *) p_cond_variable_new () : (void *) p_mutex_new (); end ();
				if (isc) { cbase = o; cbsize = last_size; } else { mbase = o; mbsize = last_size; }
			}
			last_blk = o; last_freed = 0;
			begin (atoi (a2));
			if (isc) p_cond_variable_free (o); else p_mutex_free (o);
			end ();
			pr_calls (); fprintf (out, " freed=%d\n", last_freed);
			if (o && !last_freed) free (o);
		} else if (!strcmp (op, "ident") && n == 1) {
			/* direct oracle on raw pointers */
			const void *wc, *wm, *lm, *um, *sc, *bc;
			begin (0); p_cond_variable_wait (C, M); wc = ncalls ? calls[0].a[0] : NULL; wm = ncalls ? calls[0].a[1] : NULL; end ();
			begin (0); p_mutex_lock (M); lm = ncalls ? calls[0].a[0] : NULL; end ();
			begin (0); p_mutex_unlock (M); um = ncalls ? calls[0].a[0] : NULL; end ();
			begin (0); p_cond_variable_signal (C); sc = ncalls ? calls[0].a[0] : NULL; end ();
			begin (0); p_cond_variable_broadcast (C); bc = ncalls ? calls[0].a[0] : NULL; end ();
			int ms = wm != NULL && wm == lm && wm == um && (const char *) wm >= (const char *) M && (const char *) wm < (const char *) M + Msize;
			int cs = wc != NULL && wc == sc && wc == bc && (const char *) wc >= (const char *) C && (const char *) wc < (const char *) C + Csize;
			fprintf (out, "ident mutex=%s cond=%s\n", ms ? "same" : "DIFFERENT", cs ? "same" : "DIFFERENT");
		} else if (!strcmp (op, "ident2") && n == 1) {
			/* the same oracle across the two objects of each kind: a call on (C, M2) must address M2's handle
			 * (the pointer p_mutex_lock (M2) uses) and C's, a call on (C2, M) must address C2's and M's;
			 * nothing may point into the object that was NOT passed */
			const void *w1c, *w1m, *w2c, *w2m, *l1, *l2, *u2, *s1, *s2, *b2;
			begin (0); p_cond_variable_wait (C, M2); w1c = arg_of (0); w1m = arg_of (1); end ();
			begin (0); p_cond_variable_wait (C2, M); w2c = arg_of (0); w2m = arg_of (1); end ();
			begin (0); p_mutex_lock (M); l1 = arg_of (0); end ();
			begin (0); p_mutex_lock (M2); l2 = arg_of (0); end ();
			begin (0); p_mutex_unlock (M2); u2 = arg_of (0); end ();
			begin (0); p_cond_variable_signal (C); s1 = arg_of (0); end ();
			begin (0); p_cond_variable_signal (C2); s2 = arg_of (0); end ();
			begin (0); p_cond_variable_broadcast (C2); b2 = arg_of (0); end ();
			int ms = inside (w1m, M2, Msize) && w1m == l2 && w1m == u2 && inside (w2m, M, Msize) && w2m == l1 && l1 != l2;
			int cs = inside (w1c, C, Csize) && w1c == s1 && inside (w2c, C2, Csize) && w2c == s2 && w2c == b2 && s1 != s2;
			fprintf (out, "ident2 mutex=%s cond=%s\n", ms ? "same" : "DIFFERENT", cs ? "same" : "DIFFERENT");
		} else if (!strcmp (op, "reset") && n == 1) {
			fprintf (out, "ok\n");
		} else fprintf (out, "bad-op\n");
		fflush (out);
	}
	/* the live objects were never natively initialised: release the blocks only */
	free (C); free (M); free (C2); free (M2);
	return 0;
}

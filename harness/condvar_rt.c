/* C03 supporting runs with REAL threads on the real library (nothing wrapped).
 *
 *   condvar_rt pc N M C ITEMS BCAST     N producers x ITEMS sequence-numbered items, M consumers,
 *                                       bounded FIFO buffer of capacity C, two condition variables,
 *                                       consumers/producers re-check their predicate in a loop
 *   condvar_rt ec W S EVENTS            event counter: S signallers x EVENTS, W waiters
 *   condvar_rt gate K ROUNDS [u]        K waiters block on a flag; ONE broadcast must release all (u: issued after unlocking the mutex)
 *   condvar_rt trylock ROUNDS           a woken waiter, still inside its post-wait critical section,
 *                                       has another thread call p_mutex_trylock: it must fail
 *   condvar_rt rebind ROUNDS            ONE condition variable used with mutex A in even rounds and mutex B in odd
 *                                       rounds (legal: every wait of a round has returned before the next one starts)
 *   condvar_rt pairs K ROUNDS           K independent monitors (own mutex + own condition variable each) run
 *                                       ping-pong exchanges at the same time: no monitor may disturb another
 *   pc / ec take a trailing `u`: the signal / broadcast is issued AFTER unlocking the mutex (legal)
 *
 * Every critical section also counts the threads inside it (`in_cs`): a wait that returns without the
 * mutex, or a mutex shared by mistake, shows as two threads inside.
 *
 * One-sided oracles only: every item consumed exactly once, production order = consumption order
 * (both logged under the mutex), 0 <= count <= C at every access, no thread stuck (watchdog).
 * Prints one line `ok ...` (exit 0) or `FAIL ...` / `HANG ...` (exit 3). */
#include <plibsys.h>
#include <pthread.h>
#include <sched.h>
#include <semaphore.h>
#include <signal.h>
#include <stdio.h>
#include <stdlib.h>
#include <string.h>
#include <unistd.h>

static PMutex *mx;
static PCondVariable *not_empty, *not_full, *cv;
static char desc[256];

static void fail (const char *what) {
	printf ("FAIL %s (%s)\n", what, desc);
	fflush (stdout);
	_exit (3);
}

static void on_alarm (int sig) {
	(void) sig;
	static const char m[] = "HANG watchdog expired: some thread never returned\n";
	ssize_t r = write (1, m, sizeof m - 1);
	(void) r;
	_exit (3);
}

#define CK(x) do { if ((x) != TRUE) fail ("library call returned FALSE: " #x); } while (0)

/* threads inside the critical section of `mx` (relaxed atomics: no synchronisation is added for TSan) */
static int in_cs;
static void cs_enter (int *c) { if (__atomic_fetch_add (c, 1, __ATOMIC_RELAXED) != 0) fail ("two threads are inside the critical section of one mutex (lock or wait returned without owning it)"); }
static void cs_leave (int *c) { __atomic_fetch_sub (c, 1, __ATOMIC_RELAXED); }
static pboolean cs_wait (PCondVariable *c, PMutex *m, int *cnt) { pboolean r; cs_leave (cnt); r = p_cond_variable_wait (c, m); cs_enter (cnt); return r; }
static int notify_unlocked;        /* pc / ec: issue the wake-up after p_mutex_unlock */

/* ---------------------------------------------------------------- bounded buffer */
static int cap, bcast, items_per_producer;
static long *ring; static int head, count;
static long *prod_log, *cons_log; static long nprod, ncons, total;
static long wakeups_without_progress;

static void notify (PCondVariable *c) { if (bcast) CK (p_cond_variable_broadcast (c)); else CK (p_cond_variable_signal (c)); }

static void *producer (void *arg) {
	long id = (long) arg;
	for (int k = 0; k < items_per_producer; ++k) {
		long item = id * 1000000L + k;
		CK (p_mutex_lock (mx));
		cs_enter (&in_cs);
		int first = 1;
		while (count == cap) {
			if (!first) wakeups_without_progress++;
			first = 0;
			CK (cs_wait (not_full, mx, &in_cs));
		}
		if (count < 0 || count >= cap) fail ("buffer count out of bounds at put");
		ring[(head + count) % cap] = item;
		count++;
		prod_log[nprod++] = item;
		cs_leave (&in_cs);
		if (notify_unlocked) { CK (p_mutex_unlock (mx)); notify (not_empty); }
		else { notify (not_empty); CK (p_mutex_unlock (mx)); }
	}
	return NULL;
}

static void *consumer (void *arg) {
	long want = (long) arg;
	for (long k = 0; k < want; ++k) {
		CK (p_mutex_lock (mx));
		cs_enter (&in_cs);
		int first = 1;
		while (count == 0) {
			if (!first) wakeups_without_progress++;
			first = 0;
			CK (cs_wait (not_empty, mx, &in_cs));
		}
		if (count <= 0 || count > cap) fail ("buffer count out of bounds at take");
		long item = ring[head];
		head = (head + 1) % cap;
		count--;
		cons_log[ncons++] = item;
		cs_leave (&in_cs);
		if (notify_unlocked) { CK (p_mutex_unlock (mx)); notify (not_full); }
		else { notify (not_full); CK (p_mutex_unlock (mx)); }
	}
	return NULL;
}

static int run_pc (int n, int m, int c, int items, int bc) {
	cap = c; bcast = bc; items_per_producer = items; total = (long) n * items;
	ring = calloc ((size_t) c, sizeof *ring);
	prod_log = calloc ((size_t) total + 1, sizeof *prod_log);
	cons_log = calloc ((size_t) total + 1, sizeof *cons_log);
	pthread_t *tp = calloc ((size_t) n, sizeof *tp), *tc = calloc ((size_t) m, sizeof *tc);
	for (long i = 0; i < m; ++i) {
		long want = total / m + (i < total % m ? 1 : 0);
		if (pthread_create (&tc[i], NULL, consumer, (void *) want)) fail ("pthread_create");
	}
	for (long i = 0; i < n; ++i)
		if (pthread_create (&tp[i], NULL, producer, (void *) i)) fail ("pthread_create");
	for (int i = 0; i < n; ++i) pthread_join (tp[i], NULL);
	for (int i = 0; i < m; ++i) pthread_join (tc[i], NULL);
	if (nprod != total) fail ("not every item was produced");
	if (ncons != total) fail ("not every item was consumed");
	if (count != 0) fail ("buffer not empty at the end");
	for (long i = 0; i < total; ++i)
		if (prod_log[i] != cons_log[i]) fail ("consumption order differs from production order (lost, duplicated or reordered item)");
	/* exactly once, per producer in sequence */
	long *next = calloc ((size_t) n, sizeof *next);
	for (long i = 0; i < total; ++i) {
		long p = cons_log[i] / 1000000L, k = cons_log[i] % 1000000L;
		if (p < 0 || p >= n || k != next[p]) fail ("item consumed twice, skipped or out of per-producer order");
		next[p]++;
	}
	printf ("ok pc exchanged=%ld rewaits=%ld%s\n", total, wakeups_without_progress, notify_unlocked ? " notify-outside-mutex" : "");
	free (ring); free (prod_log); free (cons_log); free (tp); free (tc); free (next);
	return 0;
}

/* ---------------------------------------------------------------- event counter */
static long events, consumed_ev, ev_per_signaller;

static void *signaller (void *arg) {
	(void) arg;
	for (long k = 0; k < ev_per_signaller; ++k) {
		CK (p_mutex_lock (mx));
		cs_enter (&in_cs);
		events++;
		cs_leave (&in_cs);
		if (notify_unlocked) { CK (p_mutex_unlock (mx)); CK (p_cond_variable_signal (cv)); }
		else { CK (p_cond_variable_signal (cv)); CK (p_mutex_unlock (mx)); }
	}
	return NULL;
}

static void *waiter (void *arg) {
	long want = (long) arg;
	for (long k = 0; k < want; ++k) {
		CK (p_mutex_lock (mx));
		cs_enter (&in_cs);
		while (events == consumed_ev)
			CK (cs_wait (cv, mx, &in_cs));
		if (consumed_ev > events) fail ("consumed more events than were signalled");
		consumed_ev++;
		cs_leave (&in_cs);
		CK (p_mutex_unlock (mx));
	}
	return NULL;
}

static int run_ec (int w, int s, int ev) {
	ev_per_signaller = ev;
	long tot = (long) s * ev;
	pthread_t *tw = calloc ((size_t) w, sizeof *tw), *ts = calloc ((size_t) s, sizeof *ts);
	for (long i = 0; i < w; ++i) {
		long want = tot / w + (i < tot % w ? 1 : 0);
		if (pthread_create (&tw[i], NULL, waiter, (void *) want)) fail ("pthread_create");
	}
	for (long i = 0; i < s; ++i)
		if (pthread_create (&ts[i], NULL, signaller, NULL)) fail ("pthread_create");
	for (int i = 0; i < s; ++i) pthread_join (ts[i], NULL);
	for (int i = 0; i < w; ++i) pthread_join (tw[i], NULL);
	if (events != tot || consumed_ev != tot) fail ("event counts do not match at the end");
	printf ("ok ec events=%ld%s\n", tot, notify_unlocked ? " signal-outside-mutex" : "");
	free (tw); free (ts);
	return 0;
}

/* ---------------------------------------------------------------- gate: one broadcast releases all */
static int gate_open, gate_waiting, gate_passed, gate_round;

static void *gate_waiter (void *arg) {
	long rounds = (long) arg;
	for (long r = 0; r < rounds; ++r) {
		CK (p_mutex_lock (mx));
		cs_enter (&in_cs);
		gate_waiting++;
		CK (p_cond_variable_signal (not_full));          /* tell the opener */
		while (gate_round == r)
			CK (cs_wait (cv, mx, &in_cs));
		gate_passed++;
		CK (p_cond_variable_signal (not_full));
		cs_leave (&in_cs);
		CK (p_mutex_unlock (mx));
	}
	return NULL;
}

static int run_gate (int k, int rounds, int unlocked) {
	pthread_t *t = calloc ((size_t) k, sizeof *t);
	for (int i = 0; i < k; ++i)
		if (pthread_create (&t[i], NULL, gate_waiter, (void *) (long) rounds)) fail ("pthread_create");
	for (int r = 0; r < rounds; ++r) {
		CK (p_mutex_lock (mx));
		while (gate_waiting < k * (r + 1))               /* all K are inside wait (they released the mutex atomically) */
			CK (p_cond_variable_wait (not_full, mx));
		gate_round = r + 1;
		if (unlocked) {                                  /* "lock; change the predicate; unlock; broadcast": woken waiters leave wait while the broadcast runs */
			CK (p_mutex_unlock (mx));
			CK (p_cond_variable_broadcast (cv));
			CK (p_mutex_lock (mx));
		} else
		CK (p_cond_variable_broadcast (cv));             /* exactly ONE broadcast per round */
		while (gate_passed < k * (r + 1))
			CK (p_cond_variable_wait (not_full, mx));
		CK (p_mutex_unlock (mx));
	}
	for (int i = 0; i < k; ++i) pthread_join (t[i], NULL);
	(void) gate_open;
	printf ("ok gate waiters=%d rounds=%d%s\n", k, rounds, unlocked ? " broadcast-outside-mutex" : "");
	free (t);
	return 0;
}

/* ---------------------------------------------------------------- trylock after wake */
static sem_t ask, answer;
static int probe_result, probe_stop, flag;

static void *prober (void *arg) {
	(void) arg;
	for (;;) {
		sem_wait (&ask);
		if (probe_stop) break;
		pboolean got = p_mutex_trylock (mx);
		if (got == TRUE) p_mutex_unlock (mx);
		probe_result = got == TRUE;
		sem_post (&answer);
	}
	return NULL;
}

static int tl_waiting;

static void *tl_waiter (void *arg) {
	long rounds = (long) arg;
	for (long r = 0; r < rounds; ++r) {
		CK (p_mutex_lock (mx));
		tl_waiting = (int) r + 1;                        /* seen by the signaller only after we are in the wait-set */
		while (flag <= r)
			CK (p_cond_variable_wait (cv, mx));
		/* wait has returned TRUE: we must own the mutex now */
		sem_post (&ask);
		sem_wait (&answer);
		if (probe_result) fail ("p_mutex_trylock from another thread SUCCEEDED while the woken waiter is in its post-wait critical section");
		CK (p_mutex_unlock (mx));
		/* (no "trylock succeeds after the unlock" probe: the signaller polls with the mutex, a
		 * failure there would be a false alarm) */
	}
	return NULL;
}

static int run_trylock (int rounds) {
	pthread_t w, p;
	sem_init (&ask, 0, 0); sem_init (&answer, 0, 0);
	if (pthread_create (&p, NULL, prober, NULL)) fail ("pthread_create");
	if (pthread_create (&w, NULL, tl_waiter, (void *) (long) rounds)) fail ("pthread_create");
	for (int r = 0; r < rounds; ++r) {
		for (;;) {                                       /* until the waiter of this round is blocked in wait */
			CK (p_mutex_lock (mx));
			if (tl_waiting == r + 1) break;
			CK (p_mutex_unlock (mx));
			sched_yield ();
		}
		flag = r + 1;
		CK (p_cond_variable_signal (cv));
		CK (p_mutex_unlock (mx));
	}
	pthread_join (w, NULL);
	probe_stop = 1; sem_post (&ask);
	pthread_join (p, NULL);
	printf ("ok trylock rounds=%d\n", rounds);
	return 0;
}

/* ---------------------------------------------------------------- rebind: one condition variable, two mutexes in turn */
static PMutex *mxs[2];
static int rb_waiting, rb_flag, rb_seen, rb_cs[2];

static void *rb_waiter (void *arg) {
	long rounds = (long) arg;
	for (long r = 0; r < rounds; ++r) {
		PMutex *m = mxs[r & 1];
		CK (p_mutex_lock (m));
		cs_enter (&rb_cs[r & 1]);
		rb_waiting = (int) r + 1;
		while (rb_flag <= r)
			CK (cs_wait (cv, m, &rb_cs[r & 1]));          /* must release THIS round's mutex and come back owning it */
		rb_seen = (int) r + 1;
		cs_leave (&rb_cs[r & 1]);
		CK (p_mutex_unlock (m));
	}
	return NULL;
}

static int run_rebind (int rounds) {
	pthread_t w;
	mxs[0] = mx; mxs[1] = p_mutex_new ();
	if (!mxs[1]) fail ("constructor returned NULL");
	if (pthread_create (&w, NULL, rb_waiter, (void *) (long) rounds)) fail ("pthread_create");
	for (int r = 0; r < rounds; ++r) {
		PMutex *m = mxs[r & 1];
		for (;;) {                                       /* until the waiter of this round is inside wait (it released m) */
			CK (p_mutex_lock (m));
			if (rb_waiting == r + 1) break;
			CK (p_mutex_unlock (m));
			sched_yield ();
		}
		cs_enter (&rb_cs[r & 1]);
		rb_flag = r + 1;
		cs_leave (&rb_cs[r & 1]);
		CK (p_cond_variable_signal (cv));
		CK (p_mutex_unlock (m));
		for (;;) {                                       /* the wait of this round has returned before the other mutex is used */
			CK (p_mutex_lock (m));
			int ok = rb_seen == r + 1;
			CK (p_mutex_unlock (m));
			if (ok) break;
			sched_yield ();
		}
	}
	pthread_join (w, NULL);
	p_mutex_free (mxs[1]);
	printf ("ok rebind rounds=%d\n", rounds);
	return 0;
}

/* ---------------------------------------------------------------- pairs: K independent monitors at the same time */
#define MAXPAIRS 64
static struct { PMutex *m; PCondVariable *c; long ball; int cs; long rounds; } pr[MAXPAIRS];

/* player 0 moves when the ball is even, player 1 when it is odd; each move is one signal */
static void *pair_player (void *arg) {
	long id = (long) arg, k = id / 2, me = id % 2;
	for (long r = 0; r < pr[k].rounds; ++r) {
		CK (p_mutex_lock (pr[k].m));
		cs_enter (&pr[k].cs);
		while ((pr[k].ball & 1) != me)
			CK (cs_wait (pr[k].c, pr[k].m, &pr[k].cs));
		pr[k].ball++;
		cs_leave (&pr[k].cs);
		if (r & 1) { CK (p_cond_variable_signal (pr[k].c)); CK (p_mutex_unlock (pr[k].m)); }
		else { CK (p_mutex_unlock (pr[k].m)); CK (p_cond_variable_broadcast (pr[k].c)); }
	}
	return NULL;
}

static int run_pairs (int k, int rounds) {
	pthread_t t[2 * MAXPAIRS];
	if (k < 1 || k > MAXPAIRS) fail ("pairs: 1..64");
	for (int i = 0; i < k; ++i) {
		pr[i].m = p_mutex_new (); pr[i].c = p_cond_variable_new (); pr[i].rounds = rounds;
		if (!pr[i].m || !pr[i].c) fail ("constructor returned NULL");
	}
	for (long i = 0; i < 2 * k; ++i)
		if (pthread_create (&t[i], NULL, pair_player, (void *) i)) fail ("pthread_create");
	for (int i = 0; i < 2 * k; ++i) pthread_join (t[i], NULL);
	for (int i = 0; i < k; ++i) {
		if (pr[i].ball != 2L * rounds) fail ("a monitor lost or gained moves");
		p_cond_variable_free (pr[i].c); p_mutex_free (pr[i].m);
	}
	printf ("ok pairs monitors=%d rounds=%d\n", k, rounds);
	return 0;
}

int main (int argc, char **argv) {
	if (argc < 2) return 2;
	for (int i = 1; i < argc && strlen (desc) + strlen (argv[i]) + 2 < sizeof desc; ++i) { strcat (desc, argv[i]); strcat (desc, " "); }
	signal (SIGALRM, on_alarm);
	const char *wd = getenv ("PV_WATCHDOG");
	alarm (wd ? (unsigned) atoi (wd) : 60);
	p_mem_restore_vtable ();                          /* all the library set-up these modules need */
	mx = p_mutex_new (); not_empty = p_cond_variable_new (); not_full = p_cond_variable_new (); cv = p_cond_variable_new ();
	if (!mx || !not_empty || !not_full || !cv) fail ("constructor returned NULL");
	int rc = 2;
	if (argc > 2 && !strcmp (argv[argc - 1], "u") && (!strcmp (argv[1], "pc") || !strcmp (argv[1], "ec"))) { notify_unlocked = 1; argc--; }
	if (!strcmp (argv[1], "pc") && argc == 7) rc = run_pc (atoi (argv[2]), atoi (argv[3]), atoi (argv[4]), atoi (argv[5]), atoi (argv[6]));
	else if (!strcmp (argv[1], "ec") && argc == 5) rc = run_ec (atoi (argv[2]), atoi (argv[3]), atoi (argv[4]));
	else if (!strcmp (argv[1], "gate") && argc == 4) rc = run_gate (atoi (argv[2]), atoi (argv[3]), 0);
	else if (!strcmp (argv[1], "gate") && argc == 5 && !strcmp (argv[4], "u")) rc = run_gate (atoi (argv[2]), atoi (argv[3]), 1);
	else if (!strcmp (argv[1], "trylock") && argc == 3) rc = run_trylock (atoi (argv[2]));
	else if (!strcmp (argv[1], "rebind") && argc == 3) rc = run_rebind (atoi (argv[2]));
	else if (!strcmp (argv[1], "pairs") && argc == 4) rc = run_pairs (atoi (argv[2]), atoi (argv[3]));
	else { printf ("usage\n"); return 2; }
	p_cond_variable_free (cv); p_cond_variable_free (not_full); p_cond_variable_free (not_empty); p_mutex_free (mx);
	fflush (stdout);
	return rc;
}

/* Real-thread supporting runs for C01 / C04 (NOT proofs: they are the failing-input search and a sanity
 * check of the trusted hardware / pthread contracts).  Linked with the atomic + spinlock back-end of ONE
 * variant (c11 | sync | sim) and pmutex-posix.c, normally compiled by clang-14 with -fsanitize=thread.
 *
 *   stress counter  N ITERS   N threads: lock (every 3rd acquisition by spinning on trylock), plain
 *                             `counter++`, unlock on a PSpinLock          -> "counter <v> expected <N*ITERS>"
 *   stress mcounter N ITERS   the same on a PMutex
 *   stress ticket   N ITERS   p_atomic_int_add (&x, 1) from N threads     -> "ticket dup <d> final <v> expected <..>"
 *   stress dectest  N ITERS   x = N*ITERS, every thread decrements ITERS times -> "dectest true <k> final <v>"
 *   stress casinc   N ITERS   increment by compare-and-exchange loop      -> "casinc final <v> expected <..>"
 *   stress sb       ROUNDS    store buffering (Dekker): A: set(x,1); r1=get(y)   B: set(y,1); r2=get(x)   on fresh words,
 *                             int and pointer flavour; r1 == r2 == 0 is forbidden when set/get are full barriers
 *                                                                         -> "sb forbidden_int <k> forbidden_ptr <k> rounds <ROUNDS>"
 *   stress mp       ROUNDS    message passing: plain data, flag by p_atomic_int_set / _get
 *                                                                         -> "mp stale <k> rounds <ROUNDS>"
 *   stress hcounter N ITERS   counter + a shadow holder count kept inside the critical section (relaxed atomics of the
 *                             harness, no ordering): any overlap of two critical sections is seen, not only a lost update
 *                                                                         -> "counter <v> expected <..> overlaps <k>"
 *   stress twolocks N ITERS   two PSpinLocks A, B with one plain counter each; every thread: A alone, B alone, and B
 *                             nested inside A (fixed order: no deadlock unless the two objects share their lock)
 *                                                                         -> "twolocks a <v> b <v> expected <e> <e>"
 *   stress mtwolocks N ITERS  the same on two PMutexes
 *   stress mix      N ITERS   all read-modify-write operations mixed on ONE int word and ONE pointer-sized word:
 *                             +1 by add / inc / compare-and-exchange loop (low bits; the pointer word starts just below
 *                             2^32 and crosses it), xor of the top bit, or of the next, and-not of a third (never set)
 *                                                                         -> "mix int <final> <expected> ptr <final> <expected>"
 *   stress pticket  N ITERS   p_atomic_pointer_add (&p, 1) tickets starting below 2^32 (crossing it)
 *                                                                         -> "ticket dup <d> final <v> expected <..>"
 * Every worker loop also stops at a deadline (environment STRESS_MAX_MS, default 20000 ms): on a loaded machine an
 * oversubscribed spin lock can take minutes for a fixed iteration count; the expected values are computed from the
 * iterations actually completed, so the oracles are exact either way.
 * Exit status 0; oracles are evaluated by tools/props/c0{1,4}.py (and ThreadSanitizer's report). */
#include <patomic.h>
#include <pmutex.h>
#include <pspinlock.h>
#include <pmem.h>
#include <stdio.h>
#include <stdlib.h>
#include <string.h>
#include <pthread.h>
#include <stdint.h>
#include <time.h>

extern void p_mem_init (void);
extern void p_atomic_thread_init (void);

static int N, ITERS;
static PSpinLock *SL;
static PMutex *MX;
static long counter;			/* plain, protected only by the lock under test */
static volatile pint X;
static unsigned char *seen;
static long dup_count, true_count;
static pthread_mutex_t agg = PTHREAD_MUTEX_INITIALIZER;
static pthread_barrier_t bar;
static long done_iters;			/* iterations completed by all workers (under agg) */
static double deadline;

static double now_s (void) { struct timespec ts; clock_gettime (CLOCK_MONOTONIC, &ts); return (double) ts.tv_sec + ts.tv_nsec / 1e9; }
/* checked every 64 iterations */
#define EXPIRED(i) ((((i) & 63) == 63) && now_s () > deadline)
static void add_done (long k) { pthread_mutex_lock (&agg); done_iters += k; pthread_mutex_unlock (&agg); }

static void *w_counter (void *a) {
	int i;
	(void) a;
	pthread_barrier_wait (&bar);
	for (i = 0; i < ITERS && !EXPIRED (i); i++) {
		if (i % 3 == 2) { while (p_spinlock_trylock (SL) == FALSE) ; }
		else p_spinlock_lock (SL);
		counter++;
		p_spinlock_unlock (SL);
	}
	add_done (i);
	return NULL;
}

static int holders;			/* shadow holder count: harness atomics, relaxed */
static long overlaps;			/* plain, inside the critical section */

static void *w_hcounter (void *a) {
	int i;
	volatile int k;
	(void) a;
	pthread_barrier_wait (&bar);
	for (i = 0; i < ITERS && !EXPIRED (i); i++) {
		if (i % 3 == 2) { while (p_spinlock_trylock (SL) == FALSE) ; }
		else p_spinlock_lock (SL);
		if (__atomic_fetch_add (&holders, 1, __ATOMIC_RELAXED) != 0) __atomic_fetch_add (&overlaps, 1, __ATOMIC_RELAXED);
		counter++;
		for (k = 0; k < 8; k++) ;
		__atomic_fetch_sub (&holders, 1, __ATOMIC_RELAXED);
		p_spinlock_unlock (SL);
	}
	add_done (i);
	return NULL;
}

static PSpinLock *SA, *SB;
static PMutex *MA, *MB;
static long ca, cb;			/* plain: ca under A, cb under B */

static void *w_twolocks (void *a) {
	int i;
	(void) a;
	pthread_barrier_wait (&bar);
	for (i = 0; i < ITERS && !EXPIRED (i); i++) {
		p_spinlock_lock (SA); ca++; p_spinlock_unlock (SA);
		if (i % 2) p_spinlock_lock (SB); else { while (p_spinlock_trylock (SB) == FALSE) ; }
		cb++; p_spinlock_unlock (SB);
		p_spinlock_lock (SA); ca++; p_spinlock_lock (SB); cb++; p_spinlock_unlock (SB); p_spinlock_unlock (SA);
	}
	add_done (i);
	return NULL;
}

static void *w_mtwolocks (void *a) {
	int i;
	(void) a;
	pthread_barrier_wait (&bar);
	for (i = 0; i < ITERS && !EXPIRED (i); i++) {
		p_mutex_lock (MA); ca++; p_mutex_unlock (MA);
		if (i % 2) p_mutex_lock (MB); else { while (p_mutex_trylock (MB) == FALSE) ; }
		cb++; p_mutex_unlock (MB);
		p_mutex_lock (MA); ca++; p_mutex_lock (MB); cb++; p_mutex_unlock (MB); p_mutex_unlock (MA);
	}
	add_done (i);
	return NULL;
}

static void *w_mcounter (void *a) {
	int i;
	(void) a;
	pthread_barrier_wait (&bar);
	for (i = 0; i < ITERS && !EXPIRED (i); i++) {
		if (i % 3 == 2) { while (p_mutex_trylock (MX) == FALSE) ; }
		else p_mutex_lock (MX);
		counter++;
		p_mutex_unlock (MX);
	}
	add_done (i);
	return NULL;
}

static void *w_ticket (void *a) {
	int i;
	long d = 0;
	unsigned *got = malloc (sizeof (unsigned) * (size_t) ITERS);
	(void) a;
	pthread_barrier_wait (&bar);
	int n;
	for (i = 0; i < ITERS && !EXPIRED (i); i++) got[i] = (unsigned) p_atomic_int_add (&X, 1);
	n = i;
	pthread_mutex_lock (&agg);
	for (i = 0; i < n; i++) {
		if (got[i] >= (unsigned) (N * ITERS) || seen[got[i]]) d++;
		else seen[got[i]] = 1;
	}
	dup_count += d;
	done_iters += n;
	pthread_mutex_unlock (&agg);
	free (got);
	return NULL;
}

/* pointer-sized tickets: the word starts PT_BACK below 2^32 and crosses it */
static volatile psize PX;
#define PT_BASE ((psize) 0x100000000ULL)
static psize pt_start;

static void *w_pticket (void *a) {
	int i, n;
	long d = 0;
	psize *got = malloc (sizeof (psize) * (size_t) ITERS);
	(void) a;
	pthread_barrier_wait (&bar);
	for (i = 0; i < ITERS && !EXPIRED (i); i++) got[i] = (psize) p_atomic_pointer_add (&PX, 1);
	n = i;
	pthread_mutex_lock (&agg);
	for (i = 0; i < n; i++) {
		psize k = got[i] - pt_start;
		if (k >= (psize) N * (psize) ITERS || seen[k]) d++;
		else seen[k] = 1;
	}
	dup_count += d;
	done_iters += n;
	pthread_mutex_unlock (&agg);
	free (got);
	return NULL;
}

/* all operations mixed on one word */
static volatile pint MI;
static volatile psize MP;
static long mix_incs, mix_xors, mix_ors;

static void *w_mix (void *a) {
	int i;
	long incs = 0, xors = 0, ors = 0;
	int me = (int) (intptr_t) a;
	pthread_barrier_wait (&bar);
	for (i = 0; i < ITERS && !EXPIRED (i); i++) {
		switch ((i + me) % 6) {
		case 0: p_atomic_int_add (&MI, 1); p_atomic_pointer_add (&MP, 1); incs++; break;
		case 1: p_atomic_int_inc (&MI); p_atomic_pointer_add (&MP, 1); incs++; break;
		case 2: {
			pint o; psize q;
			do { o = p_atomic_int_get (&MI); } while (!p_atomic_int_compare_and_exchange (&MI, o, o + 1));
			do { q = (psize) p_atomic_pointer_get (&MP); } while (!p_atomic_pointer_compare_and_exchange (&MP, (ppointer) q, (ppointer) (q + 1)));
			incs++; break; }
		case 3: p_atomic_int_xor ((volatile puint *) &MI, 0x80000000u); p_atomic_pointer_xor (&MP, (psize) 1 << 63); xors++; break;
		case 4: p_atomic_int_or ((volatile puint *) &MI, 0x40000000u); p_atomic_pointer_or (&MP, (psize) 1 << 62); ors++; break;
		default: p_atomic_int_and ((volatile puint *) &MI, ~0x20000000u); p_atomic_pointer_and (&MP, ~((psize) 1 << 61)); break;
		}
	}
	pthread_mutex_lock (&agg);
	mix_incs += incs; mix_xors += xors; mix_ors += ors;
	pthread_mutex_unlock (&agg);
	return NULL;
}

static void *w_dectest (void *a) {
	int i;
	long t = 0;
	(void) a;
	pthread_barrier_wait (&bar);
	for (i = 0; i < ITERS && !EXPIRED (i); i++) if (p_atomic_int_dec_and_test (&X)) t++;
	pthread_mutex_lock (&agg);
	true_count += t;
	done_iters += i;
	pthread_mutex_unlock (&agg);
	return NULL;
}

/* reference-count pattern: the word oscillates around 0 and 1, where a dec_and_test may be tempted to take a short cut.
 * Every thread does inc then dec_and_test; dec_and_test may say TRUE only when the word really became 0, the word is
 * never negative, and at the end it is 0 again. */
static long incdec_neg, incdec_true;
static void *w_incdec (void *a) {
	int i;
	long neg = 0, t = 0;
	(void) a;
	pthread_barrier_wait (&bar);
	for (i = 0; i < ITERS && !EXPIRED (i); i++) {
		p_atomic_int_inc (&X);
		if (p_atomic_int_dec_and_test (&X)) t++;
		if ((i & 7) == 0 && p_atomic_int_get (&X) < 0) neg++;
	}
	pthread_mutex_lock (&agg);
	incdec_neg += neg; incdec_true += t;
	pthread_mutex_unlock (&agg);
	add_done (i);
	return NULL;
}

static void *w_casinc (void *a) {
	int i;
	(void) a;
	pthread_barrier_wait (&bar);
	for (i = 0; i < ITERS && !EXPIRED (i); i++) {
		pint old;
		do { old = p_atomic_int_get (&X); } while (!p_atomic_int_compare_and_exchange (&X, old, old + 1));
	}
	add_done (i);
	return NULL;
}

/* message passing */
static long data;			/* plain */
static volatile pint flag, ack;
static long stale;

static void *mp_consumer (void *a) {
	int r;
	(void) a;
	for (r = 1; r <= ITERS; r++) {
		pint f;
		while ((f = p_atomic_int_get (&flag)) != r && f != -1) ;
		if (f == -1) break;			/* the producer stopped at the deadline */
		if (data != r) stale++;
		p_atomic_int_set (&ack, r);
	}
	return NULL;
}

/* store buffering */
typedef struct { volatile pint x; char p1[60]; volatile pint y; char p2[60]; ppointer px; char p3[56]; ppointer py; char p4[56]; } SBCell;
static SBCell *sbc;
static int *sb_ra, *sb_rb, *sb_pa, *sb_pb;
static volatile int sb_gate[2];
static volatile int sb_stop, sb_rounds;
/* harness-level rendezvous every 32 rounds keeps the two threads overlapping; thread 0 decides there whether the
   deadline has passed (published before its gate value, so both stop at the same round).  Returns 1 = stop. */
static int sb_sync (int me, int r) {
	if (r % 32) return 0;
	if (me == 0 && now_s () > deadline) { sb_rounds = r; __atomic_store_n (&sb_stop, 1, __ATOMIC_SEQ_CST); }
	__atomic_store_n (&sb_gate[me], r + 1, __ATOMIC_SEQ_CST);
	if (me == 0 && sb_stop) return 1;
	while (__atomic_load_n (&sb_gate[1 - me], __ATOMIC_SEQ_CST) < r + 1) ;
	return __atomic_load_n (&sb_stop, __ATOMIC_SEQ_CST);
}
static void *sb_a (void *a) {
	int r; (void) a;
	for (r = 0; r < ITERS; r++) {
		if (sb_sync (0, r)) break;
		p_atomic_int_set (&sbc[r].x, 1);
		sb_ra[r] = p_atomic_int_get (&sbc[r].y);
		p_atomic_pointer_set (&sbc[r].px, (ppointer) &sbc[r]);
		sb_pa[r] = p_atomic_pointer_get (&sbc[r].py) != NULL;
	}
	return NULL;
}
static void *sb_b (void *a) {
	int r; (void) a;
	for (r = 0; r < ITERS; r++) {
		if (sb_sync (1, r)) break;
		p_atomic_int_set (&sbc[r].y, 1);
		sb_rb[r] = p_atomic_int_get (&sbc[r].x);
		p_atomic_pointer_set (&sbc[r].py, (ppointer) &sbc[r]);
		sb_pb[r] = p_atomic_pointer_get (&sbc[r].px) != NULL;
	}
	return NULL;
}

/* ---- trynb: "trylock never blocks".  Thread 0 (holder) takes the lock and keeps it until the pollers' count of RETURNED
 * trylock calls has advanced by 2 per poller — which the property guarantees without any timing assumption; if the count
 * stalls for 6 s while a poller is inside a trylock call, that call is blocked on a held lock.  Then the holder unlocks
 * (the stuck call returns) and the run goes on.  Works for the spinlock (lock kind 0) and the mutex (kind 1). */
static int nb_kind;
static volatile long nb_returned;      /* trylock calls that returned, all pollers (harness atomics) */
static volatile int nb_inside;         /* pollers currently inside a trylock call */
static volatile int nb_stop;
static long nb_blocked, nb_cycles, nb_both;
static volatile int nb_held;

static void *w_trynb (void *a) {
	int me = (int) (intptr_t) a;
	pthread_barrier_wait (&bar);
	if (me == 0) {
		long c;
		for (c = 0; c < ITERS && now_s () < deadline; c++) {
			if (nb_kind) p_mutex_lock (MX); else p_spinlock_lock (SL);
			__atomic_store_n (&nb_held, 1, __ATOMIC_SEQ_CST);
			long start = __atomic_load_n (&nb_returned, __ATOMIC_SEQ_CST);
			double t0 = now_s ();
			while (__atomic_load_n (&nb_returned, __ATOMIC_SEQ_CST) < start + 2 * (N - 1)) {
				if (now_s () - t0 > 6.0) { if (__atomic_load_n (&nb_inside, __ATOMIC_SEQ_CST) > 0) nb_blocked++; break; }
			}
			__atomic_store_n (&nb_held, 0, __ATOMIC_SEQ_CST);
			if (nb_kind) p_mutex_unlock (MX); else p_spinlock_unlock (SL);
			if (nb_blocked) break;
			/* leave the lock free for a moment so that pollers also succeed (and race with the next acquisition) */
			for (volatile int k = 0; k < 200 + (int) (c % 7) * 100; k++) ;
		}
		nb_cycles = c;
		__atomic_store_n (&nb_stop, 1, __ATOMIC_SEQ_CST);
	} else {
		while (!__atomic_load_n (&nb_stop, __ATOMIC_SEQ_CST)) {
			__atomic_fetch_add (&nb_inside, 1, __ATOMIC_SEQ_CST);
			pboolean got = nb_kind ? p_mutex_trylock (MX) : p_spinlock_trylock (SL);
			__atomic_fetch_sub (&nb_inside, 1, __ATOMIC_SEQ_CST);
			if (got) {
				if (__atomic_load_n (&nb_held, __ATOMIC_SEQ_CST)) { pthread_mutex_lock (&agg); nb_both++; pthread_mutex_unlock (&agg); }
				if (nb_kind) p_mutex_unlock (MX); else p_spinlock_unlock (SL);
			}
			__atomic_fetch_add (&nb_returned, 1, __ATOMIC_SEQ_CST);
		}
	}
	return NULL;
}

static void run_threads (void *(*f) (void *)) {
	pthread_t *th = malloc (sizeof (pthread_t) * (size_t) N);
	int i;
	pthread_barrier_init (&bar, NULL, (unsigned) N);
	for (i = 0; i < N; i++) pthread_create (&th[i], NULL, f, (void *) (intptr_t) i);
	for (i = 0; i < N; i++) pthread_join (th[i], NULL);
	free (th);
}

int main (int argc, char **argv) {
	const char *mode;
	if (argc < 3) { fprintf (stderr, "usage: stress MODE N [ITERS]\n"); return 2; }
	mode = argv[1];
	N = atoi (argv[2]);
	ITERS = argc > 3 ? atoi (argv[3]) : N;
	p_mem_init ();
	p_atomic_thread_init ();
	deadline = now_s () + (getenv ("STRESS_MAX_MS") ? atof (getenv ("STRESS_MAX_MS")) : 20000.0) / 1000.0;
	if (!strcmp (mode, "trynb") || !strcmp (mode, "mtrynb")) {
		nb_kind = mode[0] == 'm';
		if (nb_kind) MX = p_mutex_new (); else SL = p_spinlock_new ();
		run_threads (w_trynb);
		printf ("trynb blocked %ld both %ld cycles %ld\n", nb_blocked, nb_both, nb_cycles);
	} else if (!strcmp (mode, "counter")) {
		SL = p_spinlock_new ();
		run_threads (w_counter);
		printf ("counter %ld expected %ld\n", counter, done_iters);
	} else if (!strcmp (mode, "hcounter")) {
		SL = p_spinlock_new ();
		run_threads (w_hcounter);
		printf ("counter %ld expected %ld overlaps %ld\n", counter, done_iters, overlaps);
	} else if (!strcmp (mode, "twolocks")) {
		SA = p_spinlock_new (); SB = p_spinlock_new ();
		run_threads (w_twolocks);
		printf ("twolocks a %ld b %ld expected %ld %ld\n", ca, cb, 2 * done_iters, 2 * done_iters);
	} else if (!strcmp (mode, "mtwolocks")) {
		MA = p_mutex_new (); MB = p_mutex_new ();
		run_threads (w_mtwolocks);
		printf ("twolocks a %ld b %ld expected %ld %ld\n", ca, cb, 2 * done_iters, 2 * done_iters);
	} else if (!strcmp (mode, "mcounter")) {
		MX = p_mutex_new ();
		run_threads (w_mcounter);
		printf ("counter %ld expected %ld\n", counter, done_iters);
	} else if (!strcmp (mode, "ticket")) {
		seen = calloc ((size_t) N * (size_t) ITERS, 1);
		run_threads (w_ticket);
		printf ("ticket dup %ld final %d expected %ld\n", dup_count, (int) p_atomic_int_get (&X), done_iters);
	} else if (!strcmp (mode, "pticket")) {
		seen = calloc ((size_t) N * (size_t) ITERS, 1);
		pt_start = PT_BASE - (psize) ((long) N * ITERS / 3);
		p_atomic_pointer_set (&PX, (ppointer) pt_start);
		run_threads (w_pticket);
		printf ("ticket dup %ld final %llu expected %llu\n", dup_count, (unsigned long long) (psize) p_atomic_pointer_get (&PX),
			(unsigned long long) (pt_start + (psize) done_iters));
	} else if (!strcmp (mode, "mix")) {
		psize p0 = PT_BASE - (psize) ((long) N * ITERS / 4), pe;
		puint ie;
		p_atomic_pointer_set (&MP, (ppointer) p0);
		run_threads (w_mix);
		ie = (puint) mix_incs | ((mix_xors & 1) ? 0x80000000u : 0) | (mix_ors ? 0x40000000u : 0);
		pe = (p0 + (psize) mix_incs) | ((mix_xors & 1) ? (psize) 1 << 63 : 0) | (mix_ors ? (psize) 1 << 62 : 0);
		printf ("mix int %u %u ptr %llu %llu\n", (puint) p_atomic_int_get (&MI), ie,
			(unsigned long long) (psize) p_atomic_pointer_get (&MP), (unsigned long long) pe);
	} else if (!strcmp (mode, "dectest")) {
		long rest;
		p_atomic_int_set (&X, N * ITERS);
		run_threads (w_dectest);
		/* the deadline may have stopped the workers early: the remaining decrements are done here */
		for (rest = (long) N * ITERS - done_iters; rest > 0; rest--) if (p_atomic_int_dec_and_test (&X)) true_count++;
		printf ("dectest true %ld final %d\n", true_count, (int) p_atomic_int_get (&X));
	} else if (!strcmp (mode, "incdec")) {
		p_atomic_int_set (&X, 0);
		run_threads (w_incdec);
		printf ("incdec negative_seen %ld final %d true %ld pairs %ld\n", incdec_neg, (int) p_atomic_int_get (&X), incdec_true, done_iters);
	} else if (!strcmp (mode, "casinc")) {
		run_threads (w_casinc);
		printf ("casinc final %d expected %ld\n", (int) p_atomic_int_get (&X), done_iters);
	} else if (!strcmp (mode, "sb")) {
		pthread_t ta, tb;
		long fi = 0, fp = 0;
		int r;
		ITERS = N;
		sbc = calloc ((size_t) ITERS, sizeof (SBCell));
		sb_ra = calloc ((size_t) ITERS, sizeof (int)); sb_rb = calloc ((size_t) ITERS, sizeof (int));
		sb_pa = calloc ((size_t) ITERS, sizeof (int)); sb_pb = calloc ((size_t) ITERS, sizeof (int));
		pthread_create (&ta, NULL, sb_a, NULL);
		pthread_create (&tb, NULL, sb_b, NULL);
		pthread_join (ta, NULL); pthread_join (tb, NULL);
		if (sb_stop) ITERS = sb_rounds;		/* rounds both threads completed */
		for (r = 0; r < ITERS; r++) { if (!sb_ra[r] && !sb_rb[r]) fi++; if (!sb_pa[r] && !sb_pb[r]) fp++; }
		printf ("sb forbidden_int %ld forbidden_ptr %ld rounds %d\n", fi, fp, ITERS);
	} else if (!strcmp (mode, "mp")) {
		pthread_t c;
		int r;
		ITERS = N;
		pthread_create (&c, NULL, mp_consumer, NULL);
		for (r = 1; r <= ITERS && !EXPIRED (r); r++) {
			data = r;
			p_atomic_int_set (&flag, r);
			while (p_atomic_int_get (&ack) != r) ;
		}
		if (r <= ITERS) p_atomic_int_set (&flag, -1);
		pthread_join (c, NULL);
		printf ("mp stale %ld rounds %d\n", stale, r - 1);
	} else { fprintf (stderr, "unknown mode\n"); return 2; }
	return 0;
}

/* Real-thread supporting runs for C01 / C04 (NOT proofs: they are the failing-input search and a sanity
 * check of the trusted hardware / pthread contracts).  Linked with the atomic + spinlock back-end of ONE
 * variant (c11 | sync | sim) and pmutex-posix.c, normally compiled by clang-14 with -fsanitize=thread.
 *
 *   stress counter  N ITERS   N threads: lock (every 3rd acquisition by spinning on trylock), plain
 *                             `counter++`, unlock on a PSpinLock          -> "counter <v> expected <N*ITERS>"
 *   stress mcounter N ITERS   the same on a PMutex
 *   stress ticket   N ITERS   p_atomic_int_add (&x, 1) from N threads     -> "ticket dup <d> final <v> expected <..>"
 *   stress dectest  N ITERS   x = N*ITERS, every thread decrements ITERS times -> "dectest true <k> final <v>"
 *   stress casinc   N ITERS   increment by compare-and-exchange loop      -> "casinc final <v> expected <..>"
 *   stress sb       ROUNDS    store buffering (Dekker): A: set(x,1); r1=get(y)   B: set(y,1); r2=get(x)   on fresh words,
 *                             int and pointer flavour; r1 == r2 == 0 is forbidden when set/get are full barriers
 *                                                                         -> "sb forbidden_int <k> forbidden_ptr <k> rounds <ROUNDS>"
 *   stress mp       ROUNDS    message passing: plain data, flag by p_atomic_int_set / _get
 *                                                                         -> "mp stale <k> rounds <ROUNDS>"
 * Exit status 0; oracles are evaluated by tools/props/c0{1,4}.py (and ThreadSanitizer's report). */
#include <patomic.h>
#include <pmutex.h>
#include <pspinlock.h>
#include <pmem.h>
#include <stdio.h>
#include <stdlib.h>
#include <string.h>
#include <pthread.h>

extern void p_mem_init (void);
extern void p_atomic_thread_init (void);

static int N, ITERS;
static PSpinLock *SL;
static PMutex *MX;
static long counter;			/* plain, protected only by the lock under test */
static volatile pint X;
static unsigned char *seen;
static long dup_count, true_count;
static pthread_mutex_t agg = PTHREAD_MUTEX_INITIALIZER;
static pthread_barrier_t bar;

static void *w_counter (void *a) {
	int i;
	(void) a;
	pthread_barrier_wait (&bar);
	for (i = 0; i < ITERS; i++) {
		if (i % 3 == 2) { while (p_spinlock_trylock (SL) == FALSE) ; }
		else p_spinlock_lock (SL);
		counter++;
		p_spinlock_unlock (SL);
	}
	return NULL;
}

static void *w_mcounter (void *a) {
	int i;
	(void) a;
	pthread_barrier_wait (&bar);
	for (i = 0; i < ITERS; i++) {
		if (i % 3 == 2) { while (p_mutex_trylock (MX) == FALSE) ; }
		else p_mutex_lock (MX);
		counter++;
		p_mutex_unlock (MX);
	}
	return NULL;
}

static void *w_ticket (void *a) {
	int i;
	long d = 0;
	unsigned *got = malloc (sizeof (unsigned) * (size_t) ITERS);
	(void) a;
	pthread_barrier_wait (&bar);
	for (i = 0; i < ITERS; i++) got[i] = (unsigned) p_atomic_int_add (&X, 1);
	pthread_mutex_lock (&agg);
	for (i = 0; i < ITERS; i++) {
		if (got[i] >= (unsigned) (N * ITERS) || seen[got[i]]) d++;
		else seen[got[i]] = 1;
	}
	dup_count += d;
	pthread_mutex_unlock (&agg);
	free (got);
	return NULL;
}

static void *w_dectest (void *a) {
	int i;
	long t = 0;
	(void) a;
	pthread_barrier_wait (&bar);
	for (i = 0; i < ITERS; i++) if (p_atomic_int_dec_and_test (&X)) t++;
	pthread_mutex_lock (&agg);
	true_count += t;
	pthread_mutex_unlock (&agg);
	return NULL;
}

static void *w_casinc (void *a) {
	int i;
	(void) a;
	pthread_barrier_wait (&bar);
	for (i = 0; i < ITERS; i++) {
		pint old;
		do { old = p_atomic_int_get (&X); } while (!p_atomic_int_compare_and_exchange (&X, old, old + 1));
	}
	return NULL;
}

/* message passing */
static long data;			/* plain */
static volatile pint flag, ack;
static long stale;

static void *mp_consumer (void *a) {
	int r;
	(void) a;
	for (r = 1; r <= ITERS; r++) {
		while (p_atomic_int_get (&flag) != r) ;
		if (data != r) stale++;
		p_atomic_int_set (&ack, r);
	}
	return NULL;
}

/* store buffering */
typedef struct { volatile pint x; char p1[60]; volatile pint y; char p2[60]; ppointer px; char p3[56]; ppointer py; char p4[56]; } SBCell;
static SBCell *sbc;
static int *sb_ra, *sb_rb, *sb_pa, *sb_pb;
static volatile int sb_gate[2];
static void sb_sync (int me, int r) {      /* harness-level rendezvous every 32 rounds keeps the two threads overlapping */
	if (r % 32) return;
	__atomic_store_n (&sb_gate[me], r + 1, __ATOMIC_SEQ_CST);
	while (__atomic_load_n (&sb_gate[1 - me], __ATOMIC_SEQ_CST) < r + 1) ;
}
static void *sb_a (void *a) {
	int r; (void) a;
	for (r = 0; r < ITERS; r++) {
		sb_sync (0, r);
		p_atomic_int_set (&sbc[r].x, 1);
		sb_ra[r] = p_atomic_int_get (&sbc[r].y);
		p_atomic_pointer_set (&sbc[r].px, (ppointer) &sbc[r]);
		sb_pa[r] = p_atomic_pointer_get (&sbc[r].py) != NULL;
	}
	return NULL;
}
static void *sb_b (void *a) {
	int r; (void) a;
	for (r = 0; r < ITERS; r++) {
		sb_sync (1, r);
		p_atomic_int_set (&sbc[r].y, 1);
		sb_rb[r] = p_atomic_int_get (&sbc[r].x);
		p_atomic_pointer_set (&sbc[r].py, (ppointer) &sbc[r]);
		sb_pb[r] = p_atomic_pointer_get (&sbc[r].px) != NULL;
	}
	return NULL;
}

static void run_threads (void *(*f) (void *)) {
	pthread_t *th = malloc (sizeof (pthread_t) * (size_t) N);
	int i;
	pthread_barrier_init (&bar, NULL, (unsigned) N);
	for (i = 0; i < N; i++) pthread_create (&th[i], NULL, f, NULL);
	for (i = 0; i < N; i++) pthread_join (th[i], NULL);
	free (th);
}

int main (int argc, char **argv) {
	const char *mode;
	if (argc < 3) { fprintf (stderr, "usage: stress MODE N [ITERS]\n"); return 2; }
	mode = argv[1];
	N = atoi (argv[2]);
	ITERS = argc > 3 ? atoi (argv[3]) : N;
	p_mem_init ();
	p_atomic_thread_init ();
	if (!strcmp (mode, "counter")) {
		SL = p_spinlock_new ();
		run_threads (w_counter);
		printf ("counter %ld expected %ld\n", counter, (long) N * ITERS);
	} else if (!strcmp (mode, "mcounter")) {
		MX = p_mutex_new ();
		run_threads (w_mcounter);
		printf ("counter %ld expected %ld\n", counter, (long) N * ITERS);
	} else if (!strcmp (mode, "ticket")) {
		seen = calloc ((size_t) N * (size_t) ITERS, 1);
		run_threads (w_ticket);
		printf ("ticket dup %ld final %d expected %d\n", dup_count, (int) p_atomic_int_get (&X), N * ITERS);
	} else if (!strcmp (mode, "dectest")) {
		p_atomic_int_set (&X, N * ITERS);
		run_threads (w_dectest);
		printf ("dectest true %ld final %d\n", true_count, (int) p_atomic_int_get (&X));
	} else if (!strcmp (mode, "casinc")) {
		run_threads (w_casinc);
		printf ("casinc final %d expected %d\n", (int) p_atomic_int_get (&X), N * ITERS);
	} else if (!strcmp (mode, "sb")) {
		pthread_t ta, tb;
		long fi = 0, fp = 0;
		int r;
		ITERS = N;
		sbc = calloc ((size_t) ITERS, sizeof (SBCell));
		sb_ra = calloc ((size_t) ITERS, sizeof (int)); sb_rb = calloc ((size_t) ITERS, sizeof (int));
		sb_pa = calloc ((size_t) ITERS, sizeof (int)); sb_pb = calloc ((size_t) ITERS, sizeof (int));
		pthread_create (&ta, NULL, sb_a, NULL);
		pthread_create (&tb, NULL, sb_b, NULL);
		pthread_join (ta, NULL); pthread_join (tb, NULL);
		for (r = 0; r < ITERS; r++) { if (!sb_ra[r] && !sb_rb[r]) fi++; if (!sb_pa[r] && !sb_pb[r]) fp++; }
		printf ("sb forbidden_int %ld forbidden_ptr %ld rounds %d\n", fi, fp, ITERS);
	} else if (!strcmp (mode, "mp")) {
		pthread_t c;
		int r;
		ITERS = N;
		pthread_create (&c, NULL, mp_consumer, NULL);
		for (r = 1; r <= ITERS; r++) {
			data = r;
			p_atomic_int_set (&flag, r);
			while (p_atomic_int_get (&ack) != r) ;
		}
		pthread_join (c, NULL);
		printf ("mp stale %ld rounds %d\n", stale, ITERS);
	} else { fprintf (stderr, "unknown mode\n"); return 2; }
	return 0;
}

/* C16 harness: assembles a file from hex pieces, parses it with the real PIniFile and prints a canonical
 * dump on one line (protocol: see lean/PV/Driver/Ini.lean).  Built from /repo/src of the working tree with
 * ASan+UBSan (abort on first report): any sanitizer report is a violation of the property.
 *
 * The dump doubles as a direct oracle of the "consistent object" part of the property: the first token is
 * `ok` only if every listed section has a key list, and every listed key exists and has a string value. */
#include <plibsys.h>
#include <stdio.h>
#include <sys/wait.h>
#include <sys/stat.h>
#include <stdlib.h>
#include <string.h>
#include <stdint.h>
#include <errno.h>
#include <limits.h>
#include <unistd.h>
#include <fcntl.h>

static unsigned char *data = NULL;
static size_t data_len = 0, data_cap = 0;
static char dir_tmpl[] = "/tmp/pv-ini-XXXXXX";
static char path[64];

static int hexval (int c) {
	if (c >= '0' && c <= '9') return c - '0';
	if (c >= 'a' && c <= 'f') return c - 'a' + 10;
	if (c >= 'A' && c <= 'F') return c - 'A' + 10;
	return -1;
}

/* append the bytes of a hex token ("-" = nothing); 0 on success */
static int append_hex (const char *h) {
	size_t n = strlen (h);
	if (strcmp (h, "-") == 0) return 0;
	if (n % 2) return -1;
	if (data_len + n / 2 + 1 > data_cap) {
		data_cap = (data_len + n / 2 + 1) * 2;
		data = realloc (data, data_cap);
	}
	for (size_t i = 0; i < n; i += 2) {
		int a = hexval (h[i]), b = hexval (h[i + 1]);
		if (a < 0 || b < 0) return -1;
		data[data_len++] = (unsigned char) (a * 16 + b);
	}
	return 0;
}

static void put_hex (const char *s) {
	if (s == NULL) { fputs ("NULL", stdout); return; }
	if (*s == '\0') { putchar ('-'); return; }
	for (; *s; ++s) printf ("%02x", (unsigned char) *s);
}

static int consistent = 1;

/* every getter for one (section, key) with fixed defaults */
static void getters (PIniFile *ini, const char *sec, const char *key) {
	char *s = p_ini_file_parameter_string (ini, sec, key, "dflt");
	fputs (" s=", stdout); put_hex (s);

	/* atoi is undefined when the value does not fit an int: decide that with strtol on the raw value */
	char *raw = p_ini_file_parameter_string (ini, sec, key, NULL);
	int ovf = 0;
	if (raw != NULL) {
		errno = 0;
		long v = strtol (raw, NULL, 10);
		if (errno == ERANGE || v > INT_MAX || v < INT_MIN) ovf = 1;
	}
	int i = p_ini_file_parameter_int (ini, sec, key, -7);
	if (ovf) fputs (" i=ovf", stdout); else printf (" i=%d", i);

	pboolean b = p_ini_file_parameter_boolean (ini, sec, key, TRUE);
	int bool_word = raw != NULL && (!strcmp (raw, "true") || !strcmp (raw, "TRUE") || !strcmp (raw, "false") || !strcmp (raw, "FALSE"));
	if (ovf && !bool_word) fputs (" b=ovf", stdout); else printf (" b=%d", b ? 1 : 0);

	PList *l = p_ini_file_parameter_list (ini, sec, key);
	fputs (" l=", stdout);
	if (l == NULL) putchar ('-');
	for (PList *c = l; c != NULL; c = c->next) {
		if (c != l) putchar (',');
		put_hex ((const char *) c->data);
		p_free (c->data);
	}
	p_list_free (l);

	double d = p_ini_file_parameter_double (ini, sec, key, 2.5);
	uint64_t bits;
	memcpy (&bits, &d, sizeof bits);
	printf (" d=%016llx", (unsigned long long) bits);

	printf (" e=%d", p_ini_file_is_key_exists (ini, sec, key) ? 1 : 0);
	p_free (s);
	p_free (raw);
}


/* ---- arguments that may be NULL: `NULL`, `-` (empty string) or hex; a hex string is cut at its first NUL by C itself ---- */
static char *arg_str (const char *tok, int *ok) {
	*ok = 1;
	if (strcmp (tok, "NULL") == 0) return NULL;
	size_t n = strcmp (tok, "-") == 0 ? 0 : strlen (tok);
	if (n % 2) { *ok = 0; return NULL; }
	char *r = malloc (n / 2 + 1);
	for (size_t i = 0; i < n; i += 2) {
		int a = hexval (tok[i]), b = hexval (tok[i + 1]);
		if (a < 0 || b < 0) { *ok = 0; free (r); return NULL; }
		r[i / 2] = (char) (a * 16 + b);
	}
	r[n / 2] = '\0';
	return r;
}

static void put_str (const char *s) { put_hex (s); }

static int write_file (void) {
	FILE *f = fopen (path, "wb");
	if (f == NULL || (data_len > 0 && fwrite (data, 1, data_len, f) != data_len) || fclose (f) != 0) return -1;
	return 0;
}

static size_t list_len_free (PList *l) {
	size_t n = 0;
	for (PList *c = l; c != NULL; c = c->next) { ++n; p_free (c->data); }
	p_list_free (l);
	return n;
}

/* number of entries / of distinct entries of a list of strings; frees it */
static void put_counts_free (PList *l) {
	size_t n = 0, d = 0;
	for (PList *c = l; c != NULL; c = c->next) {
		int seen = 0;
		for (PList *b = l; b != c && !seen; b = b->next) seen = strcmp ((const char *) b->data, (const char *) c->data) == 0;
		++n; d += !seen;
	}
	printf ("%zu/%zu", n, d);
	for (PList *c = l; c != NULL; c = c->next) p_free (c->data);
	p_list_free (l);
}

/* all getters with caller-chosen arguments (any of ini / sec / key / sdef may be NULL) */
static void getters_with (PIniFile *ini, const char *sec, const char *key, const char *sdef, int idef, int bdef, double ddef) {
	char *s = p_ini_file_parameter_string (ini, sec, key, sdef);
	fputs ("s=", stdout); put_str (s);
	char *raw = p_ini_file_parameter_string (ini, sec, key, NULL);
	int ovf = 0;
	if (raw != NULL) {
		errno = 0;
		long v = strtol (raw, NULL, 10);
		if (errno == ERANGE || v > INT_MAX || v < INT_MIN) ovf = 1;
	}
	int i = p_ini_file_parameter_int (ini, sec, key, idef);
	if (ovf) fputs (" i=ovf", stdout); else printf (" i=%d", i);
	pboolean b = p_ini_file_parameter_boolean (ini, sec, key, bdef ? TRUE : FALSE);
	int bool_word = raw != NULL && (!strcmp (raw, "true") || !strcmp (raw, "TRUE") || !strcmp (raw, "false") || !strcmp (raw, "FALSE"));
	if (ovf && !bool_word) fputs (" b=ovf", stdout); else printf (" b=%d", b ? 1 : 0);
	PList *l = p_ini_file_parameter_list (ini, sec, key);
	fputs (" l=", stdout);
	if (l == NULL) putchar ('-');
	for (PList *c = l; c != NULL; c = c->next) {
		if (c != l) putchar (',');
		put_hex ((const char *) c->data);
		p_free (c->data);
	}
	p_list_free (l);
	double d = p_ini_file_parameter_double (ini, sec, key, ddef);
	uint64_t bits;
	memcpy (&bits, &d, sizeof bits);
	/* a NaN is printed as `nan` (the model's Float does not keep NaN payloads) */
	if (d != d) fputs (" d=nan", stdout); else printf (" d=%016llx", (unsigned long long) bits);
	printf (" e=%d", p_ini_file_is_key_exists (ini, sec, key) ? 1 : 0);
	fputs (" n=", stdout); put_counts_free (p_ini_file_keys (ini, sec));
	p_free (s);
	p_free (raw);
}

/* get SEC KEY SDEF IDEF BDEF DDEFBITS: the current file parsed afresh, every getter with these arguments */
static void do_get (char **t) {
	int ok1, ok2, ok3;
	char *sec = arg_str (t[1], &ok1), *key = arg_str (t[2], &ok2), *sdef = arg_str (t[3], &ok3);
	char *e1, *e2, *e3;
	long idef = strtol (t[4], &e1, 10);
	long bdef = strtol (t[5], &e2, 10);
	unsigned long long dbits = strtoull (t[6], &e3, 16);
	if (!ok1 || !ok2 || !ok3 || *e1 || *e2 || *e3 || strlen (t[6]) != 16 || (bdef != 0 && bdef != 1) || idef > INT_MAX || idef < INT_MIN) {
		puts ("bad-op");
	} else if (write_file () != 0) {
		puts ("io-error");
	} else {
		PIniFile *ini = p_ini_file_new (path);
		if (ini == NULL || !p_ini_file_parse (ini, NULL)) puts ("parse-failed");
		else {
			double ddef;
			uint64_t bb = dbits;
			memcpy (&ddef, &bb, sizeof ddef);
			getters_with (ini, sec, key, sdef, (int) idef, (int) bdef, ddef);
			putchar ('\n');
		}
		p_ini_file_free (ini);
	}
	free (sec); free (key); free (sdef);
}

static const char *err_name (PError *e) {
	static char buf[32];
	if (e == NULL) return "none";
	int c = p_error_get_code (e);
	if (c == (int) P_ERROR_IO_INVALID_ARGUMENT) return "invalid";
	if (c == (int) P_ERROR_IO_NOT_EXISTS) return "notexists";
	snprintf (buf, sizeof buf, "other%d", c);
	return buf;
}

/* the class of an error as the model knows it (which code a failed open maps to is perror.c's business) */
static const char *err_class (PError *e) {
	if (e == NULL) return "none";
	int c = p_error_get_code (e);
	if (c == (int) P_ERROR_IO_INVALID_ARGUMENT) return "invalid";
	if (c == (int) P_ERROR_IO_NOT_EXISTS) return "notexists";
	return "other";
}

static size_t total_keys (PIniFile *ini, size_t *nsec) {
	size_t n = 0;
	PList *secs = p_ini_file_sections (ini);
	*nsec = 0;
	for (PList *s = secs; s != NULL; s = s->next) {
		++*nsec;
		n += list_len_free (p_ini_file_keys (ini, (const char *) s->data));
		p_free (s->data);
	}
	p_list_free (secs);
	return n;
}

/* life SEC KEY: the life cycle of the object around the current file
 *   U  unparsed object, N  NULL object, P  after the first parse, Q  after the second parse (file rewritten
 *   with different content in between), M  object for a path that does not exist (two parse attempts) */
static void do_life (char **t) {
	int ok1, ok2;
	char *sec = arg_str (t[1], &ok1), *key = arg_str (t[2], &ok2);
	if (!ok1 || !ok2) { puts ("bad-op"); free (sec); free (key); return; }
	if (write_file () != 0) { puts ("io-error"); free (sec); free (key); return; }
	size_t ns, nk;
	double dd = -0.0;
	printf ("new0=%d", p_ini_file_new (NULL) == NULL ? 1 : 0);
	PIniFile *ini = p_ini_file_new (path);
	if (ini == NULL) { puts (" new-failed"); free (sec); free (key); return; }
	printf (" U p=%d", p_ini_file_is_parsed (ini) ? 1 : 0);
	nk = total_keys (ini, &ns);
	printf (" S=%zu K=%zu ", ns, nk);
	getters_with (ini, sec, key, "u", 0, 0, dd);
	fputs (" N p=", stdout);
	printf ("%d", p_ini_file_is_parsed (NULL) ? 1 : 0);
	nk = total_keys (NULL, &ns);
	printf (" S=%zu K=%zu ", ns, nk);
	getters_with (NULL, sec, key, NULL, INT_MIN, 1, 1.0 / 3.0);
	PError *err = NULL;
	pboolean r = p_ini_file_parse (NULL, &err);
	printf (" r=%d err=%s", r ? 1 : 0, err_name (err));
	p_error_free (err);
	p_ini_file_free (NULL);
	err = NULL;
	r = p_ini_file_parse (ini, &err);
	printf (" P r=%d err=%s p=%d", r ? 1 : 0, err_name (err), p_ini_file_is_parsed (ini) ? 1 : 0);
	p_error_free (err);
	nk = total_keys (ini, &ns);
	printf (" S=%zu K=%zu ", ns, nk);
	getters_with (ini, sec, key, "", INT_MAX, 0, dd);
	/* the file changes on disk: an object that is already parsed keeps what it read */
	FILE *f = fopen (path, "wb");
	if (f != NULL) { fputs ("[zz]\nzk=zv\n[zy]\nzk=1\n", f); fclose (f); }
	err = NULL;
	r = p_ini_file_parse (ini, &err);
	printf (" Q r=%d err=%s p=%d", r ? 1 : 0, err_name (err), p_ini_file_is_parsed (ini) ? 1 : 0);
	p_error_free (err);
	nk = total_keys (ini, &ns);
	printf (" S=%zu K=%zu ", ns, nk);
	getters_with (ini, sec, key, "", INT_MAX, 0, dd);
	p_ini_file_free (ini);
	/* a path that does not exist */
	char missing[96];
	snprintf (missing, sizeof missing, "%s/missing.ini", dir_tmpl);
	ini = p_ini_file_new (missing);
	if (ini == NULL) { puts (" new-failed"); free (sec); free (key); return; }
	for (int k = 0; k < 2; ++k) {
		err = NULL;
		r = p_ini_file_parse (ini, &err);
		printf (" M r=%d err=%s p=%d", r ? 1 : 0, err_name (err), p_ini_file_is_parsed (ini) ? 1 : 0);
		p_error_free (err);
	}
	nk = total_keys (ini, &ns);
	printf (" S=%zu K=%zu ", ns, nk);
	getters_with (ini, sec, key, "m", -1, 1, 2.5);
	p_ini_file_free (ini);
	putchar ('\n');
	free (sec); free (key);
}

/* ---- a failing fclose (linked with -Wl,--wrap=fclose): the real call is always made, its result is scripted ---- */
static int fclose_fail_armed = 0, fclose_calls = 0;
int __real_fclose (FILE *f);
int __wrap_fclose (FILE *f) {
	int r = __real_fclose (f);
	++fclose_calls;
	if (fclose_fail_armed) { fclose_fail_armed = 0; errno = EIO; return EOF; }
	return r;
}

/* P_WARNING prints on stdout: what the library prints during one call is captured in a scratch file (so that the answer
 * line stays one line) and the number of warning lines is reported as `w=` */
static char cap_path[64];
static int capture_begin (void) {
	fflush (stdout);
	int save = dup (1);
	int fd = open (cap_path, O_WRONLY | O_CREAT | O_TRUNC, 0600);
	if (save < 0 || fd < 0) { perror ("capture"); exit (3); }
	dup2 (fd, 1);
	close (fd);
	return save;
}
static int capture_end (int save) {
	static char buf[4096];
	fflush (stdout);
	dup2 (save, 1);
	close (save);
	int fd = open (cap_path, O_RDONLY), w = 0;
	if (fd < 0) return -1;
	ssize_t n = read (fd, buf, sizeof buf - 1);
	close (fd);
	unlink (cap_path);
	if (n < 0) return -1;
	buf[n] = 0;
	for (const char *p = buf; (p = strstr (p, "** Warning:")) != NULL; ++p) ++w;
	return w;
}

/* lifec SEC KEY: the current file parsed while the parser's fclose reports a failure (C: result, error, is_parsed,
 * number of fclose calls the parse made, content), then parsed again after the file changed on disk (Q: nothing changes);
 * X E L D: objects for paths that fopen refuses / a directory, parsed with the failure armed (fopen fails: no fclose call at all) */
static void do_lifec (char **t) {
	int ok1, ok2;
	char *sec = arg_str (t[1], &ok1), *key = arg_str (t[2], &ok2);
	if (!ok1 || !ok2) { puts ("bad-op"); free (sec); free (key); return; }
	if (write_file () != 0) { puts ("io-error"); free (sec); free (key); return; }
	size_t ns, nk;
	PIniFile *ini = p_ini_file_new (path);
	if (ini == NULL) { puts ("new-failed"); free (sec); free (key); return; }
	PError *err = NULL;
	int before = fclose_calls;
	fclose_fail_armed = 1;
	int cap = capture_begin ();
	pboolean r = p_ini_file_parse (ini, &err);
	int w = capture_end (cap);
	fclose_fail_armed = 0;
	printf ("C r=%d err=%s p=%d fc=%d w=%d", r ? 1 : 0, err_name (err), p_ini_file_is_parsed (ini) ? 1 : 0, fclose_calls - before, w);
	p_error_free (err);
	nk = total_keys (ini, &ns);
	printf (" S=%zu K=%zu ", ns, nk);
	getters_with (ini, sec, key, "c", 7, 1, 0.5);
	FILE *f = fopen (path, "wb");
	if (f != NULL) { fputs ("[zz]\nzk=zv\n[zy]\nzk=1\n", f); fclose (f); }
	err = NULL;
	before = fclose_calls;
	fclose_fail_armed = 1;
	cap = capture_begin ();
	r = p_ini_file_parse (ini, &err);
	w = capture_end (cap);
	fclose_fail_armed = 0;
	printf (" Q r=%d err=%s p=%d fc=%d w=%d", r ? 1 : 0, err_name (err), p_ini_file_is_parsed (ini) ? 1 : 0, fclose_calls - before, w);
	p_error_free (err);
	nk = total_keys (ini, &ns);
	printf (" S=%zu K=%zu ", ns, nk);
	getters_with (ini, sec, key, "c", 7, 1, 0.5);
	p_ini_file_free (ini);
	/* the other outcomes of fopen, each with the failure armed: X a file that does not exist (ENOENT), E a path through a
	 * regular file (ENOTDIR), L a name of 5000 bytes (ENAMETOOLONG), D a directory (opens; the first fgets fails: an empty file) */
	static char longname[5100];
	char other[4][96];
	snprintf (other[0], sizeof other[0], "%s/missing.ini", dir_tmpl);
	snprintf (other[1], sizeof other[1], "%s/x", path);
	snprintf (other[3], sizeof other[3], "%s", dir_tmpl);
	int k = snprintf (longname, sizeof longname, "%s/", dir_tmpl);
	memset (longname + k, 'a', 5000);
	longname[k + 5000] = '\0';
	const char *paths[4] = { other[0], other[1], longname, other[3] };
	const char *tags = "XELD";
	for (int i = 0; i < 4; ++i) {
		ini = p_ini_file_new (paths[i]);
		if (ini == NULL) { puts (" new-failed"); free (sec); free (key); return; }
		err = NULL;
		before = fclose_calls;
		fclose_fail_armed = 1;
		cap = capture_begin ();
		r = p_ini_file_parse (ini, &err);
		w = capture_end (cap);
		fclose_fail_armed = 0;
		printf (" %c r=%d err=%s p=%d fc=%d w=%d", tags[i], r ? 1 : 0, err_class (err), p_ini_file_is_parsed (ini) ? 1 : 0, fclose_calls - before, w);
		p_error_free (err);
		nk = total_keys (ini, &ns);
		printf (" S=%zu K=%zu", ns, nk);
		p_ini_file_free (ini);
	}
	putchar ('\n');
	free (sec); free (key);
}

/* ---- pstring.c entry points the INI code relies on ---- */
static void do_chomp (const char *tok) {
	int ok; char *s = arg_str (tok, &ok);
	if (!ok) { puts ("bad-op"); return; }
	char *r = p_strchomp (s);
	put_str (r); putchar ('\n');
	p_free (r); free (s);
}

static void do_strdup (const char *tok) {
	int ok; char *s = arg_str (tok, &ok);
	if (!ok) { puts ("bad-op"); return; }
	char *r = p_strdup (s);
	put_str (r);
	printf (" distinct=%d\n", (r != NULL && r != s) || (r == NULL && s == NULL) ? 1 : 0);
	p_free (r); free (s);
}

static void do_strtod (const char *tok) {
	int ok; char *s = arg_str (tok, &ok);
	if (!ok) { puts ("bad-op"); return; }
	double d = p_strtod (s);
	uint64_t bits;
	memcpy (&bits, &d, sizeof bits);
	printf ("d=%016llx\n", (unsigned long long) bits);
	free (s);
}

/* strtok STR D1 [D2 ...]: p_strtok (str, D1, &buf), then p_strtok (NULL, D2, &buf) ... (the last delimiter set repeats)
 * until NULL; a NULL delimiter set makes the call return its first argument */
static void do_strtok (char **t, int n) {
	int ok; char *s = arg_str (t[1], &ok);
	if (!ok || s == NULL) { puts ("bad-op"); free (s); return; }
	char *delims[16]; int nd = 0;
	for (int i = 2; i < n; ++i) {
		int okd; delims[nd] = arg_str (t[i], &okd);
		if (!okd) ok = 0;
		++nd;
	}
	if (!ok) puts ("bad-op");
	else {
		char *buf = NULL, *cur = s;
		fputs ("T", stdout);
		for (int call = 0; call < 4096; ++call) {
			const char *d = delims[call < nd ? call : nd - 1];
			char *tok = p_strtok (cur, d, &buf);
			if (d == NULL) {
				/* returns its first argument untouched */
				printf (" ret=%s", tok == cur ? (cur == NULL ? "NULL" : "str") : "other");
				if (call >= nd - 1) break;
				continue;
			}
			cur = NULL;
			if (tok == NULL) break;
			putchar (' '); put_str (tok);
		}
		putchar ('\n');
	}
	for (int i = 0; i < nd; ++i) free (delims[i]);
	free (s);
}

/* strtokb STR DELIM: a NULL context pointer makes p_strtok return its first argument */
static void do_strtokb (char **t) {
	int ok1, ok2; char *s = arg_str (t[1], &ok1), *d = arg_str (t[2], &ok2);
	if (!ok1 || !ok2) puts ("bad-op");
	else {
		char *r = p_strtok (s, d, NULL);
		printf ("ret=%s\n", r == s ? (s == NULL ? "NULL" : "str") : "other");
	}
	free (s); free (d);
}

/* `fifo 1`: the next parses get the same bytes through a named pipe fed by a forked writer (a path that cannot be
 * rewound or sought in): "any file content" does not depend on the kind of file it comes from */
static int via_fifo;
static void do_parse (void) {
	PIniFile *ini;
	pid_t wr = -1;
	char fpath[80];
	if (via_fifo) {
		snprintf (fpath, sizeof fpath, "%s.fifo", path);
		unlink (fpath);
		if (mkfifo (fpath, 0600) != 0) { puts ("io-error"); return; }
		fflush (stdout);
		if ((wr = fork ()) == 0) {
			int fd = open (fpath, O_WRONLY);
			size_t off = 0;
			while (fd >= 0 && off < data_len) { ssize_t w = write (fd, data + off, data_len - off); if (w <= 0) break; off += (size_t) w; }
			_exit (0);
		}
		ini = p_ini_file_new (fpath);
	} else {
		FILE *f = fopen (path, "wb");
		if (f == NULL || (data_len > 0 && fwrite (data, 1, data_len, f) != data_len) || fclose (f) != 0) {
			puts ("io-error");
			return;
		}
		ini = p_ini_file_new (path);
	}
	int parsed = ini != NULL && p_ini_file_parse (ini, NULL) && p_ini_file_is_parsed (ini);
	if (via_fifo) { int st; if (wr > 0) waitpid (wr, &st, 0); unlink (fpath); }
	if (!parsed) {
		puts ("parse-failed");
		p_ini_file_free (ini);
		return;
	}
	/* first pass: the consistency oracle; second pass: the dump */
	consistent = 1;
	PList *secs = p_ini_file_sections (ini);
	for (PList *s = secs; s != NULL; s = s->next) {
		PList *keys = p_ini_file_keys (ini, (const char *) s->data);
		if (keys == NULL) consistent = 0;
		for (PList *k = keys; k != NULL; k = k->next) {
			char *v = p_ini_file_parameter_string (ini, (const char *) s->data, (const char *) k->data, NULL);
			if (v == NULL || !p_ini_file_is_key_exists (ini, (const char *) s->data, (const char *) k->data)) consistent = 0;
			p_free (v);
			p_free (k->data);
		}
		p_list_free (keys);
	}
	fputs (consistent ? "ok" : "inconsistent", stdout);
	char *s0 = NULL, *k0 = NULL;
	for (PList *s = secs; s != NULL; s = s->next) {
		fputs (" S ", stdout); put_hex ((const char *) s->data);
		PList *keys = p_ini_file_keys (ini, (const char *) s->data);
		if (s == secs) {
			s0 = p_strdup ((const char *) s->data);
			if (keys != NULL) k0 = p_strdup ((const char *) keys->data);
		}
		for (PList *k = keys; k != NULL; k = k->next) {
			fputs (" K ", stdout); put_hex ((const char *) k->data);
			getters (ini, (const char *) s->data, (const char *) k->data);
			p_free (k->data);
		}
		p_list_free (keys);
		p_free (s->data);
	}
	p_list_free (secs);
	fputs (" P", stdout); getters (ini, s0 ? s0 : "nosec", "nokey");
	fputs (" P", stdout); getters (ini, "nosec", k0 ? k0 : "nokey");
	putchar ('\n');
	p_free (s0);
	p_free (k0);
	p_ini_file_free (ini);
}

int main (void) {
	static char line[1 << 22];
	p_libsys_init ();
	if (mkdtemp (dir_tmpl) == NULL) { perror ("mkdtemp"); return 3; }
	snprintf (path, sizeof path, "%s/f.ini", dir_tmpl);
	snprintf (cap_path, sizeof cap_path, "%s/out.cap", dir_tmpl);
	while (fgets (line, sizeof line, stdin)) {
		char *toks[18];
		int n = 0;
		for (char *t = strtok (line, " \r\n"); t != NULL && n < 18; t = strtok (NULL, " \r\n")) toks[n++] = t;
		if (n == 0) continue;
		const char *op = toks[0];
		int pieces = !strcmp (op, "raw") ? 2 : !strcmp (op, "bom") ? 3 : !strcmp (op, "blk") ? 4 : !strcmp (op, "cmt") ? 6 :
			     !strcmp (op, "hdr") ? 8 : !strcmp (op, "ent") ? 12 : 0;
		if (pieces) {
			/* the rendered bytes are the last token; the structured fields are for the model side */
			if (n == pieces && append_hex (toks[n - 1]) == 0) puts ("."); else puts ("bad-op");
		}
		else if (!strcmp (op, "reset") && n == 1) { data_len = 0; puts ("ok"); }
		else if (!strcmp (op, "wfcheck") && n == 1) puts ("wf");
		else if (!strcmp (op, "fifo") && n == 2) { via_fifo = atoi (toks[1]) != 0; puts ("ok"); }
		else if ((!strcmp (op, "parse") || !strcmp (op, "gparse")) && n == 1) do_parse ();
		else if ((!strcmp (op, "get") || !strcmp (op, "gget")) && n == 7) do_get (toks);
		else if (!strcmp (op, "life") && n == 3) do_life (toks);
		else if (!strcmp (op, "lifec") && n == 3) do_lifec (toks);
		else if (!strcmp (op, "chomp") && n == 2) do_chomp (toks[1]);
		else if (!strcmp (op, "strdup") && n == 2) do_strdup (toks[1]);
		else if (!strcmp (op, "strtod") && n == 2) do_strtod (toks[1]);
		else if (!strcmp (op, "strtok") && n >= 3) do_strtok (toks, n);
		else if (!strcmp (op, "strtokb") && n == 3) do_strtokb (toks);
		else puts ("bad-op");
		fflush (stdout);
	}
	unlink (path);
	rmdir (dir_tmpl);
	free (data);
	p_libsys_shutdown ();
	return 0;
}

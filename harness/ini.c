/* C16 harness: assembles a file from hex pieces, parses it with the real PIniFile and prints a canonical
 * dump on one line (protocol: see lean/PV/Driver/Ini.lean).  Built from /repo/src of the working tree with
 * ASan+UBSan (abort on first report): any sanitizer report is a violation of the property.
 *
 * The dump doubles as a direct oracle of the "consistent object" part of the property: the first token is
 * `ok` only if every listed section has a key list, and every listed key exists and has a string value. */
#include <plibsys.h>
#include <stdio.h>
#include <stdlib.h>
#include <string.h>
#include <stdint.h>
#include <errno.h>
#include <limits.h>
#include <unistd.h>

static unsigned char *data = NULL;
static size_t data_len = 0, data_cap = 0;
static char dir_tmpl[] = "/tmp/pv-ini-XXXXXX";
static char path[64];

static int hexval (int c) {
	if (c >= '0' && c <= '9') return c - '0';
	if (c >= 'a' && c <= 'f') return c - 'a' + 10;
	if (c >= 'A' && c <= 'F') return c - 'A' + 10;
	return -1;
}

/* append the bytes of a hex token ("-" = nothing); 0 on success */
static int append_hex (const char *h) {
	size_t n = strlen (h);
	if (strcmp (h, "-") == 0) return 0;
	if (n % 2) return -1;
	if (data_len + n / 2 + 1 > data_cap) {
		data_cap = (data_len + n / 2 + 1) * 2;
		data = realloc (data, data_cap);
	}
	for (size_t i = 0; i < n; i += 2) {
		int a = hexval (h[i]), b = hexval (h[i + 1]);
		if (a < 0 || b < 0) return -1;
		data[data_len++] = (unsigned char) (a * 16 + b);
	}
	return 0;
}

static void put_hex (const char *s) {
	if (s == NULL) { fputs ("NULL", stdout); return; }
	if (*s == '\0') { putchar ('-'); return; }
	for (; *s; ++s) printf ("%02x", (unsigned char) *s);
}

static int consistent = 1;

/* every getter for one (section, key) with fixed defaults */
static void getters (PIniFile *ini, const char *sec, const char *key) {
	char *s = p_ini_file_parameter_string (ini, sec, key, "dflt");
	fputs (" s=", stdout); put_hex (s);

	/* atoi is undefined when the value does not fit an int: decide that with strtol on the raw value */
	char *raw = p_ini_file_parameter_string (ini, sec, key, NULL);
	int ovf = 0;
	if (raw != NULL) {
		errno = 0;
		long v = strtol (raw, NULL, 10);
		if (errno == ERANGE || v > INT_MAX || v < INT_MIN) ovf = 1;
	}
	int i = p_ini_file_parameter_int (ini, sec, key, -7);
	if (ovf) fputs (" i=ovf", stdout); else printf (" i=%d", i);

	pboolean b = p_ini_file_parameter_boolean (ini, sec, key, TRUE);
	int bool_word = raw != NULL && (!strcmp (raw, "true") || !strcmp (raw, "TRUE") || !strcmp (raw, "false") || !strcmp (raw, "FALSE"));
	if (ovf && !bool_word) fputs (" b=ovf", stdout); else printf (" b=%d", b ? 1 : 0);

	PList *l = p_ini_file_parameter_list (ini, sec, key);
	fputs (" l=", stdout);
	if (l == NULL) putchar ('-');
	for (PList *c = l; c != NULL; c = c->next) {
		if (c != l) putchar (',');
		put_hex ((const char *) c->data);
		p_free (c->data);
	}
	p_list_free (l);

	double d = p_ini_file_parameter_double (ini, sec, key, 2.5);
	uint64_t bits;
	memcpy (&bits, &d, sizeof bits);
	printf (" d=%016llx", (unsigned long long) bits);

	printf (" e=%d", p_ini_file_is_key_exists (ini, sec, key) ? 1 : 0);
	p_free (s);
	p_free (raw);
}

static void do_parse (void) {
	FILE *f = fopen (path, "wb");
	if (f == NULL || (data_len > 0 && fwrite (data, 1, data_len, f) != data_len) || fclose (f) != 0) {
		puts ("io-error");
		return;
	}
	PIniFile *ini = p_ini_file_new (path);
	if (ini == NULL || !p_ini_file_parse (ini, NULL) || !p_ini_file_is_parsed (ini)) {
		puts ("parse-failed");
		p_ini_file_free (ini);
		return;
	}
	/* first pass: the consistency oracle; second pass: the dump */
	consistent = 1;
	PList *secs = p_ini_file_sections (ini);
	for (PList *s = secs; s != NULL; s = s->next) {
		PList *keys = p_ini_file_keys (ini, (const char *) s->data);
		if (keys == NULL) consistent = 0;
		for (PList *k = keys; k != NULL; k = k->next) {
			char *v = p_ini_file_parameter_string (ini, (const char *) s->data, (const char *) k->data, NULL);
			if (v == NULL || !p_ini_file_is_key_exists (ini, (const char *) s->data, (const char *) k->data)) consistent = 0;
			p_free (v);
			p_free (k->data);
		}
		p_list_free (keys);
	}
	fputs (consistent ? "ok" : "inconsistent", stdout);
	char *s0 = NULL, *k0 = NULL;
	for (PList *s = secs; s != NULL; s = s->next) {
		fputs (" S ", stdout); put_hex ((const char *) s->data);
		PList *keys = p_ini_file_keys (ini, (const char *) s->data);
		if (s == secs) {
			s0 = p_strdup ((const char *) s->data);
			if (keys != NULL) k0 = p_strdup ((const char *) keys->data);
		}
		for (PList *k = keys; k != NULL; k = k->next) {
			fputs (" K ", stdout); put_hex ((const char *) k->data);
			getters (ini, (const char *) s->data, (const char *) k->data);
			p_free (k->data);
		}
		p_list_free (keys);
		p_free (s->data);
	}
	p_list_free (secs);
	fputs (" P", stdout); getters (ini, s0 ? s0 : "nosec", "nokey");
	fputs (" P", stdout); getters (ini, "nosec", k0 ? k0 : "nokey");
	putchar ('\n');
	p_free (s0);
	p_free (k0);
	p_ini_file_free (ini);
}

int main (void) {
	static char line[1 << 22];
	p_libsys_init ();
	if (mkdtemp (dir_tmpl) == NULL) { perror ("mkdtemp"); return 3; }
	snprintf (path, sizeof path, "%s/f.ini", dir_tmpl);
	while (fgets (line, sizeof line, stdin)) {
		char *toks[16];
		int n = 0;
		for (char *t = strtok (line, " \r\n"); t != NULL && n < 16; t = strtok (NULL, " \r\n")) toks[n++] = t;
		if (n == 0) continue;
		const char *op = toks[0];
		int pieces = !strcmp (op, "raw") ? 2 : !strcmp (op, "bom") ? 3 : !strcmp (op, "blk") ? 4 : !strcmp (op, "cmt") ? 6 :
			     !strcmp (op, "hdr") ? 8 : !strcmp (op, "ent") ? 12 : 0;
		if (pieces) {
			/* the rendered bytes are the last token; the structured fields are for the model side */
			if (n == pieces && append_hex (toks[n - 1]) == 0) puts ("."); else puts ("bad-op");
		}
		else if (!strcmp (op, "reset") && n == 1) { data_len = 0; puts ("ok"); }
		else if (!strcmp (op, "wfcheck") && n == 1) puts ("wf");
		else if ((!strcmp (op, "parse") || !strcmp (op, "gparse")) && n == 1) do_parse ();
		else puts ("bad-op");
		fflush (stdout);
	}
	unlink (path);
	rmdir (dir_tmpl);
	free (data);
	p_libsys_shutdown ();
	return 0;
}

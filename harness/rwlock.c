/* C02 harness (general model): schedule-exact execution of /repo/src/prwlock-general.c.
 *
 * The C file is #included (so the two counter words are visible) and is linked against the
 * HARNESS-SIDE p_mutex_* / p_cond_variable_* below, implemented on ucontext coroutines:
 * every such call is a scheduling point.  A "thread" runs its program of p_rwlock_* calls; it is
 * always suspended at the entry of one of these calls (or inside wait).  `run T` lets thread T
 * perform the call it is suspended at and continue up to the entry of its next call: exactly one
 * atomic step of the Lean model (PV.Model.RWLock.stepThread).
 *
 * ops (one answer line each):
 *   prog T op...   program of thread T (T = 0,1,2.. in order): rlock wlock rtry wtry runlock wunlock
 *   start          create the lock, run every thread to its first scheduling point
 *   run T [U]      one step of T; U = the waiter a signal wakes (default: lowest thread id)
 *   spur T         spurious wake-up of T (must be blocked in wait)
 *   reset
 *   nospec         (before start) programs are not disciplined; no effect on this side
 *   twin           (after start) a SECOND lock object is created and exercised from the scheduler's own
 *                  context (the primitives do not yield there): it must be a different object with its own
 *                  mutex, a writer trylock on it succeeds whatever the threads do with the first lock, a reader
 *                  trylock then fails, and the first lock's counter words do not move.  `twin ok` or `twin !<what>`
 *   null OP        p_rwlock_<OP> (NULL): `null OP ret=0`, or `... ret=1 !NULL-ACCEPTED`
 *   fail T         thread T performs the primitive call it is suspended at (p_mutex_lock, p_cond_variable_wait, signal,
 *                  broadcast, p_mutex_unlock) and the call returns FALSE having done nothing (a failed p_mutex_unlock
 *                  leaves the mutex owned).  A thread stops after an unlock CALL that failed at its p_mutex_lock (it still
 *                  holds) and after any call that met a failed p_mutex_unlock (it owns the internal mutex for ever).
 *   free           (after start) p_rwlock_free (lock): `free struct=N mutex=N cv=N` = how often p_free was called with the
 *                  lock structure and p_mutex_free / p_cond_variable_free with its parts; only `reset` may follow
 *   newfail K      p_rwlock_new () whose K-th allocation (0 structure, 1 mutex, 2 read_cv, 3 write_cv) fails:
 *                  `newfail K ret=NULL struct=N mutex=N cv=N` (what was released), `ret=OBJECT` if it did not return NULL
 *   auto SEED N P [F]  (not part of the diff protocol) the harness schedules itself: up to N random
 *                  steps among the enabled threads, spurious wake-up with probability P percent, a `fail` op with
 *                  probability F per mille;
 *                  prints the ops it chose and a final line `auto <end|deadlock|unsafe|limit>`
 * status line: see lean/PV/Driver/RWLock.lean.  The harness's own oracle appends
 *   !DEADLOCK  no thread can make a step although some program is unfinished
 *   !UNSAFE    (sticky) an acquire call returned TRUE while the user-level holders forbid it
 *   !TRYBLOCK  (sticky) a trylock call reached p_cond_variable_wait ("trylock never blocks")
 *   !INCONSISTENT (sticky, not after `nospec`) at a moment when the internal mutex is free the reader / writer fields of
 *              active_threads differ from the numbers of user-level holders (a failed lock call counted as holding, ...)
 */
#define _GNU_SOURCE
#include <stdio.h>
#include <stdlib.h>
#include <string.h>
#include <unistd.h>
#include <ucontext.h>
#include <setjmp.h>

#include "pmem.h"
#include "pmutex.h"
#include "pcondvariable.h"
#include "prwlock.h"

/* ---- allocation (pmem.c is not linked) ---- */
static int g_alloc_fail = -1;      /* newfail: which allocation of p_rwlock_new fails (counted down), -1 none */
static int g_track = 0;            /* count the releases */
static int n_pfree = 0, n_mfree = 0, n_cvfree = 0;
static int alloc_fails_now (void) { if (g_alloc_fail < 0) return 0; if (g_alloc_fail == 0) { g_alloc_fail = -1; return 1; } g_alloc_fail--; return 0; }
P_LIB_API ppointer p_malloc0 (psize n) { if (alloc_fails_now ()) return NULL; return calloc (1, n); }
P_LIB_API ppointer p_malloc (psize n) { return malloc (n); }
P_LIB_API void p_free (ppointer p) { if (g_track) n_pfree++; free (p); }

#include "prwlock-general.c"

#define MAXT 320
#define MAXOPS 256
#define STACK_SZ (64 * 1024)

enum { OP_RLOCK, OP_WLOCK, OP_RTRY, OP_WTRY, OP_RUNLOCK, OP_WUNLOCK, NOPS };
static const char *op_names[NOPS] = { "rlock", "wlock", "rtry", "wtry", "runlock", "wunlock" };

/* where a thread is suspended */
enum { ST_NEW, ST_L, ST_W, ST_B, ST_K, ST_S, ST_C, ST_U, ST_D };

struct PMutex_ { int owner; };
struct PCondVariable_ { int dummy; };

typedef struct {
	ucontext_t ctx;
	char *stack;
	int ops[MAXOPS];
	int nops;
	int idx;            /* current op */
	int status;
	PCondVariable *cv;  /* for W B K S C */
	int last_op, last_ret;   /* last_op < 0: none */
	int stop;                /* the thread makes no further call (see `fail`) */
} Thr;

static Thr thr[MAXT];
static int nthr = 0, started = 0;
static ucontext_t main_ctx;
static int cur = -1;        /* running coroutine */
static int g_pick = -1;
static int g_fail = 0;      /* the primitive call the resumed thread performs returns FALSE */
static int nospec = 0, inconsistent_seen = 0, freed = 0;
static PRWLock *g_lock = NULL;
static FILE *out;

/* oracle: user-level holders */
static int hold_r[MAXT], hold_w[MAXT];
static int unsafe_seen = 0, tryblock_seen = 0;

static void yield_at (int status, PCondVariable *cv) {
	if (cur < 0) return;        /* called from the scheduler's own context (`twin`, `null`): runs through */
	if (status == ST_W && thr[cur].idx < thr[cur].nops && (thr[cur].ops[thr[cur].idx] == OP_RTRY || thr[cur].ops[thr[cur].idx] == OP_WTRY))
		tryblock_seen = 1;
	thr[cur].status = status;
	thr[cur].cv = cv;
	swapcontext (&thr[cur].ctx, &main_ctx);
}

/* ---- harness-side primitives ---- */
P_LIB_API PMutex *p_mutex_new (void) { PMutex *m; if (alloc_fails_now ()) return NULL; m = calloc (1, sizeof *m); if (m) m->owner = -1; return m; }
P_LIB_API void p_mutex_free (PMutex *m) { if (g_track) n_mfree++; free (m); }
static int cur_op_is_unlock (void) { return cur >= 0 && thr[cur].idx < thr[cur].nops && thr[cur].ops[thr[cur].idx] >= 4; }
#define ME (cur < 0 ? -2 : cur)
static int main_ctx_blocked = 0;      /* the scheduler's own context met a mutex that is owned / a wait */
static jmp_buf main_ctx_jb;           /* a wait reached from the scheduler's context cannot return: leave the call */
P_LIB_API pboolean p_mutex_lock (PMutex *m) {
	yield_at (ST_L, NULL);
	if (cur >= 0 && g_fail) { g_fail = 0; if (cur_op_is_unlock ()) thr[cur].stop = 1; return FALSE; }
	if (cur < 0 && m->owner != -1) { main_ctx_blocked = 1; return FALSE; }
	if (m->owner != -1) { fprintf (out, "harness-error: mutex_lock resumed while owned\n"); fflush (out); abort (); }
	m->owner = ME;
	return TRUE;
}
P_LIB_API pboolean p_mutex_trylock (PMutex *m) {
	yield_at (ST_L, NULL);
	if (m->owner != -1) return FALSE;
	m->owner = ME;
	return TRUE;
}
P_LIB_API pboolean p_mutex_unlock (PMutex *m) {
	yield_at (ST_U, NULL);
	if (cur >= 0 && g_fail) { g_fail = 0; thr[cur].stop = 1; return FALSE; }
	if (cur < 0 && m->owner != -2) { main_ctx_blocked = 1; return FALSE; }
	if (m->owner != ME) { fprintf (out, "harness-error: mutex_unlock by non-owner\n"); fflush (out); abort (); }
	m->owner = -1;
	return TRUE;
}
P_LIB_API PCondVariable *p_cond_variable_new (void) { if (alloc_fails_now ()) return NULL; return calloc (1, sizeof (PCondVariable)); }
P_LIB_API void p_cond_variable_free (PCondVariable *c) { if (g_track) n_cvfree++; free (c); }
P_LIB_API pboolean p_cond_variable_wait (PCondVariable *c, PMutex *m) {
	if (cur < 0) { main_ctx_blocked = 1; longjmp (main_ctx_jb, 1); }
	yield_at (ST_W, c);
	if (g_fail) { g_fail = 0; return FALSE; }      /* fails at once: nothing released */
	if (m->owner != cur) { fprintf (out, "harness-error: wait without owning the mutex\n"); fflush (out); abort (); }
	m->owner = -1;                 /* atomically release and block */
	yield_at (ST_B, c);            /* resumed only when woken (status K) and the mutex is free */
	if (m->owner != -1) { fprintf (out, "harness-error: wait resumed while mutex owned\n"); fflush (out); abort (); }
	m->owner = cur;
	return TRUE;
}
P_LIB_API pboolean p_cond_variable_signal (PCondVariable *c) {
	int i, u = -1;
	yield_at (ST_S, c);
	if (cur < 0) return TRUE;
	if (g_fail) { g_fail = 0; return FALSE; }
	if (g_pick >= 0) u = g_pick;   /* validated by the scheduler */
	else for (i = 0; i < nthr; i++) if (thr[i].status == ST_B && thr[i].cv == c) { u = i; break; }
	if (u >= 0) thr[u].status = ST_K;
	return TRUE;
}
P_LIB_API pboolean p_cond_variable_broadcast (PCondVariable *c) {
	int i;
	yield_at (ST_C, c);
	if (cur < 0) return TRUE;
	if (g_fail) { g_fail = 0; return FALSE; }
	for (i = 0; i < nthr; i++) if (thr[i].status == ST_B && thr[i].cv == c) thr[i].status = ST_K;
	return TRUE;
}

/* ---- thread body ---- */
static int is_acq (int op) { return op <= OP_WTRY; }
static int rel_of (int op) { return (op == OP_RLOCK || op == OP_RTRY) ? OP_RUNLOCK : OP_WUNLOCK; }

static void thread_main (int t) {
	Thr *th = &thr[t];
	while (th->idx < th->nops) {
		int op = th->ops[th->idx];
		pboolean r = FALSE;
		switch (op) {
		case OP_RLOCK: r = p_rwlock_reader_lock (g_lock); break;
		case OP_WLOCK: r = p_rwlock_writer_lock (g_lock); break;
		case OP_RTRY: r = p_rwlock_reader_trylock (g_lock); break;
		case OP_WTRY: r = p_rwlock_writer_trylock (g_lock); break;
		case OP_RUNLOCK: r = p_rwlock_reader_unlock (g_lock); break;
		case OP_WUNLOCK: r = p_rwlock_writer_unlock (g_lock); break;
		}
		th->last_op = op;
		th->last_ret = r ? 1 : 0;
		/* oracle: an acquire call returned TRUE */
		if (is_acq (op) && r) {
			int i, anyw = 0, any = 0;
			for (i = 0; i < nthr; i++) { anyw += hold_w[i]; any += hold_w[i] + hold_r[i]; }
			if (op == OP_WLOCK || op == OP_WTRY) { if (any) unsafe_seen = 1; hold_w[t]++; }
			else { if (anyw) unsafe_seen = 1; hold_r[t]++; }
		}
		th->idx++;
		if (th->stop) { th->idx = th->nops; break; }
		/* client convention: a failed acquire skips the matching unlock */
		if (is_acq (op) && !r && th->idx < th->nops && th->ops[th->idx] == rel_of (op))
			th->idx++;
	}
	th->status = ST_D;
	th->cv = NULL;
	swapcontext (&th->ctx, &main_ctx);
	abort ();
}

static void resume (int t) {
	cur = t;
	swapcontext (&main_ctx, &thr[t].ctx);
	cur = -1;
}

/* ---- scheduler side ---- */
static int mutex_owner (void) { return g_lock->mutex->owner; }

static int enabled (int t) {
	switch (thr[t].status) {
	case ST_L: case ST_K: return mutex_owner () == -1;
	case ST_W: case ST_S: case ST_C: case ST_U: return 1;
	default: return 0;
	}
}

static const char *cv_name (PCondVariable *c) {
	if (c == g_lock->read_cv) return "read";
	if (c == g_lock->write_cv) return "write";
	return "?";
}

static void print_status (void) {
	int t, alldone = 1, anyen = 0;
	static char buf[MAXT * 48 + 256];
	int n = 0;
	if (mutex_owner () < 0) n += snprintf (buf + n, sizeof buf - n, "m=-");
	else n += snprintf (buf + n, sizeof buf - n, "m=%d", mutex_owner ());
	n += snprintf (buf + n, sizeof buf - n, " a=%08x w=%08x |", (unsigned) g_lock->active_threads, (unsigned) g_lock->waiting_threads);
	for (t = 0; t < nthr; t++) {
		Thr *th = &thr[t];
		const char *on = th->idx < th->nops ? op_names[th->ops[th->idx]] : "";
		int left = th->idx < th->nops ? th->nops - th->idx - 1 : 0;
		n += snprintf (buf + n, sizeof buf - n, " ");
		switch (th->status) {
		case ST_L: n += snprintf (buf + n, sizeof buf - n, "L.%s", on); break;
		case ST_W: n += snprintf (buf + n, sizeof buf - n, "W.%s.%s", on, cv_name (th->cv)); break;
		case ST_B: n += snprintf (buf + n, sizeof buf - n, "B.%s.%s", on, cv_name (th->cv)); break;
		case ST_K: n += snprintf (buf + n, sizeof buf - n, "K.%s.%s", on, cv_name (th->cv)); break;
		case ST_S: n += snprintf (buf + n, sizeof buf - n, "S.%s.%s", on, cv_name (th->cv)); break;
		case ST_C: n += snprintf (buf + n, sizeof buf - n, "C.%s.%s", on, cv_name (th->cv)); break;
		case ST_U: n += snprintf (buf + n, sizeof buf - n, "U.%s", on); break;
		case ST_D: n += snprintf (buf + n, sizeof buf - n, "D"); break;
		default: n += snprintf (buf + n, sizeof buf - n, "?"); break;
		}
		if (th->last_op < 0) n += snprintf (buf + n, sizeof buf - n, "/-");
		else n += snprintf (buf + n, sizeof buf - n, "/%s=%d", op_names[th->last_op], th->last_ret);
		n += snprintf (buf + n, sizeof buf - n, "+%d", left);
		if (th->status != ST_D) alldone = 0;
		if (enabled (t)) anyen = 1;
	}
	if (!nospec && mutex_owner () == -1) {
		unsigned nr = 0, nw = 0;
		for (t = 0; t < nthr; t++) { nr += hold_r[t]; nw += hold_w[t]; }
		if (P_RWLOCK_READER_COUNT (g_lock->active_threads) != nr || P_RWLOCK_WRITER_COUNT (g_lock->active_threads) != nw) inconsistent_seen = 1;
	}
	if (!alldone && !anyen) n += snprintf (buf + n, sizeof buf - n, " !DEADLOCK");
	if (unsafe_seen) n += snprintf (buf + n, sizeof buf - n, " !UNSAFE");
	if (tryblock_seen) n += snprintf (buf + n, sizeof buf - n, " !TRYBLOCK");
	if (inconsistent_seen) n += snprintf (buf + n, sizeof buf - n, " !INCONSISTENT");
	fprintf (out, "%s\n", buf);
}

static int is_deadlock (void) {
	int t, alldone = 1;
	for (t = 0; t < nthr; t++) { if (thr[t].status != ST_D) alldone = 0; if (enabled (t)) return 0; }
	return !alldone;
}
static int all_done (void) {
	int t;
	for (t = 0; t < nthr; t++) if (thr[t].status != ST_D) return 0;
	return 1;
}

static void co_entry (int t) { thread_main (t); }

static void do_reset (void) {
	int t;
	for (t = 0; t < nthr; t++) { free (thr[t].stack); }
	memset (thr, 0, sizeof thr);
	nthr = 0; started = 0; cur = -1; g_pick = -1; unsafe_seen = 0; tryblock_seen = 0; main_ctx_blocked = 0;
	g_fail = 0; nospec = 0; inconsistent_seen = 0; g_alloc_fail = -1; g_track = 0;
	if (freed) { g_lock = NULL; freed = 0; }
	p_rwlock_shutdown ();
	memset (hold_r, 0, sizeof hold_r); memset (hold_w, 0, sizeof hold_w);
	if (g_lock) {
		/* threads may be parked inside the lock: free the parts, not p_rwlock_free (it warns) */
		p_mutex_free (g_lock->mutex); p_cond_variable_free (g_lock->read_cv); p_cond_variable_free (g_lock->write_cv);
		p_free (g_lock); g_lock = NULL;
	}
}

static int do_start (void) {
	int t;
	if (started) return 0;
	p_rwlock_init ();
	g_lock = p_rwlock_new ();
	if (!g_lock) return 0;
	for (t = 0; t < nthr; t++) {
		Thr *th = &thr[t];
		th->stack = malloc (STACK_SZ);
		getcontext (&th->ctx);
		th->ctx.uc_stack.ss_sp = th->stack;
		th->ctx.uc_stack.ss_size = STACK_SZ;
		th->ctx.uc_link = &main_ctx;
		makecontext (&th->ctx, (void (*) (void)) co_entry, 1, t);
		th->status = ST_NEW;
		th->last_op = -1;
		th->idx = 0;
	}
	started = 1;
	for (t = 0; t < nthr; t++) resume (t);   /* up to the first p_mutex_lock (or D for an empty program) */
	return 1;
}

/* returns 0 when not enabled */
static int do_run (int t, int pick) {
	Thr *th;
	if (!started || freed || t < 0 || t >= nthr || !enabled (t)) return 0;
	th = &thr[t];
	g_pick = -1;
	if (th->status == ST_S && pick >= 0) {
		if (pick >= nthr || thr[pick].status != ST_B || thr[pick].cv != th->cv) return 0;
		g_pick = pick;
	}
	/* oracle: the thread enters its unlock call: it stops being a user-level holder */
	if (th->status == ST_L) {
		int op = th->ops[th->idx];
		if (op == OP_RUNLOCK && hold_r[t] > 0) hold_r[t]--;
		if (op == OP_WUNLOCK && hold_w[t] > 0) hold_w[t]--;
	}
	if (th->status == ST_B) return 0;
	resume (t);
	g_pick = -1;
	return 1;
}

/* thread t's next primitive call fails; returns 0 when t is not suspended at the entry of a primitive call */
static int do_fail (int t) {
	Thr *th;
	if (!started || freed || t < 0 || t >= nthr) return 0;
	th = &thr[t];
	if (th->status != ST_L && th->status != ST_W && th->status != ST_S && th->status != ST_C && th->status != ST_U) return 0;
	g_pick = -1;
	g_fail = 1;
	resume (t);
	g_fail = 0;
	return 1;
}

/* p_rwlock_free on the live lock (threads may be parked inside: they are never resumed afterwards) */
static void do_free (void) {
	PRWLock *l = g_lock;
	n_pfree = n_mfree = n_cvfree = 0;
	g_track = 1;
	p_rwlock_free (l);
	g_track = 0;
	freed = 1;
	fprintf (out, "free struct=%d mutex=%d cv=%d\n", n_pfree, n_mfree, n_cvfree);
}

static void do_newfail (int k) {
	PRWLock *l;
	n_pfree = n_mfree = n_cvfree = 0;
	g_track = 1;
	g_alloc_fail = k;
	l = p_rwlock_new ();
	g_alloc_fail = -1;
	g_track = 0;
	fprintf (out, "newfail %d ret=%s struct=%d mutex=%d cv=%d\n", k, l ? "OBJECT" : "NULL", n_pfree, n_mfree, n_cvfree);
	/* a non-NULL result is a half-built object: not released (its parts may be NULL or already freed) */
}

static int do_spur (int t) {
	if (!started || freed || t < 0 || t >= nthr || thr[t].status != ST_B) return 0;
	thr[t].status = ST_K;
	return 1;
}

/* a second lock object, exercised from the scheduler's context */
static const char *do_twin (void) {
	PRWLock *l2;
	puint32 a0 = g_lock->active_threads, w0 = g_lock->waiting_threads;
	int owner0 = g_lock->mutex->owner;
	const char *res = "ok";
	main_ctx_blocked = 0;
	l2 = p_rwlock_new ();
	if (l2 == NULL) return "!NEW-FAILED";
	if (l2 == g_lock) return "!SAME-OBJECT";
	if (setjmp (main_ctx_jb)) return "!TRYBLOCK(a-trylock-or-unlock-on-the-second-lock-reached-p_cond_variable_wait)";
	if (l2->mutex == g_lock->mutex || l2->read_cv == g_lock->read_cv || l2->write_cv == g_lock->write_cv) res = "!SHARED-PARTS";
	else if (p_rwlock_writer_trylock (l2) != TRUE) res = "!NOT-INDEPENDENT(writer-trylock-on-a-fresh-lock-failed)";
	else if (p_rwlock_reader_trylock (l2) != FALSE) res = "!UNSAFE(reader-trylock-granted-under-a-writer)";
	else if (p_rwlock_writer_unlock (l2) != TRUE) res = "!NOT-INDEPENDENT(writer-unlock)";
	else if (p_rwlock_reader_trylock (l2) != TRUE || p_rwlock_reader_trylock (l2) != TRUE) res = "!NOT-INDEPENDENT(two-readers-on-a-fresh-lock)";
	else if (p_rwlock_writer_trylock (l2) != FALSE) res = "!UNSAFE(writer-trylock-granted-under-readers)";
	else if (p_rwlock_reader_unlock (l2) != TRUE || p_rwlock_reader_unlock (l2) != TRUE) res = "!NOT-INDEPENDENT(reader-unlock)";
	if (!strcmp (res, "ok") && (main_ctx_blocked || l2->active_threads != 0 || l2->waiting_threads != 0)) res = "!NOT-INDEPENDENT(second-lock-not-idle-afterwards)";
	if (!strcmp (res, "ok") && (g_lock->active_threads != a0 || g_lock->waiting_threads != w0 || g_lock->mutex->owner != owner0)) res = "!NOT-INDEPENDENT(first-lock-changed)";
	p_mutex_free (l2->mutex); p_cond_variable_free (l2->read_cv); p_cond_variable_free (l2->write_cv); p_free (l2);
	return res;
}

static int do_null (int op) {
	if (setjmp (main_ctx_jb)) return 1;
	switch (op) {
	case OP_RLOCK: return p_rwlock_reader_lock (NULL) != FALSE;
	case OP_WLOCK: return p_rwlock_writer_lock (NULL) != FALSE;
	case OP_RTRY: return p_rwlock_reader_trylock (NULL) != FALSE;
	case OP_WTRY: return p_rwlock_writer_trylock (NULL) != FALSE;
	case OP_RUNLOCK: return p_rwlock_reader_unlock (NULL) != FALSE;
	default: return p_rwlock_writer_unlock (NULL) != FALSE;
	}
}

static unsigned long long rng_state;
static unsigned rnd (void) {
	rng_state = rng_state * 6364136223846793005ULL + 1442695040888963407ULL;
	return (unsigned) (rng_state >> 33);
}

static void do_auto (unsigned long long seed, long nsteps, int spur_pct, int fail_pm) {
	long i;
	rng_state = seed * 2654435761ULL + 12345;
	for (i = 0; i < nsteps; i++) {
		int cand[MAXT], nc = 0, blk[MAXT], nb = 0, t;
		if (unsafe_seen) { fprintf (out, "auto unsafe\n"); return; }
		if (all_done ()) { fprintf (out, "auto end\n"); return; }
		if (is_deadlock ()) { fprintf (out, "auto deadlock\n"); return; }
		for (t = 0; t < nthr; t++) { if (enabled (t)) cand[nc++] = t; if (thr[t].status == ST_B) blk[nb++] = t; }
		if (fail_pm > 0 && (int) (rnd () % 1000) < fail_pm) {
			int fc[MAXT], nf = 0;
			for (t = 0; t < nthr; t++) { int st_ = thr[t].status; if (st_ == ST_L || st_ == ST_W || st_ == ST_S || st_ == ST_C || st_ == ST_U) fc[nf++] = t; }
			if (nf > 0) { t = fc[rnd () % nf]; do_fail (t); fprintf (out, "fail %d\n", t); continue; }
		}
		if (nb > 0 && (int) (rnd () % 100) < spur_pct) {
			t = blk[rnd () % nb];
			do_spur (t);
			fprintf (out, "spur %d\n", t);
			continue;
		}
		t = cand[rnd () % nc];
		if (thr[t].status == ST_S) {
			int w[MAXT], nw = 0, u;
			for (u = 0; u < nthr; u++) if (thr[u].status == ST_B && thr[u].cv == thr[t].cv) w[nw++] = u;
			if (nw >= 2) {
				u = w[rnd () % nw];
				do_run (t, u);
				fprintf (out, "run %d %d\n", t, u);
				continue;
			}
		}
		do_run (t, -1);
		fprintf (out, "run %d\n", t);
	}
	fprintf (out, "auto limit\n");
}

int main (void) {
	char line[4096];
	int fd = dup (1);
	out = fdopen (fd, "w");
	dup2 (2, 1);        /* anything the library prints (P_ERROR / P_WARNING) goes to stderr */
	while (fgets (line, sizeof line, stdin)) {
		char *tok[MAXOPS + 4];
		int nt = 0;
		char *p = strtok (line, " \t\r\n");
		while (p && nt < MAXOPS + 3) { tok[nt++] = p; p = strtok (NULL, " \t\r\n"); }
		if (nt == 0) continue;
		if (!strcmp (tok[0], "prog") && nt >= 2) {
			int t = atoi (tok[1]), i, ok = (!started && t == nthr && t < MAXT && nt - 2 <= MAXOPS);
			int ops[MAXOPS];
			for (i = 2; ok && i < nt; i++) {
				int k, f = -1;
				for (k = 0; k < NOPS; k++) if (!strcmp (tok[i], op_names[k])) f = k;
				if (f < 0) ok = 0; else ops[i - 2] = f;
			}
			if (ok) { memset (&thr[t], 0, sizeof thr[t]); memcpy (thr[t].ops, ops, sizeof ops); thr[t].nops = nt - 2; thr[t].last_op = -1; nthr++; fprintf (out, "ok\n"); }
			else fprintf (out, "bad-op\n");
		}
		else if (!strcmp (tok[0], "start") && nt == 1) { if (do_start ()) print_status (); else fprintf (out, "bad-op\n"); }
		else if (!strcmp (tok[0], "run") && (nt == 2 || nt == 3)) {
			if (!started || freed) fprintf (out, "bad-op\n");
			else if (do_run (atoi (tok[1]), nt == 3 ? atoi (tok[2]) : -1)) print_status ();
			else fprintf (out, "not-enabled\n");
		}
		else if (!strcmp (tok[0], "spur") && nt == 2) {
			if (!started || freed) fprintf (out, "bad-op\n");
			else if (do_spur (atoi (tok[1]))) print_status ();
			else fprintf (out, "not-enabled\n");
		}
		else if (!strcmp (tok[0], "reset") && nt == 1) { do_reset (); fprintf (out, "ok\n"); }
		else if (!strcmp (tok[0], "twin") && nt == 1) {
			if (!started || freed) fprintf (out, "bad-op\n");
			else fprintf (out, "twin %s\n", do_twin ());
		}
		else if (!strcmp (tok[0], "null") && nt == 2) {
			int k, f = -1;
			for (k = 0; k < NOPS; k++) if (!strcmp (tok[1], op_names[k])) f = k;
			if (f < 0) fprintf (out, "bad-op\n");
			else { int r = do_null (f); p_rwlock_free (NULL); fprintf (out, "null %s ret=%d%s\n", op_names[f], r, r ? " !NULL-ACCEPTED" : ""); }
		}
		else if (!strcmp (tok[0], "nospec") && nt == 1) { if (started) fprintf (out, "bad-op\n"); else { nospec = 1; fprintf (out, "ok\n"); } }
		else if (!strcmp (tok[0], "auto") && (nt == 4 || nt == 5)) {
			if (!started || freed) fprintf (out, "bad-op\n");
			else { do_auto (strtoull (tok[1], NULL, 10), atol (tok[2]), atoi (tok[3]), nt == 5 ? atoi (tok[4]) : 0); print_status (); }
		}
		else if (!strcmp (tok[0], "fail") && nt == 2) {
			if (!started || freed) fprintf (out, "bad-op\n");
			else if (do_fail (atoi (tok[1]))) print_status ();
			else fprintf (out, "not-enabled\n");
		}
		else if (!strcmp (tok[0], "free") && nt == 1) {
			if (!started || freed) fprintf (out, "bad-op\n");
			else do_free ();
		}
		else if (!strcmp (tok[0], "newfail") && nt == 2) {
			int k = atoi (tok[1]);
			if (k < 0 || k > 3 || strlen (tok[1]) != 1 || tok[1][0] < '0' || tok[1][0] > '3') fprintf (out, "bad-op\n");
			else do_newfail (k);
		}
		else fprintf (out, "bad-op\n");
		fflush (out);
	}
	return 0;
}

/* C12/C13/C14 harness: the real PTree through its public API only.
 * - keys/values are heap objects (ASan: double destroy = double free, use after destroy = UAF)
 * - the tree SHAPE is reconstructed from the (probe, node key) pairs the comparator receives
 *   during lookups, so it does not depend on the node layout
 * - independent oracles printed with `shape`: AVL height condition, red-black colourability,
 *   BST order, lookup comparison count */
#include <plibsys.h>
#include <stdio.h>
#include <stdlib.h>
#include <string.h>

typedef struct { int ord; int id; int magic; } KO;
typedef struct { int id; int magic; } VO;
#define KMAGIC 0x4b4b4b4b
#define VMAGIC 0x56565656
#define MAXORD 4096

static PTree *tree;
static int plain, withdata, next_id;
static int konly, vonly;   /* only a key / only a value destroy notifier: the other objects stay owned by the harness */
static int wide;           /* comparator answers with arbitrary negative / positive magnitudes (INT_MIN, INT_MAX, +-2, difference), not only -1 / 1 */
static int data_cookie;
static char dlog[1 << 16]; static size_t dlen;
static int path[256], plen, probing;
static int present[MAXORD];
/* objects given to a plain tree are owned by the harness */
static KO *pk[1 << 16]; static VO *pvv[1 << 16]; static int npk, npv;
/* … and must come back bit for bit: what they held when they were handed over */
static KO pk_copy[1 << 16]; static VO pv_copy[1 << 16];
static void own_k (KO *k) { pk_copy[npk] = *k; pk[npk++] = k; }
static void own_v (VO *v) { pv_copy[npv] = *v; pvv[npv++] = v; }

static void dl (const char *pfx, int id) { dlen += (size_t) snprintf (dlog + dlen, sizeof dlog - dlen, "%s%s%d", dlen ? " " : "", pfx, id); }

static void key_destroy (ppointer p) { KO *k = p; if (!k) { dlen += (size_t) snprintf (dlog + dlen, sizeof dlog - dlen, "%skN", dlen ? " " : ""); return; } if (k->magic != KMAGIC) { puts ("CORRUPT-KEY"); exit (4); } dl ("k", k->id); k->magic = 0; free (k); }
static void val_destroy (ppointer p) { VO *v = p; if (!v) { dlen += (size_t) snprintf (dlog + dlen, sizeof dlog - dlen, "%svN", dlen ? " " : ""); return; } if (v->magic != VMAGIC) { puts ("CORRUPT-VALUE"); exit (4); } dl ("v", v->id); v->magic = 0; free (v); }

/* NULL is a legal key: it orders as 0, or as the ordinal given with `nk=ORD` on the `new` line */
static KO null_key = { 0, -1, KMAGIC };
#include <limits.h>
static pint sign_out (int c, int xo, int yo) {
	if (!wide || c == 0) return c;
	switch ((unsigned) (xo * 31 + yo * 7) % 5u) {
	case 0: return c < 0 ? INT_MIN : INT_MAX;
	case 1: return c * 2;
	case 2: return xo - yo;              /* the classic subtraction comparator */
	case 3: return c < 0 ? -4096 : 65536;
	default: return c;
	}
}
/* op `getk`: the identity of the STORED key object the comparator is shown (second argument) when it answers "equal", and
 * whether the first argument is the caller's probe */
static int eq_seen, eq_id, probe_wrong; static const void *the_probe;
static void note_eq (pconstpointer a, pconstpointer b, int c) {
	if (the_probe != NULL && a != the_probe) probe_wrong = 1;
	if (c == 0) { eq_seen = 1; eq_id = b ? ((const KO *) b)->id : -1; }
}
static pint cmp_data (pconstpointer a, pconstpointer b, ppointer data) {
	const KO *x = a ? a : &null_key, *y = b ? b : &null_key;
	note_eq (a, b, x->ord < y->ord ? -1 : x->ord > y->ord ? 1 : 0);
	if (withdata && data != &data_cookie) { puts ("DATA-MISMATCH"); exit (4); }
	if (!withdata && data != NULL) { puts ("DATA-MISMATCH"); exit (4); }
	if (probing && plen < 256) path[plen++] = y->ord;
	return sign_out (x->ord < y->ord ? -1 : x->ord > y->ord ? 1 : 0, x->ord, y->ord);
}
static pint cmp_plain (pconstpointer a, pconstpointer b) {
	const KO *x = a ? a : &null_key, *y = b ? b : &null_key;
	note_eq (a, b, x->ord < y->ord ? -1 : x->ord > y->ord ? 1 : 0);
	if (probing && plen < 256) path[plen++] = y->ord;
	return sign_out (x->ord < y->ord ? -1 : x->ord > y->ord ? 1 : 0, x->ord, y->ord);
}

static void drop_tree (void) {
	if (tree) p_tree_free (tree);
	tree = NULL;
	for (int i = 0; i < npk; ++i) { if (memcmp (pk[i], &pk_copy[i], sizeof (KO)) != 0 || pk[i]->magic != KMAGIC) { puts ("CORRUPT-KEY"); exit (4); } free (pk[i]); }
	for (int i = 0; i < npv; ++i) { if (memcmp (pvv[i], &pv_copy[i], sizeof (VO)) != 0 || pvv[i]->magic != VMAGIC) { puts ("CORRUPT-VALUE"); exit (4); } free (pvv[i]); }
	npk = npv = 0;
	memset (present, 0, sizeof present);
}

/* shape reconstruction */
static int par[MAXORD], lc[MAXORD], rc[MAXORD], root;
static int maxcmp;
static void probe_all (void) {
	root = -1; maxcmp = 0;
	for (int o = 0; o < MAXORD; ++o) { par[o] = lc[o] = rc[o] = -1; }
	for (int o = 0; o < MAXORD; ++o) if (present[o]) {
		KO probe = { o, -1, KMAGIC };
		plen = 0; probing = 1;
		p_tree_lookup (tree, &probe);
		probing = 0;
		if (plen > maxcmp) maxcmp = plen;
		if (plen == 0 || path[plen - 1] != o) { printf ("LOST-KEY %d ", o); continue; }
		if (root < 0) root = path[0];
		if (plen >= 2) {
			int p = path[plen - 2];
			par[o] = p;
			if (o < p) lc[p] = o; else rc[p] = o;
		}
	}
}
static void print_shape (int n) {
	if (n < 0) { printf ("."); return; }
	printf ("("); print_shape (lc[n]); printf (" %d ", n); print_shape (rc[n]); printf (")");
}
static int height (int n) { if (n < 0) return 0; int a = height (lc[n]), b = height (rc[n]); return (a > b ? a : b) + 1; }
static int avl_ok (int n) { if (n < 0) return 1; int d = height (lc[n]) - height (rc[n]); return d >= -1 && d <= 1 && avl_ok (lc[n]) && avl_ok (rc[n]); }
/* red-black colourability: set of black heights achievable with the node red / black */
typedef struct { unsigned long long r, b; } RBSet;   /* bit h set: black height h achievable */
static RBSet rb_set (int n) {
	RBSet s = { 0, 0 };
	if (n < 0) { s.b = 1ULL << 0; return s; }     /* NULL leaf: black, black height 0 */
	RBSet l = rb_set (lc[n]), r = rb_set (rc[n]);
	unsigned long long any = (l.r | l.b) & (r.r | r.b);   /* children any colour, equal black height */
	unsigned long long blk = l.b & r.b;                    /* both children black */
	s.b = any << 1;
	s.r = blk;
	return s;
}
static int count_nodes (int n) { return n < 0 ? 0 : 1 + count_nodes (lc[n]) + count_nodes (rc[n]); }

static int visits, stop_at;
static char vlog[1 << 18]; static size_t vlen;
static pboolean visit (ppointer key, ppointer value, ppointer data) {
	KO *k = key; VO *v = value;
	if (data != &visits) { puts ("DATA-MISMATCH"); exit (4); }
	char kb[16] = "N", vb[16] = "N";
	if (k) snprintf (kb, sizeof kb, "%d", k->id);
	if (v) snprintf (vb, sizeof vb, "%d", v->id);
	vlen += (size_t) snprintf (vlog + vlen, sizeof vlog - vlen, "%s%d:k%s:v%s", vlen ? " " : "", k ? k->ord : null_key.ord, kb, vb);
	++visits;
	return stop_at != 0 && visits >= stop_at;
}

/* one-shot allocation failure (op `insf`): the next p_malloc of the library returns NULL */
static int fail_next;
static long live_blocks;   /* blocks the library holds (op `newf` prints what the failed creation left allocated) */
static ppointer f_malloc (psize n) { if (fail_next) { fail_next = 0; return NULL; } ++live_blocks; return malloc (n); }
/* the library reports a failed allocation of p_tree_new_full with a P_ERROR line on stdout: not part of the protocol */
#include <unistd.h>
#include <fcntl.h>
static int saved_out = -1;
static void mute (void) { fflush (stdout); saved_out = dup (1); int nul = open ("/dev/null", O_WRONLY); dup2 (nul, 1); close (nul); }
static void unmute (void) { fflush (stdout); dup2 (saved_out, 1); close (saved_out); saved_out = -1; }
static ppointer f_realloc (ppointer p, psize n) { return realloc (p, n); }
static void f_free (ppointer p) { if (p) --live_blocks; free (p); }

int main (void) {
	char line[256], op[16], a1[32], a2[32], a3[32];
	int type = 0;
	PMemVTable vt = { f_malloc, f_realloc, f_free };
	p_libsys_init_full (&vt);
	while (fgets (line, sizeof line, stdin)) {
		a1[0] = a2[0] = a3[0] = 0;
		int n = sscanf (line, "%15s %31s %31s %31s", op, a1, a2, a3);
		if (n < 1) continue;
		dlen = 0; dlog[0] = 0;
		if (!strcmp (op, "new") || !strcmp (op, "newf")) {
			/* `newf`: the same creation call while the allocator is out of memory: must give NULL (no tree until the next `new`) */
			int oom = op[3] == 'f';
			drop_tree ();
			plain = konly = vonly = withdata = wide = 0; null_key.ord = 0;
			{
				char copy[256], *sv = NULL; strcpy (copy, line);
				char *tk = strtok_r (copy, " \t\r\n", &sv);             /* new */
				tk = strtok_r (NULL, " \t\r\n", &sv);                    /* type */
				while ((tk = strtok_r (NULL, " \t\r\n", &sv)) != NULL) {
					if (!strcmp (tk, "plain")) plain = 1; else if (!strcmp (tk, "konly")) konly = 1; else if (!strcmp (tk, "vonly")) vonly = 1;
					else if (!strcmp (tk, "data")) withdata = 1; else if (!strcmp (tk, "wide")) wide = 1;
					else if (!strncmp (tk, "nk=", 3)) { int o = atoi (tk + 3); if (o >= 0 && o < MAXORD) null_key.ord = o; }
				}
			}
			next_id = 0;
			PTreeType ty = !strcmp (a1, "bst") ? P_TREE_TYPE_BINARY : !strcmp (a1, "rb") ? P_TREE_TYPE_RB : P_TREE_TYPE_AVL;
			type = (int) ty;
			long before = live_blocks;
			if (oom) { mute (); fail_next = 1; }
			if (plain && !withdata) tree = p_tree_new (ty, cmp_plain);
			else if (plain) tree = p_tree_new_with_data (ty, cmp_data, &data_cookie);
			else tree = p_tree_new_full (ty, cmp_data, withdata ? &data_cookie : NULL, vonly ? NULL : key_destroy, konly ? NULL : val_destroy);
			if (oom) { fail_next = 0; unmute (); printf ("%s held=%ld\n", tree ? "ok" : "fail", live_blocks - before); }
			else puts (tree ? "ok" : "fail");
		} else if (!tree) puts ("bad-op");
		else if (!strcmp (op, "ins") && n == 2) {
			int o = atoi (a1);
			if (o < 0 || o >= MAXORD) { puts ("bad-op"); continue; }
			KO *k = malloc (sizeof *k); VO *v = malloc (sizeof *v);
			k->ord = o; k->id = next_id; k->magic = KMAGIC; v->id = next_id; v->magic = VMAGIC; ++next_id;
			if (plain || vonly) own_k (k);
			if (plain || konly) own_v (v);
			p_tree_insert (tree, k, v);
			present[o] = 1;
			printf ("n=%d d=[%s]\n", p_tree_get_nnodes (tree), dlog);
		} else if ((!strcmp (op, "insv") && n == 2) || (!strcmp (op, "insk") && n == 1) || (!strcmp (op, "inskv") && n == 1)) {
			/* NULL as value / key / both (integer 0 through PINT_TO_POINTER, "no payload") */
			int nk = op[3] == 'k', nv = op[3] == 'v' || op[4] == 'v';
			int o = nk ? null_key.ord : atoi (a1);
			if (o < 0 || o >= MAXORD) { puts ("bad-op"); continue; }
			KO *k = NULL; VO *v = NULL;
			if (!nk) { k = malloc (sizeof *k); k->ord = o; k->id = next_id; k->magic = KMAGIC; if (plain || vonly) own_k (k); }
			if (!nv) { v = malloc (sizeof *v); v->id = next_id; v->magic = VMAGIC; if (plain || konly) own_v (v); }
			++next_id;
			p_tree_insert (tree, k, v);
			present[o] = 1;
			printf ("n=%d d=[%s]\n", p_tree_get_nnodes (tree), dlog);
		} else if (!strcmp (op, "insf") && n == 2) {
			/* insert while the allocator is out of memory: a new key cannot be added (the tree must stay as it is, also in
			 * its balance bookkeeping); an equal key needs no allocation and is replaced as usual */
			int o = atoi (a1);
			if (o < 1 || o >= MAXORD) { puts ("bad-op"); continue; }
			KO *k = malloc (sizeof *k); VO *v = malloc (sizeof *v);
			k->ord = o; k->id = next_id; k->magic = KMAGIC; v->id = next_id; v->magic = VMAGIC; ++next_id;
			int was = present[o];
			fail_next = 1;
			p_tree_insert (tree, k, v);
			fail_next = 0;
			if (was) { if (plain || vonly) own_k (k); if (plain || konly) own_v (v); }
			else { free (k); free (v); }           /* never entered the tree: still the caller's */
			printf ("n=%d d=[%s]\n", p_tree_get_nnodes (tree), dlog);
		} else if (!strcmp (op, "remn") && n == 1) {
			/* the NULL pointer itself as the key to remove / look up (orders like the NULL key) */
			pboolean r = p_tree_remove (tree, NULL);
			present[null_key.ord] = 0;
			printf ("%s n=%d d=[%s]\n", r ? "T" : "F", p_tree_get_nnodes (tree), dlog);
		} else if (!strcmp (op, "getn") && n == 1) {
			VO *v = p_tree_lookup (tree, NULL);
			if (v) printf ("v%d\n", v->id); else puts ("nil");
		} else if (!strcmp (op, "free") && n == 1) {
			/* p_tree_free: every pair still stored goes to the notifiers now; harness-owned objects must be untouched */
			p_tree_free (tree);
			tree = NULL;
			printf ("d=[%s]\n", dlog);
			drop_tree ();
		} else if (!strcmp (op, "api") && n == 1) {
			/* the remaining entry points: p_tree_get_type, creation with bad arguments, every call on a NULL tree / with a
			 * NULL callback; a second tree of every type lives and dies meanwhile (no state shared between trees) */
			PTreeType ty = p_tree_get_type (tree);
			char bad[256]; bad[0] = 0;
			KO probe = { 1, -1, KMAGIC };
			if (p_tree_new ((PTreeType) 3, cmp_plain) != NULL) strcat (bad, " new(type=3)");
			if (p_tree_new ((PTreeType) -1, cmp_plain) != NULL) strcat (bad, " new(type=-1)");
			if (p_tree_new (P_TREE_TYPE_AVL, NULL) != NULL) strcat (bad, " new(func=NULL)");
			if (p_tree_new_with_data (P_TREE_TYPE_RB, NULL, &data_cookie) != NULL) strcat (bad, " new_with_data(func=NULL)");
			if (p_tree_new_full ((PTreeType) 7, cmp_data, NULL, key_destroy, val_destroy) != NULL) strcat (bad, " new_full(type=7)");
			p_tree_insert (NULL, &probe, &probe);
			if (p_tree_remove (NULL, &probe) != FALSE) strcat (bad, " remove(NULL)");
			if (p_tree_lookup (NULL, &probe) != NULL) strcat (bad, " lookup(NULL)");
			visits = 0; stop_at = 0; vlen = 0;
			p_tree_foreach (NULL, visit, &visits);
			p_tree_foreach (tree, NULL, &visits);
			if (visits != 0) strcat (bad, " foreach(NULL)");
			p_tree_clear (NULL);
			if ((int) p_tree_get_type (NULL) != -1) strcat (bad, " get_type(NULL)");
			if (p_tree_get_nnodes (NULL) != 0) strcat (bad, " get_nnodes(NULL)");
			p_tree_free (NULL);
			for (int t2 = 0; t2 < 3; ++t2) {
				int save_probing = probing; probing = 0;
				PTree *o = withdata ? p_tree_new_with_data ((PTreeType) t2, cmp_data, &data_cookie) : p_tree_new ((PTreeType) t2, cmp_plain);
				KO ks[5] = { { 3, -1, KMAGIC }, { 1, -1, KMAGIC }, { 2, -1, KMAGIC }, { 5, -1, KMAGIC }, { 4, -1, KMAGIC } };
				if (!o || (int) p_tree_get_type (o) != t2) strcat (bad, " second-tree-type");
				for (int i = 0; i < 5; ++i) p_tree_insert (o, &ks[i], &ks[i]);
				if (p_tree_get_nnodes (o) != 5 || p_tree_lookup (o, &ks[2]) != &ks[2]) strcat (bad, " second-tree");
				if (!p_tree_remove (o, &ks[0]) || p_tree_remove (o, &ks[0])) strcat (bad, " second-tree-remove");
				p_tree_free (o);
				probing = save_probing;
			}
			printf ("type=%s%s\n", ty == P_TREE_TYPE_BINARY ? "bst" : ty == P_TREE_TYPE_RB ? "rb" : ty == P_TREE_TYPE_AVL ? "avl" : "?", bad[0] ? bad : " null-api=ok");
		} else if (!strcmp (op, "rem") && n == 2) {
			int o = atoi (a1);
			KO probe = { o, -1, KMAGIC };
			pboolean r = p_tree_remove (tree, &probe);
			if (o >= 0 && o < MAXORD) present[o] = 0;
			printf ("%s n=%d d=[%s]\n", r ? "T" : "F", p_tree_get_nnodes (tree), dlog);
		} else if (!strcmp (op, "get") && n == 2) {
			KO probe = { atoi (a1), -1, KMAGIC };
			VO *v = p_tree_lookup (tree, &probe);
			if (v) printf ("v%d\n", v->id); else puts ("nil");
		} else if (!strcmp (op, "getk") && n == 2) {
			/* which key OBJECT is stored under this ordinal: the one the comparator receives as its second argument when it
			 * says equal (keys are distinct heap objects; an equal key inserted later must have replaced the stored one) */
			KO probe = { atoi (a1), -1, KMAGIC };
			eq_seen = 0; probe_wrong = 0; the_probe = &probe;
			p_tree_lookup (tree, &probe);
			the_probe = NULL;
			if (probe_wrong) printf ("PROBE-NOT-FIRST-ARGUMENT ");
			if (!eq_seen) puts ("nil"); else if (eq_id < 0) puts ("kN"); else printf ("k%d\n", eq_id);
		} else if (!strcmp (op, "each") && n == 2) {
			visits = 0; stop_at = atoi (a1); vlen = 0; vlog[0] = 0;
			p_tree_foreach (tree, visit, &visits);
			printf ("[%s]\n", vlog);
		} else if (!strcmp (op, "clear") && n == 1) {
			p_tree_clear (tree);
			memset (present, 0, sizeof present);
			printf ("n=%d d=[%s]\n", p_tree_get_nnodes (tree), dlog);
		} else if (!strcmp (op, "count") && n == 1) printf ("%d\n", p_tree_get_nnodes (tree));
		else if (!strcmp (op, "shape") && n == 1) {
			probe_all ();
			print_shape (root);
			/* independent oracles on the reconstructed shape */
			int cnt = count_nodes (root);
			if (cnt != p_tree_get_nnodes (tree)) printf (" COUNT-MISMATCH(%d)", cnt);
			if (type == (int) P_TREE_TYPE_AVL && !avl_ok (root)) printf (" AVL-UNBALANCED");
			if (type == (int) P_TREE_TYPE_RB) { RBSet s = rb_set (root); if (s.b == 0) printf (" RB-NOT-COLOURABLE"); }
			if (type != (int) P_TREE_TYPE_BINARY && cnt > 0) {
				/* lookup depth bounds (exact integer forms): AVL fib(h+2) <= n+1 ; RB h <= 2*log2(n+1) */
				int h = height (root);
				if (type == (int) P_TREE_TYPE_AVL) { unsigned long long fa = 1, fb = 1; for (int i = 2; i < h + 2; ++i) { unsigned long long t = fa + fb; fa = fb; fb = t; } if (fb > (unsigned long long) cnt + 1) printf (" AVL-TOO-DEEP(h=%d)", h); }
				else { int lg = 0; while ((2ULL << lg) <= (unsigned long long) cnt + 1) ++lg; /* lg = floor(log2(n+1)) */ if ((1ULL << ((h + 1) / 2)) > (unsigned long long) cnt + 1) printf (" RB-TOO-DEEP(h=%d)", h); (void) lg; }
				if (maxcmp > h) printf (" LOOKUP-COMPARES-MORE-THAN-HEIGHT(%d>%d)", maxcmp, h);
			}
			printf ("\n");
		} else puts ("bad-op");
		fflush (stdout);
	}
	drop_tree ();
	p_libsys_shutdown ();
	return 0;
}

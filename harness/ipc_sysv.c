/* C06 / C07, System V variants: the real PSemaphore / PShm of psemaphore-sysv.c / pshm-sysv.c (linked INSTEAD of the
 * posix files) in several processes.  Same server / worker / observer layout and the same op lines as harness/ipc.c
 * as far as the PUBLIC API goes:
 *   W new-sem H sN INIT OPEN|CREATE | W acq H | W rel H | W own H | W free H
 *   W new-shm H mN SIZE [ro] | W lock H | W unlock H | W wr H OFF BYTE | W rd H OFF | W size H
 *   W kill (SIGKILL of the idle worker, a fresh process takes its place) | obs | reset
 * Every system call the library makes during an op (open/close/stat/ftok/unlink of the key files, semget/semctl/semop,
 * shmget/shmctl/shmat/shmdt) goes through a link-time wrapper (-Wl,--wrap=…) and is logged: the answer of an op is
 * `<system calls> => <result>` exactly as `pvdriver ipcsysv` (model PV.Model.IPCSysV) prints it;
 *   W crash K <op…> / W crashA K <op…>   SIGKILL of the worker when K system calls of the op have completed (at the
 *                                         entry of the next one or at the return / right after the K-th call),
 *   W eintr N1,N2,… <op…>                Ni EINTR results before the i-th system call where it is a semop;
 * `obs` prints `<api view> || <internal>`.
 * `obs`: value of every semaphore name observed through the API (an observer process drains it through a fresh OPEN
 * handle and gives the units back; every step is SEM_UNDO neutral) and cross-checked with semctl(GETVAL); segment
 * size (shmctl IPC_STAT), lock value, what every live PShm handle reports and reads, and the number of attachments
 * of every worker per name (/proc/self/maps lines of the shm ids the worker got for that name).
 * Key files live in $TMPDIR (the check points it to a private directory); every System V id seen is logged to
 * $PVIPC_IDLOG and removed at reset / exit;  `ipc_sysv cleanup DIR IDLOG` is the janitor for a killed run. */
#define _GNU_SOURCE
#include <plibsys.h>
#include <pipc-private.h>
#include <stdio.h>
#include <stdlib.h>
#include <string.h>
#include <stdarg.h>
#include <unistd.h>
#include <time.h>
#include <errno.h>
#include <fcntl.h>
#include <signal.h>
#include <poll.h>
#include <dirent.h>
#include <stdatomic.h>
#include <sys/time.h>
#include <sys/mman.h>
#include <sys/stat.h>
#include <sys/wait.h>
#include <sys/prctl.h>
#include <sys/ipc.h>
#include <sys/sem.h>
#include <sys/shm.h>

#define NW 3
#define NN 4
#define NH 16
#define LINE 4096
#define PATHLEN 512

union semun_ { int val; struct semid_ds *buf; unsigned short *array; };

/* ---------------------------------------------------------------- names and key files */
static char sem_name[NN][512], shm_name[NN][512];
static char sem_file[NN][PATHLEN], shm_file[NN][PATHLEN], lock_file[NN][PATHLEN];   /* ftok key files */
static int generation;

static void file_of (char *out, const char *name, const char *suffix) {
	char buf[1024];
	snprintf (buf, sizeof buf, "%s%s", name, suffix);
	pchar *k = p_ipc_get_platform_key (buf, FALSE);
	snprintf (out, PATHLEN, "%s", k ? k : "/nonexistent/?");
	p_free (k);
}

static long long run_tag (void) {
	static long long t;
	if (!t) { struct timespec ts; clock_gettime (CLOCK_REALTIME, &ts); t = (long long) ts.tv_sec * 1000000000LL + ts.tv_nsec; }
	return t;
}

static void make_names (void) {
	/* as in harness/ipc.c: names 0 and 1 differ only in their first byte, names 2 and 3 are ~300 bytes long and
	 * differ only in their last byte */
	for (int i = 0; i < NN; ++i) {
		char fill[300]; memset (fill, 'x', sizeof fill); fill[i >= 2 ? 280 : 0] = 0;
		if (i < 2) {
			snprintf (sem_name[i], sizeof sem_name[i], "%cvsysv-%%s%%n\xc3\xa9\xff-%d-%llx-%d-sem", i ? 'q' : 'p', (int) getpid (), run_tag (), generation);
			snprintf (shm_name[i], sizeof shm_name[i], "%cvsysv-%%s%%n\xc3\xa9\xff-%d-%llx-%d-shm", i ? 'q' : 'p', (int) getpid (), run_tag (), generation);
		} else {
			snprintf (sem_name[i], sizeof sem_name[i], "pvsysv-%d-%llx-%d-%ss%d", (int) getpid (), run_tag (), generation, fill, i);
			snprintf (shm_name[i], sizeof shm_name[i], "pvsysv-%d-%llx-%d-%sm%d", (int) getpid (), run_tag (), generation, fill, i);
		}
		file_of (sem_file[i], sem_name[i], "_p_sem_object");
		file_of (shm_file[i], shm_name[i], "_p_shm_object");
		file_of (lock_file[i], shm_file[i], "_p_sem_object");
	}
	++generation;
}

/* ---------------------------------------------------------------- System V ids: lookup, log, removal */
static int seen_sem[4096], n_seen_sem, seen_shm[4096], n_seen_shm;

static void log_id (char kind, int id) {
	int *tab = kind == 's' ? seen_sem : seen_shm, *n = kind == 's' ? &n_seen_sem : &n_seen_shm;
	for (int i = 0; i < *n; ++i) if (tab[i] == id) return;
	if (*n < 4096) tab[(*n)++] = id;
	const char *p = getenv ("PVIPC_IDLOG");
	if (p) { FILE *f = fopen (p, "a"); if (f) { fprintf (f, "%c %d\n", kind, id); fclose (f); } }
}

/* id of the semaphore set / segment the key file currently names; -1: none */
static int sem_id_of (const char *file) {
	struct stat st;
	if (stat (file, &st) != 0) return -1;
	key_t k = ftok (file, 'P');
	if (k == -1) return -1;
	int id = semget (k, 0, 0);
	if (id >= 0) log_id ('s', id);
	return id;
}
static int shm_id_of (const char *file) {
	struct stat st;
	if (stat (file, &st) != 0) return -1;
	key_t k = ftok (file, 'P');
	if (k == -1) return -1;
	int id = shmget (k, 0, 0);
	if (id >= 0) log_id ('m', id);
	return id;
}

static void scan_ids (void) {
	for (int i = 0; i < NN; ++i) { sem_id_of (sem_file[i]); shm_id_of (shm_file[i]); sem_id_of (lock_file[i]); }
}

/* only objects with a key made by ftok (…, 'P') (or already marked for removal: key 0) are ours */
static void rm_sem_id (int id) {
	struct semid_ds ds; union semun_ u; u.buf = &ds;
	if (semctl (id, 0, IPC_STAT, u) != 0) return;
	if (((unsigned) ds.sem_perm.__key >> 24) != 'P') return;
	semctl (id, 0, IPC_RMID);
}
static void rm_shm_id (int id) {
	struct shmid_ds ds;
	if (shmctl (id, IPC_STAT, &ds) != 0) return;
	if (ds.shm_perm.__key != 0 && ((unsigned) ds.shm_perm.__key >> 24) != 'P') return;
	shmctl (id, IPC_RMID, NULL);
}

static void remove_all (void) {
	scan_ids ();
	for (int i = 0; i < n_seen_sem; ++i) rm_sem_id (seen_sem[i]);
	for (int i = 0; i < n_seen_shm; ++i) rm_shm_id (seen_shm[i]);
	n_seen_sem = n_seen_shm = 0;
	for (int i = 0; i < NN; ++i) { unlink (sem_file[i]); unlink (shm_file[i]); unlink (lock_file[i]); }
}

/* janitor: everything a killed run left behind (ids of the log, whatever the key files in DIR still name, the files) */
static int janitor (const char *dir, const char *idlog) {
	int removed = 0;
	DIR *d = opendir (dir);
	struct dirent *e;
	while (d && (e = readdir (d))) {
		if (e->d_name[0] == '.') continue;
		char p[PATHLEN * 2]; snprintf (p, sizeof p, "%s/%s", dir, e->d_name);
		key_t k = ftok (p, 'P');
		if (k != -1) {
			int id = semget (k, 0, 0);
			if (id >= 0 && semctl (id, 0, IPC_RMID) == 0) ++removed;
			id = shmget (k, 0, 0);
			if (id >= 0 && shmctl (id, IPC_RMID, NULL) == 0) ++removed;
		}
		unlink (p);
	}
	if (d) closedir (d);
	FILE *f = fopen (idlog, "r");
	char kind; int id;
	while (f && fscanf (f, " %c %d", &kind, &id) == 2) {
		if (kind == 's') {
			struct semid_ds ds; union semun_ u; u.buf = &ds;
			if (semctl (id, 0, IPC_STAT, u) == 0 && ((unsigned) ds.sem_perm.__key >> 24) == 'P' && semctl (id, 0, IPC_RMID) == 0) ++removed;
		} else {
			struct shmid_ds ds;
			if (shmctl (id, IPC_STAT, &ds) == 0 && (ds.shm_perm.__key == 0 || ((unsigned) ds.shm_perm.__key >> 24) == 'P')) {
				if (ds.shm_perm.__key != 0 && shmctl (id, IPC_RMID, NULL) == 0) ++removed;
				else if (ds.shm_perm.__key == 0 && ds.shm_nattch == 0) { shmctl (id, IPC_RMID, NULL); ++removed; }
			}
		}
	}
	if (f) fclose (f);
	printf ("%d\n", removed);
	return 0;
}

/* ---------------------------------------------------------------- pipes */
static int resp_fd = -1, cmd_fd = -1;

static int wr_all (int fd, const char *s, size_t n) {
	while (n) {
		ssize_t r = write (fd, s, n);
		if (r < 0) { if (errno == EINTR) continue; return -1; }
		s += r; n -= (size_t) r;
	}
	return 0;
}

static void emit (const char *fmt, ...) {
	char b[LINE]; va_list ap;
	va_start (ap, fmt); int n = vsnprintf (b, sizeof b, fmt, ap); va_end (ap);
	if (n >= (int) sizeof b) n = (int) sizeof b - 1;
	if (wr_all (resp_fd, b, (size_t) n) != 0) _exit (7);
}

/* ---------------------------------------------------------------- wrappers (armed only while a worker runs an op) */
int __real_open (const char *, int, ...);
int __real_close (int);
int __real_stat (const char *, struct stat *);
key_t __real_ftok (const char *, int);
int __real_unlink (const char *);
int __real_semget (key_t, int, int);
int __real_semctl (int, int, int, ...);
int __real_semop (int, struct sembuf *, size_t);
int __real_shmget (key_t, size_t, int);
int __real_shmctl (int, int, struct shmid_ds *);
void *__real_shmat (int, const void *, int);
int __real_shmdt (const void *);

static int armed, ncalls, crash_at = -1, crash_after = -1, eintr_script[32], eintr_n;
static char last_ftok[16] = "?";

static const char *ename (int e) {
	static char b[16];
	switch (e) {
	case EINTR: return "EINTR"; case EEXIST: return "EEXIST"; case ENOENT: return "ENOENT"; case EINVAL: return "EINVAL";
	case EIDRM: return "EIDRM"; case ERANGE: return "ERANGE"; case EACCES: return "EACCES";
	default: snprintf (b, sizeof b, "E%d", e); return b;
	}
}

static const char *sym_of_path (const char *p, char *out) {
	for (int i = 0; i < NN; ++i) {
		if (!strcmp (p, sem_file[i])) { snprintf (out, 16, "s%d", i); return out; }
		if (!strcmp (p, shm_file[i])) { snprintf (out, 16, "m%d", i); return out; }
		if (!strcmp (p, lock_file[i])) { snprintf (out, 16, "m%d.l", i); return out; }
	}
	snprintf (out, 16, "?");
	return out;
}

/* entry of a wrapped call: 1 = an EINTR is injected instead of the real call */
static int pre (int interruptible, const char *desc) {
	if (crash_at >= 0 && ncalls == crash_at) raise (SIGKILL);
	if (interruptible && ncalls < eintr_n && eintr_script[ncalls] > 0) {
		eintr_script[ncalls]--;
		emit ("T %s=EINTR\n", desc);
		return 1;
	}
	return 0;
}

static void post (const char *desc, int failed, int err, const char *val) {
	++ncalls;
	if (failed) emit ("T %s=%s\n", desc, ename (err));
	else emit ("T %s=%s\n", desc, val ? val : "ok");
	if (crash_after >= 0 && ncalls == crash_after) raise (SIGKILL);
	errno = err;
}

int __wrap_open (const char *path, int flags, ...) {
	va_list ap; va_start (ap, flags); mode_t mode = (flags & O_CREAT) ? va_arg (ap, mode_t) : 0; va_end (ap);
	if (!armed) return __real_open (path, flags, mode);
	char d[96], sb[16]; snprintf (d, sizeof d, "open(%s)/%d/%d", sym_of_path (path, sb), flags, (int) mode);
	pre (0, d);
	int r = __real_open (path, flags, mode), e = errno;
	post (d, r < 0, e, NULL);
	return r;
}
int __wrap_close (int fd) {
	if (!armed) return __real_close (fd);
	pre (0, "close");
	int r = __real_close (fd), e = errno;
	post ("close", r != 0, e, NULL);
	return r;
}
int __wrap_stat (const char *path, struct stat *st) {
	if (!armed) return __real_stat (path, st);
	char d[64], sb[16]; snprintf (d, sizeof d, "stat(%s)", sym_of_path (path, sb));
	pre (0, d);
	int r = __real_stat (path, st), e = errno;
	post (d, r != 0, e, NULL);
	return r;
}
key_t __wrap_ftok (const char *path, int proj) {
	if (!armed) return __real_ftok (path, proj);
	char d[64]; snprintf (d, sizeof d, "ftok(%s)/%d", sym_of_path (path, last_ftok), proj);
	pre (0, d);
	key_t r = __real_ftok (path, proj); int e = errno;
	post (d, r == (key_t) -1, e, NULL);
	return r;
}
int __wrap_unlink (const char *path) {
	if (!armed) return __real_unlink (path);
	char d[64], sb[16]; snprintf (d, sizeof d, "unlink(%s)", sym_of_path (path, sb));
	pre (0, d);
	int r = __real_unlink (path), e = errno;
	post (d, r != 0, e, NULL);
	return r;
}
int __wrap_semget (key_t k, int n, int flags) {
	if (!armed) return __real_semget (k, n, flags);
	char d[96]; snprintf (d, sizeof d, "semget(%s)/%d/%d", last_ftok, n, flags);
	pre (0, d);
	int r = __real_semget (k, n, flags), e = errno;
	if (r >= 0) log_id ('s', r);
	post (d, r < 0, e, NULL);
	return r;
}
int __wrap_semctl (int id, int num, int cmd, ...) {
	int v = 0;
	if (cmd == SETVAL) { va_list ap; va_start (ap, cmd); union semun_ u = va_arg (ap, union semun_); va_end (ap); v = u.val; }
	union semun_ u; u.val = v;
	if (!armed) return cmd == SETVAL ? __real_semctl (id, num, cmd, u) : __real_semctl (id, num, cmd);
	char d[64]; snprintf (d, sizeof d, "semctl/%d/%d", cmd, v);
	pre (0, d);
	int r = cmd == SETVAL ? __real_semctl (id, num, cmd, u) : __real_semctl (id, num, cmd), e = errno;
	post (d, r < 0, e, NULL);
	return r;
}
int __wrap_semop (int id, struct sembuf *b, size_t n) {
	if (!armed) return __real_semop (id, b, n);
	char d[64]; snprintf (d, sizeof d, "semop/%d/%d/%d", (int) b->sem_num, (int) b->sem_op, (int) b->sem_flg);
	if (pre (1, d)) { errno = EINTR; return -1; }
	int r = __real_semop (id, b, n), e = errno;
	post (d, r != 0, e, NULL);
	return r;
}
int __wrap_shmget (key_t k, size_t size, int flags) {
	if (!armed) return __real_shmget (k, size, flags);
	char d[96]; snprintf (d, sizeof d, "shmget(%s)/%zu/%d", last_ftok, size, flags);
	pre (0, d);
	int r = __real_shmget (k, size, flags), e = errno;
	if (r >= 0) log_id ('m', r);
	post (d, r < 0, e, NULL);
	return r;
}
int __wrap_shmctl (int id, int cmd, struct shmid_ds *ds) {
	if (!armed) return __real_shmctl (id, cmd, ds);
	char d[64], v[64]; snprintf (d, sizeof d, "shmctl/%d", cmd);
	pre (0, d);
	int r = __real_shmctl (id, cmd, ds), e = errno;
	if (r == 0 && cmd == IPC_STAT && ds) snprintf (v, sizeof v, "%zu:%d", (size_t) ds->shm_segsz, (int) ds->shm_nattch);
	post (d, r != 0, e, (r == 0 && cmd == IPC_STAT && ds) ? v : NULL);
	return r;
}
void *__wrap_shmat (int id, const void *a, int flags) {
	if (!armed) return __real_shmat (id, a, flags);
	char d[64]; snprintf (d, sizeof d, "shmat/%d", flags);
	pre (0, d);
	void *r = __real_shmat (id, a, flags); int e = errno;
	post (d, r == (void *) -1, e, NULL);
	return r;
}
int __wrap_shmdt (const void *a) {
	if (!armed) return __real_shmdt (a);
	pre (0, "shmdt");
	int r = __real_shmdt (a), e = errno;
	post ("shmdt", r != 0, e, NULL);
	return r;
}

/* ---------------------------------------------------------------- worker */
static void *hs[NH];
static int htype[NH];    /* 0 none, 1 semaphore, 2 shm */
static int my_shmid[256], my_shmname[256], n_my_shm;     /* shm ids this worker got, per name */

static void fail_str (char *out, size_t n, PError *err) {
	snprintf (out, n, "fail %d/%d", err ? p_error_get_code (err) : 0, err ? p_error_get_native_code (err) : 0);
	if (err) p_error_free (err);
}

static unsigned cksum (const unsigned char *p, size_t n) {
	unsigned long long acc = 0;
	for (size_t i = 0; i < n; ++i) acc = (acc + (unsigned long long) (i + 1) * p[i]) % 65521ULL;
	return (unsigned) acc;
}

static void do_op (char **t, int n, char *res, size_t rn) {
	PError *err = NULL;
	long h = n > 1 ? strtol (t[1], NULL, 10) : -1;
	snprintf (res, rn, "bad-op");
	if (n < 2 || h < 0 || h >= NH) return;
	if (!strcmp (t[0], "new-sem") && n == 5 && !htype[h] && t[2][0] == 's') {
		int i = atoi (t[2] + 1); if (i < 0 || i >= NN) return;
		int mode = !strcmp (t[4], "CREATE") ? P_SEM_ACCESS_CREATE : P_SEM_ACCESS_OPEN;
		armed = 1; PSemaphore *s = p_semaphore_new (sem_name[i], atoi (t[3]), mode, &err); armed = 0;
		if (s) { hs[h] = s; htype[h] = 1; snprintf (res, rn, "ok"); } else fail_str (res, rn, err);
	} else if (!strcmp (t[0], "new-shm") && (n == 4 || n == 5) && !htype[h] && t[2][0] == 'm') {
		int i = atoi (t[2] + 1); if (i < 0 || i >= NN) return;
		armed = 1;
		PShm *s = p_shm_new (shm_name[i], (psize) strtoull (t[3], NULL, 10),
				     n == 5 ? P_SHM_ACCESS_READONLY : P_SHM_ACCESS_READWRITE, &err);
		armed = 0;
		if (s) {
			hs[h] = s; htype[h] = 2; snprintf (res, rn, "ok %zu", (size_t) p_shm_get_size (s));
			int id = shm_id_of (shm_file[i]);
			if (id >= 0 && n_my_shm < 256) { my_shmid[n_my_shm] = id; my_shmname[n_my_shm++] = i; }
		} else fail_str (res, rn, err);
	} else if ((!strcmp (t[0], "acq") || !strcmp (t[0], "rel")) && n == 2 && htype[h] == 1) {
		armed = 1; pboolean r = t[0][0] == 'a' ? p_semaphore_acquire (hs[h], &err) : p_semaphore_release (hs[h], &err); armed = 0;
		if (r) snprintf (res, rn, "ok"); else fail_str (res, rn, err);
	} else if ((!strcmp (t[0], "lock") || !strcmp (t[0], "unlock")) && n == 2 && htype[h] == 2) {
		armed = 1; pboolean r = t[0][0] == 'l' ? p_shm_lock (hs[h], &err) : p_shm_unlock (hs[h], &err); armed = 0;
		if (r) snprintf (res, rn, "ok"); else fail_str (res, rn, err);
	} else if (!strcmp (t[0], "own") && n == 2 && htype[h]) {
		if (htype[h] == 1) p_semaphore_take_ownership (hs[h]); else p_shm_take_ownership (hs[h]);
		snprintf (res, rn, "ok");
	} else if (!strcmp (t[0], "free") && n == 2 && htype[h]) {
		int ty = htype[h]; void *p = hs[h];
		hs[h] = NULL; htype[h] = 0;
		armed = 1; if (ty == 1) p_semaphore_free (p); else p_shm_free (p); armed = 0;
		snprintf (res, rn, "ok");
	} else if (!strcmp (t[0], "size") && n == 2 && htype[h] == 2) {
		snprintf (res, rn, "%zu", (size_t) p_shm_get_size (hs[h]));
	} else if (!strcmp (t[0], "rd") && n == 3 && htype[h] == 2) {
		volatile unsigned char *a = p_shm_get_address (hs[h]);
		snprintf (res, rn, "%02x", a[strtoull (t[2], NULL, 10)]);
	} else if (!strcmp (t[0], "wr") && n == 4 && htype[h] == 2) {
		volatile unsigned char *a = p_shm_get_address (hs[h]);
		a[strtoull (t[2], NULL, 10)] = (unsigned char) atoi (t[3]);
		snprintf (res, rn, "ok");
	}
}

static int split (char *line, char **t, int max) {
	int n = 0;
	for (char *p = strtok (line, " \t\r\n"); p && n < max; p = strtok (NULL, " \t\r\n")) t[n++] = p;
	return n;
}

static int read_line (int fd, char *buf, size_t n) {
	size_t i = 0;
	while (i + 1 < n) {
		char c; ssize_t r = read (fd, &c, 1);
		if (r == 0) return -1;
		if (r < 0) { if (errno == EINTR) continue; return -1; }
		if (c == '\n') break;
		buf[i++] = c;
	}
	buf[i] = 0;
	return (int) i;
}

static void views (void) {
	char out[LINE]; size_t o = 0;
	out[0] = 0;
	for (int h = 0; h < NH; ++h) if (htype[h] == 2) {
		size_t sz = p_shm_get_size (hs[h]);
		const unsigned char *a = p_shm_get_address (hs[h]);
		o += (size_t) snprintf (out + o, sizeof out - o, " H%d=%zu:", h, sz);
		for (size_t i = 0; i < sz && i < 8; ++i) o += (size_t) snprintf (out + o, sizeof out - o, "%02x", a[i]);
		o += (size_t) snprintf (out + o, sizeof out - o, ":%u", cksum (a, sz));
	}
	emit ("R%s\n", out);
}

/* attachments of this process per name: /proc/self/maps lines "/SYSV…" whose inode column (= the shm id) is one of
 * the ids this worker obtained for that name */
static void maps (void) {
	int cnt[NN] = {0};
	FILE *f = fopen ("/proc/self/maps", "r");
	char l[512];
	while (f && fgets (l, sizeof l, f)) {
		unsigned long a, b, ino; char path[256] = "";
		if (sscanf (l, "%lx-%lx %*s %*s %*s %lu %255s", &a, &b, &ino, path) < 4) continue;
		if (strncmp (path, "/SYSV", 5) != 0) continue;
		for (int j = 0; j < n_my_shm; ++j) if ((unsigned long) my_shmid[j] == ino) { cnt[my_shmname[j]]++; break; }
	}
	if (f) fclose (f);
	char out[LINE]; size_t o = 0; out[0] = 0;
	for (int i = 0; i < NN; ++i) if (cnt[i]) o += (size_t) snprintf (out + o, sizeof out - o, " m%d#%d", i, cnt[i]);
	emit ("R%s\n", out);
}

/* observer: drain a semaphore through a fresh OPEN handle, report every unit, put them back.  The unit that wakes the
 * blocked observer is the server's sentinel; the observer gives back n + 1 units, the server then takes one: every
 * process ends with a zero SEM_UNDO adjustment */
static void drain (const char *name) {
	PSemaphore *s = p_semaphore_new (name, 0, P_SEM_ACCESS_OPEN, NULL);
	if (!s) { emit ("R fail\n"); return; }
	int n = 0;
	for (;;) {
		if (!p_semaphore_acquire (s, NULL)) { emit ("R fail\n"); p_semaphore_free (s); return; }
		struct pollfd pf = { cmd_fd, POLLIN, 0 };
		if (poll (&pf, 1, 0) == 1) { char c; if (read (cmd_fd, &c, 1) == 1) break; }
		++n;
		emit ("U\n");
	}
	for (int i = 0; i < n + 1; ++i) p_semaphore_release (s, NULL);
	p_semaphore_free (s);
	emit ("R %d\n", n);
}

static void worker_loop (void) {
	char line[LINE], res[256], *t[16];
	while (read_line (cmd_fd, line, sizeof line) >= 0) {
		int n = split (line, t, 16);
		if (n == 0) continue;
		if (!strcmp (t[0], "views")) { views (); continue; }
		if (!strcmp (t[0], "maps")) { maps (); continue; }
		if (!strcmp (t[0], "drain") && n == 2) { drain (t[1]); continue; }
		crash_at = crash_after = -1; eintr_n = 0; ncalls = 0;
		char **op = t; int on = n;
		if (!strcmp (t[0], "crash") && n > 2) { crash_at = atoi (t[1]); op += 2; on -= 2; }
		else if (!strcmp (t[0], "crashA") && n > 2) { crash_after = atoi (t[1]); op += 2; on -= 2; }
		else if (!strcmp (t[0], "eintr") && n > 2) {
			for (char *p = strtok (t[1], ","); p && eintr_n < 32; p = strtok (NULL, ",")) eintr_script[eintr_n++] = atoi (p);
			op += 2; on -= 2;
		}
		do_op (op, on, res, sizeof res);
		if (crash_at >= 0 && ncalls == crash_at && ncalls > 0) raise (SIGKILL);
		emit ("R %s\n", res);
	}
	_exit (0);
}

/* ---------------------------------------------------------------- server */
struct child { pid_t pid; int cmd, resp; };
static struct child W[NW], OBS;
static int owner[NH];

static int op_pos (char **t, int n, int from) {
	if (from < n && (!strcmp (t[from], "crash") || !strcmp (t[from], "crashA") || !strcmp (t[from], "eintr"))) return from + 2;
	return from;
}

static int op_allowed (char **t, int n, int from, int w) {
	int p = op_pos (t, n, from);
	if (p + 1 >= n) return 0;
	int h = atoi (t[p + 1]);
	if (t[p + 1][0] < '0' || t[p + 1][0] > '9' || h >= NH) return 0;
	if (!strncmp (t[p], "new-", 4)) return owner[h] == -1;
	return owner[h] == w;
}

static void op_done (char **t, int n, int from, int w, const char *res) {
	int p = op_pos (t, n, from);
	if (p + 1 >= n) return;
	int h = atoi (t[p + 1]);
	if (h < 0 || h >= NH) return;
	if (!strncmp (t[p], "new-", 4) && !strncmp (res, "ok", 2)) owner[h] = w;
	if (!strcmp (t[p], "free") && !strncmp (res, "ok", 2)) owner[h] = -1;
}

static void spawn (struct child *c) {
	int a[2], b[2];
	if (pipe (a) || pipe (b)) { perror ("pipe"); exit (2); }
	fflush (stdout);
	pid_t p = fork ();
	if (p < 0) { perror ("fork"); exit (2); }
	if (p == 0) {
		prctl (PR_SET_PDEATHSIG, SIGKILL);
		if (getppid () == 1) _exit (0);
		close (a[1]); close (b[0]);
		for (int i = 0; i < NW; ++i) if (W[i].pid > 0 && &W[i] != c) { close (W[i].cmd); close (W[i].resp); }
		if (OBS.pid > 0 && &OBS != c) { close (OBS.cmd); close (OBS.resp); }
		cmd_fd = a[0]; resp_fd = b[1];
		worker_loop ();
	}
	close (a[0]); close (b[1]);
	c->pid = p; c->cmd = a[1]; c->resp = b[0];
}

static void reap (struct child *c, int kill_it) {
	if (c->pid <= 0) return;
	if (kill_it) kill (c->pid, SIGKILL);
	close (c->cmd); close (c->resp);
	waitpid (c->pid, NULL, 0);
	c->pid = 0;
}

static void send_cmd (struct child *c, const char *s) {
	wr_all (c->cmd, s, strlen (s));
	wr_all (c->cmd, "\n", 1);
}

/* timeout_ms < 0: a short wait of -timeout_ms * 100 microseconds (polling for "the observer sleeps in semop") */
static int recv_line (struct child *c, char *buf, size_t n, int timeout_ms) {
	size_t i = 0;
	for (;;) {
		struct pollfd pf = { c->resp, POLLIN, 0 };
		struct timespec ts = { 0, -timeout_ms * 100000L };
		int r = timeout_ms < 0 ? ppoll (&pf, 1, &ts, NULL) : poll (&pf, 1, timeout_ms);
		if (r == 0) return -2;
		if (r < 0) { if (errno == EINTR) continue; return -1; }
		char ch; ssize_t k = read (c->resp, &ch, 1);
		if (k == 0) return -1;
		if (k < 0) { if (errno == EINTR) continue; return -1; }
		if (ch == '\n') break;
		if (i + 1 < n) buf[i++] = ch;
	}
	buf[i] = 0;
	return (int) i;
}

#define OP_TIMEOUT 5000

/* 'R' result, 'D' died, 'T' timeout; system-call tokens ("T …") are appended to `trace` */
static char *cur_trace; static size_t cur_trace_n;
static int collect (struct child *c, char *res, size_t rn) {
	char l[LINE];
	for (;;) {
		int k = recv_line (c, l, sizeof l, OP_TIMEOUT);
		if (k == -1) return 'D';
		if (k == -2) return 'T';
		if (l[0] == 'T' && l[1] == ' ') {
			if (cur_trace) { size_t o = strlen (cur_trace); snprintf (cur_trace + o, cur_trace_n - o, "%s%s", o ? " " : "", l + 2); }
		} else if (l[0] == 'R') { snprintf (res, rn, "%s", l[1] == ' ' ? l + 2 : l + 1); return 'R'; }
	}
}

static void respawn (int w) {
	reap (&W[w], 1); spawn (&W[w]);
	for (int h = 0; h < NH; ++h) if (owner[h] == w) owner[h] = -1;
}

/* sleeping in semop (65) / semtimedop (220) */
static int blocked_in_semop (pid_t p) {
	char path[64], b[64] = "";
	snprintf (path, sizeof path, "/proc/%d/syscall", (int) p);
	int fd = open (path, O_RDONLY);
	if (fd < 0) return 0;
	ssize_t n = read (fd, b, sizeof b - 1);
	close (fd);
	if (n <= 0) return 0;
	b[n] = 0;
	return !strncmp (b, "65 ", 3) || !strncmp (b, "220 ", 4);
}

static void respawn_obs (void) { reap (&OBS, 1); spawn (&OBS); }

/* value of the semaphore `name` (whose set exists: id), observed through the API only and cross-checked with GETVAL;
 * -1 on failure, -2 on a GETVAL mismatch */
static int drain_value (const char *name, int id) {
	char l[LINE];
	snprintf (l, sizeof l, "drain %s", name);
	send_cmd (&OBS, l);
	int n = 0, idle = 0;
	for (;;) {
		int k = recv_line (&OBS, l, sizeof l, -1);
		if (k == -1) { respawn_obs (); return -1; }
		if (k == -2) {
			if (blocked_in_semop (OBS.pid)) break;
			if (++idle > 30000) { respawn_obs (); return -1; }
			continue;
		}
		if (l[0] == 'U') { ++n; idle = 0; if (n > 100000) { respawn_obs (); return -1; } }
		else if (l[0] == 'R') return -1;
	}
	wr_all (OBS.cmd, "x", 1);
	PSemaphore *s = p_semaphore_new (name, 0, P_SEM_ACCESS_OPEN, NULL);
	if (!s) { respawn_obs (); return -1; }
	p_semaphore_release (s, NULL);
	int got = -1;
	for (;;) {
		int k = recv_line (&OBS, l, sizeof l, 2000);
		if (k < 0) { respawn_obs (); p_semaphore_free (s); return -1; }     /* the unit did not reach the observer: not one counter */
		if (l[0] == 'U') ++n;
		if (l[0] == 'R') { got = atoi (l + 2); break; }
	}
	p_semaphore_acquire (s, NULL);      /* the sentinel comes back: n + 1 units were released by the observer */
	p_semaphore_free (s);
	if (got != n) return -1;
	if (semctl (id, 0, GETVAL) != n) return -2;
	return n;
}

static void obs (void) {
	char api[LINE * 2], in[LINE]; size_t a = 0, b = 0;
	api[0] = in[0] = 0;
	for (int i = 0; i < NN; ++i) {
		int id = sem_id_of (sem_file[i]);
		if (id >= 0) {
			int v = drain_value (sem_name[i], id);
			if (v == -2) a += (size_t) snprintf (api + a, sizeof api - a, "s%d=GETVAL-MISMATCH ", i);
			else a += (size_t) snprintf (api + a, sizeof api - a, "s%d=%d ", i, v);
		} else a += (size_t) snprintf (api + a, sizeof api - a, "s%d=- ", i);
		b += (size_t) snprintf (in + b, sizeof in - b, "s%d.f=%s ", i, access (sem_file[i], F_OK) == 0 ? "+" : "-");
	}
	for (int i = 0; i < NN; ++i) {
		int id = shm_id_of (shm_file[i]);
		int lk = sem_id_of (lock_file[i]);
		struct shmid_ds ds;
		if (id >= 0 && shmctl (id, IPC_STAT, &ds) == 0) {
			if (lk >= 0) {
				int v = drain_value (shm_file[i], lk);
				if (v == -2) a += (size_t) snprintf (api + a, sizeof api - a, "m%d=%zu/GETVAL-MISMATCH ", i, (size_t) ds.shm_segsz);
				else a += (size_t) snprintf (api + a, sizeof api - a, "m%d=%zu/%d ", i, (size_t) ds.shm_segsz, v);
			} else a += (size_t) snprintf (api + a, sizeof api - a, "m%d=%zu/1 ", i, (size_t) ds.shm_segsz);
			b += (size_t) snprintf (in + b, sizeof in - b, "m%d.nattch=%d ", i, (int) ds.shm_nattch);
		} else a += (size_t) snprintf (api + a, sizeof api - a, "m%d=- ", i);
		b += (size_t) snprintf (in + b, sizeof in - b, "m%d.f=%s m%d.l=%s/f%s ", i, access (shm_file[i], F_OK) == 0 ? "+" : "-",
					i, lk >= 0 ? "+" : "-", access (lock_file[i], F_OK) == 0 ? "+" : "-");
	}
	char view[NH][256]; memset (view, 0, sizeof view);
	char mp[NW][LINE];
	for (int w = 0; w < NW; ++w) {
		char l[LINE];
		send_cmd (&W[w], "views");
		l[0] = 0;
		if (collect (&W[w], l, sizeof l) == 'R') {
			for (char *p = strtok (l, " "); p; p = strtok (NULL, " ")) {
				int h = atoi (p + 1); char *eq = strchr (p, '=');
				if (h >= 0 && h < NH && eq) snprintf (view[h], sizeof view[h], "H%d@%d=%s ", h, w, eq + 1);
			}
		}
		send_cmd (&W[w], "maps");
		mp[w][0] = 0;
		collect (&W[w], mp[w], sizeof mp[w]);
	}
	for (int h = 0; h < NH; ++h) if (view[h][0]) a += (size_t) snprintf (api + a, sizeof api - a, "%s", view[h]);
	for (int w = 0; w < NW; ++w)
		for (char *p = strtok (mp[w], " "); p; p = strtok (NULL, " "))
			a += (size_t) snprintf (api + a, sizeof api - a, "w%d:%s ", w, p);
	while (a && api[a - 1] == ' ') api[--a] = 0;
	while (b && in[b - 1] == ' ') in[--b] = 0;
	printf ("%s || %s\n", api, in);
}

static void join_toks (char *out, size_t n, char **t, int from, int to) {
	size_t o = 0; out[0] = 0;
	for (int i = from; i < to; ++i) o += (size_t) snprintf (out + o, n - o, "%s%s", i > from ? " " : "", t[i]);
}

/* ---------------------------------------------------------------- supporting stress runs (API only, as in ipc.c) */
/* stress modes: log the ids behind a semaphore name and a segment name (+ its lock) for the janitor */
static void log_ids_of (const char *semname, const char *shmname) {
	char f[PATHLEN], g[PATHLEN];
	if (semname) { file_of (f, semname, "_p_sem_object"); sem_id_of (f); }
	if (shmname) { file_of (f, shmname, "_p_shm_object"); shm_id_of (f); file_of (g, f, "_p_sem_object"); sem_id_of (g); }
}

static volatile sig_atomic_t alarms;
static void on_alarm (int sig) { (void) sig; ++alarms; }

static int stress_sem (int nproc, int v, int iters) {
	struct sh { atomic_int inside, maxin, bad; } *sh = mmap (NULL, 4096, PROT_READ | PROT_WRITE, MAP_SHARED | MAP_ANONYMOUS, -1, 0);
	char name[96]; snprintf (name, sizeof name, "pvsysv-%d-%llx-stress-s", (int) getpid (), run_tag ());
	PSemaphore *s0 = p_semaphore_new (name, v, P_SEM_ACCESS_CREATE, NULL);
	if (!s0) { puts ("stress-sem: cannot create"); return 2; }
	log_ids_of (name, NULL);
	p_semaphore_take_ownership (s0);
	pid_t ps[64];
	for (int p = 0; p < nproc && p < 64; ++p) {
		fflush (stdout);
		if ((ps[p] = fork ()) == 0) {
			PSemaphore *s = p_semaphore_new (name, 99, P_SEM_ACCESS_OPEN, NULL);
			if (!s) _exit (3);
			/* handled signals while the process sleeps in semop (never restarted by the kernel): acquire must retry */
			struct sigaction sa; memset (&sa, 0, sizeof sa); sa.sa_handler = on_alarm; sigaction (SIGALRM, &sa, NULL);
			struct itimerval itv = { { 0, 300 }, { 0, 300 } }; setitimer (ITIMER_REAL, &itv, NULL);
			for (int i = 0; i < iters; ++i) {
				if (!p_semaphore_acquire (s, NULL)) _exit (4);
				int x = atomic_fetch_add (&sh->inside, 1) + 1;
				int m = atomic_load (&sh->maxin);
				while (x > m && !atomic_compare_exchange_weak (&sh->maxin, &m, x)) ;
				if (x > v) atomic_store (&sh->bad, 1);
				for (volatile int k = 0; k < 50; ++k) ;
				atomic_fetch_sub (&sh->inside, 1);
				if (!p_semaphore_release (s, NULL)) _exit (5);
			}
			p_semaphore_free (s);
			_exit (0);
		}
	}
	int bad_exit = 0;
	for (int p = 0; p < nproc && p < 64; ++p) { int stt; waitpid (ps[p], &stt, 0); if (!WIFEXITED (stt) || WEXITSTATUS (stt)) bad_exit = 1; }
	p_semaphore_free (s0);
	printf ("stress-sem(sysv) procs=%d v=%d iters=%d max_inside=%d %s\n", nproc, v, iters, atomic_load (&sh->maxin),
		(atomic_load (&sh->bad) || bad_exit) ? "VIOLATION" : "ok");
	return (atomic_load (&sh->bad) || bad_exit) ? 1 : 0;
}

/* a process sleeping in p_semaphore_acquire / p_shm_lock (semop) while handled signals arrive: the call returns only
 * with the unit (semop is never restarted by the kernel, SA_RESTART or not) */
static int eintr_wait (void) {
	char name[96]; snprintf (name, sizeof name, "pvsysv-%d-%llx-eintr", (int) getpid (), run_tag ());
	PSemaphore *s0 = p_semaphore_new (name, 0, P_SEM_ACCESS_CREATE, NULL);
	PShm *m0 = p_shm_new (name, 64, P_SHM_ACCESS_READWRITE, NULL);
	log_ids_of (name, name);
	if (!s0 || !m0 || !p_shm_lock (m0, NULL)) { puts ("eintr-wait: cannot create"); return 2; }
	p_semaphore_take_ownership (s0);
	pid_t ps[2];
	for (int k = 0; k < 2; ++k) {
		fflush (stdout);
		if ((ps[k] = fork ()) == 0) {
			PSemaphore *s = k ? NULL : p_semaphore_new (name, 9, P_SEM_ACCESS_OPEN, NULL);
			PShm *m = k ? p_shm_new (name, 0, P_SHM_ACCESS_READONLY, NULL) : NULL;
			if (!s && !m) _exit (3);
			struct sigaction sa; memset (&sa, 0, sizeof sa); sa.sa_handler = on_alarm; sa.sa_flags = k ? SA_RESTART : 0; sigaction (SIGALRM, &sa, NULL);
			struct itimerval itv = { { 0, 500 }, { 0, 500 } }; setitimer (ITIMER_REAL, &itv, NULL);
			pboolean r = k ? p_shm_lock (m, NULL) : p_semaphore_acquire (s, NULL);
			itv.it_value.tv_usec = itv.it_interval.tv_usec = 0; setitimer (ITIMER_REAL, &itv, NULL);
			_exit (!r ? 4 : alarms == 0 ? 6 : 0);
		}
	}
	usleep (80000);
	p_semaphore_release (s0, NULL);
	p_shm_unlock (m0, NULL);
	int st[2] = {0, 0};
	for (int k = 0; k < 2; ++k) waitpid (ps[k], &st[k], 0);
	p_semaphore_free (s0);
	p_shm_take_ownership (m0);
	p_shm_free (m0);
	int bad = 0;
	for (int k = 0; k < 2; ++k) if (!WIFEXITED (st[k]) || (WEXITSTATUS (st[k]) != 0 && WEXITSTATUS (st[k]) != 6)) bad = 1;
	printf ("eintr-wait(sysv) acquire=%d lock=%d (0 returned with the unit after signals, 6 no signal arrived, 4 returned FALSE) %s\n",
		WIFEXITED (st[0]) ? WEXITSTATUS (st[0]) : -1, WIFEXITED (st[1]) ? WEXITSTATUS (st[1]) : -1, bad ? "VIOLATION" : "ok");
	return bad;
}

static int stress_shm (int nproc, int iters) {
	char name[96]; snprintf (name, sizeof name, "pvsysv-%d-%llx-stress-m", (int) getpid (), run_tag ());
	PShm *m0 = p_shm_new (name, 4096, P_SHM_ACCESS_READWRITE, NULL);
	log_ids_of (NULL, name);
	if (!m0) { puts ("stress-shm: cannot create"); return 2; }
	pid_t ps[64];
	for (int p = 0; p < nproc && p < 64; ++p) {
		fflush (stdout);
		if ((ps[p] = fork ()) == 0) {
			PShm *m = p_shm_new (name, 4096, P_SHM_ACCESS_READWRITE, NULL);
			if (!m) _exit (3);
			volatile long *c = p_shm_get_address (m);
			for (int i = 0; i < iters; ++i) {
				if (!p_shm_lock (m, NULL)) _exit (4);
				long x = *c;
				for (volatile int k = 0; k < 20; ++k) ;
				*c = x + 1;
				if (!p_shm_unlock (m, NULL)) _exit (5);
			}
			p_shm_free (m);      /* detaches only: the parent stays attached */
			_exit (0);
		}
	}
	int bad_exit = 0;
	for (int p = 0; p < nproc && p < 64; ++p) { int stt; waitpid (ps[p], &stt, 0); if (!WIFEXITED (stt) || WEXITSTATUS (stt)) bad_exit = 1; }
	long got = *(volatile long *) p_shm_get_address (m0), want = (long) nproc * iters;
	p_shm_take_ownership (m0);
	p_shm_free (m0);
	printf ("stress-shm(sysv) procs=%d iters=%d counter=%ld expected=%ld %s\n", nproc, iters, got, want, (got != want || bad_exit) ? "VIOLATION" : "ok");
	return (got != want || bad_exit) ? 1 : 0;
}

int main (int argc, char **argv) {
	static char line[LINE], copy[LINE], *t[24];
	signal (SIGPIPE, SIG_IGN);
	if (argc >= 4 && !strcmp (argv[1], "cleanup")) return janitor (argv[2], argv[3]);
	p_libsys_init ();
	if (argc >= 5 && !strcmp (argv[1], "stress-sem")) return stress_sem (atoi (argv[2]), atoi (argv[3]), atoi (argv[4]));
	if (argc >= 2 && !strcmp (argv[1], "eintr-wait")) return eintr_wait ();
	if (argc >= 4 && !strcmp (argv[1], "stress-shm")) return stress_shm (atoi (argv[2]), atoi (argv[3]));
	make_names ();
	for (int h = 0; h < NH; ++h) owner[h] = -1;
	for (int w = 0; w < NW; ++w) spawn (&W[w]);
	spawn (&OBS);
	while (fgets (line, sizeof line, stdin)) {
		snprintf (copy, sizeof copy, "%s", line);
		int n = split (copy, t, 24);
		if (n == 0) continue;
		if (!strcmp (t[0], "obs") && n == 1) obs ();
		else if (!strcmp (t[0], "reset") && n == 1) {
			for (int w = 0; w < NW; ++w) reap (&W[w], 1);
			reap (&OBS, 1);
			remove_all ();
			make_names ();
			for (int w = 0; w < NW; ++w) spawn (&W[w]);
			spawn (&OBS);
			for (int h = 0; h < NH; ++h) owner[h] = -1;
			puts ("ok");
		} else {
			int w = atoi (t[0]);
			if (t[0][0] < '0' || t[0][0] > '9' || w >= NW || n < 2) puts ("bad-op");
			else if (!strcmp (t[1], "kill") && n == 2) { respawn (w); puts ("ok"); }
			else if (!op_allowed (t, n, 1, w)) puts ("bad-op");
			else {
				static char trace[LINE * 4];
				char cmd[LINE], res[256] = "";
				join_toks (cmd, sizeof cmd, t, 1, n);
				trace[0] = 0; cur_trace = trace; cur_trace_n = sizeof trace;
				send_cmd (&W[w], cmd);
				int st = collect (&W[w], res, sizeof res);
				cur_trace = NULL;
				if (st == 'R' && !strcmp (res, "bad-op")) puts ("bad-op");
				else if (st == 'R') { op_done (t, n, 1, w, res); printf ("%s => %s\n", trace, res); }
				else if (st == 'D') { printf ("%s => %s\n", trace, !strncmp (t[1], "crash", 5) ? "crashed" : "died"); respawn (w); }
				else { printf ("%s => TIMEOUT\n", trace); respawn (w); }
			}
			scan_ids ();
		}
		fflush (stdout);
	}
	for (int w = 0; w < NW; ++w) reap (&W[w], 1);
	reap (&OBS, 1);
	remove_all ();
	p_libsys_shutdown ();
	return 0;
}

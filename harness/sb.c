/* C08 harness: the real PShmBuffer, several handles of one name, op file on stdin.
 * Caller buffers are exact-size heap blocks (ASan sees any overrun on the user side); the segment
 * side is watched through an independent mapping: header positions (`pos`) and the zero tail of
 * the last page behind the segment (an out-of-segment write lands there). */
#include <plibsys.h>
#include <stdio.h>
#include <stdlib.h>
#include <string.h>
#include <unistd.h>
#include <inttypes.h>
#include <sys/wait.h>
#include <time.h>

#define MAXH 16
static PShmBuffer *hs[MAXH];
static PShm *spy;            /* independent full mapping of the same name */
static char name[128];
static int gen;
static int creator = -1;   /* the handle that created the segment; it is an owner, closing it removes the name */

static void newname (void) { snprintf (name, sizeof name, "pvsb-%d-%d", (int) getpid (), gen++); }

static int hexv (int c) { return c <= '9' ? c - '0' : (c | 32) - 'a' + 10; }

static int tail_dirty (void) {
	if (!spy) return 0;
	size_t sz = p_shm_get_size (spy), pg = (size_t) sysconf (_SC_PAGESIZE);
	size_t end = (sz + pg - 1) / pg * pg;
	unsigned char *a = p_shm_get_address (spy);
	for (size_t i = sz; i < end; ++i) if (a[i]) return 1;
	return 0;
}

static void drop_all (void) {
	/* one owner removes the name; the others are plain frees */
	int owned = 0;
	for (int i = 0; i < MAXH; ++i) if (hs[i]) {
		if (!owned) { p_shm_buffer_take_ownership (hs[i]); owned = 1; }
		p_shm_buffer_free (hs[i]); hs[i] = NULL;
	}
	if (spy) { if (!owned) p_shm_take_ownership (spy); p_shm_free (spy); spy = NULL; }
}

/* supporting run (failing-input search for the atomicity clause): a producer process and a consumer
 * process, each on its own handle of one name, stream position-unique bytes through a buffer that is
 * kept nearly full; every byte received must be the next byte of the stream. */
static unsigned char stream_byte (unsigned long long pos) { return (unsigned char) ((pos * 2654435761ULL) >> 13); }

static const char *stress (size_t cap, size_t chunk, unsigned long long total) {
	char nm[128]; snprintf (nm, sizeof nm, "pvsbx-%d-%d", (int) getpid (), gen++);
	PShmBuffer *c = p_shm_buffer_new (nm, cap, NULL);
	if (!c) return "stress setup-failed";
	pid_t pid = fork ();
	if (pid == 0) {
		PShmBuffer *p = p_shm_buffer_new (nm, cap, NULL);
		unsigned char *b = malloc (chunk);
		unsigned long long sent = 0;
		time_t t0 = time (NULL);
		while (p && sent < total && time (NULL) - t0 < 20) {
			size_t n = chunk; if (n > total - sent) n = (size_t) (total - sent);
			for (size_t i = 0; i < n; ++i) b[i] = stream_byte (sent + i);
			pssize r = p_shm_buffer_write (p, b, n, NULL);
			if (r < 0) _exit (3);
			if (r > 0) sent += (unsigned long long) r;
		}
		if (p) p_shm_buffer_free (p);
		_exit (sent == total ? 0 : 2);
	}
	unsigned char *b = malloc (chunk);
	unsigned long long got = 0; const char *res = "stress ok";
	time_t t0 = time (NULL);
	while (got < total && time (NULL) - t0 < 25) {
		pint r = p_shm_buffer_read (c, b, chunk, NULL);
		if (r < 0) { res = "stress read-error"; break; }
		for (int i = 0; i < r; ++i) if (b[i] != stream_byte (got + (unsigned long long) i)) { res = "stress MIXED-BYTES"; got = total; break; }
		if (got < total) got += (unsigned long long) r;
	}
	int st = 0; waitpid (pid, &st, 0);
	if (!strcmp (res, "stress ok") && (!WIFEXITED (st) || WEXITSTATUS (st) != 0)) res = "stress producer-failed-or-timeout";
	free (b);
	p_shm_buffer_take_ownership (c); p_shm_buffer_free (c);
	return res;
}

int main (void) {
	static char line[1 << 20], op[16], arg[1 << 19];
	p_libsys_init ();
	newname ();
	while (fgets (line, sizeof line, stdin)) {
		unsigned long h = 0; arg[0] = 0;
		int n = sscanf (line, "%15s %lu %s", op, &h, arg);
		if (n < 1) continue;
		if (!strcmp (op, "new") && n == 3 && h < MAXH && !hs[h]) {
			hs[h] = p_shm_buffer_new (name, (psize) strtoull (arg, NULL, 10), NULL);
			if (hs[h] && creator < 0) creator = (int) h;
			if (hs[h] && !spy) spy = p_shm_new (name, 0, P_SHM_ACCESS_READWRITE, NULL);
			puts (hs[h] ? "ok" : "fail");
		} else if (!strcmp (op, "close") && n == 2 && h < MAXH && hs[h] && (int) h != creator) {
			p_shm_buffer_free (hs[h]); hs[h] = NULL; puts ("ok");
		} else if (!strcmp (op, "w") && n == 3 && h < MAXH && hs[h]) {
			size_t len = (arg[0] == '-') ? 0 : strlen (arg) / 2;
			unsigned char *b = malloc (len ? len : 1);
			for (size_t i = 0; i < len; ++i) b[i] = (unsigned char) (hexv (arg[2 * i]) * 16 + hexv (arg[2 * i + 1]));
			pssize r = p_shm_buffer_write (hs[h], b, len, NULL);
			printf ("%lld\n", (long long) r);
			free (b);
		} else if (!strcmp (op, "r") && n == 3 && h < MAXH && hs[h]) {
			size_t len = strtoull (arg, NULL, 10);
			unsigned char *b = malloc (len ? len : 1);
			pint r = p_shm_buffer_read (hs[h], b, len, NULL);
			printf ("%d ", r);
			for (int i = 0; i < r; ++i) printf ("%02x", b[i]);
			printf ("\n");
			free (b);
		} else if (!strcmp (op, "clr") && n == 2 && h < MAXH && hs[h]) { p_shm_buffer_clear (hs[h]); puts ("ok"); }
		else if (!strcmp (op, "used") && n == 2 && h < MAXH && hs[h]) printf ("%lld\n", (long long) p_shm_buffer_get_used_space (hs[h], NULL));
		else if (!strcmp (op, "free") && n == 2 && h < MAXH && hs[h]) printf ("%lld\n", (long long) p_shm_buffer_get_free_space (hs[h], NULL));
		else if (!strcmp (op, "stress") && n == 3) {
			/* stress CAP CHUNK:TOTAL */
			size_t chunk = strtoull (arg, NULL, 10); char *c2 = strchr (arg, ':');
			puts (stress ((size_t) h, chunk, c2 ? strtoull (c2 + 1, NULL, 10) : 1000000ULL));
		}
		else if (!strcmp (op, "pos") && n == 1) {
			if (!spy) puts ("none");
			else { size_t rw[2]; memcpy (rw, p_shm_get_address (spy), sizeof rw); printf ("%zu %zu\n", rw[0], rw[1]); }
		} else if (!strcmp (op, "reset") && n == 1) { drop_all (); creator = -1; newname (); puts ("ok"); }
		else puts ("bad-op");
		if (tail_dirty ()) { puts ("OOB-WRITE-BEHIND-SEGMENT"); fflush (stdout); drop_all (); return 3; }
		fflush (stdout);
	}
	drop_all ();
	p_libsys_shutdown ();
	return 0;
}

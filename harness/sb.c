/* C08 harness: the real PShmBuffer, several handles of one name, op file on stdin.
 * Caller buffers are exact-size heap blocks (ASan sees any overrun on the user side); the segment
 * side is watched through an independent mapping: header positions (`pos`) and the zero tail of
 * the last page behind the segment (an out-of-segment write lands there). */
#include <plibsys.h>
#include <stdio.h>
#include <stdlib.h>
#include <string.h>
#include <unistd.h>
#include <signal.h>
#include <fcntl.h>
#include <sched.h>
#include <inttypes.h>
#include <sys/wait.h>
#include <sys/mman.h>
#include <pthread.h>
#include <stdatomic.h>
#include <time.h>

#define MAXH 16
static PShmBuffer *hs[MAXH];
static PShm *spy;            /* independent full mapping of the same name */
static char name[128];
static int gen;
static int owner[MAXH];    /* the handle unlinks the name when freed: the creating handle, and any handle after `own` */

static PShmBuffer *grave[64]; static int ngrave;   /* `abandon`: handles whose holder is gone without freeing them (a killed process) */

/* scripted failures of the lock semaphore (-Wl,--wrap=sem_wait,--wrap=sem_post): `failsem A B` makes the sem_wait (A = 1) /
 * the sem_post (B = 1) of the NEXT op line fail with EINVAL (sem_wait: not performed) */
#include <semaphore.h>
#include <errno.h>
int __real_sem_wait (sem_t *);
int __real_sem_post (sem_t *);
static int pend_wait, pend_post, fail_wait, fail_post;
/* fail_wait == 1: the call fails (EINVAL, not performed); fail_wait = N >= 2: it is interrupted N-1 times (-1 / EINTR, not
 * performed) before it is performed */
int __wrap_sem_wait (sem_t *s) {
	if (fail_wait == 1) { fail_wait = 0; errno = EINVAL; return -1; }
	if (fail_wait >= 2) { if (--fail_wait == 1) fail_wait = 0; errno = EINTR; return -1; }
	return __real_sem_wait (s);
}
/* a failing sem_post REPORTS failure but the unit is posted (otherwise the buffer's lock would stay taken for good and every
 * later op of the history would block: the buffer model has no lock state; C07 models the lock itself) */
int __wrap_sem_post (sem_t *s) { if (fail_post) { fail_post = 0; __real_sem_post (s); errno = EINVAL; return -1; } return __real_sem_post (s); }
/* the library reports a failed lock / unlock in p_shm_buffer_clear with printf: not into the answer stream */
static int q_save = -1;
static void quiet_on (void) { fflush (stdout); q_save = dup (1); int nul = open ("/dev/null", O_WRONLY); if (nul >= 0) { dup2 (nul, 1); close (nul); } }
static void quiet_off (void) { fflush (stdout); if (q_save >= 0) { dup2 (q_save, 1); close (q_save); q_save = -1; } }

static int nopen (void) { int n = 0; for (int i = 0; i < MAXH; ++i) if (hs[i]) ++n; return n; }

/* caller memory for lengths far beyond any capacity: address space only (never touched unless the library does) */
static unsigned char *big_alloc (size_t len) {
	void *p = mmap (NULL, len, PROT_READ | PROT_WRITE, MAP_PRIVATE | MAP_ANONYMOUS | MAP_NORESERVE, -1, 0);
	return p == MAP_FAILED ? NULL : p;
}
#define BIG ((size_t) 1 << 20)

/* unique per run: process ids are recycled quickly on a busy machine, and a run killed by a watchdog leaves its
 * segment and lock semaphore behind (a stale lock of value 0 would block the next harness that gets the same pid) */
static long long run_tag (void) {
	static long long t;
	if (!t) { struct timespec ts; clock_gettime (CLOCK_REALTIME, &ts); t = (long long) ts.tv_sec * 1000000000LL + ts.tv_nsec; }
	return t;
}
static void newname (void) { snprintf (name, sizeof name, "pvsb-%d-%llx-%d", (int) getpid (), run_tag (), gen++); }

static int hexv (int c) { return c <= '9' ? c - '0' : (c | 32) - 'a' + 10; }

static int tail_dirty (void) {
	if (!spy) return 0;
	size_t sz = p_shm_get_size (spy), pg = (size_t) sysconf (_SC_PAGESIZE);
	size_t end = (sz + pg - 1) / pg * pg;
	unsigned char *a = p_shm_get_address (spy);
	for (size_t i = sz; i < end; ++i) if (a[i]) return 1;
	return 0;
}

static void drop_all (void) {
	/* followers first (plain frees), then the owners: the first one removes the name; a second owner (after `own`)
	 * finds it gone, and the library says so on stdout: keep that out of the answer stream */
	int owned = 0;
	fflush (stdout);
	int save = dup (1), nul = open ("/dev/null", O_WRONLY);
	if (nul >= 0) { dup2 (nul, 1); close (nul); }
	for (int i = 0; i < MAXH; ++i) if (hs[i] && !owner[i]) { p_shm_buffer_free (hs[i]); hs[i] = NULL; }
	if (spy) {
		for (int i = 0; i < MAXH; ++i) if (hs[i]) owned = 1;
		if (!owned) p_shm_take_ownership (spy);
		p_shm_free (spy); spy = NULL;
	}
	for (int i = 0; i < MAXH; ++i) if (hs[i]) { p_shm_buffer_free (hs[i]); hs[i] = NULL; }
	while (ngrave) p_shm_buffer_free (grave[--ngrave]);      /* last: their unlink finds nothing any more */
	fflush (stdout);
	if (save >= 0) { dup2 (save, 1); close (save); }
}

/* supporting run (failing-input search for the atomicity clause): a producer process and a consumer
 * process, each on its own handle of one name, stream position-unique bytes through a buffer that is
 * kept nearly full; every byte received must be the next byte of the stream. */
static unsigned char stream_byte (unsigned long long pos) { return (unsigned char) ((pos * 2654435761ULL) >> 13); }

static const char *stress (size_t cap, size_t chunk, unsigned long long total) {
	char nm[128]; snprintf (nm, sizeof nm, "pvsbx-%d-%llx-%d", (int) getpid (), run_tag (), gen++);
	PShmBuffer *c = p_shm_buffer_new (nm, cap, NULL);
	if (!c) return "stress setup-failed";
	pid_t pid = fork ();
	if (pid == 0) {
		PShmBuffer *p = p_shm_buffer_new (nm, cap, NULL);
		unsigned char *b = malloc (chunk);
		unsigned long long sent = 0;
		time_t t0 = time (NULL);
		while (p && sent < total && time (NULL) - t0 < 20) {
			size_t n = chunk; if (n > total - sent) n = (size_t) (total - sent);
			for (size_t i = 0; i < n; ++i) b[i] = stream_byte (sent + i);
			pssize r = p_shm_buffer_write (p, b, n, NULL);
			if (r < 0) _exit (3);
			if (r > 0) sent += (unsigned long long) r;
		}
		if (p) p_shm_buffer_free (p);
		_exit (sent == total ? 0 : 2);
	}
	unsigned char *b = malloc (chunk);
	unsigned long long got = 0; const char *res = "stress ok";
	time_t t0 = time (NULL);
	while (got < total && time (NULL) - t0 < 25) {
		pint r = p_shm_buffer_read (c, b, chunk, NULL);
		if (r < 0) { res = "stress read-error"; break; }
		for (int i = 0; i < r; ++i) if (b[i] != stream_byte (got + (unsigned long long) i)) { res = "stress MIXED-BYTES"; got = total; break; }
		if (got < total) got += (unsigned long long) r;
	}
	int st = 0; waitpid (pid, &st, 0);
	if (!strcmp (res, "stress ok") && (!WIFEXITED (st) || WEXITSTATUS (st) != 0)) res = "stress producer-failed-or-timeout";
	free (b);
	p_shm_buffer_take_ownership (c); p_shm_buffer_free (c);
	return res;
}

/* supporting run, several producers and consumers: P producer PROCESSES (one handle each) write frames of exactly
 * `chunk` bytes [producer, seq(4), payload…]; C consumer THREADS of this process share ONE handle and read `chunk`
 * bytes at a time.  Writes and reads being atomic, the used space is always a whole number of frames, every read
 * returns 0 or one whole frame, every frame is self-consistent, arrives exactly once, and in order per producer and
 * consumer.  The main thread meanwhile asks for used/free space: their sum is the capacity at every instant. */
#define MAXP 8
struct mp { PShmBuffer *c; size_t cap, chunk; unsigned per; int P; atomic_uint got[MAXP]; atomic_int bad; atomic_int stop; atomic_uchar *seen; };

static unsigned char frame_byte (unsigned p, unsigned seq, size_t i) { return (unsigned char) ((p * 131u + seq * 2654435761u + (unsigned) i * 40503u) >> 7); }

static void *mp_consumer (void *arg) {
	struct mp *m = arg;
	unsigned char *b = malloc (m->chunk);
	unsigned last[MAXP]; int have[MAXP] = {0};
	while (!atomic_load (&m->stop) && !atomic_load (&m->bad)) {
		pint r = p_shm_buffer_read (m->c, b, m->chunk, NULL);
		if (r == 0) { sched_yield (); continue; }
		if (r != (pint) m->chunk) { atomic_store (&m->bad, 1); break; }          /* a torn frame */
		unsigned p = b[0], seq; memcpy (&seq, b + 1, 4);
		if (p >= (unsigned) m->P || seq >= m->per) { atomic_store (&m->bad, 2); break; }
		for (size_t i = 5; i < m->chunk; ++i) if (b[i] != frame_byte (p, seq, i)) { atomic_store (&m->bad, 3); break; }
		if (have[p] && seq <= last[p]) atomic_store (&m->bad, 4);                  /* order per producer */
		have[p] = 1; last[p] = seq;
		if (atomic_exchange (&m->seen[(size_t) p * m->per + seq], 1)) atomic_store (&m->bad, 5);   /* delivered twice */
		atomic_fetch_add (&m->got[p], 1);
	}
	free (b);
	return NULL;
}

static const char *stress_mp (size_t cap, size_t chunk, unsigned long long total, int P, int C) {
	static char res[96];
	if (P < 1 || P > MAXP || C < 1 || C > 8 || chunk < 6 || chunk > cap) return "stress bad-arguments";
	char nm[128]; snprintf (nm, sizeof nm, "pvsbx-%d-%llx-%d", (int) getpid (), run_tag (), gen++);
	struct mp m; memset (&m, 0, sizeof m);
	m.cap = cap; m.chunk = chunk; m.P = P;
	m.per = (unsigned) (total / chunk / (unsigned) P); if (m.per == 0) m.per = 1;
	m.c = p_shm_buffer_new (nm, cap, NULL);
	if (!m.c) return "stress setup-failed";
	m.seen = calloc ((size_t) P * m.per, 1);
	pid_t pids[MAXP];
	for (int p = 0; p < P; ++p) {
		fflush (stdout);
		if ((pids[p] = fork ()) == 0) {
			PShmBuffer *h = p_shm_buffer_new (nm, p % 2 ? 0 : cap, NULL);      /* every other producer opens with size 0 */
			unsigned char *b = malloc (chunk);
			time_t t0 = time (NULL); unsigned seq = 0;
			while (h && seq < m.per && time (NULL) - t0 < 20) {
				b[0] = (unsigned char) p; memcpy (b + 1, &seq, 4);
				for (size_t i = 5; i < chunk; ++i) b[i] = frame_byte ((unsigned) p, seq, i);
				pssize r = p_shm_buffer_write (h, b, chunk, NULL);
				if (r < 0) _exit (3);
				if (r == (pssize) chunk) ++seq; else if (r != 0) _exit (4); else sched_yield ();
			}
			if (h) p_shm_buffer_free (h);
			_exit (seq == m.per ? 0 : 2);
		}
	}
	pthread_t th[8];
	for (int c = 0; c < C; ++c) pthread_create (&th[c], NULL, mp_consumer, &m);
	PShmBuffer *q = p_shm_buffer_new (nm, cap, NULL);
	time_t t0 = time (NULL); int left = P; int pbad = 0;
	while (time (NULL) - t0 < 25 && !atomic_load (&m.bad)) {
		unsigned long long n = 0; for (int p = 0; p < P; ++p) n += atomic_load (&m.got[p]);
		if (n >= (unsigned long long) m.per * (unsigned) P) break;
		if (q) {
			pssize u = p_shm_buffer_get_used_space (q, NULL), f = p_shm_buffer_get_free_space (q, NULL);
			if (u < 0 || f < 0 || (size_t) u % chunk || (size_t) f > cap || (size_t) u > cap) atomic_store (&m.bad, 6);
		}
		for (int p = 0; p < P; ++p) if (pids[p] > 0) {
			int st;
			if (waitpid (pids[p], &st, WNOHANG) == pids[p]) { pids[p] = 0; --left; if (!WIFEXITED (st) || WEXITSTATUS (st)) pbad = 1; }
		}
		if (pbad) break;
	}
	atomic_store (&m.stop, 1);
	for (int c = 0; c < C; ++c) pthread_join (th[c], NULL);
	for (int p = 0; p < P; ++p) if (pids[p] > 0) {
		int st;
		/* all frames may have arrived while the producer is still leaving: give it a moment before the kill */
		int done = 0;
		for (int k = 0; k < 200 && !(done = waitpid (pids[p], &st, WNOHANG) != 0); ++k) usleep (1000);
		if (!done) { kill (pids[p], SIGKILL); waitpid (pids[p], &st, 0); }
		pids[p] = 0;
	}
	(void) left;
	unsigned long long n = 0; for (int p = 0; p < P; ++p) n += atomic_load (&m.got[p]);
	int bad = atomic_load (&m.bad);
	if (bad) snprintf (res, sizeof res, "stress MIXED-FRAMES(%d)", bad);
	else if (pbad) snprintf (res, sizeof res, "stress producer-failed");
	else if (n != (unsigned long long) m.per * (unsigned) P) snprintf (res, sizeof res, "stress frames-lost-or-timeout");
	else snprintf (res, sizeof res, "stress ok");
	if (q) p_shm_buffer_free (q);
	p_shm_buffer_take_ownership (m.c); p_shm_buffer_free (m.c);
	free ((void *) m.seen);
	return res;
}

/* supporting run, clear against a reader: a large buffer is filled with position-unique NON-ZERO bytes; a consumer thread
 * (own handle) drains it in `chunk`-byte reads and checks that every byte it gets is the next byte of the stream; after
 * its 16th read the main thread clears the buffer through a third handle.  Clear being atomic with respect to reads, a
 * read returns bytes that were written (the stream, in order) or nothing — never bytes nobody wrote. */
struct clr { PShmBuffer *c; size_t chunk; unsigned long long total; atomic_int reads; atomic_int bad; atomic_int stop; };
static unsigned char nz_byte (unsigned long long pos) { return (unsigned char) (stream_byte (pos) | 1); }
static void *clr_consumer (void *arg) {
	struct clr *m = arg;
	unsigned char *b = malloc (m->chunk);
	unsigned long long got = 0;
	while (!atomic_load (&m->stop) && !atomic_load (&m->bad)) {
		pint r = p_shm_buffer_read (m->c, b, m->chunk, NULL);
		if (r < 0) { atomic_store (&m->bad, 1); break; }
		if (r == 0) { if (atomic_load (&m->reads) >= 16) break; sched_yield (); continue; }
		for (int i = 0; i < r; ++i) if (b[i] != nz_byte (got + (unsigned long long) i)) { atomic_store (&m->bad, b[i] == 0 ? 2 : 3); break; }
		got += (unsigned long long) r;
		atomic_fetch_add (&m->reads, 1);
	}
	free (b);
	return NULL;
}
static const char *stress_clear (size_t cap, size_t chunk, int rounds) {
	static char res[96];
	if (chunk < 1 || chunk > cap || rounds < 1) return "stress bad-arguments";
	for (int round = 0; round < rounds; ++round) {
		char nm[128]; snprintf (nm, sizeof nm, "pvsbx-%d-%llx-%d", (int) getpid (), run_tag (), gen++);
		PShmBuffer *w = p_shm_buffer_new (nm, cap, NULL);
		if (!w) return round ? "stress ok" : "stress setup-failed";      /* /dev/shm too small for this capacity: nothing to judge */
		struct clr m; memset (&m, 0, sizeof m);
		m.chunk = chunk; m.c = p_shm_buffer_new (nm, cap, NULL);
		PShmBuffer *k = p_shm_buffer_new (nm, 0, NULL);
		size_t blk = 1 << 20; unsigned char *b = malloc (blk);
		unsigned long long sent = 0; int wok = 1;
		while (sent < cap && wok) {
			size_t n = blk; if (n > cap - sent) n = (size_t) (cap - sent);
			for (size_t i = 0; i < n; ++i) b[i] = nz_byte (sent + i);
			if (p_shm_buffer_write (w, b, n, NULL) != (pssize) n) wok = 0;
			sent += n;
		}
		free (b);
		int bad = 0;
		if (wok && m.c && k) {
			pthread_t th; pthread_create (&th, NULL, clr_consumer, &m);
			time_t t0 = time (NULL);
			while (atomic_load (&m.reads) < 16 && !atomic_load (&m.bad) && time (NULL) - t0 < 10) sched_yield ();
			p_shm_buffer_clear (k);
			atomic_fetch_add (&m.reads, 16);
			t0 = time (NULL);
			while (time (NULL) - t0 < 1 && !atomic_load (&m.bad) && p_shm_buffer_get_used_space (k, NULL) > 0) sched_yield ();
			atomic_store (&m.stop, 1);
			pthread_join (th, NULL);
			bad = atomic_load (&m.bad);
		}
		if (k) p_shm_buffer_free (k);
		if (m.c) p_shm_buffer_free (m.c);
		p_shm_buffer_take_ownership (w); p_shm_buffer_free (w);
		if (bad) { snprintf (res, sizeof res, "stress CLEAR-VS-READ(%d: a read returned %s)", bad, bad == 2 ? "zero bytes that were never written" : bad == 3 ? "bytes out of order" : "an error"); return res; }
	}
	return "stress ok";
}

/* allocator with an injected failure: the k-th allocation attempt fails (once, or from k on) while oom_at > 0 */
static int oom_at, oom_from, oom_cnt;
static ppointer oom_malloc (psize n) { if (oom_at && (++oom_cnt == oom_at || (oom_from && oom_cnt > oom_at))) return NULL; return malloc (n); }
static ppointer oom_realloc (ppointer p, psize n) { if (oom_at && (++oom_cnt == oom_at || (oom_from && oom_cnt > oom_at))) return NULL; return realloc (p, n); }
static void oom_free (ppointer p) { free (p); }

int main (void) {
	static char line[1 << 20], op[16], arg[1 << 19];
	{ PMemVTable vt = { oom_malloc, oom_realloc, oom_free }; p_libsys_init_full (&vt); }
	newname ();
	while (fgets (line, sizeof line, stdin)) {
		unsigned long h = 0; arg[0] = 0;
		int n = sscanf (line, "%15s %lu %s", op, &h, arg);
		if (n < 1) continue;
		if (!strcmp (op, "failsem") && n == 3) { pend_wait = (int) (h > 9 ? 9 : h); pend_post = atoi (arg) != 0; puts ("ok"); fflush (stdout); continue; }
		fail_wait = pend_wait; fail_post = pend_post; pend_wait = pend_post = 0;
		if (!strcmp (op, "null") && n == 1) {
			/* every public call with a NULL buffer / name / storage: no effect, -1 / NULL */
			PError *e1 = NULL, *e2 = NULL;
			PShmBuffer *b = p_shm_buffer_new (NULL, 16, &e1);
			unsigned char one[1] = {0};
			pint r = p_shm_buffer_read (NULL, one, 1, &e2);
			pssize w = p_shm_buffer_write (NULL, one, 1, NULL);
			pssize fr = p_shm_buffer_get_free_space (NULL, NULL), us = p_shm_buffer_get_used_space (NULL, NULL);
			p_shm_buffer_clear (NULL); p_shm_buffer_take_ownership (NULL); p_shm_buffer_free (NULL);
			pint r2 = hs[0] ? p_shm_buffer_read (hs[0], NULL, 1, NULL) : -1;
			pssize w2 = hs[0] ? p_shm_buffer_write (hs[0], NULL, 1, NULL) : -1;
			printf ("%s %d/%d %d %d/%d %lld %lld %lld %d %lld\n", b ? "non-null" : "null", e1 ? p_error_get_code (e1) : 0, e1 ? p_error_get_native_code (e1) : -1,
				r, e2 ? p_error_get_code (e2) : 0, e2 ? p_error_get_native_code (e2) : -1, (long long) w, (long long) fr, (long long) us, r2, (long long) w2);
			if (e1) p_error_free (e1);
			if (e2) p_error_free (e2);
		} else
		if (!strcmp (op, "newoom") && n == 2 && spy) {
			/* further opens of the existing buffer that run out of memory at their k-th allocation, k = 1..24 (once and
			 * from k on): each attempt either fails cleanly or yields a handle that is closed again at once — the buffer,
			 * its name and the other handles must be exactly as before (a failed open is not an owner) */
			int ok = 1;
			/* the library reports failed allocations with printf: keep its chatter out of the protocol stream */
			fflush (stdout);
			int so = dup (1), dn = open ("/dev/null", O_WRONLY);
			dup2 (dn, 1);
			for (int mode = 0; mode < 2; ++mode)
				for (int k = 1; k <= 24; ++k) {
					oom_at = k; oom_from = mode; oom_cnt = 0;
					PShmBuffer *b = p_shm_buffer_new (name, (psize) h, NULL);     /* `newoom SIZE`: the number lands in h */
					oom_at = 0;
					if (b) p_shm_buffer_free (b);
				}
			fflush (stdout);
			dup2 (so, 1); close (so); close (dn);
			puts (ok ? "ok" : "fail");
		} else if (!strcmp (op, "new") && n == 3 && h < MAXH && !hs[h]) {
			hs[h] = p_shm_buffer_new (name, (psize) strtoull (arg, NULL, 10), NULL);
			owner[h] = hs[h] && !spy;       /* no segment before this call: this handle created it */
			if (hs[h] && !spy) spy = p_shm_new (name, 0, P_SHM_ACCESS_READWRITE, NULL);
			puts (hs[h] ? "ok" : "fail");
		} else if (!strcmp (op, "own") && n == 2 && h < MAXH && hs[h]) {
			p_shm_buffer_take_ownership (hs[h]); owner[h] = 1; puts ("ok");
		} else if (!strcmp (op, "close") && n == 2 && h < MAXH && hs[h] && (!owner[h] || nopen () == 1)) {
			if (owner[h] && spy) { p_shm_free (spy); spy = NULL; }      /* the name goes away with its last handle, an owner */
			p_shm_buffer_free (hs[h]); hs[h] = NULL; owner[h] = 0; puts ("ok");
		} else if (!strcmp (op, "abandon") && n == 2 && h < MAXH && hs[h] && ngrave < 64) {
			grave[ngrave++] = hs[h]; hs[h] = NULL; owner[h] = 0; puts ("ok");
		} else if (!strcmp (op, "wz") && n == 3 && h < MAXH && hs[h]) {
			size_t len = strtoull (arg, NULL, 10);
			unsigned char *b = len > BIG ? big_alloc (len) : calloc (len ? len : 1, 1);
			if (!b) puts ("harness-cannot-reserve");
			else {
				pssize r = p_shm_buffer_write (hs[h], b, len, NULL);
				printf ("%lld\n", (long long) r);
				if (len > BIG) munmap (b, len); else free (b);
			}
		} else if (!strcmp (op, "wx") && n == 3 && h < MAXH && hs[h]) {
			/* a length that can never fit (>= 2^32, up to 2^64-1, beyond what can be reserved): must be refused with 0
			 * before a single byte is read — the source is one byte long, ASan sees any access past it */
			size_t len = strtoull (arg, NULL, 10);
			if (len < 4294967296ULL) { puts ("bad-op"); }
			else {
				unsigned char *one = malloc (1); one[0] = 0;
				pssize r = p_shm_buffer_write (hs[h], one, len, NULL);
				printf ("%lld\n", (long long) r);
				free (one);
			}
		} else if (!strcmp (op, "w") && n == 3 && h < MAXH && hs[h]) {
			size_t len = (arg[0] == '-') ? 0 : strlen (arg) / 2;
			unsigned char *b = malloc (len ? len : 1);
			for (size_t i = 0; i < len; ++i) b[i] = (unsigned char) (hexv (arg[2 * i]) * 16 + hexv (arg[2 * i + 1]));
			pssize r = p_shm_buffer_write (hs[h], b, len, NULL);
			printf ("%lld\n", (long long) r);
			free (b);
		} else if (!strcmp (op, "r") && n == 3 && h < MAXH && hs[h]) {
			size_t len = strtoull (arg, NULL, 10);
			unsigned char *b = len > BIG ? big_alloc (len) : malloc (len ? len : 1);
			if (!b) puts ("harness-cannot-reserve");
			else {
				pint r = p_shm_buffer_read (hs[h], b, len, NULL);
				printf ("%d ", r);
				for (int i = 0; i < r; ++i) printf ("%02x", b[i]);
				printf ("\n");
				if (len > BIG) munmap (b, len); else free (b);
			}
		} else if (!strcmp (op, "clr") && n == 2 && h < MAXH && hs[h]) {
			int q = fail_wait || fail_post;
			if (q) quiet_on ();
			p_shm_buffer_clear (hs[h]);
			if (q) quiet_off ();
			puts ("ok");
		}
		else if (!strcmp (op, "used") && n == 2 && h < MAXH && hs[h]) printf ("%lld\n", (long long) p_shm_buffer_get_used_space (hs[h], NULL));
		else if (!strcmp (op, "free") && n == 2 && h < MAXH && hs[h]) printf ("%lld\n", (long long) p_shm_buffer_get_free_space (hs[h], NULL));
		else if (!strcmp (op, "stress") && n == 3) {
			/* stress CAP CHUNK:TOTAL[:PRODUCERS:CONSUMERS] */
			size_t chunk = strtoull (arg, NULL, 10); char *c2 = strchr (arg, ':');
			char *c3 = c2 ? strchr (c2 + 1, ':') : NULL, *c4 = c3 ? strchr (c3 + 1, ':') : NULL;
			unsigned long long total = c2 ? strtoull (c2 + 1, NULL, 10) : 1000000ULL;
			char *c5 = c4 ? strchr (c4 + 1, ':') : NULL;
			if (c5 && !strcmp (c5 + 1, "clr")) puts (stress_clear ((size_t) h, chunk, (int) total));      /* CAP CHUNK:ROUNDS:0:0:clr */
			else puts (c4 ? stress_mp ((size_t) h, chunk, total, atoi (c3 + 1), atoi (c4 + 1)) : stress ((size_t) h, chunk, total));
		}
		else if (!strcmp (op, "pos") && n == 1) {
			if (!spy) puts ("none");
			else { size_t rw[2]; memcpy (rw, p_shm_get_address (spy), sizeof rw); printf ("%zu %zu\n", rw[0], rw[1]); }
		} else if (!strcmp (op, "reset") && n == 1) { drop_all (); memset (owner, 0, sizeof owner); newname (); puts ("ok"); }
		else puts ("bad-op");
		fail_wait = fail_post = 0;
		if (tail_dirty ()) { puts ("OOB-WRITE-BEHIND-SEGMENT"); fflush (stdout); drop_all (); return 3; }
		fflush (stdout);
	}
	drop_all ();
	p_libsys_shutdown ();
	return 0;
}
